#!/usr/bin/env python3
"""
Seeded changes (written by independent sub-agents from the property text alone).

  tools/seeded.py import <Cxx> <dir with patch.diff, run.sh, demo, notes.md> <id>
        copies the change to /verif/seeded/<id>/ and CONFIRMS it in a scratch worktree of /repo
        (outside /repo and /verif): the demonstration passes without the patch, fails with it,
        and the project's own test suite still passes with it. Writes meta.json.
  tools/seeded.py run <id> [Cxx ...]
        applies the patch to /repo, runs the checks (default: the property it breaks), undoes it
        (git checkout -- .), records which checks report a violation in meta.json.
  tools/seeded.py report
        writes /verif/seeded/REPORT.md
"""
import sys, os, json, shutil, subprocess, time

ROOT = os.path.dirname(os.path.dirname(os.path.abspath(__file__)))
SEED = os.path.join(ROOT, "seeded")
REPO = "/repo"
GOENV = dict(os.environ, GOFLAGS="-mod=mod", GOPROXY="off", GOSUMDB="off", GOTOOLCHAIN="local")


def sh(cmd, cwd=None, env=None, timeout=1200):
    try:
        r = subprocess.run(cmd, cwd=cwd, env=env or GOENV, shell=isinstance(cmd, str), stdout=subprocess.PIPE,
                           stderr=subprocess.STDOUT, text=True, timeout=timeout, start_new_session=True)
    except subprocess.TimeoutExpired as e:
        # a check that does not finish is a failed check (and must not leave /repo patched)
        subprocess.run("pkill -f 'verif/.work' ; pkill -f hdrv ; pkill -f agent.test", shell=True)
        return 124, "tier=? TIMEOUT after %ds: %s" % (timeout, " ".join(cmd) if not isinstance(cmd, str) else cmd)
    return r.returncode, r.stdout


def load(i):
    p = os.path.join(SEED, i, "meta.json")
    return json.load(open(p)) if os.path.exists(p) else {}


def save(i, m):
    json.dump(m, open(os.path.join(SEED, i, "meta.json"), "w"), indent=1)


def cmd_import(prop, src, ident):
    dst = os.path.join(SEED, ident)
    if os.path.exists(dst):
        shutil.rmtree(dst)
    shutil.copytree(src, dst)
    wt = "/tmp/confirm-" + ident
    sh(["git", "-C", REPO, "worktree", "remove", "--force", wt])
    rc, out = sh(["git", "-C", REPO, "worktree", "add", "--detach", wt, "HEAD"])
    meta = dict(id=ident, property=prop, confirmed=False, imported_at=time.strftime("%Y-%m-%d %H:%M:%S"))
    try:
        shutil.copytree(dst, os.path.join(wt, "_seeded"))
        rc0, out0 = sh("sh _seeded/run.sh", cwd=wt)
        rca, outa = sh(["git", "apply", "_seeded/patch.diff"], cwd=wt)
        rc1, out1 = sh("sh _seeded/run.sh", cwd=wt)
        sh(["git", "clean", "-fdq", "-e", "_seeded"], cwd=wt)   # a failing demo may leave its copied test file behind
        rct, outt = sh("go build ./... && go test -vet=off -count=1 ./...", cwd=wt)
        rcs, outs = sh(["git", "status", "--short"], cwd=wt)
        meta.update(demo_without_patch_exit=rc0, patch_applies=(rca == 0), demo_with_patch_exit=rc1,
                    baseline_tests_pass_with_patch=(rct == 0),
                    files_touched=[l[3:] for l in outs.split("\n") if l.strip() and not l[3:].startswith("_seeded")],
                    ran=["sh _seeded/run.sh (clean worktree)", "git apply _seeded/patch.diff", "sh _seeded/run.sh",
                         "go build ./... && go test -vet=off -count=1 ./..."])
        meta["confirmed"] = rc0 == 0 and rca == 0 and rc1 != 0 and rct == 0
        if not meta["confirmed"]:
            meta["confirm_log"] = dict(without=out0[-1500:], apply=outa[-500:], with_=out1[-1500:], tests=outt[-1500:])
        notes = os.path.join(dst, "notes.md")
        if os.path.exists(notes):
            meta["needs_to_manifest"] = open(notes).read()[:3000]
    finally:
        sh(["git", "-C", REPO, "worktree", "remove", "--force", wt])
        shutil.rmtree(wt, ignore_errors=True)
    save(ident, meta)
    print(ident, "confirmed" if meta["confirmed"] else "NOT CONFIRMED", {k: meta.get(k) for k in
          ("demo_without_patch_exit", "demo_with_patch_exit", "baseline_tests_pass_with_patch", "files_touched")})


def cmd_run(ident, props):
    meta = load(ident)
    props = props or [meta["property"]]
    rc, out = sh(["git", "-C", REPO, "status", "--short"])
    if out.strip():
        print("refusing: /repo has uncommitted changes:\n" + out)
        return 2
    rc, out = sh(["git", "-C", REPO, "apply", os.path.join(SEED, ident, "patch.diff")])
    if rc != 0:
        print("patch does not apply to /repo:", out)
        return 2
    res = meta.setdefault("checks", {})
    try:
        for p in props:
            t0 = time.time()
            rc, out = sh([os.path.join(ROOT, "check"), p, "--tier", "quick"] + (["--seed", os.environ["SEEDED_SEED"]] if os.environ.get("SEEDED_SEED") else []), cwd=ROOT, env=dict(os.environ))
            lines = [l for l in out.split("\n") if l.startswith("VIOLATION") or "tier=" in l]
            res[p] = dict(exit=rc, violation=any(l.startswith("VIOLATION") for l in lines),
                          no_failing_input_found=any("no-failing-input-found" in l for l in lines),
                          summary=(lines[-1] if lines else out[-300:]), wall_s=round(time.time() - t0, 1))
            print(ident, p, "->", "CAUGHT" if rc != 0 else "missed", res[p]["summary"][:160])
    finally:
        sh(["git", "-C", REPO, "checkout", "--", "."])
        # evidence files were rewritten by runs on a patched tree: restore the committed ones
        sh(["git", "-C", ROOT, "checkout", "--", "evidence"])
        sh(["git", "-C", ROOT, "checkout", "--", "lean/Whawty/Gen/Facts.lean", "lean/Whawty/Gen/Scan.lean", "lean/Whawty/Gen/CheckFile.lean", "lean/Whawty/Gen/Codec.lean", "lean/Whawty/Gen/Argon.lean", "lean/Whawty/Gen/HashStr.lean", "lean/Whawty/Gen/PolicyCond.lean"])
    if os.environ.get("SEEDED_SEED"):
        return 0   # a robustness run at another seed: printed, not recorded
    meta["caught_by"] = sorted(p for p, r in res.items() if r["exit"] != 0)
    meta["quiet"] = sorted(p for p, r in res.items() if r["exit"] == 0)
    save(ident, meta)
    return 0


def cmd_report():
    rows = []
    for i in sorted(os.listdir(SEED)):
        if not os.path.isdir(os.path.join(SEED, i)):
            continue
        m = load(i)
        if not m:
            continue
        need = (m.get("needs_to_manifest", "").strip().split("\n") or [""])[0][:10]
        rows.append("| %s | %s | %s | %s | %s | %s |" % (i, m.get("property"), "yes" if m.get("confirmed") else "NO",
                    ", ".join(m.get("files_touched", [])), ", ".join(m.get("caught_by", [])) or "—",
                    ", ".join(m.get("quiet", [])) or "—"))
    txt = "# Seeded changes\n\n| id | breaks | confirmed | files | caught by (exit 1) | ran and stayed green |\n|---|---|---|---|---|---|\n" + "\n".join(rows) + "\n"
    open(os.path.join(SEED, "REPORT.md"), "w").write(txt)
    print(txt)


if __name__ == "__main__":
    a = sys.argv[1:]
    if a[:1] == ["import"]:
        cmd_import(a[1], a[2], a[3])
    elif a[:1] == ["run"]:
        sys.exit(cmd_run(a[1], a[2:]))
    elif a[:1] == ["report"]:
        cmd_report()
    else:
        print(__doc__)
