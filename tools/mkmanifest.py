#!/usr/bin/env python3
"""Regenerates MANIFEST.json from lib/suites.py (PROPS) so the two never drift."""
import json, os, sys
ROOT = os.path.dirname(os.path.dirname(os.path.abspath(__file__)))
sys.path.insert(0, os.path.join(ROOT, "lib"))
from suites import PROPS, NOT_APPLICABLE, HOOK_COMMITS

props = [json.loads(l) for l in open(os.path.join(ROOT, "properties.jsonl"))]
checks = []
for p in props:
    pid = p["id"]
    if pid not in PROPS:
        continue
    c = PROPS[pid]
    checks.append(dict(
        property_id=pid,
        quick_cmd="./check %s --tier quick" % pid,
        thorough_cmd="./check %s --tier thorough" % pid,
        evidence_file="/verif/evidence/%s.json" % pid,
        replay_cmd_template="./check %s --replay {path}" % pid,
        engine="lean4-model+correspondence",
        level_claimed=dict(
            category="proof",
            text=c["level_text"],
            design_ref="DESIGN.md section 5, " + pid),
        level_note="Trusted: Lean 4.33.0 kernel; axioms propext / Classical.choice / Quot.sound only (audited with "
                   "#print axioms on every run; no sorry, native_decide, bv_decide or own axioms); the hand-written "
                   "model is tied to /repo by the differential correspondence run of the same check (Go/C harness "
                   "rebuilt from the working tree)" +
                   ("; the user-name grammar, the file-name constants, the codec limit and the salt size are "
                    "additionally REGENERATED from the source on every run (translator harness/cmd/factgen -> "
                    "lean/Whawty/Gen/Facts.lean) and tied to the model by the theorems of Whawty/Props/Gen*.lean. "
                    if any(m.startswith("Whawty.Props.Gen") for m in c["modules"]) else ". ") + ("The split function of the codec (scanLengthEncodedString) is TRANSLATED statement by statement from the "
                    "source on every run (translate.go -> lean/Whawty/Gen/Scan.lean) and proved equal to the model's "
                    "scan (Props/GenScan.lean: scan_is_source). " if "Whawty.Props.GenScan" in c["modules"] else "") +
                   ("The directory-entry classification (checkUserFile) is TRANSLATED statement by statement from the "
                    "source on every run (lean/Whawty/Gen/CheckFile.lean) and proved equal to the model's "
                    "(Props/GenCheckFile.lean: checkUserFile_is_source). " if "Whawty.Props.GenCheckFile" in c["modules"] else "") +
                   ("The four codec methods (Request / Response Encode / Decode) are TRANSLATED statement by statement from "
                    "the source on every run (lean/Whawty/Gen/Codec.lean; the loops over the parts are parameters) and proved "
                    "equal to the model's (Props/GenCodecFn.lean: requestEncode_is_source, requestDecode_is_source, "
                    "responseEncode_is_source, responseDecode_is_source, source_*_model). " if "Whawty.Props.GenCodecFn" in c["modules"] else "") +
                   ("The argon2id constructor (NewArgon2IDHasher) is TRANSLATED statement by statement from the source on "
                    "every run (lean/Whawty/Gen/Argon.lean) and proved to accept exactly what the model's argonOk accepts "
                    "(Props/GenArgon.lean: newArgon2IDHasher_is_source). " if "Whawty.Props.GenArgon" in c["modules"] else "") +
                   ("The salt / digest decoding of both algorithms and their IsValid methods are TRANSLATED statement by "
                    "statement from the source on every run (lean/Whawty/Gen/HashStr.lean; strings.Split and the base64 "
                    "decoder are the prelude's / the model's) and proved equal to the model's decodeSaltHash / isValid "
                    "(Props/GenHashStr.lean: argonDecode_is_source, scryptDecode_is_source, *IsValid_is_source). "
                    if "Whawty.Props.GenHashStr" in c["modules"] else "") +
                   ("The policy condition parser (newZXCVBNPolicy) is TRANSLATED statement by statement from the source on "
                    "every run (lean/Whawty/Gen/PolicyCond.lean; strings.Fields and the number parser are the model's) and "
                    "proved to accept exactly what the model's parseCondition accepts, with the same kind and threshold "
                    "(Props/GenPolicyCond.lean: newZXCVBNPolicy_is_source). " if "Whawty.Props.GenPolicyCond" in c["modules"] else "") +
                   " ".join(c.get("trusted", [])) +
                   (" Decided by the run only (partial): " + "; ".join(c["partial"]) if c.get("partial") else ""),
        technique="Lean 4 theorems about a hand-written executable model + differential correspondence (model vs "
                  "real code on generated inputs) + theorem statements evaluated on the real code" +
                  (" + constants and grammar regenerated from the source by a translator on every run"
                   if any(m.startswith("Whawty.Props.Gen") for m in c["modules"]) else "") +
                  (" + the codec's split function translated from the source on every run and proved equal to the model's"
                   if "Whawty.Props.GenScan" in c["modules"] else "") +
                  (" + the four codec methods translated from the source on every run and proved equal to the model's"
                   if "Whawty.Props.GenCodecFn" in c["modules"] else "") +
                  (" + the argon2id constructor translated from the source on every run and proved equal to the model's"
                   if "Whawty.Props.GenArgon" in c["modules"] else "") +
                  (" + the salt / digest decoding and IsValid of both algorithms translated from the source on every run and proved equal to the model's"
                   if "Whawty.Props.GenHashStr" in c["modules"] else "") +
                  (" + the policy condition parser translated from the source on every run and proved equal to the model's"
                   if "Whawty.Props.GenPolicyCond" in c["modules"] else ""),
    ))
na = [dict(property_id=p["id"], reason=NOT_APPLICABLE.get(p["id"], "check not built yet in this commit (work in progress; see DESIGN.md section 10)"))
      for p in props if p["id"] not in PROPS]
m = dict(
    version=1,
    setup_cmd="cd /verif/lean && lake build Whawty driver 2>&1 | tail -3",
    hooks=dict(guard="verif", enable="go build -tags verif (no source hooks are needed: harnesses use the public API, "
               "go test -c -overlay for package main, and strace)",
               baseline_off_cmd="cd /repo && GOFLAGS=-mod=mod GOPROXY=off GOSUMDB=off GOTOOLCHAIN=local go test -vet=off -count=1 ./...",
               source_commits=HOOK_COMMITS, add_only=True),
    engines=[dict(name="lean4-model+correspondence", path="/verif/check",
                  serves_properties=[c["property_id"] for c in checks],
                  kind_free_text="Lean 4 model + theorems (lean/Whawty), compiled core-only driver (lean/Driver), Go/C "
                                 "correspondence harness (harness/) rebuilt from /repo on every run")],
    checks=checks,
    not_applicable=na,
    notes="See DESIGN.md. Known findings and fixed defects: known_findings.json.",
)
json.dump(m, open(os.path.join(ROOT, "MANIFEST.json"), "w"), indent=1)
print("checks:", len(checks), "not_applicable:", len(na))
