#!/usr/bin/env python3
"""
Behaviour-preserving changes (written by independent sub-agents acting as maintainers): the checks
should stay quiet on them. A check that reports `VIOLATION ... no-failing-input-found` on such a
change is within the rules (the correspondence broke, no failing input exists), but every such
case is looked at: it shows where a correspondence is tighter than the property needs.

  tools/benign.py run <dir with patch-k.diff files> <name-prefix> [Cxx ...]
      for every patch: apply to /repo, run the quick checks (default: all 20), undo; results are
      written to /verif/benign/<name-prefix>-k/{patch.diff,notes.md,result.json}
  tools/benign.py report
"""
import sys, os, json, shutil, subprocess, glob, time

ROOT = os.path.dirname(os.path.dirname(os.path.abspath(__file__)))
OUT = os.path.join(ROOT, "benign")
REPO = "/repo"
ALL = ["C%02d" % i for i in range(1, 21)]
GOENV = dict(os.environ, GOFLAGS="-mod=mod", GOPROXY="off", GOSUMDB="off", GOTOOLCHAIN="local")


def sh(cmd, cwd=None, env=None):
    r = subprocess.run(cmd, cwd=cwd, env=env or GOENV, shell=isinstance(cmd, str), stdout=subprocess.PIPE,
                       stderr=subprocess.STDOUT, text=True)
    return r.returncode, r.stdout


def cmd_run(src, prefix, props):
    props = props or ALL
    for pf in sorted(glob.glob(os.path.join(src, "patch-*.diff"))):
        k = os.path.basename(pf)[6:-5]
        ident = "%s-%s" % (prefix, k)
        dst = os.path.join(OUT, ident)
        os.makedirs(dst, exist_ok=True)
        shutil.copyfile(pf, os.path.join(dst, "patch.diff"))
        md = pf[:-5] + ".md"
        if os.path.exists(md):
            shutil.copyfile(md, os.path.join(dst, "notes.md"))
        rc, out = sh(["git", "-C", REPO, "status", "--short"])
        if out.strip():
            print("refusing: /repo has uncommitted changes:\n" + out)
            return 2
        rc, out = sh(["git", "-C", REPO, "apply", pf])
        res = dict(id=ident, applies=(rc == 0), checks={})
        if rc != 0:
            res["apply_error"] = out[-500:]
        else:
            try:
                rct, outt = sh("go build ./... && go test -vet=off -count=1 ./...", cwd=REPO)
                res["baseline_tests_pass"] = rct == 0
                for p in props:
                    t0 = time.time()
                    rc2, o = sh([os.path.join(ROOT, "check"), p, "--tier", "quick"], cwd=ROOT, env=dict(os.environ))
                    lines = [l for l in o.split("\n") if l.startswith("VIOLATION") or "tier=" in l]
                    res["checks"][p] = dict(exit=rc2, no_failing_input_found=any("no-failing-input-found" in l for l in lines),
                                            summary=(lines[-1] if lines else o[-200:]), wall_s=round(time.time() - t0, 1))
                    if rc2 != 0:
                        # keep the replay for inspection
                        for l in lines:
                            if l.startswith("VIOLATION") and "replay=" in l:
                                rp = l.split("replay=")[1].split()[0]
                                if os.path.exists(rp):
                                    shutil.copyfile(rp, os.path.join(dst, "replay-%s.json" % p))
                    print(ident, p, "ALARM" if rc2 else "quiet", res["checks"][p]["summary"][:150], flush=True)
            finally:
                sh(["git", "-C", REPO, "checkout", "--", "."])
                sh(["git", "-C", ROOT, "checkout", "--", "evidence"])
                sh(["git", "-C", ROOT, "checkout", "--", "lean/Whawty/Gen/Facts.lean", "lean/Whawty/Gen/Scan.lean", "lean/Whawty/Gen/CheckFile.lean", "lean/Whawty/Gen/Codec.lean", "lean/Whawty/Gen/Argon.lean", "lean/Whawty/Gen/HashStr.lean", "lean/Whawty/Gen/PolicyCond.lean"])
        res["alarms"] = sorted(p for p, r in res["checks"].items() if r["exit"] != 0)
        json.dump(res, open(os.path.join(dst, "result.json"), "w"), indent=1)
    return 0


def cmd_report():
    rows = []
    for d in sorted(glob.glob(os.path.join(OUT, "*", "result.json"))):
        r = json.load(open(d))
        first = ""
        n = os.path.join(os.path.dirname(d), "notes.md")
        if os.path.exists(n):
            first = open(n).read().strip().split("\n")[0][:110]
        rows.append("| %s | %s | %s | %s | %s |" % (r["id"], "yes" if r.get("applies") else "NO", "yes" if r.get("baseline_tests_pass") else "no",
                    ", ".join(r.get("alarms", [])) or "—", first.replace("|", "/")))
    txt = "# Behaviour-preserving changes\n\n| id | applies | tests pass | checks that raised an alarm | what |\n|---|---|---|---|---|\n" + "\n".join(rows) + "\n"
    open(os.path.join(OUT, "REPORT.md"), "w").write(txt)
    print(txt)


if __name__ == "__main__":
    a = sys.argv[1:]
    if a[:1] == ["run"]:
        sys.exit(cmd_run(a[1], a[2], a[3:]))
    elif a[:1] == ["report"]:
        cmd_report()
    else:
        print(__doc__)
