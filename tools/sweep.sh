#!/bin/sh
# Background sweep on a snapshot (vp run --with-repo -- sh tools/sweep.sh <tier> <seeds...>):
# builds the Lean side in the snapshot, points the harness at the snapshot of /repo and runs
# every check for each seed. Results are NOT evidence; they only look for flakes / false alarms.
tier=$1; shift
export VERIF_REPO=${VP_RUN_REPO:-/repo}
sed -i "s|=> /repo|=> $VERIF_REPO|" harness/go.mod
(cd lean && lake build Whawty driver 2>&1 | tail -1)
for seed in "$@"; do
  for p in C01 C02 C03 C04 C05 C06 C07 C08 C09 C10 C11 C12 C13 C14 C15 C16 C17 C18 C19 C20; do
    ./check $p --tier $tier --seed $seed 2>&1 | grep -v KNOWN-FINDING | tail -2
  done
done
echo SWEEP-DONE
