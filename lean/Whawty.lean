import Whawty.Model.Basic
import Whawty.Model.Sasl
