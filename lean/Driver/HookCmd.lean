import Whawty.Model.Hooks
import Whawty.Model.Config
import Driver.Proto
namespace Whawty.HookCmd
open Whawty Whawty.Proto Whawty.Hooks

def pInts (s : String) : Option (List Int) :=
  if s == "[]" then some [] else (((s.drop 1).dropEnd 1).toString.splitOn ",").mapM String.toInt?

/-- Simulates the run loop on notification times (ascending): the timer fires as soon as its
    deadline is reached, before a notification with a later time. Returns the run times. -/
def simulate (R : Int) : St → List Int → Nat → List Int
  | s, [], _ =>
    if s.armed then (match step R s (.fire s.deadline) with | some t => t.runs.reverse | none => s.runs.reverse)
    else s.runs.reverse
  | s, n :: ns, fuel + 1 =>
    if s.armed && s.deadline ≤ n then
      (match step R s (.fire s.deadline) with
       | some t => simulate R t (n :: ns) fuel
       | none => s.runs.reverse)
    else
      (match step R s (.notify n) with
       | some t => simulate R t ns fuel
       | none => s.runs.reverse)
  | s, _, 0 => s.runs.reverse

def predict (cmd : List String) : Option String :=
  match cmd with
  | ["hooks.log", R, eps, notifies, runs] => do
    pure (sBool (hookLogOk (← R.toInt?) (← eps.toInt?) (← pInts notifies) (← pInts runs)))
  | ["hooks.count", R, notifies] => do
    let ns ← pInts notifies
    pure (toString (simulate (← R.toInt?) init ns (2 * ns.length + 2)).length)
  | ["hooks.eligible", ww, name, reg, sym, perm] => do
    pure (sBool (eligible (← pBool ww) (← pBytes name) (← pBool reg) (← pBool sym) (← perm.toNat?)))
  | _ => none

end Whawty.HookCmd
