import Whawty.Model.Store
import Driver.Proto
namespace Whawty.StoreCmd
open Whawty Whawty.Proto Whawty.Store

/-- `[xname:xcontent,xname:D,...]` in readdir order. -/
def pSnap (s : String) : Option Dir :=
  if s == "[]" then some []
  else if s.startsWith "[" && s.endsWith "]" then
    (((s.drop 1).dropEnd 1).toString.splitOn ",").mapM fun e =>
      match e.splitOn ":" with
      | [n, c] => do
        let n ← pBytes n
        if c == "D" then pure (n, Node.dir) else pure (n, Node.file (← pBytes c))
      | _ => none
  else none

def lexLt : Bytes → Bytes → Bool
  | [], [] => false
  | [], _ :: _ => true
  | _ :: _, [] => false
  | a :: as, b :: bs => if a < b then true else if b < a then false else lexLt as bs

def insertSorted (e : Bytes × Node) : Dir → Dir
  | [] => [e]
  | x :: xs => if lexLt e.1 x.1 then e :: x :: xs else x :: insertSorted e xs

def sortDir (d : Dir) : Dir := d.foldl (fun acc e => insertSorted e acc) []

def sSnap (d : Dir) : String :=
  "[" ++ ",".intercalate ((sortDir d).map fun (n, x) =>
    sBytes n ++ ":" ++ (match x with | .dir => "D" | .file b => sBytes b)) ++ "]"

structure Oracle where
  entries : List (Nat × Bytes × Bytes × Bytes)    -- (param id, salt, password, digest)

def missing : Bytes := "<<MISSING-ORACLE>>".toUTF8.toList

/-- `[id:xsalt:xpw:xdigest,...]` -/
def pOracle (s : String) : Option Oracle :=
  if s == "[]" then some ⟨[]⟩
  else if s.startsWith "[" && s.endsWith "]" then
    ((((s.drop 1).dropEnd 1).toString.splitOn ",").mapM fun (e : String) =>
      match e.splitOn ":" with
      | [i, a, b, c] => do pure (← String.toNat? i, ← pBytes a, ← pBytes b, ← pBytes c)
      | _ => none).map Oracle.mk
  else none

def Oracle.digest (o : Oracle) (id : Nat) (salt pw : Bytes) : Bytes :=
  match o.entries.find? fun (i, s, p, _) => i = id ∧ s = salt ∧ p = pw with
  | some (_, _, _, d) => d
  | none => missing

/-- `<default>;<id>:<xformat>,...` -/
def pCfg (s : String) (o : Oracle) : Option Cfg :=
  match s.splitOn ";" with
  | [d, ps] => do
    let d ← d.toNat?
    let one : String → Option (Nat × ParamSet) := fun e =>
      match e.splitOn ":" with
      | [i, f] => do
        let i ← String.toNat? i
        let f ← pBytes f
        pure (i, ({ formatId := f, digest := o.digest i } : ParamSet))
      | _ => none
    let ps ← if ps == "" then pure [] else (ps.splitOn ",").mapM one
    pure { default := d, params := ps }
  | _ => none

def pInt (s : String) : Option Int := s.toInt?

def sUsers (l : List ListEntry) : String :=
  let sorted := (l.foldl (fun acc e => insertSorted (e.user, Node.file ((sBool e.isAdmin ++ ":" ++ toString e.lastChange).toUTF8.toList)) acc) ([] : Dir))
  "[" ++ ",".intercalate (sorted.map fun (n, x) =>
    sBytes n ++ ":" ++ (match x with | .file b => String.fromUTF8! ⟨b.toArray⟩ | .dir => "")) ++ "]"

def sFull (l : List FullEntry) : String :=
  let sorted := (l.foldl (fun acc e => insertSorted (e.user, Node.file
      (s!"{sBool e.isAdmin}:{e.lastChange}:{sBool e.valid}:{sBool e.supported}:{sBytes e.formatId}:{e.paramId}".toUTF8.toList)) acc) ([] : Dir))
  "[" ++ ",".intercalate (sorted.map fun (n, x) =>
    sBytes n ++ ":" ++ (match x with | .file b => String.fromUTF8! ⟨b.toArray⟩ | .dir => "")) ++ "]"

def sRes (r : Except Err Dir) (pre : Dir) : String :=
  match r with
  | .ok d => "ok " ++ sSnap d
  | .error _ => "err " ++ sSnap pre

def predict (cmd : List String) : Option String :=
  match cmd with
  | ["st.auth", cfg, snap, orc, u, pw] => do
    let o ← pOracle orc
    let c ← pCfg cfg o
    match authenticate c (← pSnap snap) (← pBytes u) (← pBytes pw) with
    | .ok a => pure s!"ok {sBool a.isAdmin} {sBool a.upgradeable} {a.lastChange}"
    | .error _ => pure "fail"
  | ["st.add", cfg, snap, orc, u, pw, adm, now, salt] => do
    let o ← pOracle orc
    let c ← pCfg cfg o
    let d ← pSnap snap
    pure (sRes (add c d (← pBytes u) (← pBytes pw) (← pBool adm) (← pInt now) (← pBytes salt)) d)
  | ["st.init", cfg, snap, orc, u, pw, now, salt] => do
    let o ← pOracle orc
    let c ← pCfg cfg o
    let d ← pSnap snap
    pure (sRes (init c d (← pBytes u) (← pBytes pw) (← pInt now) (← pBytes salt)) d)
  | ["st.update", cfg, snap, orc, u, pw, now, salt] => do
    let o ← pOracle orc
    let c ← pCfg cfg o
    let d ← pSnap snap
    pure (sRes (update c d (← pBytes u) (← pBytes pw) (← pInt now) (← pBytes salt)) d)
  | ["st.setadmin", snap, u, st] => do
    let d ← pSnap snap
    pure (sRes (setAdmin d (← pBytes u) (← pBool st)) d)
  | ["st.remove", snap, u] => do
    let d ← pSnap snap
    pure ("ok " ++ sSnap (remove d (← pBytes u)))
  | ["st.exists", snap, u] => do
    match exists_ (← pSnap snap) (← pBytes u) with
    | .ok (e, a) => pure s!"ok {sBool e} {sBool a}"
    | .error _ => pure "err"
  | ["st.list", cfg, snap] => do
    let c ← pCfg cfg ⟨[]⟩
    match list c (← pSnap snap) with
    | some l => pure ("ok " ++ sUsers l)
    | none => pure "err"
  | ["st.listfull", cfg, snap] => do
    let c ← pCfg cfg ⟨[]⟩
    match listFull c (← pSnap snap) with
    | some l => pure ("ok " ++ sFull l)
    | none => pure "err"
  | ["st.check", cfg, snap] => do
    let c ← pCfg cfg ⟨[]⟩
    pure (sBool (check c (← pSnap snap)))
  | _ => none

end Whawty.StoreCmd
