import Whawty.Model.Basic
import Whawty.Model.Sasl
import Driver.Proto
open Whawty Whawty.Proto

/-- Model prediction for one command; `none` = malformed command. -/
def predict (cmd : List String) : Option String :=
  match cmd with
  | ["sasl.reqenc", l, p, s, r] => do
    let req : Sasl.Request := ⟨← pBytes l, ← pBytes p, ← pBytes s, ← pBytes r⟩
    match req.encode with
    | some b => pure s!"ok {sBytes b}"
    | none => pure "err"
  | ["sasl.reqdec", cs] => do
    let cs ← pList cs
    match Sasl.Request.decodeChunked cs with
    | some (r, n) => pure s!"ok {sBytes r.login} {sBytes r.password} {sBytes r.service} {sBytes r.realm} {n}"
    | none => pure "err"
  | ["sasl.respenc", ok, m] => do
    let r : Sasl.Response := ⟨← pBool ok, ← pBytes m⟩
    match r.encode with
    | some b => pure s!"ok {sBytes b}"
    | none => pure "err"
  | ["sasl.respdec", cs] => do
    let cs ← pList cs
    match Sasl.Response.decodeChunked cs with
    | some r => pure s!"ok {sBool r.result} {sBytes r.message}"
    | none => pure "err"
  | ["pam.enc", u, p] => do
    pure s!"ok {sBytes (Sasl.pamEncode (← pBytes u) (← pBytes p))}"
  | _ => none

def handle (line : String) : String :=
  let toks := (line.splitOn " ").filter (· ≠ "")
  let (cmd, rest) := toks.span (· ≠ "=>")
  -- `law.<property>.<theorem> <input> => t|f`: the theorem's statement evaluated by the
  -- harness on the real implementation; `f` is a concrete counter-example.
  if (cmd.head?.getD "").startsWith "law." then
    (if rest == ["=>", "t"] then "A" else "V " ++ (cmd.head?.getD "")) else
  match predict cmd with
  | none => "E malformed: " ++ line
  | some m =>
    match rest with
    | [] => "M " ++ m
    | _ :: real =>
      if " ".intercalate real == m then "A" else "D " ++ m

partial def loop (h : IO.FS.Stream) (out : IO.FS.Stream) : IO Unit := do
  let line ← h.getLine
  if line.isEmpty then return ()
  let l := line.trimAscii.toString
  if !l.isEmpty then out.putStrLn (handle l)
  loop h out

def main : IO Unit := do
  let out ← IO.getStdout
  loop (← IO.getStdin) out
  out.flush
