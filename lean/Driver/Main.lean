import Whawty.Model.Basic
import Whawty.Model.Sasl
import Whawty.Model.SaslServer
import Whawty.Model.Pam
import Driver.Proto
import Driver.StoreCmd
import Driver.TraceCmd
import Driver.CfgCmd
import Driver.SessCmd
import Driver.ApiCmd
import Driver.AgentCmd
import Driver.LinCmd
import Driver.PolCmd
import Driver.HookCmd
open Whawty Whawty.Proto

def unknownMsg : Bytes := [117, 110, 107, 110, 111, 119, 110]   -- "unknown"

def srvBehaviour (cs : List Bytes) (reg : Bytes) (ok : Bool) (msg : Bytes) (err : Option Bytes) :
    SaslServer.Behaviour :=
  SaslServer.handle true cs
    (fun q => if q.login = reg then ⟨ok, msg, err⟩ else ⟨false, unknownMsg, none⟩) []

def sCalls (l : List Sasl.Request) : String :=
  "cb=" ++ sList (l.flatMap fun q => [q.login, q.password, q.service, q.realm])

def pOptBytes (s : String) : Option (Option Bytes) :=
  if s == "-" then some none else (pBytes s).map some

/-- Server script of the PAM harness -> what the client observes (module timeout 1 s). -/
def pamEvents (script : String) : List Pam.SrvEv :=
  ((script.splitOn ";").filterMap fun a =>
    if a.startsWith "W" then (ofHex (a.drop 1).toString).map Pam.SrvEv.data
    else if a.startsWith "S" then
      (if ((a.drop 1).toString.toNat?.getD 0) ≥ 1000 then some Pam.SrvEv.timeout else none)
    else if a == "C" || a == "X" then some Pam.SrvEv.eof
    else if a == "I" || a.startsWith "P" then some Pam.SrvEv.intr
    else none).filter (fun e => e ≠ Pam.SrvEv.data [])

/-- Model prediction for one command; `none` = malformed command. -/
def predict (cmd : List String) : Option String :=
  match cmd with
  | ["sasl.reqenc", l, p, s, r] => do
    let req : Sasl.Request := ⟨← pBytes l, ← pBytes p, ← pBytes s, ← pBytes r⟩
    match req.encode with
    | some b => pure s!"ok {sBytes b}"
    | none => pure "err"
  | ["sasl.reqdec", cs] => do
    let cs ← pList cs
    match Sasl.Request.decodeChunked cs with
    | some (r, n) => pure s!"ok {sBytes r.login} {sBytes r.password} {sBytes r.service} {sBytes r.realm} {n}"
    | none => pure "err"
  | ["sasl.respenc", ok, m] => do
    let r : Sasl.Response := ⟨← pBool ok, ← pBytes m⟩
    match r.encode with
    | some b => pure s!"ok {sBytes b}"
    | none => pure "err"
  | ["sasl.respdec", cs] => do
    let cs ← pList cs
    match Sasl.Response.decodeChunked cs with
    | some r => pure s!"ok {sBool r.result} {sBytes r.message}"
    | none => pure "err"
  | ["sasl.srv", cs, reg, ok, msg, err] => do
    let b := srvBehaviour (← pList cs) (← pBytes reg) (← pBool ok) (← pBytes msg) (← pOptBytes err)
    let dec := Sasl.Request.decodeChunked (← pList cs)
    let reply := match b.replies with
      | [r] => if dec.isNone then "NO*" else sBytes r
      | [] => "none"
      | _ => "many"
    pure s!"{sCalls b.cbCalls} {reply} {sBool b.closed}"
  | ["sasl.srv.abandoned", cs, reg, ok, msg, err] => do
    let b := srvBehaviour (← pList cs) (← pBytes reg) (← pBool ok) (← pBytes msg) (← pOptBytes err)
    pure (sCalls b.cbCalls)
  | ["pam.auth", u, p, opts, script] => do
    let os := opts.splitOn ","
    let pw ← pBytes p
    let inp : Pam.Input := {
      user := ← pBytes u,
      useFirstPass := os.contains "use_first_pass",
      tryFirstPass := os.contains "try_first_pass",
      stack := if os.contains "stackpw" then some pw else none,
      conv := if os.contains "nopw" then none
              else if os.contains "stackpw" then some "wrong-conversation-password".toUTF8.toList
              else some pw,
      connectOk := !(script.startsWith "N"),
      server := pamEvents script }
    let (rc, sent) := Pam.authenticate inp
    -- the bytes the server saw are only predicted when its script starts by reading them
    if script.startsWith "R" || sent.isEmpty then pure s!"{rc} {sBytes sent}" else pure s!"{rc} *"
  | ["pam.enc", u, p] => do
    pure s!"ok {sBytes (Sasl.pamEncode (← pBytes u) (← pBytes p))}"
  | _ => ((StoreCmd.predict cmd).orElse fun _ => TraceCmd.predict cmd).orElse fun _ => (CfgCmd.predict cmd).orElse fun _ => (SessCmd.predict cmd).orElse fun _ => (ApiCmd.predict cmd).orElse fun _ => (AgentCmd.predict cmd).orElse fun _ => (LinCmd.predict cmd).orElse fun _ => (PolCmd.predict cmd).orElse fun _ => HookCmd.predict cmd

def handle (line : String) : String :=
  let toks := (line.splitOn " ").filter (· ≠ "")
  let (cmd, rest) := toks.span (· ≠ "=>")
  -- `law.<property>.<theorem> <input> => t|f`: the theorem's statement evaluated by the
  -- harness on the real implementation; `f` is a concrete counter-example.
  if (cmd.head?.getD "").startsWith "law." then
    (if rest == ["=>", "t"] then "A" else "V " ++ (cmd.head?.getD "")) else
  match predict cmd with
  | none => "E malformed: " ++ line
  | some m =>
    match rest with
    | [] => "M " ++ m
    | _ :: real =>
      let r := " ".intercalate real
      let agree := if m.endsWith "*" then r.startsWith (m.dropEnd 1).toString else r == m
      if agree then "A" else if m.startsWith "V " || m.startsWith "D " then m else "D " ++ m

partial def loop (h : IO.FS.Stream) (out : IO.FS.Stream) : IO Unit := do
  let line ← h.getLine
  if line.isEmpty then return ()
  let l := line.trimAscii.toString
  if !l.isEmpty then out.putStrLn (handle l)
  loop h out

def main : IO Unit := do
  let out ← IO.getStdout
  loop (← IO.getStdin) out
  out.flush
