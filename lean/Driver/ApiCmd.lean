import Whawty.Model.WebApi
import Driver.Proto
import Driver.SessCmd
import Driver.StoreCmd
namespace Whawty.ApiCmd
open Whawty Whawty.Proto Whawty.WebApi

def pUsers (s : String) : Option (List User) :=
  if s == "[]" then some []
  else if s.startsWith "[" && s.endsWith "]" then
    (((s.drop 1).dropEnd 1).toString.splitOn ",").mapM fun (e : String) =>
      match e.splitOn ":" with
      | [n, a, p] => do pure ⟨← pBytes n, ← pBool a, ← pBytes p⟩
      | _ => none
  else none

def sUsers (us : List User) : String :=
  let sorted := us.foldl (fun acc u => StoreCmd.insertSorted (u.name, Store.Node.file ((sBool u.admin ++ ":" ++ sBytes u.password).toUTF8.toList)) acc) ([] : Store.Dir)
  "[" ++ ",".intercalate (sorted.map fun (n, x) =>
    sBytes n ++ ":" ++ (match x with | .file b => String.fromUTF8! ⟨b.toArray⟩ | .dir => "")) ++ "]"

def pEp (s : String) : Option Endpoint :=
  match s with
  | "authenticate" => some .authenticate | "add" => some .add | "remove" => some .remove
  | "update" => some .update | "set-admin" => some .setAdmin | "list" => some .list | "list-full" => some .listFull
  | _ => none

def predict (cmd : List String) : Option String :=
  match cmd with
  | ["api", ep, bodyOk, sess, user, pw, oldpw, newpw, admin, users, sealed, lt, now, nonce, cipher] => do
    let st : St := { users := ← pUsers users, factory := { sealed := ← SessCmd.pSealed sealed, lifetime := ← lt.toInt? } }
    let r : Req := { ep := ← pEp ep, bodyOk := ← pBool bodyOk, session := ← pBytes sess, username := ← pBytes user,
                     password := ← pBytes pw, oldpw := ← pBytes oldpw, newpw := ← pBytes newpw, admin := ← pBool admin }
    let (st', resp) := step st (← now.toInt?) (← pBytes nonce) (← pBytes cipher) r
    pure s!"{sBool resp.ok} {sBool resp.list} {sBool resp.token} {sUsers st'.users}"
  | ["front.sasl", users, l, p] => do
    pure (sBool (saslFront { users := ← pUsers users, factory := ⟨[], 0⟩ } (← pBytes l) (← pBytes p)))
  | ["front.basic", users, up] => do
    pure (sBool (basicFront { users := ← pUsers users, factory := ⟨[], 0⟩ } (← pBytes up)))
  | ["front.ldap", users, dn, p] => do
    pure (sBool (ldapFront { users := ← pUsers users, factory := ⟨[], 0⟩ } (← pBytes dn) (← pBytes p)))
  | ["front.store", users, l, p] => do
    pure (sBool (storeAuth { users := ← pUsers users, factory := ⟨[], 0⟩ } (← pBytes l) (← pBytes p)).isSome)
  | _ => none

end Whawty.ApiCmd
