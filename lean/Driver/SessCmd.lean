import Whawty.Model.Session
import Driver.Proto
namespace Whawty.SessCmd
open Whawty Whawty.Proto Whawty.Session

def pSealed (s : String) : Option (List Sealed) :=
  if s == "[]" then some []
  else if s.startsWith "[" && s.endsWith "]" then
    (((s.drop 1).dropEnd 1).toString.splitOn ",").mapM fun (e : String) =>
      match e.splitOn ":" with
      | [n, c, p] => do pure ⟨← pBytes n, ← pBytes c, ← pBytes p⟩
      | _ => none
  else none

def predict (cmd : List String) : Option String :=
  match cmd with
  | ["sess.check", lt, now, issued, text] => do
    let f : Factory := { sealed := ← pSealed issued, lifetime := ← lt.toInt? }
    match checkText f (← now.toInt?) (← pBytes text) with
    | some (u, a) => pure s!"ok {sBytes u} {sBool a}"
    | none => pure "rej"
  | _ => none

end Whawty.SessCmd
