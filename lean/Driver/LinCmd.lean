import Whawty.Model.Lin
import Driver.Proto
import Driver.ApiCmd
namespace Whawty.LinCmd
open Whawty Whawty.Proto Whawty.Lin

def pRet (s : String) : Option Ret :=
  if s == "F" then some .fail else if s == "K" then some .ok
  else if s == "At" then some (.authOk true) else if s == "Af" then some (.authOk false)
  else if s.startsWith "U" then
    let body := (s.drop 1).toString
    if body == "" then some (.users []) else
    ((body.splitOn ";").mapM fun (e : String) =>
      match e.splitOn "=" with
      | [n, a] => do pure (← pBytes n, ← pBool a)
      | _ => none).map Ret.users
  else none

def pOp (s : String) : Option Op :=
  match s.splitOn ":" with
  | ["auth", u, p, r, i, e] => do pure ⟨.auth (← pBytes u) (← pBytes p), ← pRet r, ← i.toNat?, ← e.toNat?⟩
  | ["update", u, p, r, i, e] => do pure ⟨.update (← pBytes u) (← pBytes p), ← pRet r, ← i.toNat?, ← e.toNat?⟩
  | ["add", u, p, a, r, i, e] => do pure ⟨.add (← pBytes u) (← pBytes p) (← pBool a), ← pRet r, ← i.toNat?, ← e.toNat?⟩
  | ["remove", u, r, i, e] => do pure ⟨.remove (← pBytes u), ← pRet r, ← i.toNat?, ← e.toNat?⟩
  | ["setadmin", u, a, r, i, e] => do pure ⟨.setAdmin (← pBytes u) (← pBool a), ← pRet r, ← i.toNat?, ← e.toNat?⟩
  | ["list", r, i, e] => do pure ⟨.list, ← pRet r, ← i.toNat?, ← e.toNat?⟩
  | _ => none

def predict (cmd : List String) : Option String :=
  match cmd with
  | ["lin.checkf", users, ops, post] => do
    -- the observed final store content takes part in the search (linCheckFinal)
    let s0 ← ApiCmd.pUsers users
    let h ← if ops == "-" then pure [] else (ops.splitOn ",").mapM pOp
    match linCheckFinal h s0 (fun s => ApiCmd.sUsers s == post) with
    | some (_, s) => pure ("ok " ++ ApiCmd.sUsers s)
    | none =>
      -- rejected by the (untrusted, memoised) search: confirm with the exhaustive one, whose
      -- rejection is conclusive (C11.rejection_is_conclusive); histories too long for that stay `D`
      if h.length ≤ 10 && notLinearizable h s0 (fun s => ApiCmd.sUsers s == post) then
        pure "V C11.no_linearization_reaches_the_observed_idle_state"
      else match linCheck h s0 with
      | some (_, s) => pure ("linearizable-but-not-to-the-observed-final-state e.g. " ++ ApiCmd.sUsers s)
      | none => pure "not-linearizable"
  | ["lin.check", users, ops] => do
    let s0 ← ApiCmd.pUsers users
    let h ← if ops == "-" then pure [] else (ops.splitOn ",").mapM pOp
    match linCheck h s0 with
    | some (_, s) => pure ("ok " ++ ApiCmd.sUsers s)
    | none => pure "not-linearizable"
  | ["lin.replay", users, ops] => do     -- the execution order is known: ops are given in that order
    let s0 ← ApiCmd.pUsers users
    let h ← if ops == "-" then pure [] else (ops.splitOn ",").mapM pOp
    match validLin h s0 (List.range h.length) with
    | some s => pure ("ok " ++ ApiCmd.sUsers s)
    | none => pure "not-a-linearization"
  | _ => none

end Whawty.LinCmd
