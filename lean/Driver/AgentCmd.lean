import Whawty.Model.Agent
import Driver.Proto
namespace Whawty.AgentCmd
open Whawty Whawty.Proto Whawty.Agent

def pMode (s : String) : Option Mode :=
  match s with
  | "off" => some .off | "localBlocking" => some .localBlocking
  | "localNonBlocking" => some .localNonBlocking | "remote" => some .remote | _ => none

def pLabel (s : String) : Option Label :=
  match s.splitOn ":" with
  | ["enqAuth", c, u] => do pure (.enqAuth (← c.toNat?) (← pBool u))
  | ["enqUpdate", c, n] => do pure (.enqUpdate (← c.toNat?) (← pBool n))
  | ["enqOther", c, n] => do pure (.enqOther (← c.toNat?) (← pBool n))
  | ["selAuth"] => some .selAuth | ["selUpdate"] => some .selUpdate | ["selOther"] => some .selOther
  | ["upgradeSend"] => some .upgradeSend | ["remoteDrain"] => some .remoteDrain
  | ["notifySend"] => some .notifySend | ["hookConsume"] => some .hookConsume | ["respond"] => some .respond
  | _ => none

/-- Runs the labels; on the first label that is not enabled returns its index. -/
def runIdx (c : Cfg) : St → List Label → Nat → Except Nat St
  | s, [], _ => .ok s
  | s, l :: ls, i => match next c s l with
    | some t => runIdx c t ls (i + 1)
    | none => .error i

def predict (cmd : List String) : Option String :=
  match cmd with
  | ["agent.sched", mode, ca, cu, co, cr, cn, labels] => do
    let c : Cfg := { mode := ← pMode mode, capAuth := ← ca.toNat?, capUpdate := ← cu.toNat?, capOther := ← co.toNat?,
                     capRemote := ← cr.toNat?, capNotify := ← cn.toNat? }
    let ls ← (labels.splitOn ",").mapM pLabel
    match runIdx c init ls 0 with
    | .error i => pure s!"impossible-at-label-{i}"
    | .ok s =>
      let ex := s.executed.map fun r => match r.client with | some cl => toString cl | none => "-"
      pure s!"ok {s.answered.length} {",".intercalate ex}"
  | _ => none

end Whawty.AgentCmd
