/-
  Line protocol helpers. One case per line:
      <kind> <arg> ... => <real observation tokens>
  byte strings are `x<hex>` (empty = `x`), lists of byte strings `[x..,x..]` (empty = `[]`),
  numbers decimal, booleans `t` / `f`.
  The driver answers one line per input line:
      A                agree (model prediction = real observation)
      D <model obs>    correspondence disagreement
      V <why>          the real observation falsifies the property predicate
      E <why>          malformed line
-/
import Whawty.Model.Basic
namespace Whawty.Proto
open Whawty

def pBytes (s : String) : Option Bytes :=
  if s.startsWith "x" then ofHex (s.drop 1).toString else none

def pList (s : String) : Option (List Bytes) :=
  if s == "[]" then some []
  else if s.startsWith "[" && s.endsWith "]" then
    let inner := ((s.drop 1).dropEnd 1).toString
    (inner.splitOn ",").mapM pBytes
  else none

def pBool (s : String) : Option Bool :=
  if s == "t" then some true else if s == "f" then some false else none

def sBytes (b : Bytes) : String := "x" ++ toHex b
def sBool (b : Bool) : String := if b then "t" else "f"
def sList (l : List Bytes) : String := "[" ++ ",".intercalate (l.map sBytes) ++ "]"

end Whawty.Proto
