import Whawty.Model.Config
import Whawty.Model.Reload
import Whawty.Model.Cli
import Driver.Proto
namespace Whawty.CfgCmd
open Whawty Whawty.Proto Whawty.Config

def pOptInt (s : String) : Option (Option Int) := if s == "-" then some none else s.toInt?.map some

-- set token: id/S:keylen:cost:r:p  or  id/A:time:memory:threads:length  or  id/none  or both algorithms
def pSet (s : String) : Option SetCfg :=
  match s.splitOn "/" with
  | id :: algs => do
    let id ← id.toNat?
    let mut sc : Option ScryptCfg := none
    let mut ar : Option ArgonCfg := none
    for a in algs do
      match a.splitOn ":" with
      | ["S", k, c, r, p] =>
        sc := some { hmackeyLen := if k == "x" then none else k.toNat?, cost := ← c.toNat?, r := ← pOptInt r, p := ← pOptInt p }
      | ["A", t, m, th, l] => ar := some { time := ← t.toNat?, memory := ← m.toNat?, threads := ← th.toNat?, length := ← l.toNat? }
      | ["none"] => pure ()
      | _ => none
    pure { id := id, scrypt := sc, argon := ar }
  | _ => none

def predict (cmd : List String) : Option String :=
  match cmd with
  | ["cfg.scrypt", cost, r, p] => do
    let (n, r', p') := scryptEffective { hmackeyLen := some 32, cost := ← cost.toNat?, r := ← pOptInt r, p := ← pOptInt p }
    pure s!"{n} {r'} {p'} hmac"
  | ["cfg.argon", t, m, th, l] => do
    let (a, b, c, d) := argonEffective { time := ← t.toNat?, memory := ← m.toNat?, threads := ← th.toNat?, length := ← l.toNat? }
    pure s!"{a} {b} {c} {d} id"
  | ["cfg.load", basedirEmpty, dflt, sets] => do
    let ss ← if sets == "[]" then pure [] else (sets.splitOn ",").mapM pSet
    pure (sBool (fromConfig { basedirEmpty := ← pBool basedirEmpty, default := ← dflt.toNat?, params := ss }))
  | ["cli.gate", cmd, loads, valid, empty, doCheck] => do
    let c : Cli.Cmd ← match cmd with
      | "init" => some .init | "check" => some .check | "add" => some .add | "remove" => some .remove
      | "update" => some .update | "set-admin" => some .setAdmin | "list" => some .list
      | "authenticate" => some .authenticate | "run" => some .run | "runsa" => some .runsa | _ => none
    let e : Cli.Env := ⟨← pBool loads, ← pBool valid, ← pBool empty, ← pBool doCheck⟩
    pure (match Cli.gate e c with | .exit3 => "exit3" | .proceeds => "proceeds" | .exit0 => "exit0")
  | ["rl.step", curBase, curDef, newBase, newDef, loadable, dirOk] => do
    -- one SIGHUP: which configuration is live afterwards (base directory and default id)
    let cur : Reload.Live := ⟨← pBytes curBase, ← curDef.toNat?, []⟩
    let nw : Reload.Live := ⟨← pBytes newBase, ← newDef.toNat?, []⟩
    let lo ← pBool loadable
    let dk ← pBool dirOk
    let r := if lo then Reload.Loaded.ok nw dk else Reload.Loaded.bad
    let l := Reload.reload cur r
    pure s!"{sBytes l.base} {l.default}"
  | _ => none

end Whawty.CfgCmd
