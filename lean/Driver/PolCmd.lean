import Whawty.Model.Policy
import Whawty.Model.Utf8
import Driver.Proto
namespace Whawty.PolCmd
open Whawty Whawty.Proto Whawty.Policy

def sKind : Kind → String | .score => "score" | .entropy => "entropy" | .time => "time"

def predict (cmd : List String) : Option String :=
  match cmd with
  | ["pol.new", ty, cond] => do
    match newPolicy (← pBytes ty) (← pBytes cond) with
    | none => pure "err"
    | some .none => pure "ok none"
    | some (.zxcvbn c) => pure s!"ok {sKind c.kind} {c.threshold}"
  | ["pol.write", ty, cond, score, ent, tm, storeOk] => do
    match newPolicy (← pBytes ty) (← pBytes cond) with
    | none => pure "err"
    | some p =>
      let z : Estimate := ⟨← score.toNat?, ← ent.toNat?, ← tm.toNat?⟩
      let (r, _) := guardedWrite p z () (if (← pBool storeOk) then some () else none)
      pure (if r.isSome then "stored" else "refused")
  -- Go's own string functions against the model (strings.Fields, utf8.DecodeRuneInString, unicode.IsSpace)
  | ["go.fields", sx] => do pure (sList (fields (← pBytes sx)))
  | ["go.decoderune", sx] => do
    let (r, w) := Utf8.decodeRune (← pBytes sx)
    pure s!"{r} {w}"
  | ["go.isspace", r] => do pure (sBool (Utf8.isSpaceRune (← r.toNat?)))
  | _ => none

end Whawty.PolCmd
