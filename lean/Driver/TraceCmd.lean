import Whawty.Model.Trace
import Whawty.Model.Path
import Whawty.Model.Store
import Driver.Proto
namespace Whawty.TraceCmd
open Whawty Whawty.Proto Whawty.Persist

def pName (s : String) : Option Name :=
  if s == "U" then some .U else if s == "A" then some .A else if s == "B" then some .B
  else if s == "W" then some .W
  else if s.startsWith "t" then (s.drop 1).toString.toNat?.map Name.tmp
  else if s.startsWith "s:" then (pBytes (s.drop 2).toString).map Name.sib
  else if s.startsWith "o:" then (pBytes (s.drop 2).toString).map Name.other
  else none

def pEv (s : String) : Option Ev :=
  match s.splitOn ":" with
  | ["ack"] => some .ack
  | "creat" :: fd :: n => do pure (.creat (← fd.toNat?) (← pName (":".intercalate n)))
  | "open" :: fd :: n => do pure (.open (← fd.toNat?) (← pName (":".intercalate n)))
  | ["openw", fd, n, t] => do pure (.openw (← fd.toNat?) (← pName n) (← pBool t))
  | "mkdir" :: n => do pure (.mkdir (← pName (":".intercalate n)))
  | ["write", fd, d] => do pure (.write (← fd.toNat?) (← pBytes d))
  | ["fsync", fd] => do pure (.fsync (← fd.toNat?))
  | ["read", fd, n] => do pure (.read (← fd.toNat?) (← n.toNat?))
  | ["copy", a, b, n] => do pure (.copy (← a.toNat?) (← b.toNat?) (← n.toNat?))
  | ["close", fd] => do pure (.close (← fd.toNat?))
  | "stat" :: n => do pure (.stat (← pName (":".intercalate n)))
  | "openfail" :: n => do pure (.openfail (← pName (":".intercalate n)))
  | "unlink" :: n => do pure (.unlink (← pName (":".intercalate n)))
  | ["othermut", _] => some .othermut
  | "rename" :: rest =>
    -- two names; only o:/s: names contain a colon, and they are hex after the colon
    match rest with
    | [a, b] => do pure (.rename (← pName a) (← pName b))
    | [a, b, c] =>
      if a == "o" || a == "s" then do pure (.rename (← pName (a ++ ":" ++ b)) (← pName c))
      else do pure (.rename (← pName a) (← pName (b ++ ":" ++ c)))
    | [a, b, c, d] => do pure (.rename (← pName (a ++ ":" ++ b)) (← pName (c ++ ":" ++ d)))
    | _ => none
  | _ => none

def pEvs (s : String) : Option (List Ev) :=
  if s == "-" then some [] else (s.splitOn ";").mapM pEv

def pOpt (s : String) : Option (Option Bytes) := if s == "-" then some none else (pBytes s).map some

end Whawty.TraceCmd

namespace Whawty.TraceCmd
open Whawty Whawty.Proto Whawty.Persist

structure TrIn where
  op : String
  valid : Bool
  admin : Bool
  preU : Option Bytes
  preA : Option Bytes
  postU : Option Bytes
  postA : Option Bytes
  ok : Bool
  evs : List Ev

def pNode (s : String) : Option (Option Bytes) :=
  if s == "-" then some none else (pBytes s).map some

def pTr (args : List String) : Option TrIn :=
  match args with
  | [op, valid, admin, preU, preA, postU, postA, res, evs] => do
    pure { op := op, valid := valid == "v", admin := ← pBool admin, preU := ← pNode preU, preA := ← pNode preA,
           postU := ← pNode postU, postA := ← pNode postA, ok := res == "ok", evs := ← pEvs evs }
  | _ => none

def TrIn.s0 (t : TrIn) : St :=
  init ((match t.preU with | some b => [(Name.U, b)] | none => []) ++
        (match t.preA with | some b => [(Name.A, b)] | none => []))

def viewOf : Option Bytes → View
  | none => .absent
  | some b => .clean b

def TrIn.pre (t : TrIn) (n : Name) : Option Bytes := if n == .A then t.preA else t.preU
def TrIn.post (t : TrIn) (n : Name) : Option Bytes := if n == .A then t.postA else t.postU
def otherName (n : Name) : Name := if n == .A then .U else .A

/-- The name a write operation installs its record under; none = the operation has no target
    (add of an existing user, update of a missing one). -/
def TrIn.target (t : TrIn) : Option Name :=
  if t.op == "update" then
    (if t.preA.isSome then some .A else if t.preU.isSome then some .U else none)
  else -- add / init
    (if t.preA.isSome || t.preU.isSome then none else some (if t.admin || t.op == "init" then .A else .U))

def c08 (t : TrIn) : String :=
  let s0 := t.s0
  let fixedOk (n : Name) := crashAtomic s0 t.evs n (fun v => v == viewOf (t.pre n))
  match t.target with
  | none => if fixedOk .U && fixedOk .A then "ok" else "V C08.untargeted_operation_changed_a_crash_view"
  | some n =>
    let new := if t.ok then t.post n else none
    let allowed (v : View) : Bool :=
      v == viewOf (t.pre n) || (match new with | some b => v == .clean b | none => false) ||
      (t.op != "update" && (v == .absent || v == .clean []))
    if !crashAtomic s0 t.evs n allowed then "V C08.crashAtomic_target"
    else if !fixedOk (otherName n) then "V C08.crashAtomic_other_name"
    else if t.ok && t.post n == none then "V C08.acknowledged_write_left_no_file"
    else "ok"

def c09 (t : TrIn) : String :=
  if !t.ok then "ok" else
  let s0 := t.s0
  let dur (n : Name) (want : Option Bytes) := durableAtAck s0 t.evs n (viewOf want)
  if t.op == "remove" then
    (if dur .U none && dur .A none then "ok" else "V C09.remove_not_durable_at_ack")
  else if t.op == "setadmin" then
    let to := if t.admin then Name.A else Name.U
    let from_ := otherName to
    if (t.pre to).isSome then
      (if dur to (t.pre to) && dur from_ (t.pre from_) then "ok" else "V C09.setadmin_noop_changed_something")
    else
      (if dur to (t.pre from_) && dur from_ none then "ok" else "V C09.setadmin_not_durable_at_ack")
  else
    match t.target with
    | none => "ok"
    | some n =>
      if dur n (t.post n) && (t.post n).isSome && dur (otherName n) (t.pre (otherName n)) then "ok"
      else "V C09.write_not_durable_at_ack"

def c03 (t : TrIn) : String :=
  if t.valid then (if confined t.evs then "ok" else "V C03.valid_name_not_confined")
  else (if untouchedStore t.evs then "ok" else "V C03.invalid_name_touched_the_store")

def c15ro (t : TrIn) : String :=
  if t.evs.all (fun e => !isMutation e) then "ok" else "V C15.readonly_call_mutated"

open Whawty.Trace in
/-- The mutation skeleton the model of the operation predicts (R_C08 / R_C09). -/
def expectedSkeleton (t : TrIn) : List Sk :=
  let dropMkdir := fun (l : List Sk) => l.filter (· ≠ .mkdir .W)
  if !t.ok then [] else
  if t.op == "remove" then
    (if t.preA.isSome then [Sk.unlink .A] else []) ++ (if t.preU.isSome then [Sk.unlink .U] else []) ++ [.fsyncDir .B]
  else if t.op == "setadmin" then
    let to := if t.admin then Name.A else Name.U
    if (t.pre to).isSome then [] else skeleton (setAdminTrace (otherName to) to true)
  else match t.target with
    | none => []
    | some n =>
      if t.op == "update" then skeleton (updTrace n [1] [1] [1]) else dropMkdir (skeleton (addTrace n [1]))

open Whawty.Trace in
/-- A FAILED operation may have worked inside the work area (temporary file created, written,
    synced, removed again — e.g. when the rename cannot cross file systems) and, for add / init,
    may have reserved its target and removed the reservation again; nothing else. -/
def failedSkeletonOk (t : TrIn) (real : List Sk) : Bool :=
  let core := real.filter fun k =>
    match k with
    | .creat (.tmp _) => false | .unlink (.tmp _) => false | .data => false | .fsyncFile => false
    | .mkdir .W => false | _ => true
  core == [] ||
    (t.op != "update" && t.op != "setadmin" && t.op != "remove" &&
      (match t.target with | some n => core == [.creat n, .unlink n] | none => false))

open Whawty.Trace in
def skeletonCheck (t : TrIn) : String :=
  let real := (skeleton t.evs).filter (· ≠ .mkdir .W)
  if !t.ok then
    (if failedSkeletonOk t real then "ok" else s!"D skeleton of a failed operation real={repr real}")
  else if real == expectedSkeleton t then "ok" else s!"D skeleton real={repr real} model={repr (expectedSkeleton t)}"

def predict (cmd : List String) : Option String :=
  match cmd with
  | "tr.c08" :: args => (pTr args).map fun t => let r := c08 t; if r == "ok" then skeletonCheck t else r
  | "tr.c09" :: args => (pTr args).map fun t => let r := c09 t; if r == "ok" then skeletonCheck t else r
  | "tr.c09f" :: args => (pTr args).map c09      -- faulted run that reported success: durability only (no skeleton)
  | "tr.c03" :: args => (pTr args).map c03
  | "tr.c15ro" :: args => (pTr args).map c15ro
  | ["tr.kill", _op, preU, preA, evs] => do
    -- what another process sees after the traced process was killed: killView of the state
    -- reached by the events that completed
    let t : TrIn := { op := "", valid := true, admin := false, preU := ← pNode preU, preA := ← pNode preA,
                      postU := none, postA := none, ok := false, evs := ← pEvs evs }
    let s := run t.s0 t.evs
    let show_ (v : View) : String := match v with | .absent => "-" | .clean b => sBytes b | .torn => "torn"
    pure s!"kv {show_ (killView s .U)} {show_ (killView s .A)}"
  | ["path.file", base, user, adm] => do
    let ext := if ← pBool adm then Store.adminExt else Store.userExt
    pure (sBytes (Path.getFilename (← pBytes base) (← pBytes user) ext))
  | ["path.join", a, b] => do pure (sBytes (Path.join2 (← pBytes a) (← pBytes b)))
  | ["path.clean", a] => do pure (sBytes (Path.clean (← pBytes a)))
  | _ => none

end Whawty.TraceCmd
