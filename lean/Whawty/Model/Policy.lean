/-
  Model of cmd/whawty-auth/policy.go: the condition parser of the zxcvbn policy, the policy
  decision (the zxcvbn estimate itself is a parameter), and the policy gate in front of the
  store's write operations (cmd/whawty-auth/store.go: init / add / update).
-/
import Whawty.Model.Record
namespace Whawty.Policy
open Whawty

inductive Kind | score | entropy | time deriving Repr, DecidableEq

structure Cond where
  kind : Kind
  threshold : Nat
  deriving Repr, DecidableEq

/-- ASCII white space (`strings.Fields`' fast path, the same set as `unicode.IsSpace` below 0x80). -/
def isSpace (c : Byte) : Bool := c = 32 || c = 9 || c = 10 || c = 11 || c = 12 || c = 13

/-- `strings.Fields` on an arbitrary Go string: the number of bytes of the white-space rune
    (`unicode.IsSpace`) that starts the byte string, 0 if it does not start with one. Beyond
    ASCII these are U+0085, U+00A0 (C2 85, C2 A0), U+1680 (E1 9A 80), U+2000..U+200A,
    U+2028, U+2029, U+202F (E2 80 80..8A / A8 / A9 / AF), U+205F (E2 81 9F) and U+3000
    (E3 80 80). Their first bytes are UTF-8 lead bytes: Go's decoder, which consumes one byte
    for anything invalid and otherwise a lead byte followed by continuation bytes only, is
    always at a rune boundary when it meets one, so scanning bytes is scanning runes. -/
def spaceLen : Bytes → Nat
  | 0xC2 :: 0x85 :: _ => 2
  | 0xC2 :: 0xA0 :: _ => 2
  | 0xE1 :: 0x9A :: 0x80 :: _ => 3
  | 0xE2 :: 0x80 :: c :: _ => if (0x80 ≤ c ∧ c ≤ 0x8A) ∨ c = 0xA8 ∨ c = 0xA9 ∨ c = 0xAF then 3 else 0
  | 0xE2 :: 0x81 :: 0x9F :: _ => 3
  | 0xE3 :: 0x80 :: 0x80 :: _ => 3
  | c :: _ => if isSpace c then 1 else 0
  | [] => 0

theorem spaceLen_le (s : Bytes) : spaceLen s ≤ s.length := by
  unfold spaceLen
  split <;> simp <;> (try split) <;> omega

/-- `strings.Fields` (fuel = the length of the input; every step consumes at least a byte). -/
def fieldsAux : Nat → Bytes → Bytes → List Bytes
  | 0, _, cur => if cur.isEmpty then [] else [cur.reverse]
  | _ + 1, [], cur => if cur.isEmpty then [] else [cur.reverse]
  | n + 1, c :: rest, cur =>
    let k := spaceLen (c :: rest)
    if k = 0 then fieldsAux n rest (c :: cur)
    else if cur.isEmpty then fieldsAux n ((c :: rest).drop k) []
    else cur.reverse :: fieldsAux n ((c :: rest).drop k) []

def fields (s : Bytes) : List Bytes := fieldsAux s.length s []

def geB : Bytes := [62, 61]                                   -- ">="
def scoreB : Bytes := [115, 99, 111, 114, 101]                -- "score"
def entropyB : Bytes := [101, 110, 116, 114, 111, 112, 121]   -- "entropy"
def timeB : Bytes := [116, 105, 109, 101]                     -- "time"

/-- `newZXCVBNPolicy`: exactly three fields, the second `>=`, the third a decimal uint64, the
    first one of score (threshold at most 4) / entropy / time. -/
def parseCondition (s : Bytes) : Option Cond :=
  match fields s with
  | [k, op, t] =>
    if op ≠ geB then none
    else match Rec.parseUint64 t with
      | none => none
      | some thr =>
        if k = scoreB then (if thr > 4 then none else some ⟨.score, thr⟩)
        else if k = entropyB then some ⟨.entropy, thr⟩
        else if k = timeB then some ⟨.time, thr⟩
        else none
  | _ => none

inductive PolicyCfg
  | none                      -- --policy-type ""
  | zxcvbn (c : Cond)
  deriving Repr, DecidableEq

def zxcvbnB : Bytes := [122, 120, 99, 118, 98, 110]

/-- `NewPasswordPolicy`: none = the agent refuses to start. -/
def newPolicy (policyType condition : Bytes) : Option PolicyCfg :=
  if policyType = [] then some .none
  else if policyType = zxcvbnB then (parseCondition condition).map .zxcvbn
  else none

/-- The zxcvbn estimate of a (password, user name) pair, as far as the policy looks at it:
    the score and the integer parts of entropy and crack time. -/
structure Estimate where
  score : Nat
  entropyFloor : Nat
  timeFloor : Nat
  deriving Repr, DecidableEq

/-- `PolicyChecker.Check`. -/
def policyOk (p : PolicyCfg) (z : Estimate) : Bool :=
  match p with
  | .none => true
  | .zxcvbn ⟨.score, thr⟩ => z.score ≥ thr
  | .zxcvbn ⟨.entropy, thr⟩ => z.entropyFloor ≥ thr
  | .zxcvbn ⟨.time, thr⟩ => z.timeFloor ≥ thr

/-- The gate in `store.init/add/update`: the store operation runs only if the policy accepts
    the password; `storeOp` = what the store would do (none = the store refuses). -/
def guardedWrite {σ : Type} (p : PolicyCfg) (z : Estimate) (st : σ) (storeOp : Option σ) : Option σ × σ :=
  if !policyOk p z then (none, st)
  else match storeOp with
    | some st' => (some st', st')
    | none => (none, st)

end Whawty.Policy
