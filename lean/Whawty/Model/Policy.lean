/-
  Model of cmd/whawty-auth/policy.go: the condition parser of the zxcvbn policy, the policy
  decision (the zxcvbn estimate itself is a parameter), and the policy gate in front of the
  store's write operations (cmd/whawty-auth/store.go: init / add / update).
-/
import Whawty.Model.Record
namespace Whawty.Policy
open Whawty

inductive Kind | score | entropy | time deriving Repr, DecidableEq

structure Cond where
  kind : Kind
  threshold : Nat
  deriving Repr, DecidableEq

/-- ASCII white space as `strings.Fields` sees it (the generators use ASCII only). -/
def isSpace (c : Byte) : Bool := c = 32 || c = 9 || c = 10 || c = 11 || c = 12 || c = 13

/-- `strings.Fields`. -/
def fieldsAux : Bytes → Bytes → List Bytes
  | [], cur => if cur.isEmpty then [] else [cur.reverse]
  | c :: rest, cur =>
    if isSpace c then (if cur.isEmpty then fieldsAux rest [] else cur.reverse :: fieldsAux rest [])
    else fieldsAux rest (c :: cur)

def fields (s : Bytes) : List Bytes := fieldsAux s []

def geB : Bytes := [62, 61]                                   -- ">="
def scoreB : Bytes := [115, 99, 111, 114, 101]                -- "score"
def entropyB : Bytes := [101, 110, 116, 114, 111, 112, 121]   -- "entropy"
def timeB : Bytes := [116, 105, 109, 101]                     -- "time"

/-- `newZXCVBNPolicy`: exactly three fields, the second `>=`, the third a decimal uint64, the
    first one of score (threshold at most 4) / entropy / time. -/
def parseCondition (s : Bytes) : Option Cond :=
  match fields s with
  | [k, op, t] =>
    if op ≠ geB then none
    else match Rec.parseUint64 t with
      | none => none
      | some thr =>
        if k = scoreB then (if thr > 4 then none else some ⟨.score, thr⟩)
        else if k = entropyB then some ⟨.entropy, thr⟩
        else if k = timeB then some ⟨.time, thr⟩
        else none
  | _ => none

inductive PolicyCfg
  | none                      -- --policy-type ""
  | zxcvbn (c : Cond)
  deriving Repr, DecidableEq

def zxcvbnB : Bytes := [122, 120, 99, 118, 98, 110]

/-- `NewPasswordPolicy`: none = the agent refuses to start. -/
def newPolicy (policyType condition : Bytes) : Option PolicyCfg :=
  if policyType = [] then some .none
  else if policyType = zxcvbnB then (parseCondition condition).map .zxcvbn
  else none

/-- The zxcvbn estimate of a (password, user name) pair, as far as the policy looks at it:
    the score and the integer parts of entropy and crack time. -/
structure Estimate where
  score : Nat
  entropyFloor : Nat
  timeFloor : Nat
  deriving Repr, DecidableEq

/-- `PolicyChecker.Check`. -/
def policyOk (p : PolicyCfg) (z : Estimate) : Bool :=
  match p with
  | .none => true
  | .zxcvbn ⟨.score, thr⟩ => z.score ≥ thr
  | .zxcvbn ⟨.entropy, thr⟩ => z.entropyFloor ≥ thr
  | .zxcvbn ⟨.time, thr⟩ => z.timeFloor ≥ thr

/-- The gate in `store.init/add/update`: the store operation runs only if the policy accepts
    the password; `storeOp` = what the store would do (none = the store refuses). -/
def guardedWrite {σ : Type} (p : PolicyCfg) (z : Estimate) (st : σ) (storeOp : Option σ) : Option σ × σ :=
  if !policyOk p z then (none, st)
  else match storeOp with
    | some st' => (some st', st')
    | none => (none, st)

end Whawty.Policy
