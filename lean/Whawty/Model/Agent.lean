/-
  The agent's request processing (cmd/whawty-auth/store.go: dispatchRequests, the Store
  wrappers, remoteHTTPUpgrader; hooks.go: the Notify channel) as a labelled transition system.
  One executable successor function `next` is the single source of truth. Control flow only:
  what a request does to the store is C01/C11's subject.
-/
import Whawty.Model.Basic
namespace Whawty.Agent

inductive Mode
  | off                 -- --do-upgrades ""
  | localBlocking       -- pinned code: blocking send into the dispatcher's own update queue
  | localNonBlocking    -- repaired code: select/default
  | remote              -- upgrade channel drained by remoteHTTPUpgrader (never blocks)
  deriving Repr, DecidableEq

structure Cfg where
  mode : Mode
  capAuth : Nat
  capUpdate : Nat
  capOther : Nat
  capRemote : Nat
  capNotify : Nat
  deriving Repr, DecidableEq

inductive Kind
  | auth (upgradeable : Bool)   -- authenticate; `true` = the login succeeds with an upgradeable hash
  | update                      -- update (also the internal upgrade request)
  | other                       -- init / check / add / remove / set-admin / list / list-full
  deriving Repr, DecidableEq

structure Req where
  kind : Kind
  client : Option Nat           -- who waits for the response; none = internal upgrade request
  notifies : Bool               -- the operation succeeds and notifies the hooks runner
  deriving Repr, DecidableEq

inductive PC
  | select
  | sendUpgrade (r : Req)
  | sendNotify (r : Req)
  | respond (r : Req)
  deriving Repr, DecidableEq

structure St where
  qAuth : List Req
  qUpdate : List Req
  qOther : List Req
  qRemote : Nat
  qNotify : Nat
  pc : PC
  waiting : List Nat            -- clients blocked on their private response channel
  answered : List Nat           -- ghost: clients answered so far, most recent first
  executed : List Req           -- ghost: requests in the order the dispatcher executed them
  deriving Repr, DecidableEq

def init : St :=
  { qAuth := [], qUpdate := [], qOther := [], qRemote := 0, qNotify := 0, pc := .select,
    waiting := [], answered := [], executed := [] }

inductive Label
  | enqAuth (c : Nat) (upgradeable : Bool)
  | enqUpdate (c : Nat) (notifies : Bool)
  | enqOther (c : Nat) (notifies : Bool)
  | selAuth | selUpdate | selOther
  | upgradeSend | remoteDrain | notifySend | hookConsume | respond
  deriving Repr, DecidableEq

def respondOrSelect (r : Req) : PC :=
  match r.client with
  | some _ => .respond r
  | none => .select

/-- Where the dispatcher goes after executing the store call of `r`. -/
def afterExec (c : Cfg) (r : Req) : PC :=
  match r.kind with
  | .auth true => if c.mode = .off then respondOrSelect r else .sendUpgrade r
  | .auth false => respondOrSelect r
  | _ => if r.notifies then .sendNotify r else respondOrSelect r

def upgradeReq : Req := ⟨.update, none, true⟩

def next (c : Cfg) (s : St) : Label → Option St
  | .enqAuth cl up =>
    if s.waiting.contains cl || s.qAuth.length ≥ c.capAuth then none
    else some { s with qAuth := s.qAuth ++ [⟨.auth up, some cl, false⟩], waiting := cl :: s.waiting }
  | .enqUpdate cl n =>
    if s.waiting.contains cl || s.qUpdate.length ≥ c.capUpdate then none
    else some { s with qUpdate := s.qUpdate ++ [⟨.update, some cl, n⟩], waiting := cl :: s.waiting }
  | .enqOther cl n =>
    if s.waiting.contains cl || s.qOther.length ≥ c.capOther then none
    else some { s with qOther := s.qOther ++ [⟨.other, some cl, n⟩], waiting := cl :: s.waiting }
  | .selAuth =>
    match s.pc, s.qAuth with
    | .select, r :: rest => some { s with qAuth := rest, pc := afterExec c r, executed := s.executed ++ [r] }
    | _, _ => none
  | .selUpdate =>
    match s.pc, s.qUpdate with
    | .select, r :: rest => some { s with qUpdate := rest, pc := afterExec c r, executed := s.executed ++ [r] }
    | _, _ => none
  | .selOther =>
    match s.pc, s.qOther with
    | .select, r :: rest => some { s with qOther := rest, pc := afterExec c r, executed := s.executed ++ [r] }
    | _, _ => none
  | .upgradeSend =>
    match s.pc with
    | .sendUpgrade r =>
      (match c.mode with
       | .off => none
       | .localBlocking =>
         if s.qUpdate.length < c.capUpdate then
           some { s with qUpdate := s.qUpdate ++ [upgradeReq], pc := respondOrSelect r }
         else none                                       -- blocked: the only consumer is the dispatcher itself
       | .localNonBlocking =>
         if s.qUpdate.length < c.capUpdate then
           some { s with qUpdate := s.qUpdate ++ [upgradeReq], pc := respondOrSelect r }
         else some { s with pc := respondOrSelect r }    -- dropped
       | .remote =>
         if s.qRemote < c.capRemote then some { s with qRemote := s.qRemote + 1, pc := respondOrSelect r }
         else some { s with pc := respondOrSelect r })
    | _ => none
  | .remoteDrain => if s.qRemote > 0 then some { s with qRemote := s.qRemote - 1 } else none
  | .notifySend =>
    match s.pc with
    | .sendNotify r => if s.qNotify < c.capNotify then some { s with qNotify := s.qNotify + 1, pc := respondOrSelect r } else none
    | _ => none
  | .hookConsume => if s.qNotify > 0 then some { s with qNotify := s.qNotify - 1 } else none
  | .respond =>
    match s.pc with
    | .respond r =>
      (match r.client with
       | some cl => some { s with pc := .select, waiting := s.waiting.filter (· ≠ cl), answered := cl :: s.answered }
       | none => none)
    | _ => none

def run (c : Cfg) (s : St) : List Label → Option St
  | [] => some s
  | l :: ls => (next c s l).bind fun t => run c t ls

/-- Reachability. -/
inductive Reach (c : Cfg) : St → Prop
  | init : Reach c init
  | step {s t : St} (l : Label) : Reach c s → next c s l = some t → Reach c t

end Whawty.Agent
