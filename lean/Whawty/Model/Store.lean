/-
  Model of store/store.go and store/userhash.go at the level of the flat base directory
  (layer L1 of DESIGN.md 4.5): a directory is a finite map from entry names to nodes.
  Hashers are parameters (format id + an uninterpreted digest function); salts and the
  clock are oracle arguments observed from the real run.
-/
import Whawty.Model.Record
namespace Whawty.Store
open Whawty Whawty.Rec

/-! ### Names -/

def isAlnum (c : Byte) : Bool :=
  (48 ≤ c.toNat && c.toNat ≤ 57) || (65 ≤ c.toNat && c.toNat ≤ 90) || (97 ≤ c.toNat && c.toNat ≤ 122)

def isNameChar (c : Byte) : Bool := isAlnum c || c = 45 || c = 95 || c = 46 || c = 64   -- - _ . @

/-- `^[A-Za-z0-9][-_.@A-Za-z0-9]*$` (Go: `$` is end of text). -/
def validName : Bytes → Bool
  | [] => false
  | c :: rest => isAlnum c && rest.all isNameChar

def adminExt : Bytes := [46, 97, 100, 109, 105, 110]   -- ".admin"
def userExt : Bytes := [46, 117, 115, 101, 114]        -- ".user"
def tmpName : Bytes := [46, 116, 109, 112]             -- ".tmp"
def nameMax : Nat := 255

/-! ### Directory -/

inductive Node
  | file (content : Bytes)
  | dir                           -- a sub-directory (only ever empty in the model)
  deriving Repr, DecidableEq

abbrev Dir := List (Bytes × Node)

def get (d : Dir) (n : Bytes) : Option Node := (d.find? (·.1 = n)).map (·.2)
def del (d : Dir) (n : Bytes) : Dir := d.filter (·.1 ≠ n)
def put (d : Dir) (n : Bytes) (x : Node) : Dir := (n, x) :: del d n
def has (d : Dir) (n : Bytes) : Bool := (get d n).isSome

/-! ### Configuration -/

structure ParamSet where
  formatId : Bytes
  digest : Bytes → Bytes → Bytes        -- salt → password → digest

structure Cfg where
  default : Nat
  params : List (Nat × ParamSet)

def Cfg.lookup (c : Cfg) (id : Nat) : Option ParamSet := (c.params.find? (·.1 = id)).map (·.2)

inductive Err
  | invalidName | exists_ | noent | unsupported | noDefault | io | notEmpty | wrongPassword
  deriving Repr, DecidableEq

/-! ### Reading -/

/-- `UserHash.Exists`: `.admin` is probed first; a name too long for the file system is an
    error of the probe. -/
def exists_ (d : Dir) (u : Bytes) : Except Err (Bool × Bool) :=
  if !validName u then .error .invalidName
  else if u.length + adminExt.length > nameMax then .error .io
  else if has d (u ++ adminExt) then .ok (true, true)
  else .ok (has d (u ++ userExt), false)

/-- `isFormatSupportedFull` on a node: (supported, formatId, lastChange, paramId). The three
    values keep what was read even when a later step fails, as in the code. -/
def supportedFull (c : Cfg) (x : Node) : Bool × Bytes × Int × Nat :=
  match x with
  | .dir => (false, [], 0, 0)
  | .file b =>
    match readHead b with
    | none => (false, [], 0, 0)
    | some h =>
      match c.lookup h.paramId with
      | none => (false, h.formatId, h.lastChange, h.paramId)
      | some ps =>
        if ps.formatId ≠ h.formatId then (false, h.formatId, h.lastChange, h.paramId)
        else (isValid h.hashStr, h.formatId, h.lastChange, h.paramId)

def supported (c : Cfg) (x : Node) : Bool := (supportedFull c x).1

structure AuthOk where
  isAdmin : Bool
  upgradeable : Bool
  lastChange : Int
  deriving Repr, DecidableEq

/-- `Hasher.Check` with the digest function of the set. -/
def checkDigest (ps : ParamSet) (pw hashStr : Bytes) : Bool :=
  match decodeSaltHash hashStr with
  | some (salt, hash) => ps.digest salt pw = hash
  | none => false

/-- The file name of `u` for a given admin flag. -/
def fileName (u : Bytes) (isAdmin : Bool) : Bytes := u ++ if isAdmin then adminExt else userExt

/-- What `Authenticate` does with the bytes of the hash file: (upgradeable, lastChange). -/
def authFile (c : Cfg) (b pw : Bytes) : Except Err (Bool × Int) :=
  match readHead b with
  | none => .error .unsupported
  | some h =>
    match c.lookup h.paramId with
    | none => .error .unsupported
    | some ps =>
      if ps.formatId ≠ h.formatId then .error .unsupported
      else if checkDigest ps pw h.hashStr then .ok (c.default ≠ h.paramId, h.lastChange)
      else .error .wrongPassword

/-- `UserHash.Authenticate`: success with the record's data, or failure. -/
def authenticate (c : Cfg) (d : Dir) (u pw : Bytes) : Except Err AuthOk :=
  match exists_ d u with
  | .error e => .error e
  | .ok (false, _) => .error .noent
  | .ok (true, isAdmin) =>
    match get d (fileName u isAdmin) with
    | some (.file b) =>
      match authFile c b pw with
      | .ok (up, ts) => .ok ⟨isAdmin, up, ts⟩
      | .error e => .error e
    | _ => .error .io

/-! ### Writing -/

/-- The file content `writeHashStr` installs: the new first line followed by everything
    after the first line of the old content. -/
def newContent (ps : ParamSet) (paramId : Nat) (now : Int) (salt pw old : Bytes) : Bytes :=
  formatLine ps.formatId now paramId (hashStrOf salt (ps.digest salt pw)) ++ afterFirstLine old

/-- `.tmp` is created by `MkdirAll` if missing; if it exists as a file the write fails. -/
def ensureTmp (d : Dir) : Except Err Dir :=
  match get d tmpName with
  | none => .ok (d ++ [(tmpName, .dir)])
  | some .dir => .ok d
  | some (.file _) => .error .io

/-- `UserHash.Add` (through `Dir.AddUser`). -/
def add (c : Cfg) (d : Dir) (u pw : Bytes) (isAdmin : Bool) (now : Int) (salt : Bytes) : Except Err Dir :=
  match exists_ d u with
  | .error e => .error e
  | .ok (true, _) => .error .exists_
  | .ok (false, _) =>
    match c.lookup c.default with
    | none => .error .noDefault
    | some ps =>
      match ensureTmp d with
      | .error e => .error e
      | .ok d' => .ok (put d' (fileName u isAdmin) (.file (newContent ps c.default now salt pw [])))

/-- `UserHash.Update`. -/
def update (c : Cfg) (d : Dir) (u pw : Bytes) (now : Int) (salt : Bytes) : Except Err Dir :=
  match exists_ d u with
  | .error e => .error e
  | .ok (false, _) => .error .noent
  | .ok (true, isAdmin) =>
    let fn := fileName u isAdmin
    match get d fn with
    | some (.file old) =>
      if !supported c (.file old) then .error .unsupported
      else match c.lookup c.default with
        | none => .error .noDefault
        | some ps =>
          match ensureTmp d with
          | .error e => .error e
          | .ok d' => .ok (put d' fn (.file (newContent ps c.default now salt pw old)))
    | _ => .error .unsupported

/-- `UserHash.SetAdmin`: a rename (which replaces an existing file of the other name). -/
def setAdmin (d : Dir) (u : Bytes) (state : Bool) : Except Err Dir :=
  match exists_ d u with
  | .error e => .error e
  | .ok (false, _) => .error .noent
  | .ok (true, isAdmin) =>
    if isAdmin = state then .ok d
    else
      let old := fileName u isAdmin
      let new := fileName u state
      match get d old, get d new with
      | some (.file b), some .dir => .error .io        -- rename file over directory
      | some .dir, some (.file _) => .error .io        -- rename directory over file
      | some x, _ => .ok (put (del d old) new x)
      | none, _ => .error .io

/-- `UserHash.Remove`. -/
def remove (d : Dir) (u : Bytes) : Dir :=
  if !validName u then d else del (del d (u ++ adminExt)) (u ++ userExt)

/-! ### Listing and checking -/

/-- `filepath.Ext`: the suffix starting at the last dot ("" if none). -/
def extOf (n : Bytes) : Bytes :=
  let r := n.reverse
  if r.dropWhile (· ≠ 46) = [] then [] else 46 :: (r.takeWhile (· ≠ 46)).reverse

/-- `checkUserFile`: none = invalid extension (an error), else (validName, user, isAdmin). -/
def checkUserFile (n : Bytes) : Option (Bool × Bytes × Bool) :=
  let e := extOf n
  if e = adminExt then
    let u := n.take (n.length - adminExt.length); some (validName u, u, true)
  else if e = userExt then
    let u := n.take (n.length - userExt.length); some (validName u, u, false)
  else none

structure ListEntry where
  user : Bytes
  isAdmin : Bool
  lastChange : Int
  deriving Repr, DecidableEq

/-- One iteration of the loop in `Dir.List`. none = an error was returned. -/
def listStep (c : Cfg) (acc : Option (List ListEntry)) (e : Bytes × Node) : Option (List ListEntry) :=
  match acc with
  | none => none
  | some l =>
    if e.1 = tmpName then some l
    else match checkUserFile e.1 with
      | none => none
      | some (valid, u, adm) =>
        if !valid then some l
        else
          let r := supportedFull c e.2
          if !r.1 then some l else some (l.filter (·.user ≠ u) ++ [⟨u, adm, r.2.2.1⟩])

/-- `Dir.List` over the entries in the order `readdir` returned them (later entries of the
    same user overwrite earlier ones, as in a Go map). none = error. -/
def list (c : Cfg) (d : Dir) : Option (List ListEntry) := d.foldl (listStep c) (some [])

structure FullEntry where
  user : Bytes
  isAdmin : Bool
  lastChange : Int
  valid : Bool
  supported : Bool
  formatId : Bytes
  paramId : Nat
  deriving Repr, DecidableEq

/-- `Dir.ListFull`. -/
def listFull (c : Cfg) (d : Dir) : Option (List FullEntry) :=
  d.foldl (fun acc (n, x) =>
    match acc with
    | none => none
    | some l =>
      if n = tmpName then some l
      else match checkUserFile n with
        | none => none
        | some (valid, u, adm) =>
          let (ok, f, ts, pid) := supportedFull c x
          some (l.filter (·.user ≠ u) ++ [⟨u, adm, ts, valid, ok, f, pid⟩])) (some [])

/-- `Dir.Check` over the entries in `readdir` order: true = the directory is accepted. -/
def check (c : Cfg) (d : Dir) : Bool :=
  let step := fun (acc : Option Bool) (e : Bytes × Node) =>
    match acc with
    | none => none                                    -- an error was returned
    | some found =>
      let (n, x) := e
      if n = tmpName then some found
      else match checkUserFile n with
        | none => none
        | some (valid, u, adm) =>
          if !valid then some found                   -- ignored (repaired code: `continue`)
          else if adm then
            if has d (u ++ userExt) then none
            else some (found || supported c x)
          else
            if has d (u ++ adminExt) then none else some found
  match d.foldl step (some false) with
  | some true => true
  | _ => false

/-- `isDirEmpty` (looks at the first two entries `ReadDir(2)` returns). -/
def isDirEmpty (d : Dir) : Bool :=
  match d with
  | [] => true
  | [(n, .dir)] => n = tmpName
  | _ => false

/-- `Dir.Init`. -/
def init (c : Cfg) (d : Dir) (u pw : Bytes) (now : Int) (salt : Bytes) : Except Err Dir :=
  if !isDirEmpty d then .error .notEmpty else add c d u pw true now salt

end Whawty.Store
