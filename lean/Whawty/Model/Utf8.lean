/-
  Model of Go's UTF-8 decoding as `for … range s` / `utf8.DecodeRuneInString` perform it, of
  `unicode.IsSpace`, and of `strings.FieldsFunc(s, unicode.IsSpace)` — the rune-level definition
  of `strings.Fields`. `Props/C17.lean` proves that the byte-level scan of Model/Policy.lean
  (`Policy.fields`) computes exactly this.
-/
import Whawty.Model.Policy
namespace Whawty.Utf8
open Whawty

/-- `utf8.RuneError`. -/
def runeError : Nat := 0xFFFD

/-- Continuation byte (`locb ≤ b ≤ hicb`). -/
def isCont (b : Byte) : Bool := decide (0x80 ≤ b.toNat ∧ b.toNat ≤ 0xBF)

/-- `utf8.DecodeRuneInString`: the rune and its width; anything invalid (a stray continuation
    byte, an overlong or surrogate or out-of-range spelling, a truncated sequence) is
    `(RuneError, 1)`; the width is 0 only for the empty string. The second byte's accepted range
    depends on the lead byte (`acceptRanges`). -/
def decodeRune : Bytes → Nat × Nat
  | [] => (runeError, 0)
  | s0 :: rest =>
    let b0 := s0.toNat
    if b0 < 0x80 then (b0, 1)
    else if b0 < 0xC2 then (runeError, 1)
    else if b0 < 0xE0 then
      match rest with
      | s1 :: _ => if isCont s1 then ((b0 - 0xC0) * 64 + (s1.toNat - 0x80), 2) else (runeError, 1)
      | [] => (runeError, 1)
    else if b0 < 0xF0 then
      match rest with
      | s1 :: s2 :: _ =>
        if (if b0 = 0xE0 then 0xA0 else 0x80) ≤ s1.toNat ∧ s1.toNat ≤ (if b0 = 0xED then 0x9F else 0xBF) ∧ isCont s2 = true then
          ((b0 - 0xE0) * 4096 + (s1.toNat - 0x80) * 64 + (s2.toNat - 0x80), 3)
        else (runeError, 1)
      | _ => (runeError, 1)
    else if b0 < 0xF5 then
      match rest with
      | s1 :: s2 :: s3 :: _ =>
        if (if b0 = 0xF0 then 0x90 else 0x80) ≤ s1.toNat ∧ s1.toNat ≤ (if b0 = 0xF4 then 0x8F else 0xBF) ∧
            isCont s2 = true ∧ isCont s3 = true then
          ((b0 - 0xF0) * 262144 + (s1.toNat - 0x80) * 4096 + (s2.toNat - 0x80) * 64 + (s3.toNat - 0x80), 4)
        else (runeError, 1)
      | _ => (runeError, 1)
    else (runeError, 1)

/-- `unicode.IsSpace`. -/
def isSpaceRune (r : Nat) : Bool :=
  r = 9 || r = 10 || r = 11 || r = 12 || r = 13 || r = 32 || r = 0x85 || r = 0xA0 || r = 0x1680 ||
  decide (0x2000 ≤ r ∧ r ≤ 0x200A) || r = 0x2028 || r = 0x2029 || r = 0x202F || r = 0x205F || r = 0x3000

/-- `strings.FieldsFunc(s, unicode.IsSpace)` rune by rune (fuel = the length of the input). -/
def fieldsRune : Nat → Bytes → Bytes → List Bytes
  | 0, _, cur => if cur.isEmpty then [] else [cur.reverse]
  | _ + 1, [], cur => if cur.isEmpty then [] else [cur.reverse]
  | n + 1, c :: rest, cur =>
    let (r, w) := decodeRune (c :: rest)
    if isSpaceRune r then
      (if cur.isEmpty then fieldsRune n ((c :: rest).drop w) [] else cur.reverse :: fieldsRune n ((c :: rest).drop w) [])
    else fieldsRune n ((c :: rest).drop w) (((c :: rest).take w).reverse ++ cur)

/-- `strings.Fields` as the Go documentation defines it. -/
def fieldsSpec (s : Bytes) : List Bytes := fieldsRune s.length s []

end Whawty.Utf8
