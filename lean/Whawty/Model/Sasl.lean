/-
  Model of sasl/sasl_encoding.go: the split function `scanLengthEncodedString`, the
  `bufio.Scanner` loop driving it, and the Request / Response codecs; plus the request
  encoder of pam/pam_whawty.c (`_whawty_send_request`).
-/
import Whawty.Model.Basic
namespace Whawty.Sasl

/-- `MaxRequestLength`. -/
def maxLen : Nat := 256

/-- Outcome of one call of the split function on the buffered bytes. -/
inductive ScanR
  | more                                   -- (0, nil, nil) with !atEOF: need more data
  | eof                                    -- (0, nil, nil) at EOF with no data
  | err                                    -- an error
  | tok (adv : Nat) (payload : Bytes)      -- token data[0:adv]; payload = token[2:]
  deriving Repr, DecidableEq

/-- `scanLengthEncodedString(data, atEOF)`. -/
def scan (data : Bytes) (atEOF : Bool) : ScanR :=
  match data with
  | [] => if atEOF then .eof else .more
  | [_] => if atEOF then .err else .more
  | hi :: lo :: rest =>
    let n := be16val hi lo
    if n > maxLen then .err
    else if rest.length < n then (if atEOF then .err else .more)
    else .tok (n + 2) (rest.take n)

/-- Whole stream known (everything up to EOF): decode `k` parts; returns the parts and the
    number of bytes consumed. -/
def decodePure : Nat → Bytes → Option (List Bytes × Nat)
  | 0, _ => some ([], 0)
  | k+1, s =>
    match scan s true with
    | .tok adv p => (decodePure k (s.drop adv)).map fun (ps, n) => (p :: ps, adv + n)
    | _ => none

/-- The `bufio.Scanner` loop without its no-progress guard (specification side; the loop as
    it is follows below as `decodeScan`): `buf` is the unconsumed buffered data, `cs` the results of the
    future `Read` calls (a zero-length chunk is a zero-length read), the stream ends in EOF
    after the last chunk. The split function is called on whatever is buffered; when it asks
    for more data the next chunk is read and appended. -/
def decodeChunks : Nat → Bytes → List Bytes → Option (List Bytes × Nat)
  | 0, _, _ => some ([], 0)
  | k+1, buf, [] =>
    match scan buf true with
    | .tok adv p => (decodeChunks k (buf.drop adv) []).map fun (ps, n) => (p :: ps, adv + n)
    | _ => none
  | k+1, buf, c :: cs =>
    match scan buf false with
    | .tok adv p => (decodeChunks k (buf.drop adv) (c :: cs)).map fun (ps, n) => (p :: ps, adv + n)
    | .err => none
    | _ => decodeChunks (k+1) (buf ++ c) cs
termination_by k _ cs => (cs.length, k)

/-- `maxConsecutiveEmptyReads` of `bufio`: the scanner gives up (io.ErrNoProgress) on the
    101st zero-length read in a row. -/
def maxEmptyReads : Nat := 100

/-- The `bufio.Scanner` loop as it is, including its guard against a reader that makes no
    progress: `e` counts the zero-length reads of the current wait for more data. Once the
    guard trips the scanner's error is set and `decodeLengthEncodedStrings` returns it, whatever
    else is buffered or would still arrive. -/
def decodeScan : Nat → Bytes → List Bytes → Nat → Option (List Bytes × Nat)
  | 0, _, _, _ => some ([], 0)
  | k+1, buf, [], _ =>
    match scan buf true with
    | .tok adv p => (decodeScan k (buf.drop adv) [] 0).map fun (ps, n) => (p :: ps, adv + n)
    | _ => none
  | k+1, buf, c :: cs, e =>
    match scan buf false with
    | .tok adv p => (decodeScan k (buf.drop adv) (c :: cs) 0).map fun (ps, n) => (p :: ps, adv + n)
    | .err => none
    | _ =>
      if c.isEmpty then (if e + 1 > maxEmptyReads then none else decodeScan (k+1) buf cs (e + 1))
      else decodeScan (k+1) (buf ++ c) cs 0
termination_by k _ cs => (cs.length, k)

/-- A fragmentation a well-behaved reader produces: never more than `maxEmptyReads`
    zero-length reads in a row (`e` = how many have just been seen). -/
def stallFree : Nat → List Bytes → Bool
  | _, [] => true
  | e, c :: cs => if c.isEmpty then (decide (e + 1 ≤ maxEmptyReads) && stallFree (e + 1) cs) else stallFree 0 cs

structure Request where
  login : Bytes
  password : Bytes
  service : Bytes
  realm : Bytes
  deriving Repr, DecidableEq

/-- `encodeLengthEncodedStrings`: fails on a part longer than 65535 bytes. -/
def encodeParts : List Bytes → Option Bytes
  | [] => some []
  | p :: ps =>
    if p.length > 65535 then none
    else (encodeParts ps).map fun r => be16 p.length ++ p ++ r

/-- `Request.Encode`. -/
def Request.encode (r : Request) : Option Bytes :=
  if r.login.length > maxLen then none
  else if r.password.length > maxLen then none
  else if r.service.length > maxLen then none
  else if r.realm.length > maxLen then none
  else encodeParts [r.login, r.password, r.service, r.realm]

/-- The field checks `Request.Decode` applies to four decoded parts. -/
def Request.ofParts : List Bytes → Option Request
  | [l, p, s, r] => if l.isEmpty || p.isEmpty then none else some ⟨l, p, s, r⟩
  | _ => none

/-- `Request.Decode` on a complete stream; also returns the number of bytes consumed. -/
def Request.decode (s : Bytes) : Option (Request × Nat) :=
  match decodePure 4 s with
  | some (ps, n) => (Request.ofParts ps).map fun r => (r, n)
  | none => none

/-- `Request.Decode` on a fragmented stream. -/
def Request.decodeChunked (cs : List Bytes) : Option (Request × Nat) :=
  match decodeScan 4 [] cs 0 with
  | some (ps, n) => (Request.ofParts ps).map fun r => (r, n)
  | none => none

structure Response where
  result : Bool
  message : Bytes
  deriving Repr, DecidableEq

def okB : Bytes := [79, 75]   -- "OK"
def noB : Bytes := [78, 79]   -- "NO"

/-- The single part `Response.Encode` writes. -/
def Response.text (r : Response) : Bytes :=
  (if r.result then okB else noB) ++ (if r.message.isEmpty then [] else 32 :: r.message)

/-- `Response.Encode`. -/
def Response.encode (r : Response) : Option Bytes := encodeParts [r.text]

/-- `Response.Decode` applied to the text of the single part, for a receiver whose `Message`
    was empty before (as in `sasl.Client.Auth`). -/
def Response.ofText (t : Bytes) : Option Response :=
  if t.length < 2 then none
  else if t.take 2 = okB then some ⟨true, t.drop 3⟩
  else if t.take 2 = noB then some ⟨false, t.drop 3⟩
  else none

def Response.decode (s : Bytes) : Option Response :=
  match decodePure 1 s with
  | some ([t], _) => Response.ofText t
  | _ => none

def Response.decodeChunked (cs : List Bytes) : Option Response :=
  match decodeScan 1 [] cs 0 with
  | some ([t], _) => Response.ofText t
  | _ => none

/-- The bytes `_whawty_send_request` writes for NUL-free C strings `user`, `pw`:
    each part is clipped to `WHAWTY_REQUEST_MAX_PARTLEN` = 256 bytes. -/
def pamPart (p : Bytes) : Bytes := be16 (min p.length 256) ++ p.take 256
def pamEncode (user pw : Bytes) : Bytes := pamPart user ++ pamPart pw ++ pamPart [] ++ pamPart []

end Whawty.Sasl
