/-
  Bytes, hexadecimal text, big-endian 16-bit lengths.
  Core Lean only (no Mathlib): everything under Whawty/Model is linked into the driver executable.
-/
namespace Whawty

abbrev Byte := UInt8
abbrev Bytes := List UInt8

/-- ASCII text as bytes (model-side string literals). -/
def str (s : String) : Bytes := s.toUTF8.toList

def hexDigit (n : Nat) : Char :=
  if n < 10 then Char.ofNat (48 + n) else Char.ofNat (87 + n)

def toHex (b : Bytes) : String :=
  String.ofList (b.flatMap fun x => [hexDigit (x.toNat / 16), hexDigit (x.toNat % 16)])

def hexVal (c : Char) : Option Nat :=
  if '0' ≤ c ∧ c ≤ '9' then some (c.toNat - 48)
  else if 'a' ≤ c ∧ c ≤ 'f' then some (c.toNat - 87)
  else if 'A' ≤ c ∧ c ≤ 'F' then some (c.toNat - 55)
  else none

def ofHexChars : List Char → Option Bytes
  | [] => some []
  | a :: b :: rest =>
    match hexVal a, hexVal b, ofHexChars rest with
    | some x, some y, some r => some (UInt8.ofNat (x * 16 + y) :: r)
    | _, _, _ => none
  | _ => none

def ofHex (s : String) : Option Bytes := ofHexChars s.toList

/-- 16-bit big-endian encoding of `n` (callers guarantee `n < 65536`). -/
def be16 (n : Nat) : Bytes := [UInt8.ofNat (n / 256), UInt8.ofNat (n % 256)]

def be16val (hi lo : Byte) : Nat := hi.toNat * 256 + lo.toNat

end Whawty
