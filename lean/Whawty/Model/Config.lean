/-
  Model of store/config.go (`fromConfig`) and of the hasher constructors
  (`NewScryptAuthHasher`, `NewArgon2IDHasher`) on the DECODED configuration document
  (yaml.v3 with KnownFields(true) is a parameter: unknown keys and type errors are decode
  errors and never reach this function).
-/
import Whawty.Model.Basic
namespace Whawty.Config
open Whawty

structure ScryptCfg where
  hmackeyLen : Option Nat      -- length of the standard-base64-decoded key; none = undecodable
  cost : Nat
  r : Option Int               -- none = key absent in the document
  p : Option Int
  deriving Repr, DecidableEq

structure ArgonCfg where
  time : Nat
  memory : Nat
  threads : Nat
  length : Nat
  deriving Repr, DecidableEq

structure SetCfg where
  id : Nat
  scrypt : Option ScryptCfg
  argon : Option ArgonCfg
  deriving Repr, DecidableEq

structure FileCfg where
  basedirEmpty : Bool
  default : Nat
  params : List SetCfg
  deriving Repr, DecidableEq

/-- Effective scrypt parameters `(N, r, p)` of an accepted set: `N = 2^cost`; the `r` / `p`
    overrides apply only when greater than zero (defaults 8 / 1). -/
def scryptEffective (s : ScryptCfg) : Nat × Int × Int :=
  (2 ^ s.cost,
   (match s.r with | some r => if r > 0 then r else 8 | none => 8),
   (match s.p with | some p => if p > 0 then p else 1 | none => 1))

/-- `NewScryptAuthHasher` succeeds. -/
def scryptOk (s : ScryptCfg) : Bool := s.hmackeyLen == some 32 && s.cost ≤ 31

/-- `NewArgon2IDHasher` succeeds (repaired code: parameters outside the primitive's domain —
    time 0, threads 0, length 0 — are rejected; the pinned code accepted everything). -/
def argonOk (a : ArgonCfg) : Bool := 1 ≤ a.time && 1 ≤ a.threads && 1 ≤ a.length

/-- Effective argon2id parameters: (time, memory in KiB, threads, length), as configured. -/
def argonEffective (a : ArgonCfg) : Nat × Nat × Nat × Nat := (a.time, a.memory, a.threads, a.length)

inductive Alg | scrypt | argon deriving Repr, DecidableEq

/-- The loop of `fromConfig` over the parameter sets: the map of accepted sets (a later set
    with the same id replaces an earlier one) or an error. -/
def loadSets : List SetCfg → List (Nat × Alg) → Option (List (Nat × Alg))
  | [], acc => some acc
  | s :: rest, acc =>
    if s.id = 0 then none
    else
      match s.scrypt, s.argon with
      | none, none => none                                   -- unknown algorithm
      | some sc, none => if scryptOk sc then loadSets rest ((s.id, .scrypt) :: acc.filter (·.1 ≠ s.id)) else none
      | none, some ar => if argonOk ar then loadSets rest ((s.id, .argon) :: acc.filter (·.1 ≠ s.id)) else none
      | some _, some _ => none                               -- more than one algorithm

/-- `fromConfig`: true = the configuration is accepted. -/
def fromConfig (c : FileCfg) : Bool :=
  if c.basedirEmpty then false
  else match loadSets c.params [] with
    | none => false
    | some sets =>
      if c.default = 0 then sets.isEmpty
      else sets.any (·.1 = c.default)

end Whawty.Config
