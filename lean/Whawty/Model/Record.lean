/-
  The hash-file record codec of store/userhash.go (`readHashStr`, the line written by
  `writeHashStr`) and of the two hashers' `…DecodeBase64` / `IsValid` / `Check`.
-/
import Whawty.Model.Base64
namespace Whawty.Rec
open Whawty

def colon : Byte := 58
def nl : Byte := 10

/-- `bufio.Reader.ReadString('\n')`: everything up to and including the first newline, or
    everything if there is none. -/
def firstLine : Bytes → Bytes
  | [] => []
  | c :: rest => if c = nl then [c] else c :: firstLine rest

/-- The rest of the file after the first line (what `writeHashStr` copies over). -/
def afterFirstLine : Bytes → Bytes
  | [] => []
  | c :: rest => if c = nl then rest else afterFirstLine rest

/-- Split at the first `sep`: (before, after) or none if there is no `sep`. -/
def cut (sep : Byte) : Bytes → Option (Bytes × Bytes)
  | [] => none
  | c :: rest =>
    if c = sep then some ([], rest)
    else (cut sep rest).map fun (a, b) => (c :: a, b)

/-- `strings.SplitN(s, ":", 4)` when it yields four parts. -/
def splitN4 (s : Bytes) : Option (Bytes × Bytes × Bytes × Bytes) :=
  match cut colon s with
  | none => none
  | some (a, r1) =>
    match cut colon r1 with
    | none => none
    | some (b, r2) =>
      match cut colon r2 with
      | none => none
      | some (c, d) => some (a, b, c, d)

def isDigit (c : Byte) : Bool := 48 ≤ c.toNat && c.toNat ≤ 57

/-- Decimal digits only (base 10: no underscores, no prefix). -/
def digitsVal : Bytes → Nat → Option Nat
  | [], acc => some acc
  | c :: rest, acc => if isDigit c then digitsVal rest (acc * 10 + (c.toNat - 48)) else none

/-- `strconv.ParseUint(s, 10, 64)` (bitSize 0 = 64 on the target). -/
def parseUint64 (s : Bytes) : Option Nat :=
  if s = [] then none
  else match digitsVal s 0 with
    | some n => if n < 2 ^ 64 then some n else none
    | none => none

/-- `strconv.ParseInt(s, 10, 64)`. -/
def parseInt64 (s : Bytes) : Option Int :=
  match s with
  | [] => none
  | c :: rest =>
    if c = 43 /- '+' -/ then
      match parseUint64 rest with
      | some n => if n < 2 ^ 63 then some (Int.ofNat n) else none
      | none => none
    else if c = 45 /- '-' -/ then
      match parseUint64 rest with
      | some n => if n ≤ 2 ^ 63 then some (- Int.ofNat n) else none
      | none => none
    else
      match parseUint64 s with
      | some n => if n < 2 ^ 63 then some (Int.ofNat n) else none
      | none => none

/-- What `readHashStr` extracts from a file. -/
structure Head where
  formatId : Bytes
  lastChange : Int
  paramId : Nat
  hashStr : Bytes        -- rest of the first line, including its newline
  deriving Repr, DecidableEq

/-- `readHashStr` on the file content. -/
def readHead (file : Bytes) : Option Head :=
  match splitN4 (firstLine file) with
  | none => none
  | some (f, t, p, h) =>
    match parseInt64 t with
    | none => none
    | some ts =>
      match parseUint64 p with
      | none => none
      | some pid => some ⟨f, ts, pid, h⟩

/-- `strings.Split(hashStr, ":")` having exactly two parts. -/
def split2 (s : Bytes) : Option (Bytes × Bytes) :=
  match cut colon s with
  | none => none
  | some (a, b) => if b.contains colon then none else some (a, b)

/-- `argon2IDDecodeBase64` / `scryptAuthDecodeBase64`: (salt, hash). -/
def decodeSaltHash (hashStr : Bytes) : Option (Bytes × Bytes) :=
  match split2 hashStr with
  | none => none
  | some (a, b) =>
    match B64.decode a, B64.decode b with
    | some salt, some hash => some (salt, hash)
    | _, _ => none

/-- `Hasher.IsValid`. -/
def isValid (hashStr : Bytes) : Bool :=
  match decodeSaltHash hashStr with
  | some (salt, hash) => !salt.isEmpty && !hash.isEmpty
  | none => false

/-- Decimal rendering (`%d`). -/
def decNat (n : Nat) : Bytes :=
  if n < 10 then [UInt8.ofNat (48 + n)] else decNat (n / 10) ++ [UInt8.ofNat (48 + n % 10)]
def decInt (i : Int) : Bytes :=
  match i with
  | .ofNat n => decNat n
  | .negSucc n => 45 :: decNat (n + 1)

/-- The `salt:hash` string a hasher's `Generate` returns. -/
def hashStrOf (salt hash : Bytes) : Bytes := B64.encode salt ++ colon :: B64.encode hash

/-- The line `writeHashStr` writes: `"%s:%d:%d:%s\n"`. -/
def formatLine (formatId : Bytes) (now : Int) (paramId : Nat) (hashStr : Bytes) : Bytes :=
  formatId ++ colon :: decInt now ++ colon :: decNat paramId ++ colon :: hashStr ++ [nl]

end Whawty.Rec
