/-
  Go's encoding/base64 URLEncoding (padded, non-strict), as used for salt and digest in the
  hash files and for session tokens: `EncodeToString` and `DecodeString`.
-/
import Whawty.Model.Basic
namespace Whawty.B64

/-- Value 0..63 -> URL-alphabet character. -/
def encChar (n : Nat) : Byte :=
  if n < 26 then UInt8.ofNat (65 + n)
  else if n < 52 then UInt8.ofNat (97 + (n - 26))
  else if n < 62 then UInt8.ofNat (48 + (n - 52))
  else if n = 62 then 45 /- '-' -/ else 95 /- '_' -/

/-- URL-alphabet character -> value. -/
def alpha (c : Byte) : Option Nat :=
  let n := c.toNat
  if 65 ≤ n ∧ n ≤ 90 then some (n - 65)
  else if 97 ≤ n ∧ n ≤ 122 then some (n - 97 + 26)
  else if 48 ≤ n ∧ n ≤ 57 then some (n - 48 + 52)
  else if n = 45 then some 62
  else if n = 95 then some 63
  else none

def pad : Byte := 61  -- '='

/-- `URLEncoding.EncodeToString`. -/
def encode : Bytes → Bytes
  | [] => []
  | [a] =>
    let n := a.toNat * 65536
    [encChar (n / 262144), encChar (n / 4096 % 64), pad, pad]
  | [a, b] =>
    let n := a.toNat * 65536 + b.toNat * 256
    [encChar (n / 262144), encChar (n / 4096 % 64), encChar (n / 64 % 64), pad]
  | a :: b :: c :: rest =>
    let n := a.toNat * 65536 + b.toNat * 256 + c.toNat
    encChar (n / 262144) :: encChar (n / 4096 % 64) :: encChar (n / 64 % 64) :: encChar (n % 64) :: encode rest

def bytes3 (n : Nat) : Bytes := [UInt8.ofNat (n / 65536), UInt8.ofNat (n / 256 % 256), UInt8.ofNat (n % 256)]
def bytes2 (n : Nat) : Bytes := [UInt8.ofNat (n / 65536), UInt8.ofNat (n / 256 % 256)]
def bytes1 (n : Nat) : Bytes := [UInt8.ofNat (n / 65536)]

/-- Decoding once CR and LF have been removed: full quanta, then an optional padded one;
    anything after padding, a lone `=`, or 1–3 leftover characters is corrupt. Non-canonical
    trailing bits are ignored (the decoder is not strict). -/
def decodeStripped : Bytes → Option Bytes
  | [] => some []
  | a :: b :: c :: d :: rest =>
    match alpha a, alpha b with
    | some x, some y =>
      match alpha c, alpha d with
      | some z, some w => (decodeStripped rest).map (bytes3 (x * 262144 + y * 4096 + z * 64 + w) ++ ·)
      | some z, none =>
        if d = pad ∧ rest = [] then some (bytes2 (x * 262144 + y * 4096 + z * 64)) else none
      | none, _ =>
        if c = pad ∧ d = pad ∧ rest = [] then some (bytes1 (x * 262144 + y * 4096)) else none
    | _, _ => none
  | _ => none

/-- `URLEncoding.DecodeString`: CR and LF are skipped wherever they occur. -/
def decode (s : Bytes) : Option Bytes := decodeStripped (s.filter fun c => c ≠ 10 ∧ c ≠ 13)

end Whawty.B64
