/-
  The reload step of the agent (cmd/whawty-auth/store.go: `store.reload`, executed inside the
  dispatcher's select on SIGHUP) on top of the dispatcher's transition system: the live
  configuration is one value (base directory, default id, parameter-set ids) that is replaced as
  a whole — and only when the new file loaded AND its directory passed the consistency check.
-/
import Whawty.Model.Agent
namespace Whawty.Reload
open Whawty Whawty.Agent

structure Live where
  base : Bytes
  default : Nat
  sets : List Nat
  deriving Repr, DecidableEq

/-- What `NewDirFromConfig` + `Check` said about the configuration file at the time of the signal. -/
inductive Loaded
  | bad                               -- the file did not load (decode error, ill-formed, constructor error)
  | ok (cfg : Live) (dirOk : Bool)    -- it loaded; `dirOk` = its directory passed the check
  deriving Repr, DecidableEq

/-- `store.reload`. -/
def reload (cur : Live) : Loaded → Live
  | .ok cfg true => cfg
  | _ => cur

structure St where
  ag : Agent.St
  live : Live
  deriving Repr

inductive Label
  | agent (l : Agent.Label)
  | reload (r : Loaded)
  deriving Repr

/-- The dispatcher serves the signal only from its select (like any request); nothing about the
    queues, the waiting clients or the program counter changes. -/
def next (c : Agent.Cfg) (s : St) : Label → Option St
  | .agent l => (Agent.next c s.ag l).map fun a => { s with ag := a }
  | .reload r => if s.ag.pc = .select then some { s with live := reload s.live r } else none

def run (c : Agent.Cfg) (s : St) : List Label → Option St
  | [] => some s
  | l :: ls => (next c s l).bind fun t => run c t ls

/-- The configurations that were offered complete and valid along a label sequence. -/
def offered : List Label → List Live
  | [] => []
  | .reload (.ok cfg true) :: ls => cfg :: offered ls
  | _ :: ls => offered ls

end Whawty.Reload
