/-
  Model of cmd/whawty-auth/hooks.go: the rate-limited run loop (`HooksCaller.run`) as a timed
  transition system, the eligibility test of `runAllHooks`, and a checker for real hook logs.
  Times are integers (any unit); `R` is the rate limit.
-/
import Whawty.Model.Basic
namespace Whawty.Hooks
open Whawty

structure St where
  pending : Nat
  armed : Bool            -- the timer is running
  deadline : Int          -- when it fires (meaningful while armed)
  runs : List Int         -- times of hook rounds so far, most recent first
  deriving Repr, DecidableEq

def init : St := ⟨0, false, 0, []⟩

inductive Ev
  | notify (t : Int)      -- a change notification is received at time t
  | fire (t : Int)        -- the timer channel is received at time t (enabled iff armed ∧ t ≥ deadline)
  deriving Repr, DecidableEq

def Ev.time : Ev → Int | .notify t => t | .fire t => t

/-- One iteration of the `select` loop; none = the event is not enabled. -/
def step (R : Int) (s : St) : Ev → Option St
  | .notify t =>
    if s.pending = 0 then some { pending := 1, armed := true, deadline := t + R, runs := t :: s.runs }
    else some { s with pending := s.pending + 1 }
  | .fire t =>
    if s.armed && t ≥ s.deadline then
      some { pending := 0, armed := false, deadline := s.deadline,
             runs := if s.pending > 1 then t :: s.runs else s.runs }
    else none

def run (R : Int) : St → List Ev → Option St
  | s, [] => some s
  | s, e :: es => (step R s e).bind fun t => run R t es

/-- `runAllHooks`: the directory must not be world-writable; hidden files, special files and
    files without any execute bit are skipped. `isRegular` / `isSymlink` are what `Readdir`
    (lstat) reports for the entry. -/
def eligible (dirWorldWritable : Bool) (name : Bytes) (isRegular isSymlink : Bool) (perm : Nat) : Bool :=
  !dirWorldWritable && !(name.head? = some 46) && (isRegular || isSymlink) && (perm % 512) &&& 73 ≠ 0
  -- 73 = 0o111

/-- Checker for a real hook log: every notification is followed (at or after its own time) by a
    run, and any three consecutive runs span at least `R - eps` (at most two rounds per rate-limit
    interval). `notifies` and `runs` ascending. -/
def coveredBy (runs : List Int) (n : Int) : Bool := runs.any (· ≥ n)

def spaced (R eps : Int) : List Int → Bool
  | a :: b :: c :: rest => (c - a ≥ R - eps) && spaced R eps (b :: c :: rest)
  | _ => true

def hookLogOk (R eps : Int) (notifies runs : List Int) : Bool :=
  notifies.all (coveredBy runs) && spaced R eps runs

end Whawty.Hooks
