/-
  Model of cmd/whawty-auth/web_api.go (the eight handlers), ldap.go and sasl_socket.go over an
  abstract store: `Name ⇀ (admin flag, password)`. "P authenticates U" is `password = P`
  (C01 relates this to the hash files); sessions are the ideal-AEAD factory of Session.lean.
-/
import Whawty.Model.Session
import Whawty.Model.Store
namespace Whawty.WebApi
open Whawty Whawty.Session

structure User where
  name : Bytes
  admin : Bool
  password : Bytes
  deriving Repr, DecidableEq, Hashable

/-- The agent as the web API sees it. -/
structure St where
  users : List User            -- at most one entry per name
  factory : Factory
  deriving Repr

def find (st : St) (u : Bytes) : Option User := st.users.find? (·.name = u)

/-- Store verdict (what `Store.Authenticate` returns): ok, admin flag. An invalid or
    over-long name, an unknown user and a wrong password are all denials. -/
def storeAuth (st : St) (u p : Bytes) : Option Bool :=
  if !Store.validName u || u.length + 6 > 255 then none
  else match find st u with
    | some usr => if usr.password = p then some usr.admin else none
    | none => none

inductive Endpoint
  | authenticate | add | remove | update | setAdmin | list | listFull
  deriving Repr, DecidableEq

structure Req where
  ep : Endpoint
  bodyOk : Bool          -- the body is a JSON object decodable into the request type
  session : Bytes        -- "" = absent
  username : Bytes
  password : Bytes
  oldpw : Bytes
  newpw : Bytes
  admin : Bool
  deriving Repr, DecidableEq

structure Resp where
  ok : Bool              -- 2xx
  list : Bool            -- a user list is disclosed
  token : Bool           -- a session token is issued
  deriving Repr, DecidableEq

def deny : Resp := ⟨false, false, false⟩

/-- `Store.Add` on the abstract store. -/
def addUser (st : St) (u p : Bytes) (a : Bool) : Option St :=
  if !Store.validName u || u.length + 6 > 255 then none
  else if (find st u).isSome then none
  else some { st with users := st.users ++ [⟨u, a, p⟩] }

def updateUser (st : St) (u p : Bytes) : Option St :=
  if !Store.validName u || u.length + 6 > 255 then none
  else match find st u with
    | none => none
    | some _ => some { st with users := st.users.map fun x => if x.name = u then { x with password := p } else x }

def setAdminUser (st : St) (u : Bytes) (a : Bool) : Option St :=
  if !Store.validName u || u.length + 6 > 255 then none
  else match find st u with
    | none => none
    | some _ => some { st with users := st.users.map fun x => if x.name = u then { x with admin := a } else x }

def removeUser (st : St) (u : Bytes) : St :=
  if !Store.validName u then st else { st with users := st.users.filter (·.name ≠ u) }

/-- What an authorised request is allowed to do. -/
inductive Action
  | issue (admin : Bool)      -- /api/authenticate succeeded: issue a token for (username, admin)
  | add | remove | setAdmin | update
  | upgradeOnly               -- /api/update with only the old password: no write
  | list
  deriving Repr, DecidableEq

/-- The session decodes to a valid, unexpired token of this instance with the admin flag. -/
def isAdminSession : Option (Bytes × Bool) → Bool
  | some (_, true) => true
  | _ => false

/-- The authorisation logic of the handlers: which action (if any) the request is entitled
    to. none = refused (non-2xx). -/
def authorize (st : St) (now : Int) (r : Req) : Option Action :=
  if !r.bodyOk then none else
  let sess := checkText st.factory now r.session
  let adminSession : Bool := isAdminSession sess
  match r.ep with
  | .authenticate =>
    if r.username.isEmpty || r.password.isEmpty then none
    else (storeAuth st r.username r.password).map Action.issue
  | .add =>
    if r.session.isEmpty || r.username.isEmpty || r.password.isEmpty then none
    else if adminSession then some .add else none
  | .remove =>
    if r.session.isEmpty || r.username.isEmpty then none
    else if adminSession then some .remove else none
  | .setAdmin =>
    if r.session.isEmpty || r.username.isEmpty then none
    else if adminSession then some .setAdmin else none
  | .list => if r.session.isEmpty then none else if adminSession then some .list else none
  | .listFull => if r.session.isEmpty then none else if adminSession then some .list else none
  | .update =>
    if r.username.isEmpty then none
    else if !r.session.isEmpty && r.oldpw.isEmpty then
      if r.newpw.isEmpty then none
      else match sess with
        | some (who, isAdmin) => if !isAdmin && who ≠ r.username then none else some .update
        | none => none
    else if r.session.isEmpty && !r.oldpw.isEmpty then
      match storeAuth st r.username r.oldpw with
      | none => none
      | some _ => if r.newpw.isEmpty then some .upgradeOnly else some .update
    else none

/-- The effect of an authorised action on the agent; none = the store refused (non-2xx). -/
def perform (st : St) (now : Int) (nonce cipher : Bytes) (r : Req) : Action → Option St
  | .issue a => some { st with factory := (generate st.factory r.username a now nonce cipher).1 }
  | .add => addUser st r.username r.password r.admin
  | .remove => some (removeUser st r.username)
  | .setAdmin => setAdminUser st r.username r.admin
  | .update => updateUser st r.username r.newpw
  | .upgradeOnly => some st
  | .list => some st

def respOf : Action → Resp
  | .issue _ => ⟨true, false, true⟩
  | .list => ⟨true, true, false⟩
  | _ => ⟨true, false, false⟩

/-- One request. `now` in seconds; `nonce`, `cipher`: what the AEAD would produce if a token
    is issued (oracle arguments). -/
def step (st : St) (now : Int) (nonce cipher : Bytes) (r : Req) : St × Resp :=
  match authorize st now r with
  | none => (st, deny)
  | some a =>
    match perform st now nonce cipher r a with
    | none => (st, deny)
    | some st' => (st', respOf a)

/-! ### the other frontends: transport decoding ∘ store verdict -/

/-- saslauthd callback: approval iff the store approves (an error is a denial). -/
def saslFront (st : St) (login pw : Bytes) : Bool := (storeAuth st login pw).isSome

/-- HTTP basic-auth after base64 decoding: split at the first colon. -/
def basicFront (st : St) (userpass : Bytes) : Bool :=
  match Rec.cut Rec.colon userpass with
  | some (u, p) => (storeAuth st u p).isSome
  | none => false

/-- LDAP simple bind: the bind name up to the first '@'. -/
def ldapFront (st : St) (bindDN pw : Bytes) : Bool :=
  (storeAuth st (bindDN.takeWhile (· ≠ 64)) pw).isSome

end Whawty.WebApi
