/-
  Model of sasl.Server.handleConnection (sasl/sasl.go): decode one request from the
  connection, call the callback at most once, write one reply, close.
-/
import Whawty.Model.Sasl
namespace Whawty.SaslServer
open Whawty Whawty.Sasl

/-- Result of the authentication callback. -/
structure CbOutcome where
  ok : Bool
  msg : Bytes
  err : Option Bytes     -- `some text` = the callback returned an error with that text
  deriving Repr, DecidableEq

/-- Longest message that still fits, with "OK "/"NO ", into one message part. -/
def maxMsg : Nat := maxLen - 3

structure Behaviour where
  cbCalls : List Request       -- arguments of the callback invocations, in order
  replies : List Bytes         -- byte strings written to the connection, in order
  closed : Bool
  deriving Repr, DecidableEq

/-- The response the server builds. `decodeErrText` is the text of the decode error
    (its content is not modelled: any bytes). `clip` says whether the server clips the
    message to `maxMsg` (the repaired code does; the pinned code did not). -/
def response (clip : Bool) (dec : Option (Request × Nat)) (cb : Request → CbOutcome)
    (decodeErrText : Bytes) : Response :=
  let r : Response :=
    match dec with
    | none => ⟨false, decodeErrText⟩
    | some (q, _) =>
      let o := cb q
      match o.err with
      | some e => ⟨false, e⟩
      | none => ⟨o.ok, o.msg⟩
  if clip then ⟨r.result, r.message.take maxMsg⟩ else r

def handle (clip : Bool) (chunks : List Bytes) (cb : Request → CbOutcome) (decodeErrText : Bytes) :
    Behaviour :=
  let dec := Request.decodeChunked chunks
  { cbCalls := match dec with | some (q, _) => [q] | none => [],
    replies := match (response clip dec cb decodeErrText).encode with
               | some b => [b]
               | none => [],        -- Encode failed: nothing is written
    closed := true }

end Whawty.SaslServer
