/-
  The command gate of cmd/whawty-auth/main.go: every command except `init` and `check` opens the
  store through `openAndCheck`, which runs the consistency check first unless `--do-check=false`
  (flag or WHAWTY_AUTH_DO_CHECK); failure => exit status 3 before the command's own action.
-/
import Whawty.Model.Basic
namespace Whawty.Cli

inductive Cmd
  | init | check | add | remove | update | setAdmin | list | authenticate | run | runsa
  deriving Repr, DecidableEq

structure Env where
  configLoads : Bool     -- NewStore succeeded (configuration file, policy)
  dirValid : Bool        -- Dir.Check() accepts the base directory
  dirEmpty : Bool        -- the base directory is empty (ignoring .tmp)
  doCheck : Bool         -- default true
  deriving Repr, DecidableEq

inductive Outcome
  | exit3          -- refused: exit status 3, the command's action did not run
  | proceeds       -- the command's own action runs (it may still fail for its own reasons)
  | exit0          -- `check` on a valid store
  deriving Repr, DecidableEq

def gate (e : Env) : Cmd → Outcome
  | .init => if e.configLoads && e.dirEmpty then .proceeds else .exit3
  | .check => if e.configLoads && e.dirValid then .exit0 else .exit3
  | _ => if !e.configLoads then .exit3 else if e.doCheck && !e.dirValid then .exit3 else .proceeds

end Whawty.Cli
