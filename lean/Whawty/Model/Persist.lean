/-
  File-system persistence model (DESIGN.md 4.4): the "standard model" named by C08/C09.
  File data becomes durable at fsync of the file; a directory operation (link, unlink,
  rename) becomes durable at fsync of the directory it changes (a rename: of its destination
  directory). A crash keeps the durable state plus ANY SUBSET of the not-yet-durable directory
  operations (applied in program order); an inode written since its last fsync has
  unpredictable (torn) content. The events are what `strace` shows of a store operation
  (harness/cmd/hdrv/trace.go) and what the model of `writeHashStr` emits (`Trace.lean`).
-/
import Whawty.Model.Basic
namespace Whawty.Persist
open Whawty

/-- Path classes relative to the base directory and the operation's user. -/
inductive Name
  | U                      -- <base>/<user>.user
  | A                      -- <base>/<user>.admin
  | tmp (k : Nat)          -- <base>/.tmp/<k-th temporary name>
  | B                      -- <base>
  | W                      -- <base>/.tmp
  | sib (rel : Bytes)      -- another entry below <base>
  | other (p : Bytes)      -- anything else
  deriving Repr, DecidableEq

abbrev Ino := Nat

inductive DirOp
  | link (n : Name) (i : Ino)
  | unlink (n : Name)
  | rename (s d : Name) (i : Ino)
  deriving Repr, DecidableEq

inductive Ev
  | creat (fd : Nat) (n : Name)                  -- open(O_CREAT|O_EXCL) succeeded: new empty file
  | open (fd : Nat) (n : Name)                   -- read-only open
  | openw (fd : Nat) (n : Name) (trunc : Bool)   -- open of an existing name for writing
  | mkdir (n : Name)
  | write (fd : Nat) (data : Bytes)
  | read (fd : Nat) (n : Nat)                    -- n bytes read: advances the offset
  | copy (fdIn fdOut : Nat) (n : Nat)            -- copy_file_range at the descriptors' offsets
  | fsync (fd : Nat)
  | rename (s d : Name)
  | unlink (n : Name)
  | close (fd : Nat)
  | stat (n : Name)                              -- any failed or read-only path lookup
  | openfail (n : Name)
  | othermut                                     -- link/truncate/chmod/...: outside the vocabulary
  | ack                                          -- the operation returned
  deriving Repr, DecidableEq

inductive FdT
  | file (i : Ino) (off : Nat)     -- inode and read offset
  | dir (n : Name)
  deriving Repr, DecidableEq

def lookup {α β} [DecidableEq α] (l : List (α × β)) (a : α) : Option β := (l.find? (·.1 = a)).map (·.2)
def del {α β} [DecidableEq α] (l : List (α × β)) (a : α) : List (α × β) := l.filter (·.1 ≠ a)
def set {α β} [DecidableEq α] (l : List (α × β)) (a : α) (b : β) : List (α × β) := (a, b) :: del l a

/-- The directory an entry name lives in. -/
def dirOf : Name → Name
  | .U => .B | .A => .B | .W => .B | .sib _ => .B
  | .tmp _ => .W
  | n => n

def isDirName : Name → Bool
  | .B => true | .W => true | _ => false

structure St where
  names : List (Name × Ino)     -- volatile namespace (files)
  data : List (Ino × Bytes)     -- volatile contents
  ddata : List (Ino × Bytes)    -- durable contents (as of the last fsync of the inode)
  dirty : List Ino              -- written since their last fsync
  dnames : List (Name × Ino)    -- durable namespace
  pending : List DirOp          -- directory operations not yet durable, program order
  fds : List (Nat × FdT)
  next : Ino
  acked : Bool
  alien : Bool                  -- an event outside the vocabulary was seen
  deriving Repr

def applyDir (ns : List (Name × Ino)) : DirOp → List (Name × Ino)
  | .link n i => set ns n i
  | .unlink n => del ns n
  | .rename s d i => set (del ns s) d i

/-- The directory whose fsync makes the operation durable. -/
def opDir : DirOp → Name
  | .link n _ => dirOf n
  | .unlink n => dirOf n
  | .rename _ d _ => dirOf d

def step (s : St) : Ev → St
  | .creat fd n =>
    { s with names := set s.names n s.next, data := set s.data s.next [], ddata := set s.ddata s.next [],
             pending := s.pending ++ [.link n s.next], fds := set s.fds fd (.file s.next 0), next := s.next + 1 }
  | .open fd n =>
    if isDirName n then { s with fds := set s.fds fd (.dir n) }
    else match lookup s.names n with
      | some i => { s with fds := set s.fds fd (.file i 0) }
      | none => s
  | .openw fd n trunc =>
    match lookup s.names n with
    | some i =>
      if trunc then { s with fds := set s.fds fd (.file i 0), data := set s.data i [], dirty := i :: s.dirty }
      else { s with fds := set s.fds fd (.file i 0), alien := true }
    | none => { s with alien := true }
  | .mkdir _ => s
  | .write fd bytes =>
    match lookup s.fds fd with
    | some (.file i _) =>
      { s with data := set s.data i ((lookup s.data i).getD [] ++ bytes), dirty := i :: s.dirty }
    | _ => s        -- not a tracked file (stdout, sockets)
  | .read fd n =>
    match lookup s.fds fd with
    | some (.file i off) => { s with fds := set s.fds fd (.file i (off + n)) }
    | _ => s
  | .copy fi fo n =>
    match lookup s.fds fi, lookup s.fds fo with
    | some (.file i off), some (.file o _) =>
      { s with data := set s.data o ((lookup s.data o).getD [] ++ (((lookup s.data i).getD []).drop off).take n),
               dirty := o :: s.dirty, fds := set s.fds fi (.file i (off + n)) }
    | _, _ => { s with alien := true }
  | .fsync fd =>
    match lookup s.fds fd with
    | some (.file i _) =>
      { s with ddata := set s.ddata i ((lookup s.data i).getD []), dirty := s.dirty.filter (· ≠ i) }
    | some (.dir n) =>
      { s with dnames := (s.pending.filter (opDir · = n)).foldl applyDir s.dnames,
               pending := s.pending.filter (opDir · ≠ n) }
    | none => s
  | .rename a b =>
    match lookup s.names a with
    | some i => { s with names := set (del s.names a) b i, pending := s.pending ++ [.rename a b i] }
    | none => { s with alien := true }
  | .unlink n => { s with names := del s.names n, pending := s.pending ++ [.unlink n] }
  | .close fd => { s with fds := del s.fds fd }
  | .stat _ => s
  | .openfail _ => s
  | .othermut => { s with alien := true }
  | .ack => { s with acked := true }

def run (s : St) (evs : List Ev) : St := evs.foldl step s

/-- What a name shows. -/
inductive View
  | absent
  | clean (c : Bytes)
  | torn
  deriving Repr, DecidableEq

def sublists {α} : List α → List (List α)
  | [] => [[]]
  | x :: xs => let r := sublists xs; r ++ r.map (x :: ·)

/-- The name `n` after a power loss in state `s` when exactly the operations `kept` of the
    pending ones had reached the disk. -/
def crashView (s : St) (kept : List DirOp) (n : Name) : View :=
  match lookup (kept.foldl applyDir s.dnames) n with
  | none => .absent
  | some i => if s.dirty.contains i then .torn else .clean ((lookup s.ddata i).getD [])

/-- The name `n` as another process (or a restarted agent after `kill -9`) sees it. -/
def killView (s : St) (n : Name) : View :=
  match lookup s.names n with
  | none => .absent
  | some i => .clean ((lookup s.data i).getD [])

/-- States after every prefix of the trace (including the empty one). -/
def prefixStates (s : St) : List Ev → List St
  | [] => [s]
  | e :: es => s :: prefixStates (step s e) es

def crashViews (s0 : St) (evs : List Ev) (n : Name) : List View :=
  (prefixStates s0 evs).flatMap fun s => (sublists s.pending).map fun kept => crashView s kept n

def killViews (s0 : St) (evs : List Ev) (n : Name) : List View :=
  (prefixStates s0 evs).map fun s => killView s n

def number : Ino → List (Name × Bytes) → List (Ino × Name × Bytes)
  | _, [] => []
  | k, x :: xs => (k, x.1, x.2) :: number (k + 1) xs

/-- Initial state: `files` = the entries of the store that exist (name, content), durable. -/
def init (files : List (Name × Bytes)) : St :=
  let idx := number 1 files
  { names := idx.map fun (i, n, _) => (n, i),
    data := idx.map fun (i, _, c) => (i, c),
    ddata := idx.map fun (i, _, c) => (i, c),
    dirty := [], dnames := idx.map fun (i, n, _) => (n, i),
    pending := [], fds := [], next := files.length + 1, acked := false, alien := false }

/-- C08 checker: every crash view and every kill view of `n` along the trace is allowed. -/
def crashAtomic (s0 : St) (evs : List Ev) (n : Name) (allowed : View → Bool) : Bool :=
  (crashViews s0 evs n).all allowed && (killViews s0 evs n).all allowed && !(run s0 evs).alien

/-- States from the acknowledgement on. -/
def ackedStates (s0 : St) (evs : List Ev) : List St := (prefixStates s0 evs).filter (·.acked)

/-- C09 checker: in every state from the acknowledgement on, every crash view of `n` is `want`. -/
def durableAtAck (s0 : St) (evs : List Ev) (n : Name) (want : View) : Bool :=
  (ackedStates s0 evs).all fun s => (sublists s.pending).all fun kept => crashView s kept n == want

/-- The names an event touches other than by a failed or read-only lookup. -/
def touched : Ev → List Name
  | .creat _ n => [n] | .open _ n => [n] | .openw _ n _ => [n] | .mkdir n => [n]
  | .rename a b => [a, b] | .unlink n => [n] | _ => []

def probed : Ev → List Name
  | .stat n => [n] | .openfail n => [n] | e => touched e

/-- C03 checker: everything opened, created, modified, renamed or deleted is the user's own
    file, the base directory, or the work area. -/
def allowedName : Name → Bool
  | .U => true | .A => true | .B => true | .W => true | .tmp _ => true | _ => false

def confined (evs : List Ev) : Bool := evs.all fun e => (touched e).all allowedName

/-- For an invalid name: no lookup of anything but the base directory itself. -/
def untouchedStore (evs : List Ev) : Bool := evs.all fun e => (probed e).all (· == .B)

/-- Mutating events only (the skeleton compared with the model's trace); consecutive writes
    to one descriptor are one write. -/
def isMutation : Ev → Bool
  | .creat .. => true | .openw .. => true | .mkdir _ => true | .write .. => true | .copy .. => true
  | .fsync _ => true
  | .rename .. => true | .unlink _ => true | .othermut => true | _ => false

end Whawty.Persist
