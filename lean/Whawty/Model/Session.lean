/-
  Model of cmd/whawty-auth/web_session.go. The AEAD is an IDEAL functionality: `Open` with
  the factory's key succeeds on a (nonce, ciphertext) pair iff exactly that pair was produced
  by `Seal` under the same key, and then returns the sealed plaintext. The factory's state is
  therefore the list of everything it ever sealed. (Cryptographic strength of AES-GCM is the
  hypothesis that the real AEAD behaves like this.)
-/
import Whawty.Model.Record
namespace Whawty.Session
open Whawty Whawty.Rec

structure Sealed where
  nonce : Bytes
  cipher : Bytes
  plain : Bytes
  deriving Repr, DecidableEq

structure Factory where
  sealed : List Sealed          -- everything sealed under this instance's key
  lifetime : Int                -- seconds
  deriving Repr

def nonceSize : Nat := 12

/-- Ideal `AEAD.Open` under the factory's key. -/
def aeadOpen (f : Factory) (nonce cipher : Bytes) : Option Bytes :=
  (f.sealed.find? fun s => s.nonce = nonce ∧ s.cipher = cipher).map (·.plain)

def trueB : Bytes := [116, 114, 117, 101]         -- "true"
def falseB : Bytes := [102, 97, 108, 115, 101]    -- "false"

/-- `strings.SplitN(s, ":", 3)` when it yields three parts. -/
def splitN3 (s : Bytes) : Option (Bytes × Bytes × Bytes) :=
  match cut colon s with
  | none => none
  | some (a, r) =>
    match cut colon r with
    | none => none
    | some (b, c) => some (a, b, c)

/-- `splitCheckToken`: user name, admin flag — or rejection. `now` in seconds. -/
def splitCheck (lifetime now : Int) (plain : Bytes) : Option (Bytes × Bool) :=
  match splitN3 plain with
  | none => none
  | some (user, flag, ts) =>
    if flag ≠ trueB ∧ flag ≠ falseB then none
    else match parseInt64 ts with
      | none => none
      | some t =>
        if now - t < 0 then none            -- from the future
        else if now - t > lifetime then none
        else some (user, flag = trueB)

/-- `Check` on the decoded halves (repaired code: a nonce of the wrong length is rejected
    before `Open`; the pinned code panicked there). -/
def check (f : Factory) (now : Int) (nonce cipher : Bytes) : Option (Bytes × Bool) :=
  if nonce.length ≠ nonceSize then none
  else match aeadOpen f nonce cipher with
    | none => none
    | some plain => splitCheck f.lifetime now plain

/-- `strings.SplitN(session, ":", 2)` + base64url decoding of both halves + `check`. -/
def checkText (f : Factory) (now : Int) (text : Bytes) : Option (Bytes × Bool) :=
  match cut colon text with
  | none => none
  | some (a, b) =>
    match B64.decode a, B64.decode b with
    | some n, some c => check f now n c
    | _, _ => none

/-- `Generate`: seal `user:admin:now` under a fresh nonce; returns the new factory state and
    the token's text. `nonce` and `cipher` are what the AEAD produced (oracle arguments). -/
def plainOf (user : Bytes) (admin : Bool) (now : Int) : Bytes :=
  user ++ colon :: (if admin then trueB else falseB) ++ colon :: decInt now

def generate (f : Factory) (user : Bytes) (admin : Bool) (now : Int) (nonce cipher : Bytes) : Factory × Bytes :=
  ({ f with sealed := ⟨nonce, cipher, plainOf user admin now⟩ :: f.sealed },
   B64.encode nonce ++ colon :: B64.encode cipher)

end Whawty.Session
