/-
  Sequential specification of the agent's store interface and a linearizability checker for
  concurrent histories of client calls (C11).
-/
import Whawty.Model.WebApi
import Std.Data.HashSet
namespace Whawty.Lin
open Whawty Whawty.WebApi

inductive Call
  | auth (u p : Bytes)
  | update (u p : Bytes)
  | add (u p : Bytes) (admin : Bool)
  | remove (u : Bytes)
  | setAdmin (u : Bytes) (admin : Bool)
  | list
  deriving Repr, DecidableEq

/-- What the client observed. -/
inductive Ret
  | authOk (admin : Bool)
  | fail                         -- authentication denied / operation returned an error
  | ok
  | users (l : List (Bytes × Bool))   -- sorted by name
  deriving Repr, DecidableEq

abbrev Spec := List User

def mkSt (s : Spec) : St := { users := s, factory := ⟨[], 0⟩ }

def insertSorted (e : Bytes × Bool) (lt : Bytes → Bytes → Bool) : List (Bytes × Bool) → List (Bytes × Bool)
  | [] => [e]
  | x :: xs => if lt e.1 x.1 then e :: x :: xs else x :: insertSorted e lt xs

def lexLt : Bytes → Bytes → Bool
  | [], [] => false
  | [], _ :: _ => true
  | _ :: _, [] => false
  | a :: as, b :: bs => if a < b then true else if b < a then false else lexLt as bs

/-- The sequential semantics of one call. -/
def apply (s : Spec) : Call → Spec × Ret
  | .auth u p => (s, match storeAuth (mkSt s) u p with | some a => .authOk a | none => .fail)
  | .update u p => match updateUser (mkSt s) u p with | some st => (st.users, .ok) | none => (s, .fail)
  | .add u p a => match addUser (mkSt s) u p a with | some st => (st.users, .ok) | none => (s, .fail)
  | .remove u => ((removeUser (mkSt s) u).users, .ok)
  | .setAdmin u a => match setAdminUser (mkSt s) u a with | some st => (st.users, .ok) | none => (s, .fail)
  | .list => (s, .users (s.foldl (fun acc x => insertSorted (x.name, x.admin) lexLt acc) []))

structure Op where
  call : Call
  ret : Ret
  inv : Nat        -- time stamp of the invocation
  res : Nat        -- time stamp of the response (inv < res)
  deriving Repr, DecidableEq

/-- `order` (indices into `h`) is a linearization of `h` from `s0`: a permutation of all
    operations, respecting real time (an operation that responded before another was invoked
    comes first), under which every response is the sequential one. Returns the final state. -/
def replay (h : List Op) (s : Spec) : List Nat → Option Spec
  | [] => some s
  | i :: rest =>
    match h[i]? with
    | none => none
    | some op => let (s', r) := apply s op.call; if r = op.ret then replay h s' rest else none

def respectsRealTime (h : List Op) : List Nat → Bool
  | [] => true
  | i :: rest =>
    (rest.all fun j => match h[i]?, h[j]? with
      | some a, some b => !(b.res < a.inv)        -- b (later in the order) must not have finished before a began
      | _, _ => false) && respectsRealTime h rest

def isPermOfRange (n : Nat) (order : List Nat) : Bool :=
  order.length == n && (List.range n).all fun i => order.contains i

def validLin (h : List Op) (s0 : Spec) (order : List Nat) : Option Spec :=
  if isPermOfRange h.length order && respectsRealTime h order then replay h s0 order else none

/-- Search (Wing–Gong): repeatedly pick an operation that no other remaining operation precedes
    in real time and whose response matches the sequential semantics; backtrack. `fuel` = number
    of operations. Returns a linearization and its final state. -/
def search (h : List Op) : Nat → Spec → List Nat → List Nat → Option (List Nat × Spec)
  | 0, s, remaining, acc => if remaining.isEmpty then some (acc.reverse, s) else none
  | fuel + 1, s, remaining, acc =>
    if remaining.isEmpty then some (acc.reverse, s) else
    remaining.firstM fun i =>
      match h[i]? with
      | none => none
      | some op =>
        -- minimal: no other remaining operation responded before this one was invoked
        if remaining.any (fun j => j ≠ i && (match h[j]? with | some b => b.res < op.inv | none => false)) then none
        else
          let (s', r) := apply s op.call
          if r = op.ret then search h fuel s' (remaining.filter (· ≠ i)) (i :: acc) else none

/-- The checker: a linearization found by the search, re-validated by `validLin`. -/
def linCheck (h : List Op) (s0 : Spec) : Option (List Nat × Spec) :=
  match search h h.length s0 (List.range h.length) [] with
  | none => none
  | some (order, _) => (validLin h s0 order).map fun s => (order, s)

/-- Exhaustive decision procedure (no memo table): is there a linearization of `remaining`
    from `s` — minimal-first choice, response check, recursion — that ends in a state accepted
    by `final`? Complete as well as sound (`Lemmas/Lin.lean`), used to CONFIRM a rejection. -/
def searchB (h : List Op) (final : Spec → Bool) : Nat → Spec → List Nat → Bool
  | 0, s, remaining => remaining.isEmpty && final s
  | fuel + 1, s, remaining =>
    if remaining.isEmpty then final s else
    remaining.any fun i =>
      match h[i]? with
      | none => false
      | some op =>
        !(remaining.any (fun j => j ≠ i && (match h[j]? with | some b => b.res < op.inv | none => false))) &&
        ((apply s op.call).2 == op.ret) && searchB h final fuel (apply s op.call).1 (remaining.filter (· ≠ i))

/-- "No linearization ends in an accepted state" (decided exhaustively). -/
def notLinearizable (h : List Op) (s0 : Spec) (final : Spec → Bool) : Bool :=
  !searchB h final h.length s0 (List.range h.length)

/-! ### Search for a linearization that also explains the observed final state

Two overlapping updates of one user are linearizable in either order, but only one order ends
in the store content that was actually observed afterwards. `searchM` is the same Wing–Gong
search with an acceptance test on the final state and a memo table of (remaining operations,
state) pairs already found to be dead ends (Lowe's optimisation); nothing is proved about it:
its result is re-validated by `validLin` and `final` in `linCheckFinal`. -/

def searchM (h : List Op) (final : Spec → Bool) :
    Nat → Spec → List Nat → List Nat → StateM (Std.HashSet (List Nat × Spec)) (Option (List Nat × Spec))
  | 0, s, remaining, acc => pure (if remaining.isEmpty && final s then some (acc.reverse, s) else none)
  | fuel + 1, s, remaining, acc => do
    if remaining.isEmpty then
      return (if final s then some (acc.reverse, s) else none)
    if (← get).contains (remaining, s) then
      return none
    let r ← remaining.foldlM (init := (none : Option (List Nat × Spec))) fun found i =>
      match found with
      | some x => pure (some x)
      | none =>
        match h[i]? with
        | none => pure none
        | some op =>
          if remaining.any (fun j => j ≠ i && (match h[j]? with | some b => b.res < op.inv | none => false)) then pure none
          else
            let (s', ret) := apply s op.call
            if ret = op.ret then searchM h final fuel s' (remaining.filter (· ≠ i)) (i :: acc) else pure none
    if r.isNone then modify (·.insert (remaining, s))
    return r

/-- The checker used on real histories: a linearization, re-validated by `validLin`, whose final
    state passes `final` (= "is the store content observed when the agent was idle again"). -/
def linCheckFinal (h : List Op) (s0 : Spec) (final : Spec → Bool) : Option (List Nat × Spec) :=
  match (searchM h final h.length s0 (List.range h.length) []).run' {} with
  | none => none
  | some (order, _) =>
    match validLin h s0 order with
    | some s => if final s then some (order, s) else none
    | none => none

end Whawty.Lin
