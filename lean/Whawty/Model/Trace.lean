/-
  The system-call protocol of `writeHashStr`, `SetAdmin` and `Remove` (store/userhash.go) as
  event traces over the persistence model — layer L0 of DESIGN.md 4.5. Contents are symbolic:
  `line` is the new first line, `r1` the part of the old file's tail that was still in the
  bufio buffer, `r2` the part copied with copy_file_range; the new content is their
  concatenation.
-/
import Whawty.Model.Persist
namespace Whawty.Trace
open Whawty Whawty.Persist

/-- `Update`: open the target read-only, create the temporary file, write the new line and
    the old tail, fsync it, rename it over the target, fsync the base directory, return. -/
def updTrace (T : Name) (line r1 r2 : Bytes) : List Ev :=
  [.stat .A, .open 3 T, .close 3,                       -- Exists / isFormatSupported
   .open 3 T, .stat .W, .creat 6 (.tmp 1),
   .write 6 line, .write 6 r1, .write 6 r2,
   .fsync 6, .rename (.tmp 1) T,
   .open 7 .B, .fsync 7, .close 7,
   .stat (.tmp 1), .close 6, .close 3, .ack]

/-- `Add`: the final name is first reserved with O_CREAT|O_EXCL (an empty file). -/
def addTrace (T : Name) (line : Bytes) : List Ev :=
  [.stat .A, .stat .U, .creat 3 T, .mkdir .W, .creat 6 (.tmp 1),
   .write 6 line, .write 6 [],
   .fsync 6, .rename (.tmp 1) T,
   .open 7 .B, .fsync 7, .close 7,
   .stat (.tmp 1), .close 6, .close 3, .ack]

/-- `SetAdmin` (repaired code): rename, then fsync of the base directory. `sync = false` is
    the pinned code. -/
def setAdminTrace (src dst : Name) (sync : Bool) : List Ev :=
  [.stat .A, .stat .U, .rename src dst] ++ (if sync then [.open 3 .B, .fsync 3, .close 3] else []) ++ [.ack]

/-- `Remove` (repaired code): unlink both names, then fsync of the base directory. -/
def removeTrace (sync : Bool) : List Ev :=
  [.unlink .A, .unlink .U] ++ (if sync then [.open 3 .B, .fsync 3, .close 3] else []) ++ [.ack]

/-- The mutation skeleton used by the correspondence R_C08/R_C09: mutating events with
    descriptors erased and consecutive data writes merged. -/
inductive Sk
  | creat (n : Name) | mkdir (n : Name) | data | fsyncFile | fsyncDir (n : Name)
  | rename (s d : Name) | unlink (n : Name) | alien
  deriving Repr, DecidableEq

def skeletonAux (fds : List (Nat × FdT)) : List Ev → List Sk
  | [] => []
  | e :: es =>
    match e with
    | .creat fd n => .creat n :: skeletonAux (set fds fd (.file 0 0)) es
    | .open fd n => skeletonAux (if isDirName n then set fds fd (.dir n) else set fds fd (.file 0 0)) es
    | .openw _ _ _ => .alien :: skeletonAux fds es
    | .mkdir n => .mkdir n :: skeletonAux fds es
    | .write fd _ => (match lookup fds fd with | some (.file _ _) => [.data] | _ => []) ++ skeletonAux fds es
    | .copy _ _ _ => .data :: skeletonAux fds es
    | .fsync fd =>
      (match lookup fds fd with
       | some (.dir n) => [.fsyncDir n]
       | some (.file _ _) => [.fsyncFile]
       | none => []) ++ skeletonAux fds es
    | .rename a b => .rename a b :: skeletonAux fds es
    | .unlink n => .unlink n :: skeletonAux fds es
    | .close fd => skeletonAux (del fds fd) es
    | .othermut => .alien :: skeletonAux fds es
    | _ => skeletonAux fds es

def dedupData : List Sk → List Sk
  | .data :: .data :: rest => dedupData (.data :: rest)
  | x :: rest => x :: dedupData rest
  | [] => []

def skeleton (evs : List Ev) : List Sk := dedupData (skeletonAux [] evs)

end Whawty.Trace
