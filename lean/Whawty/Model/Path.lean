/-
  Byte-for-byte model of path/filepath.Clean and filepath.Join (two arguments) on Unix, as used
  by UserHash.getFilename: `filepath.Join(store.BaseDir, user) + ext`.
-/
import Whawty.Model.Basic
namespace Whawty.Path
open Whawty

def slash : Byte := 47
def dot : Bytes := [46]
def dotdot : Bytes := [46, 46]

/-- `strings.Split(p, "/")`. -/
def splitSlash : Bytes → List Bytes
  | [] => [[]]
  | c :: rest =>
    if c = slash then [] :: splitSlash rest
    else match splitSlash rest with
      | [] => [[c]]
      | x :: xs => (c :: x) :: xs

def joinSlash : List Bytes → Bytes
  | [] => []
  | [x] => x
  | x :: xs => x ++ slash :: joinSlash xs

/-- The component stack of Clean (top first): empty and "." components vanish, ".." pops a
    proper component, is dropped at the root, accumulates in a relative path. -/
def cleanStack (rooted : Bool) : List Bytes → List Bytes → List Bytes
  | st, [] => st
  | st, comp :: rest =>
    if comp = [] ∨ comp = dot then cleanStack rooted st rest
    else if comp = dotdot then
      match st with
      | top :: below => if top = dotdot then cleanStack rooted (dotdot :: st) rest else cleanStack rooted below rest
      | [] => if rooted then cleanStack rooted [] rest else cleanStack rooted [dotdot] rest
    else cleanStack rooted (comp :: st) rest

def isRooted (p : Bytes) : Bool := p.head? = some slash

/-- The components of the cleaned path, outermost first. -/
def comps (p : Bytes) : List Bytes := (cleanStack (isRooted p) [] (splitSlash p)).reverse

def render (rooted : Bool) (s : List Bytes) : Bytes :=
  if rooted then slash :: joinSlash s else if s = [] then dot else joinSlash s

/-- `filepath.Clean`. -/
def clean (p : Bytes) : Bytes := if p = [] then dot else render (isRooted p) (comps p)

/-- `filepath.Join(a, b)`. -/
def join2 (a b : Bytes) : Bytes :=
  if a = [] ∧ b = [] then [] else if a = [] then clean b else if b = [] then clean a
  else clean (a ++ slash :: b)

/-- `UserHash.getFilename`. -/
def getFilename (base user ext : Bytes) : Bytes := join2 base user ++ ext

end Whawty.Path
