/-
  Histories of store operations (used by C01 and C16): one operation, applied to a directory;
  a failing operation leaves the directory as it is.
-/
import Whawty.Model.Store
namespace Whawty.Store
open Whawty Whawty.Rec

/-- Operations of a history (salts and the clock are what the run observed). -/
inductive Op
  | add (u pw : Bytes) (adm : Bool) (now : Int) (salt : Bytes)
  | update (u pw : Bytes) (now : Int) (salt : Bytes)
  | setAdmin (u : Bytes) (st : Bool)
  | remove (u : Bytes)
  deriving Repr

def Op.user : Op → Bytes
  | .add u .. => u | .update u .. => u | .setAdmin u _ => u | .remove u => u

/-- One operation; a failing operation leaves the directory as it is. -/
def step (c : Cfg) (d : Dir) : Op → Dir
  | .add u pw adm now salt => match add c d u pw adm now salt with | .ok d' => d' | .error _ => d
  | .update u pw now salt => match update c d u pw now salt with | .ok d' => d' | .error _ => d
  | .setAdmin u st => match setAdmin d u st with | .ok d' => d' | .error _ => d
  | .remove u => remove d u

def run (c : Cfg) (d : Dir) (h : List Op) : Dir := h.foldl (step c) d

end Whawty.Store
