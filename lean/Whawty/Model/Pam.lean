/-
  Model of pam/pam_whawty.c: password retrieval options, `_whawty_send_request`,
  `_whawty_read_data`, `_whawty_recv_response`, `_whawty_check_password`.
  The server is a script of what the client's select()/read() observe.
-/
import Whawty.Model.Sasl
namespace Whawty.Pam
open Whawty

/-- PAM return codes used by the module (Linux-PAM values). -/
def PAM_SUCCESS : Nat := 0
def PAM_AUTH_ERR : Nat := 7
def PAM_AUTHINFO_UNAVAIL : Nat := 9
def PAM_AUTHTOK_RECOVERY_ERR : Nat := 21

/-- What the client observes on the socket, in order. -/
inductive SrvEv
  | data (b : Bytes)     -- bytes become readable
  | timeout              -- nothing happens for longer than the module's timeout
  | eof                  -- the server closed / reset the connection
  | intr                 -- select() is interrupted by a signal (returns -1 / EINTR: the read gives up)
  deriving Repr, DecidableEq

inductive ReadRes
  | full (got : Bytes) (rest : List SrvEv)   -- all requested bytes arrived
  | short (got : Bytes)                      -- EOF / error before that: returns the offset
  | timedOut                                 -- select() timed out: returns 0
  deriving Repr, DecidableEq

/-- `_whawty_read_data(sock, buf, need)` for `need > 0`; `acc` = bytes read so far.
    The end of the script counts as EOF. -/
def readN : Nat → List SrvEv → Bytes → ReadRes
  | _, [], acc => .short acc
  | _, .timeout :: _, _ => .timedOut
  | _, .eof :: _, acc => .short acc
  | _, .intr :: _, _ => .timedOut        -- returns -1 instead of 0: equally "not the number of bytes asked for"
  | need, .data b :: rest, acc =>
    if need ≤ b.length then .full (acc ++ b.take need) (.data (b.drop need) :: rest)
    else readN (need - b.length) rest (acc ++ b)

/-- Number of select()/read() rounds `readN` performs (each is bounded by the timeout). -/
def readRounds : Nat → List SrvEv → Nat
  | _, [] => 1
  | _, .timeout :: _ => 1
  | _, .eof :: _ => 1
  | _, .intr :: _ => 1
  | need, .data b :: rest => if need ≤ b.length then 1 else 1 + readRounds (need - b.length) rest

/-- What select() reports next: empty chunks are no events. -/
def nextEv : List SrvEv → Option SrvEv
  | [] => none
  | .data [] :: r => nextEv r
  | e :: _ => some e

/-- The announced length is zero and the wait for the (empty) body is interrupted by a signal:
    `_whawty_read_data(sock, buf, 0)` still calls select() once; interrupted, it returns -1 ≠ 0. -/
def zeroLenInterrupted (evs : List SrvEv) : Bool :=
  match readN 2 evs [] with
  | .full [hi, lo] rest => min (be16val hi lo) 256 = 0 && nextEv rest = some .intr
  | _ => false

/-- `_whawty_recv_response` followed by the `strncmp("OK", response, 2)` test, for every script
    except the one singled out by `zeroLenInterrupted`. -/
def recvVerdictCore (evs : List SrvEv) : Nat :=
  match readN 2 evs [] with
  | .full [hi, lo] rest =>
    let l := min (be16val hi lo) 256
    if l = 0 then PAM_AUTH_ERR           -- zeroed buffer does not start with "OK"
    else match readN l rest [] with
      | .full resp _ => if resp.take 2 = Sasl.okB then PAM_SUCCESS else PAM_AUTH_ERR
      | _ => PAM_AUTHINFO_UNAVAIL
  | _ => PAM_AUTHINFO_UNAVAIL

/-- `_whawty_recv_response` followed by the `strncmp("OK", response, 2)` test. -/
def recvVerdict (evs : List SrvEv) : Nat :=
  if zeroLenInterrupted evs then PAM_AUTHINFO_UNAVAIL else recvVerdictCore evs

/-- A C string stops at the first NUL. -/
def cstr (b : Bytes) : Bytes := b.takeWhile (· ≠ 0)

structure Input where
  user : Bytes
  useFirstPass : Bool
  tryFirstPass : Bool
  stack : Option Bytes        -- PAM_AUTHTOK already on the stack
  conv : Option Bytes         -- what the conversation function would return
  connectOk : Bool
  server : List SrvEv

/-- `_whawty_get_password`. -/
def getPassword (i : Input) : Except Nat Bytes :=
  let viaConv : Except Nat Bytes :=
    match i.conv with
    | some p => .ok p
    | none => .error PAM_AUTHTOK_RECOVERY_ERR
  if i.useFirstPass || i.tryFirstPass then
    match i.stack with
    | some p => .ok p
    | none => if i.useFirstPass then .error PAM_AUTHTOK_RECOVERY_ERR else viaConv
  else viaConv

/-- `pam_sm_authenticate`: return code and the bytes written to the socket. -/
def authenticate (i : Input) : Nat × Bytes :=
  match getPassword i with
  | .error e => (e, [])
  | .ok pw =>
    if !i.connectOk then (PAM_AUTHINFO_UNAVAIL, [])
    else (recvVerdict i.server, Sasl.pamEncode (cstr i.user) (cstr pw))

/-- What the PAM module makes of a complete server reply `reply` followed by close. -/
def verdictOfReply (reply : Bytes) : Nat := recvVerdict [.data reply, .eof]

end Whawty.Pam
