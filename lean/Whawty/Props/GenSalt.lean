/-
  The regenerated tie (argon2id salt size): `Whawty/Gen/Facts.lean` is written on every run by the translator
  `harness/cmd/factgen` from /repo's CURRENT source. The theorems below connect what the source
  says now with the constants the hand-written model uses; a source edit that changes them breaks
  this module (a broken proof obligation: the check then searches for a failing input with the
  ordinary suites). The four Gen* modules are separate so that an edit breaks only the properties
  that depend on the fact in question.
-/
import Whawty.Gen.Facts
namespace Whawty.Gen.Tie
open Whawty Whawty.Gen

/-- The salt size of argon2id records (the schema's 16 bytes). -/
theorem argon2_salt_size : argon2SaltLen = some 16 := by decide

end Whawty.Gen.Tie
