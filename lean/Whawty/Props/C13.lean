/-
  C13 — saslauthd wire codec: exact format, lossless round trip, fragment-independent.
  Property theorems only; helper lemmas live in Whawty/Lemmas/Sasl.lean.
-/
import Whawty.Lemmas.Sasl
namespace Whawty.Sasl.C13

def fieldsOk (r : Request) : Prop :=
  r.login.length ≤ maxLen ∧ r.password.length ≤ maxLen ∧ r.service.length ≤ maxLen ∧ r.realm.length ≤ maxLen

/-- Wire format of a request: four fields, each a 16-bit big-endian length and the bytes. -/
theorem wire_format_request (r : Request) (h : fieldsOk r) :
    r.encode = some (be16 r.login.length ++ r.login ++ (be16 r.password.length ++ r.password ++
      (be16 r.service.length ++ r.service ++ (be16 r.realm.length ++ r.realm ++ [])))) := by
  obtain ⟨h1, h2, h3, h4⟩ := h
  unfold maxLen at *
  have a1 : ¬ r.login.length > 256 := by omega
  have a2 : ¬ r.password.length > 256 := by omega
  have a3 : ¬ r.service.length > 256 := by omega
  have a4 : ¬ r.realm.length > 256 := by omega
  have b1 : ¬ r.login.length > 65535 := by omega
  have b2 : ¬ r.password.length > 65535 := by omega
  have b3 : ¬ r.service.length > 65535 := by omega
  have b4 : ¬ r.realm.length > 65535 := by omega
  simp [Request.encode, maxLen, encodeParts, a1, a2, a3, a4, b1, b2, b3, b4]

/-- Wire format of a response: one part whose text is OK/NO, optionally a space and a message. -/
theorem wire_format_response (r : Response) (h : r.text.length ≤ 65535) :
    r.encode = some (be16 r.text.length ++ r.text) ∧
    r.text = (if r.result then [79, 75] /- "OK" -/ else [78, 79] /- "NO" -/) ++
             (if r.message = [] then [] else 32 /- ' ' -/ :: r.message) := by
  have : ¬ r.text.length > 65535 := by omega
  refine ⟨by simp [Response.encode, encodeParts, this], ?_⟩
  simp only [Response.text, okB, noB]
  cases r.result <;> cases hm : r.message <;> simp

/-- An over-limit request field is refused by the encoder. -/
theorem overlimit_refused_encode (r : Request) (h : ¬ fieldsOk r) : r.encode = none := by
  unfold fieldsOk at h
  simp only [Request.encode]
  split; · rfl
  split; · rfl
  split; · rfl
  split; · rfl
  omega

/-- An over-limit length prefix is refused by the split function, at EOF or not, whatever
    follows; hence by the decoder whenever it is the prefix of one of the parts it needs. -/
theorem overlimit_refused_scan (hi lo : Byte) (rest : Bytes) (e : Bool)
    (h : be16val hi lo > maxLen) : scan (hi :: lo :: rest) e = .err := by
  simp [scan, h]

theorem overlimit_refused_decode (k : Nat) (s : Bytes) (ps : List Bytes) (n : Nat)
    (h : decodePure k s = some (ps, n)) : ∀ p ∈ ps, p.length ≤ maxLen :=
  (encodeParts_of_decodePure k s ps n h).2.1

/-- Decoding an encoded request (followed by arbitrary trailing bytes) returns the identical
    field values and consumes exactly the encoder's output. -/
theorem decode_encode_request (r : Request) (enc rest : Bytes) (hf : fieldsOk r)
    (hl : r.login ≠ []) (hp : r.password ≠ []) (henc : r.encode = some enc) :
    Request.decode (enc ++ rest) = some (r, enc.length) := by
  obtain ⟨h1, h2, h3, h4⟩ := hf
  have a1 : ¬ r.login.length > maxLen := by omega
  have a2 : ¬ r.password.length > maxLen := by omega
  have a3 : ¬ r.service.length > maxLen := by omega
  have a4 : ¬ r.realm.length > maxLen := by omega
  simp only [Request.encode, a1, a2, a3, a4, if_false] at henc
  have hlen : ∀ p ∈ [r.login, r.password, r.service, r.realm], p.length ≤ maxLen := by
    intro p hp; simp at hp; rcases hp with rfl | rfl | rfl | rfl <;> assumption
  have := decodePure_encodeParts _ enc rest hlen henc
  simp only [List.length_cons, List.length_nil] at this
  simp only [Request.decode, this, Request.ofParts]
  cases hl' : r.login with
  | nil => exact absurd hl' hl
  | cons a as =>
    cases hp' : r.password with
    | nil => exact absurd hp' hp
    | cons b bs => cases r; simp_all

/-- Decoding an encoded response whose text fits the part limit returns verdict and message. -/
theorem decode_encode_response (r : Response) (enc rest : Bytes) (h : r.text.length ≤ maxLen)
    (henc : r.encode = some enc) : Response.decode (enc ++ rest) = some r := by
  have hlen : ∀ p ∈ [r.text], p.length ≤ maxLen := by intro p hp; simp at hp; subst hp; exact h
  have := decodePure_encodeParts _ enc rest hlen henc
  simp only [List.length_cons, List.length_nil] at this
  simp only [Response.decode, this]
  cases r with
  | mk res msg =>
    cases res <;> cases msg <;> simp [Response.ofText, Response.text, okB, noB]

/-- A successfully decoded request re-encodes to exactly the bytes that were consumed. -/
theorem reencode_consumed (s : Bytes) (r : Request) (n : Nat)
    (h : Request.decode s = some (r, n)) : r.encode = some (s.take n) := by
  simp only [Request.decode] at h
  split at h
  · rename_i ps n' hd
    obtain ⟨henc, hlen, hk, _⟩ := encodeParts_of_decodePure 4 s ps n' hd
    match ps, hk with
    | [l, p, sv, rl], _ =>
      simp only [Request.ofParts] at h
      split at h
      · simp at h
      · simp only [Option.map_some, Option.some.injEq, Prod.mk.injEq] at h
        obtain ⟨hr, hn⟩ := h
        subst hr; subst hn
        have a1 := hlen l (by simp)
        have a2 := hlen p (by simp)
        have a3 := hlen sv (by simp)
        have a4 := hlen rl (by simp)
        have b1 : ¬ l.length > maxLen := by omega
        have b2 : ¬ p.length > maxLen := by omega
        have b3 : ¬ sv.length > maxLen := by omega
        have b4 : ¬ rl.length > maxLen := by omega
        simp only [Request.encode, b1, b2, b3, b4, if_false]
        exact henc
  · simp at h

/-- The decoders' result depends only on the byte stream, never on its fragmentation into
    reads (any number of chunks, including empty ones = zero-length reads; EOF after the
    last chunk or delivered with it) — for every fragmentation a reader that makes progress
    produces: at most `maxEmptyReads` = 100 zero-length reads in a row (`stallFree`). -/
theorem fragment_independent_request (cs : List Bytes) (h : stallFree 0 cs = true) :
    Request.decodeChunked cs = Request.decode cs.flatten := by
  simp [Request.decodeChunked, Request.decode, decodeScan_eq_decodeChunks _ _ _ _ h, decodeChunks_eq_decodePure]

theorem fragment_independent_response (cs : List Bytes) (h : stallFree 0 cs = true) :
    Response.decodeChunked cs = Response.decode cs.flatten := by
  simp [Response.decodeChunked, Response.decode, decodeScan_eq_decodeChunks _ _ _ _ h, decodeChunks_eq_decodePure]

/-- For readers that never return zero bytes (sockets, pipes, files) there is no side condition. -/
theorem fragment_independent_nonempty_reads (cs : List Bytes) (h : ∀ c ∈ cs, c ≠ []) :
    Request.decodeChunked cs = Request.decode cs.flatten ∧ Response.decodeChunked cs = Response.decode cs.flatten :=
  ⟨fragment_independent_request cs (stallFree_of_nonempty cs h 0), fragment_independent_response cs (stallFree_of_nonempty cs h 0)⟩

/-- Two fragmentations of the same stream decode alike. -/
theorem fragment_independent (cs ds : List Bytes) (h : cs.flatten = ds.flatten)
    (hc : stallFree 0 cs = true) (hd : stallFree 0 ds = true) :
    Request.decodeChunked cs = Request.decodeChunked ds ∧
    Response.decodeChunked cs = Response.decodeChunked ds := by
  simp [fragment_independent_request, fragment_independent_response, h, hc, hd]

/-- The one way fragmentation does matter (bufio's guard against a reader that makes no
    progress): when the stream read so far is incomplete and 101 zero-length reads follow in a
    row, the decoder fails closed — it never invents a request. -/
theorem stalled_reader_is_refused (first : Bytes) (rest : List Bytes) (n : Nat) (hn : n > maxEmptyReads)
    (hm : scan first false = .more) (hne : first ≠ []) :
    Request.decodeChunked (first :: (List.replicate n [] ++ rest)) = none := by
  have h0 : scan ([] : Bytes) false = .more := by simp [scan]
  have hf : first.isEmpty = false := by simpa using hne
  unfold Request.decodeChunked decodeScan
  simp only [h0, hf, Bool.false_eq_true, if_false, List.nil_append]
  rw [decodeScan_stalled 3 first rest hm n 0 (by unfold maxEmptyReads; omega) (by omega)]

/-- Whatever the fragmentation, stalls included: a request the chunked decoder returns is the
    request the stream decodes to (the guard can only turn a result into an error). -/
theorem chunked_result_is_stream_result (cs : List Bytes) (r : Request × Nat)
    (h : Request.decodeChunked cs = some r) : Request.decode cs.flatten = some r := by
  have key : ∀ (k : Nat) (buf : Bytes) (cs : List Bytes) (e : Nat) (x : List Bytes × Nat),
      decodeScan k buf cs e = some x → decodeChunks k buf cs = some x := by
    intro k buf cs e
    fun_induction decodeScan k buf cs e with
    | case1 => intro x hx; simpa [decodeChunks] using hx
    | case2 k buf e adv p hs ih =>
      intro x hx
      simp only [decodeChunks, hs]
      simp only [Option.map_eq_some_iff] at hx ⊢
      obtain ⟨y, hy, rfl⟩ := hx
      exact ⟨y, ih y hy, rfl⟩
    | case3 k buf e hs => intro x hx; simp at hx
    | case4 k buf c cs e adv p hs ih =>
      intro x hx
      simp only [decodeChunks, hs]
      simp only [Option.map_eq_some_iff] at hx ⊢
      obtain ⟨y, hy, rfl⟩ := hx
      exact ⟨y, ih y hy, rfl⟩
    | case5 => intro x hx; simp at hx
    | case6 => intro x hx; simp at hx
    | case7 k buf c cs e hc hle h1 h2 ih =>
      intro x hx
      have hce : c = [] := by simpa using hc
      subst hce
      have := ih x hx
      conv => lhs; unfold decodeChunks
      split
      · rename_i adv p hh; exact absurd hh (h1 adv p)
      · rename_i hh; exact absurd hh h2
      · simpa using this
    | case8 k buf c cs e hc h1 h2 ih =>
      intro x hx
      have := ih x hx
      conv => lhs; unfold decodeChunks
      split
      · rename_i adv p hh; exact absurd hh (h1 adv p)
      · rename_i hh; exact absurd hh h2
      · exact this
  unfold Request.decodeChunked at h
  unfold Request.decode
  split at h
  · rename_i ps n hd
    have := key 4 [] cs 0 (ps, n) hd
    rw [decodeChunks_eq_decodePure] at this
    simp only [List.nil_append] at this
    simp only [this]; exact h
  · simp at h

/-- The PAM module's request bytes are the Go encoder's bytes for the clipped fields. -/
theorem pam_encoder_agrees (user pw : Bytes) :
    (Request.mk (user.take 256) (pw.take 256) [] []).encode = some (pamEncode user pw) := by
  have h : fieldsOk (Request.mk (user.take 256) (pw.take 256) [] []) := by
    simp [fieldsOk, maxLen, List.length_take]; omega
  rw [wire_format_request _ h]
  simp [pamEncode, pamPart, List.length_take, Nat.min_comm]

/- Non-vacuity: concrete non-trivial instances of the hypotheses. -/
example : fieldsOk ⟨[97, 108, 105, 99, 101], [115, 51], [105, 109, 97, 112], []⟩ := by
  simp [fieldsOk, maxLen]
example : Request.decodeChunked [[0], [5, 97], [108, 105], [], [99, 101, 0, 1], [120, 0, 0, 0, 0, 7]]
    = some (⟨[97, 108, 105, 99, 101], [120], [], []⟩, 14) := by
  rw [fragment_independent_request _ (by decide)]; decide
-- a run of exactly 100 zero-length reads is still a well-behaved reader; 101 are not
example : stallFree 0 ([0] :: (List.replicate 100 [] ++ [[1, 65]])) = true := by decide
example : stallFree 0 ([0] :: (List.replicate 101 [] ++ [[1, 65]])) = false := by decide
example : Request.decode [1, 1, 0] = none := by decide   -- 257-byte length prefix

end Whawty.Sasl.C13
