/-
  C01 — Password verdict tracks the last acknowledged write, for every history.
  `digest` is the parameter set's (uninterpreted) digest function; "P is the last password"
  is `ps.digest salt P = ps.digest salt P₀`, and `keyEquiv` below explains which passwords
  the schema's own algorithm cannot tell apart.
-/
import Whawty.Lemmas.Store
namespace Whawty.Store.C01
open Whawty Whawty.Rec Whawty.Store

/-- Well-formedness of a configuration and of the clock that the theorems need (format ids
    without ':' / newline, ids and times in the machine ranges). -/
structure CfgOk (c : Cfg) : Prop where
  defaultLt : c.default < 2 ^ 64
  plain : ∀ id ps, c.lookup id = some ps → ∀ ch ∈ ps.formatId, ch ≠ colon ∧ ch ≠ nl

def timeOk (now : Int) : Prop := -(2 ^ 63 : Int) ≤ now ∧ now < 2 ^ 63

/-- After a successful add of `u` with password `pw`, authenticating `u` with `p` succeeds
    exactly when `p` has the digest of `pw` (under the written salt and the default set), and
    reports the admin flag and time of that write; the hash is not upgradeable. -/
theorem add_then_auth {c : Cfg} {d d' : Dir} {u pw salt : Bytes} {adm : Bool} {now : Int}
    (h : add c d u pw adm now salt = .ok d') (hc : CfgOk c) (ht : timeOk now) :
    ∃ ps, c.lookup c.default = some ps ∧ ∀ p, authenticate c d' u p =
      if ps.digest salt p = ps.digest salt pw then .ok ⟨adm, false, now⟩ else .error .wrongPassword := by
  obtain ⟨ps, dt, a, he, hps, htmp, hd'⟩ := add_ok h
  refine ⟨ps, hps, fun p => ?_⟩
  subst hd'
  have hex := exists_after_write (a := adm) (x := .file (newContent ps c.default now salt pw [])) he (by simp) htmp
  simp only [authenticate, hex, get_put_self,
    authFile_newContent c ps now salt pw [] p hps (hc.plain _ _ hps) ht.1 ht.2 hc.defaultLt]
  by_cases hq : ps.digest salt p = ps.digest salt pw <;> simp [hq]

/-- The same for update; the admin flag is the one the user had. -/
theorem update_then_auth {c : Cfg} {d d' : Dir} {u pw salt : Bytes} {now : Int}
    (h : update c d u pw now salt = .ok d') (hc : CfgOk c) (ht : timeOk now) :
    ∃ ps a, c.lookup c.default = some ps ∧ exists_ d u = .ok (true, a) ∧ ∀ p, authenticate c d' u p =
      if ps.digest salt p = ps.digest salt pw then .ok ⟨a, false, now⟩ else .error .wrongPassword := by
  obtain ⟨ps, dt, a, old, he, hold, hs, hps, htmp, hd'⟩ := update_ok h
  refine ⟨ps, a, hps, he, fun p => ?_⟩
  subst hd'
  have hex := exists_after_write (a := a) (x := .file (newContent ps c.default now salt pw old)) he (by simp) htmp
  simp only [authenticate, hex, get_put_self,
    authFile_newContent c ps now salt pw old p hps (hc.plain _ _ hps) ht.1 ht.2 hc.defaultLt]
  by_cases hq : ps.digest salt p = ps.digest salt pw <;> simp [hq]

/-- Operations on `u` do not change what any other user `v` is or authenticates with. -/
theorem add_other_user {c : Cfg} {d d' : Dir} {u v pw salt : Bytes} {adm : Bool} {now : Int}
    (h : add c d u pw adm now salt = .ok d') (huv : v ≠ u) : sameUser d d' v := by
  obtain ⟨ps, dt, a, _, _, htmp, hd'⟩ := add_ok h
  subst hd'; exact sameUser_of_put htmp huv

theorem update_other_user {c : Cfg} {d d' : Dir} {u v pw salt : Bytes} {now : Int}
    (h : update c d u pw now salt = .ok d') (huv : v ≠ u) : sameUser d d' v := by
  obtain ⟨ps, dt, a, old, _, _, _, _, htmp, hd'⟩ := update_ok h
  subst hd'; exact sameUser_of_put htmp huv

theorem remove_other_user (d : Dir) {u v : Bytes} (huv : v ≠ u) : sameUser d (remove d u) v := by
  unfold remove
  split
  · exact ⟨rfl, rfl⟩
  · constructor
    · rw [get_del_ne _ (fun e => append_adminExt_ne_userExt v u e),
        get_del_ne _ (fun e => huv (append_ext_inj e))]
    · rw [get_del_ne _ (fun e => huv (append_ext_inj e)),
        get_del_ne _ (fun e => append_adminExt_ne_userExt u v e.symm)]

theorem setAdmin_other_user {d d' : Dir} {u v : Bytes} {st : Bool}
    (h : setAdmin d u st = .ok d') (huv : v ≠ u) : sameUser d d' v := by
  unfold setAdmin at h
  split at h
  · simp at h
  · simp at h
  · rename_i a he
    split at h
    · injection h with h; subst h; exact ⟨rfl, rfl⟩
    · simp only at h
      split at h
      · simp at h
      · simp at h
      · rename_i x _ _ _ _
        injection h with h; subst h
        have e1 : v ++ adminExt = fileName v true := by simp [fileName]
        have e2 : v ++ userExt = fileName v false := by simp [fileName]
        constructor
        · rw [e1, get_put_ne _ _ (fileName_ne true st huv), get_del_ne _ (fileName_ne true a huv)]
        · rw [e2, get_put_ne _ _ (fileName_ne false st huv), get_del_ne _ (fileName_ne false a huv)]
      · simp at h

/-- Hence their verdicts, admin flags, times and existence are untouched. -/
theorem other_user_verdict_unchanged (c : Cfg) {d d' : Dir} {v : Bytes} (h : sameUser d d' v) (p : Bytes) :
    authenticate c d' v p = authenticate c d v p ∧ exists_ d' v = exists_ d v :=
  ⟨(sameUser_authenticate c h p).symm, (sameUser_exists h).symm⟩

/-- After remove the user does not exist and nothing authenticates. -/
theorem remove_then_absent (c : Cfg) (d : Dir) (u p : Bytes) :
    ∃ e, authenticate c (remove d u) u p = .error e := by
  by_cases hv : validName u = true
  · have hr := C02_remove (d := d) hv
    by_cases hl : u.length + adminExt.length > nameMax
    · exact ⟨.io, by simp [authenticate, exists_, hv, hl]⟩
    · exact ⟨.noent, by simp [authenticate, exists_, hv, hl, has, hr.1, hr.2]⟩
  · exact ⟨.invalidName, by simp [authenticate, exists_, hv]⟩
where
  C02_remove {d : Dir} {u : Bytes} (hv : validName u = true) :
      get (remove d u) (u ++ adminExt) = none ∧ get (remove d u) (u ++ userExt) = none := by
    simp only [remove, hv, Bool.not_true, Bool.false_eq_true, if_false]
    exact ⟨by rw [get_del_ne _ (append_adminExt_ne_userExt u u), get_del_self], by rw [get_del_self]⟩

/-- The key equivalence inherent in PBKDF2-HMAC (scrypt parameter sets): the password enters
    only through HMAC's 64-byte key block. `H` is SHA-256 (abstract, 32-byte output). -/
def hmacKeyBlock (H : Bytes → Bytes) (key : Bytes) : Bytes :=
  let k := if key.length > 64 then H key else key
  k ++ List.replicate (64 - k.length) 0

/-- Trailing NUL bytes are not told apart (up to the block size) … -/
theorem keyEquiv_trailing_nul (H : Bytes → Bytes) (p : Bytes) (k : Nat) (h : p.length + k ≤ 64) :
    hmacKeyBlock H (p ++ List.replicate k 0) = hmacKeyBlock H p := by
  have h1 : ¬ p.length + k > 64 := by omega
  have h2 : ¬ p.length > 64 := by omega
  simp only [hmacKeyBlock, List.length_append, List.length_replicate, h1, h2, if_false, List.append_assoc,
    List.replicate_append_replicate]
  congr 2; omega

/-- … and a password over 64 bytes is not told apart from its SHA-256 digest. -/
theorem keyEquiv_long_password (H : Bytes → Bytes) (p : Bytes) (hp : p.length > 64)
    (hH : (H p).length = 32) : hmacKeyBlock H (H p) = hmacKeyBlock H p := by
  have h1 : ¬ (H p).length > 64 := by omega
  simp [hmacKeyBlock, hp, h1]

/-- Passwords the digest functions of all configured sets do not tell apart (for scrypt sets:
    passwords with the same key block) get the same answer in every store state. -/
theorem keyEquiv_same_verdict (c : Cfg) (d : Dir) (u p q : Bytes)
    (hdig : ∀ id ps, c.lookup id = some ps → ∀ salt, ps.digest salt p = ps.digest salt q) :
    authenticate c d u p = authenticate c d u q := by
  have hfile : ∀ b, authFile c b p = authFile c b q := by
    intro b
    simp only [authFile]
    split
    · rfl
    · split
      · rfl
      · rename_i ps hl
        have : ∀ hs, checkDigest ps p hs = checkDigest ps q hs := by
          intro hs
          simp only [checkDigest]
          split
          · rename_i salt hash _; rw [hdig _ ps hl salt]
          · rfl
        simp only [this]
  simp only [authenticate, hfile]

end Whawty.Store.C01

namespace Whawty.Store.C01
open Whawty Whawty.Rec Whawty.Store

/-- "The verdict for `u` is: exactly the passwords with the digest of `pw0` (under `salt0` and
    the set `ps`), time `now0`, some admin flag." -/
def Tracks (c : Cfg) (d : Dir) (u : Bytes) (ps : ParamSet) (salt0 pw0 : Bytes) (now0 : Int) : Prop :=
  ∃ a, ∀ p, authenticate c d u p =
    if ps.digest salt0 p = ps.digest salt0 pw0 then .ok ⟨a, false, now0⟩ else .error .wrongPassword

theorem tracks_step (c : Cfg) (d : Dir) (u : Bytes) (ps : ParamSet) (salt0 pw0 : Bytes) (now0 : Int) (op : Op)
    (h : Tracks c d u ps salt0 pw0 now0)
    (hop : op.user ≠ u ∨ (∃ st, op = .setAdmin u st) ∨ ∃ pw adm now salt, op = .add u pw adm now salt) :
    Tracks c (step c d op) u ps salt0 pw0 now0 := by
  obtain ⟨a, ha⟩ := h
  rcases hop with hne | ⟨st, rfl⟩ | ⟨pw, adm, now, salt, rfl⟩
  · -- an operation on another user: u's files are untouched
    have hs : sameUser d (step c d op) u := by
      cases op with
      | add v pw adm now salt =>
        simp only [step]
        cases hadd : add c d v pw adm now salt with
        | error e => exact ⟨rfl, rfl⟩
        | ok d' => exact add_other_user hadd (fun e => hne e.symm)
      | update v pw now salt =>
        simp only [step]
        cases hup : update c d v pw now salt with
        | error e => exact ⟨rfl, rfl⟩
        | ok d' => exact update_other_user hup (fun e => hne e.symm)
      | setAdmin v st =>
        simp only [step]
        cases hsa : setAdmin d v st with
        | error e => exact ⟨rfl, rfl⟩
        | ok d' => exact setAdmin_other_user hsa (fun e => hne e.symm)
      | remove v => exact remove_other_user d (fun e => hne e.symm)
    exact ⟨a, fun p => by rw [← sameUser_authenticate c hs p]; exact ha p⟩
  · -- set-admin of u itself: only the reported admin flag changes
    simp only [step]
    cases hsa : setAdmin d u st with
    | error e => exact ⟨a, ha⟩
    | ok d' =>
      refine ⟨st, fun p => ?_⟩
      rw [setAdmin_authenticate c hsa p, ha p]
      by_cases hq : ps.digest salt0 p = ps.digest salt0 pw0 <;> simp [hq]
  · -- an add of u itself: u exists (its password authenticates), so the add fails and changes nothing
    have hauth := ha pw0
    simp only [if_true] at hauth
    obtain ⟨a', b, up, ts, he, _, _, _⟩ := (authenticate_ok_iff c d u pw0 _).1 hauth
    have : add c d u pw adm now salt = .error .exists_ := by simp [add, he]
    simp only [step, this]
    exact ⟨a, ha⟩

/-- **Verdict tracks the last acknowledged write, for every history.** After a successful add
    or update of `u` with password `pw0`, followed by ANY finite history of operations none of
    which is an update or remove of `u` itself (operations on any other users, set-admin of
    `u`, further — necessarily failing — adds of `u`; successful or failing), authenticating
    `u` with `p` succeeds exactly when `p` has the digest of `pw0` — and reports the time of
    that write. (An update of `u` in the remainder either succeeds, and is then itself the most
    recent write, or fails on the work area and changes nothing: `step`.) -/
theorem verdict_tracks_last_write {c : Cfg} {d0 : Dir} {u pw0 salt0 : Bytes} {now0 : Int} (w : Op)
    (hw : (∃ adm, w = .add u pw0 adm now0 salt0 ∧ ∃ d', add c d0 u pw0 adm now0 salt0 = .ok d') ∨
          (w = .update u pw0 now0 salt0 ∧ ∃ d', update c d0 u pw0 now0 salt0 = .ok d'))
    (hc : CfgOk c) (ht : timeOk now0) (h2 : List Op)
    (hh : ∀ op ∈ h2, op.user ≠ u ∨ (∃ st, op = .setAdmin u st) ∨ ∃ pw adm now salt, op = .add u pw adm now salt) :
    ∃ ps, c.lookup c.default = some ps ∧ Tracks c (run c (step c d0 w) h2) u ps salt0 pw0 now0 := by
  -- the write itself
  have h1 : ∃ ps, c.lookup c.default = some ps ∧ Tracks c (step c d0 w) u ps salt0 pw0 now0 := by
    rcases hw with ⟨adm, rfl, d', hadd⟩ | ⟨rfl, d', hup⟩
    · obtain ⟨ps, hps, hauth⟩ := add_then_auth hadd hc ht
      exact ⟨ps, hps, adm, by simpa [step, hadd] using hauth⟩
    · obtain ⟨ps, a, hps, _, hauth⟩ := update_then_auth hup hc ht
      exact ⟨ps, hps, a, by simpa [step, hup] using hauth⟩
  obtain ⟨ps, hps, htr⟩ := h1
  refine ⟨ps, hps, ?_⟩
  -- the rest of the history
  generalize step c d0 w = d at htr
  induction h2 generalizing d with
  | nil => exact htr
  | cons op rest ih =>
    simp only [run, List.foldl]
    exact ih (fun o ho => hh o (by simp [ho])) (step c d op) (tracks_step c d u ps salt0 pw0 now0 op htr (hh op (by simp)))

/-- Near-miss passwords never succeed unless the parameter set's digest function itself maps
    them to the same digest: immediate from the theorem above (the verdict is digest equality). -/
theorem near_miss_fails {c : Cfg} {d : Dir} {u : Bytes} {ps : ParamSet} {salt0 pw0 p : Bytes} {now0 : Int}
    (h : Tracks c d u ps salt0 pw0 now0) (hne : ps.digest salt0 p ≠ ps.digest salt0 pw0) :
    authenticate c d u p = .error .wrongPassword := by
  obtain ⟨a, ha⟩ := h
  rw [ha p]; simp [hne]


/-- `u` has no file at all. -/
def Absent (d : Dir) (u : Bytes) : Prop := get d (u ++ adminExt) = none ∧ get d (u ++ userExt) = none

theorem absent_exists {d : Dir} {u : Bytes} (h : Absent d u) :
    exists_ d u = .ok (false, false) ∨ ∃ e, exists_ d u = .error e := by
  unfold exists_
  by_cases hv : validName u = true
  · by_cases hl : u.length + adminExt.length > nameMax
    · exact Or.inr ⟨.io, by simp [hv, hl]⟩
    · exact Or.inl (by simp [hv, hl, has, h.1, h.2])
  · exact Or.inr ⟨.invalidName, by simp [hv]⟩

theorem absent_auth_fails (c : Cfg) {d : Dir} {u : Bytes} (h : Absent d u) (p : Bytes) :
    ∃ e, authenticate c d u p = .error e := by
  rcases absent_exists h with he | ⟨e, he⟩
  · exact ⟨.noent, by simp [authenticate, he]⟩
  · exact ⟨e, by simp [authenticate, he]⟩

theorem absent_step (c : Cfg) (d : Dir) (u : Bytes) (op : Op) (h : Absent d u)
    (hop : ∀ pw adm now salt, op ≠ .add u pw adm now salt) : Absent (step c d op) u := by
  by_cases hne : op.user = u
  · cases op with
    | add v pw adm now salt => simp only [Op.user] at hne; subst hne; exact absurd rfl (hop pw adm now salt)
    | update v pw now salt =>
      simp only [Op.user] at hne; subst hne
      have : ∃ e, update c d v pw now salt = .error e := by
        rcases absent_exists h with he | ⟨e, he⟩
        · exact ⟨.noent, by simp [update, he]⟩
        · exact ⟨e, by simp [update, he]⟩
      obtain ⟨e, he⟩ := this
      simp only [step, he]; exact h
    | setAdmin v st =>
      simp only [Op.user] at hne; subst hne
      have : ∃ e, setAdmin d v st = .error e := by
        rcases absent_exists h with he | ⟨e, he⟩
        · exact ⟨.noent, by simp [setAdmin, he]⟩
        · exact ⟨e, by simp [setAdmin, he]⟩
      obtain ⟨e, he⟩ := this
      simp only [step, he]; exact h
    | remove v =>
      simp only [Op.user] at hne; subst hne
      simp only [step, remove]
      split
      · exact h
      · exact ⟨by rw [get_del_ne _ (append_adminExt_ne_userExt v v), get_del_self], by rw [get_del_self]⟩
  · have hs : sameUser d (step c d op) u := by
      cases op with
      | add v pw adm now salt =>
        simp only [step]
        cases hadd : add c d v pw adm now salt with
        | error e => exact ⟨rfl, rfl⟩
        | ok d' => exact add_other_user hadd (fun e => hne e.symm)
      | update v pw now salt =>
        simp only [step]
        cases hup : update c d v pw now salt with
        | error e => exact ⟨rfl, rfl⟩
        | ok d' => exact update_other_user hup (fun e => hne e.symm)
      | setAdmin v st =>
        simp only [step]
        cases hsa : setAdmin d v st with
        | error e => exact ⟨rfl, rfl⟩
        | ok d' => exact setAdmin_other_user hsa (fun e => hne e.symm)
      | remove v => exact remove_other_user d (fun e => hne e.symm)
    exact ⟨hs.1 ▸ h.1, hs.2 ▸ h.2⟩

/-- **After a removal nothing authenticates, for every history**: once `u` is removed, whatever
    operations follow on any users — including updates, set-admins and further removals of `u`
    itself — no password authenticates `u` until `u` is added again. -/
theorem removed_stays_absent (c : Cfg) (d0 : Dir) (u : Bytes) (hv : validName u = true) (h2 : List Op)
    (hh : ∀ op ∈ h2, ∀ pw adm now salt, op ≠ .add u pw adm now salt) (p : Bytes) :
    ∃ e, authenticate c (run c (step c d0 (.remove u)) h2) u p = .error e := by
  have h0 : Absent (step c d0 (.remove u)) u := by
    simp only [step, remove, hv, Bool.not_true, Bool.false_eq_true, if_false]
    exact ⟨by rw [get_del_ne _ (append_adminExt_ne_userExt u u), get_del_self], by rw [get_del_self]⟩
  generalize step c d0 (.remove u) = d at h0
  induction h2 generalizing d with
  | nil => exact absent_auth_fails c h0 p
  | cons op rest ih =>
    simp only [run, List.foldl]
    exact ih (fun o ho => hh o (by simp [ho])) (step c d op) (absent_step c d u op h0 (hh op (by simp)))


/-! ### The full statement: the verdict is a function of the last acknowledged write

`lastWrite` replays a history and remembers, for one user, the most recent operation that was
ACKNOWLEDGED (succeeded in the state it was applied to): an add or update records its password,
salt, time; a removal forgets; failing operations, set-admin and operations on other users
change nothing. The theorem says that after ANY history authentication of `u` answers exactly
according to that record. -/

structure Written where
  pw : Bytes
  salt : Bytes
  now : Int
  deriving Repr

def lwStep (c : Cfg) (d : Dir) (u : Bytes) (lw : Option Written) : Op → Option Written
  | .add v pw adm now salt =>
    if v = u then (match add c d v pw adm now salt with | .ok _ => some ⟨pw, salt, now⟩ | .error _ => lw) else lw
  | .update v pw now salt =>
    if v = u then (match update c d v pw now salt with | .ok _ => some ⟨pw, salt, now⟩ | .error _ => lw) else lw
  | .setAdmin _ _ => lw
  | .remove v => if v = u ∧ validName v = true then none else lw

/-- The pair (directory, last acknowledged write of `u`) along a history. -/
def runLW (c : Cfg) (u : Bytes) : Dir × Option Written → List Op → Dir × Option Written
  | s, [] => s
  | (d, lw), op :: rest => runLW c u (step c d op, lwStep c d u lw op) rest

theorem runLW_fst (c : Cfg) (u : Bytes) (h : List Op) : ∀ d lw, (runLW c u (d, lw) h).1 = run c d h := by
  induction h with
  | nil => intro d lw; rfl
  | cons op rest ih => intro d lw; simp only [runLW, run, List.foldl_cons]; exact ih _ _

def opTimeOk : Op → Prop
  | .add _ _ _ now _ => timeOk now
  | .update _ _ now _ => timeOk now
  | _ => True

/-- The invariant: what the record says is what the store does. -/
def Agrees (c : Cfg) (d : Dir) (u : Bytes) : Option Written → Prop
  | none => Absent d u
  | some w => ∃ ps, c.lookup c.default = some ps ∧ Tracks c d u ps w.salt w.pw w.now

theorem agrees_step (c : Cfg) (hc : CfgOk c) (d : Dir) (u : Bytes) (lw : Option Written) (op : Op)
    (ht : opTimeOk op) (h : Agrees c d u lw) : Agrees c (step c d op) u (lwStep c d u lw op) := by
  by_cases hu : op.user = u
  · cases op with
    | add v pw adm now salt =>
      simp only [Op.user] at hu; subst hu
      simp only [lwStep, if_true, step]
      cases hadd : add c d v pw adm now salt with
      | error e => exact h
      | ok d' =>
        obtain ⟨ps, hps, hauth⟩ := add_then_auth hadd hc ht
        exact ⟨ps, hps, adm, hauth⟩
    | update v pw now salt =>
      simp only [Op.user] at hu; subst hu
      simp only [lwStep, if_true, step]
      cases hup : update c d v pw now salt with
      | error e => exact h
      | ok d' =>
        obtain ⟨ps, a, hps, _, hauth⟩ := update_then_auth hup hc ht
        exact ⟨ps, hps, a, hauth⟩
    | setAdmin v st =>
      simp only [Op.user] at hu; subst hu
      simp only [lwStep]
      cases lw with
      | none => exact absent_step c d v _ h (fun _ _ _ _ e => by cases e)
      | some w =>
        obtain ⟨ps, hps, htr⟩ := h
        exact ⟨ps, hps, tracks_step c d v ps w.salt w.pw w.now _ htr (Or.inr (Or.inl ⟨st, rfl⟩))⟩
    | remove v =>
      simp only [Op.user] at hu; subst hu
      by_cases hv : validName v = true
      · simp only [lwStep, hv, and_self, if_true]
        simp only [Agrees, step, remove, hv, Bool.not_true, Bool.false_eq_true, if_false]
        exact ⟨by rw [get_del_ne _ (append_adminExt_ne_userExt v v), get_del_self], by rw [get_del_self]⟩
      · simp only [lwStep, hv, and_false, if_false, step, remove, Bool.not_eq_true] at *
        simp only [hv, Bool.not_false, if_true]
        exact h
  · have hl : lwStep c d u lw op = lw := by
      cases op with
      | add v _ _ _ _ => simp only [Op.user] at hu; simp [lwStep, hu]
      | update v _ _ _ => simp only [Op.user] at hu; simp [lwStep, hu]
      | setAdmin _ _ => rfl
      | remove v => simp only [Op.user] at hu; simp [lwStep, hu]
    rw [hl]
    cases lw with
    | none => exact absent_step c d u op h (fun pw adm now salt e => by subst e; exact hu rfl)
    | some w =>
      obtain ⟨ps, hps, htr⟩ := h
      exact ⟨ps, hps, tracks_step c d u ps w.salt w.pw w.now op htr (Or.inl hu)⟩

theorem agrees_run (c : Cfg) (hc : CfgOk c) (u : Bytes) (h : List Op) (hts : ∀ op ∈ h, opTimeOk op) :
    ∀ d lw, Agrees c d u lw → Agrees c (runLW c u (d, lw) h).1 u (runLW c u (d, lw) h).2 := by
  induction h with
  | nil => intro d lw ha; exact ha
  | cons op rest ih =>
    intro d lw ha
    simp only [runLW]
    exact ih (fun o ho => hts o (by simp [ho])) _ _ (agrees_step c hc d u lw op (hts op (by simp)) ha)

/-- **C01, at full strength.** Start from any directory in which `u` has no file. After ANY
    finite history of successful and failed add / update / set-admin / remove operations on any
    users, with `lastWrite` the most recent acknowledged add or update of `u` that no later
    acknowledged removal erased:
    * if there is none, no password authenticates `u`;
    * otherwise `p` authenticates exactly when it has the digest of the password of that write
      (under that write's salt and the default parameter set), and the reported time is that
      write's time. -/
theorem verdict_is_function_of_last_write (c : Cfg) (hc : CfgOk c) (d0 : Dir) (u : Bytes)
    (h0 : Absent d0 u) (h : List Op) (hts : ∀ op ∈ h, opTimeOk op) :
    match (runLW c u (d0, none) h).2 with
    | none => ∀ p, ∃ e, authenticate c (run c d0 h) u p = .error e
    | some w => ∃ ps a, c.lookup c.default = some ps ∧ ∀ p, authenticate c (run c d0 h) u p =
        if ps.digest w.salt p = ps.digest w.salt w.pw then .ok ⟨a, false, w.now⟩ else .error .wrongPassword := by
  have hag := agrees_run c hc u h hts d0 none h0
  rw [runLW_fst] at hag
  cases hlw : (runLW c u (d0, none) h).2 with
  | none =>
    rw [hlw] at hag
    exact fun p => absent_auth_fails c hag p
  | some w =>
    rw [hlw] at hag
    obtain ⟨ps, hps, a, ha⟩ := hag
    exact ⟨ps, a, hps, ha⟩

/- Non-vacuity: add, update, a second (failing) add, operations on another user, set-admin; then a removal. -/
section NonVacuity
def psN : ParamSet := ⟨[120], fun salt pw => salt ++ pw⟩
def cN : Cfg := ⟨1, [(1, psN)]⟩
def hN : List Op :=
  [.add [97] [1] false 5 [9], .update [97] [2] 6 [8], .add [97] [3] true 7 [7], .remove [98], .add [98] [4] false 8 [6], .setAdmin [97] true]
example : (runLW cN [97] ([], none) hN).2.map (·.pw) = some [2] := by decide +kernel
example : (runLW cN [97] ([], none) (hN ++ [.remove [97]])).2.map (·.pw) = none := by decide +kernel
example : (authenticate cN (run cN [] hN) [97] [2]).toOption.map (·.isAdmin) = some true := by decide +kernel
example : (authenticate cN (run cN [] hN) [97] [1]).toOption = none := by decide +kernel
end NonVacuity

end Whawty.Store.C01
