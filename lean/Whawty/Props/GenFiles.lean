/-
  The regenerated tie (file-name constants): `Whawty/Gen/Facts.lean` is written on every run by the translator
  `harness/cmd/factgen` from /repo's CURRENT source. The theorems below connect what the source
  says now with the constants the hand-written model uses; a source edit that changes them breaks
  this module (a broken proof obligation: the check then searches for a failing input with the
  ordinary suites). The four Gen* modules are separate so that an edit breaks only the properties
  that depend on the fact in question.
-/
import Whawty.Gen.Facts
import Whawty.Model.Store
namespace Whawty.Gen.Tie
open Whawty Whawty.Gen

/-- File-name constants of store/store.go. -/
theorem file_name_constants :
    adminExt = some Store.adminExt ∧ userExt = some Store.userExt ∧ tmpDir = some Store.tmpName := by decide

end Whawty.Gen.Tie
