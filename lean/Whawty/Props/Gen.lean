/-
  The regenerated tie: `Whawty/Gen/Facts.lean` is written on every run by the translator
  `harness/cmd/factgen` from /repo's CURRENT source (go/ast for the Go files, a regular
  expression for the C file). The theorems below connect what the source says now with the
  constants the hand-written model uses. If a source edit changes the user-name grammar, a file
  name constant, the codec limit or the salt size, this file no longer compiles: a broken proof
  obligation (the check then searches for a failing input with the ordinary suites).
  Deliberately NOT tied (the models are parametric in them): queue capacities, rate limit,
  session lifetime, hook time limit — they are extracted for the record only.
-/
import Whawty.Gen.Facts
import Whawty.Model.Store
import Whawty.Model.Sasl
import Whawty.Model.SaslServer
import Whawty.Model.Pam
namespace Whawty.Gen.Tie
open Whawty Whawty.Gen

/-- The translator understood the regular expression: `^[first-class][rest-class]*$`. -/
theorem grammar_shape : nameReShape = "^[first][rest]*$" := by decide

theorem first_class_table : ∀ n, n < 256 → nameFirstClass.contains n = Store.isAlnum (UInt8.ofNat n) := by
  decide +kernel

theorem rest_class_table : ∀ n, n < 256 → nameRestClass.contains n = Store.isNameChar (UInt8.ofNat n) := by
  decide +kernel

theorem first_class (c : Byte) : nameFirstClass.contains c.toNat = Store.isAlnum c := by
  have := first_class_table c.toNat c.toNat_lt
  simpa using this

theorem rest_class (c : Byte) : nameRestClass.contains c.toNat = Store.isNameChar c := by
  have := rest_class_table c.toNat c.toNat_lt
  simpa using this

/-- **The model's `validName` is the language of the regular expression in the source**: first
    byte in the first class, every further byte in the second class, nothing else (Go's `$`
    without the `m` flag is the end of the text). -/
theorem validName_is_source_grammar (u : Bytes) :
    Store.validName u =
      (match u with
       | [] => false
       | c :: r => nameFirstClass.contains c.toNat && r.all fun x => nameRestClass.contains x.toNat) := by
  cases u with
  | nil => rfl
  | cons c r =>
    simp only [Store.validName, first_class]
    congr 1
    induction r with
    | nil => rfl
    | cons x xs ih => simp only [List.all_cons, rest_class, ih]

/-- File-name constants of store/store.go. -/
theorem file_name_constants :
    adminExt = some Store.adminExt ∧ userExt = some Store.userExt ∧ tmpDir = some Store.tmpName := by decide

/-- The part-length limit of the codec, in the Go package and in the PAM module; the module's
    reply buffer is longer than the clip (it stays NUL-terminated). -/
theorem codec_limits :
    saslMaxRequestLength = some Sasl.maxLen ∧ pamMaxPartLen = some Sasl.maxLen ∧
    (∃ k, pamResponseSlack = some k ∧ 1 ≤ k) := by
  refine ⟨by decide, by decide, ?_⟩
  exact ⟨1, by decide, by decide⟩

/-- The salt size of argon2id records (the schema's 16 bytes). -/
theorem argon2_salt_size : argon2SaltLen = some 16 := by decide

end Whawty.Gen.Tie
