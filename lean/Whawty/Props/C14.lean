/-
  C14 — Written records follow the schema and the configured parameters exactly.
-/
import Whawty.Lemmas.Store
import Whawty.Model.Config
namespace Whawty.Store.C14
open Whawty Whawty.Rec Whawty.Store

/-- The first line written by add is exactly
    `<format id>:<now>:<default id>:<base64url salt>:<base64url digest>\n` for the default
    parameter set; nothing else is in the new file. -/
theorem add_written_record {c : Cfg} {d d' : Dir} {u pw salt : Bytes} {adm : Bool} {now : Int}
    (h : add c d u pw adm now salt = .ok d') :
    ∃ ps, c.lookup c.default = some ps ∧
      get d' (fileName u adm) = some (.file
        (ps.formatId ++ colon :: decInt now ++ colon :: decNat c.default ++ colon ::
          (B64.encode salt ++ colon :: B64.encode (ps.digest salt pw)) ++ [nl])) := by
  obtain ⟨ps, dt, a, _, hps, _, hd'⟩ := add_ok h
  subst hd'
  refine ⟨ps, hps, ?_⟩
  rw [get_put_self]
  simp [newContent, formatLine, hashStrOf, afterFirstLine]

/-- The file written by update is that line followed by exactly the old auxiliary lines. -/
theorem update_written_record {c : Cfg} {d d' : Dir} {u pw salt : Bytes} {now : Int}
    (h : update c d u pw now salt = .ok d') :
    ∃ ps a old, c.lookup c.default = some ps ∧ get d (fileName u a) = some (.file old) ∧
      get d' (fileName u a) = some (.file
        (ps.formatId ++ colon :: decInt now ++ colon :: decNat c.default ++ colon ::
          (B64.encode salt ++ colon :: B64.encode (ps.digest salt pw)) ++ [nl] ++ afterFirstLine old)) := by
  obtain ⟨ps, dt, a, old, _, hold, _, hps, _, hd'⟩ := update_ok h
  subst hd'
  refine ⟨ps, a, old, hps, hold, ?_⟩
  rw [get_put_self]
  simp [newContent, formatLine, hashStrOf]

/-- Parsing the written record returns exactly those fields (one line, five fields). -/
theorem written_record_parses (ps : ParamSet) (now : Int) (pid : Nat) (salt pw old : Bytes)
    (hf : ∀ ch ∈ ps.formatId, ch ≠ colon ∧ ch ≠ nl) (h1 : -(2 ^ 63 : Int) ≤ now) (h2 : now < 2 ^ 63)
    (hp : pid < 2 ^ 64) :
    readHead (newContent ps pid now salt pw old) =
      some ⟨ps.formatId, now, pid, hashStrOf salt (ps.digest salt pw) ++ [nl]⟩ ∧
    decodeSaltHash (hashStrOf salt (ps.digest salt pw) ++ [nl]) = some (salt, ps.digest salt pw) := by
  exact ⟨readHead_formatLine _ _ _ _ _ _ hf h1 h2 hp, decodeSaltHash_hashStrOf _ _⟩

/-- URL-safe padded base64: the encoded salt and digest contain no ':' , CR or LF, and their
    length is a multiple of four. -/
theorem encoded_fields_shape (x : Bytes) :
    (∀ ch ∈ B64.encode x, ch ≠ 10 ∧ ch ≠ 13 ∧ ch ≠ 58) ∧ (B64.encode x).length % 4 = 0 := by
  refine ⟨B64.encode_chars x, ?_⟩
  fun_induction B64.encode x <;> simp_all <;> omega

/-- The written bytes depend on the password only through the digest (and not at all on the
    HMAC key, which is not even an argument): two passwords with the same digest under the
    written salt produce byte-identical files. -/
theorem depends_on_password_only_through_digest (ps : ParamSet) (pid : Nat) (now : Int)
    (salt pw pw' old : Bytes) (h : ps.digest salt pw = ps.digest salt pw') :
    newContent ps pid now salt pw old = newContent ps pid now salt pw' old := by
  simp [newContent, h]

/-- The configuration-to-parameter mapping: N = 2^cost; an `r` / `p` override is applied iff
    it is greater than zero, otherwise the defaults 8 / 1. -/
theorem config_to_scrypt_params (s : Config.ScryptCfg) :
    (Config.scryptEffective s).1 = 2 ^ s.cost ∧
    (Config.scryptEffective s).2.1 = (match s.r with | some r => if r > 0 then r else 8 | none => 8) ∧
    (Config.scryptEffective s).2.2 = (match s.p with | some p => if p > 0 then p else 1 | none => 1) := by
  exact ⟨rfl, rfl, rfl⟩

theorem config_to_argon_params (a : Config.ArgonCfg) :
    Config.argonEffective a = (a.time, a.memory, a.threads, a.length) := rfl

/- Non-vacuity -/
example : Config.scryptEffective ⟨some 32, 14, none, some 0⟩ = (16384, 8, 1) := by decide
example : Config.scryptEffective ⟨some 32, 3, some 16, some 2⟩ = (8, 16, 2) := by decide

end Whawty.Store.C14
