/-
  C15 — Operations touch only their target; failures and read-only calls change nothing.
  In the L1 model a failing operation returns `Except.error` and therefore has no result
  directory at all: "leaves the store exactly as it was" is structural there; what ties it to
  the code is the correspondence (post-snapshot = pre-snapshot on every failing call) and the
  fault-injection run. The theorems below are the frame properties and the protocol-level
  fault analysis of `writeHashStr`.
-/
import Whawty.Props.C03
import Whawty.Props.C09
namespace Whawty.Store.C15
open Whawty Whawty.Rec Whawty.Store

/-- Update preserves the user's auxiliary data byte for byte: the new file is the new first
    line followed by exactly what followed the old first line — whatever bytes those are
    (binary, CRLF, no trailing newline, longer than any buffer). -/
theorem update_preserves_aux {c : Cfg} {d d' : Dir} {u pw salt : Bytes} {now : Int}
    (h : update c d u pw now salt = .ok d')
    (hplain : ∀ id ps, c.lookup id = some ps → ∀ ch ∈ ps.formatId, ch ≠ colon ∧ ch ≠ nl) :
    ∃ a old new, exists_ d u = .ok (true, a) ∧ get d (fileName u a) = some (.file old) ∧
      get d' (fileName u a) = some (.file new) ∧ afterFirstLine new = afterFirstLine old := by
  obtain ⟨ps, dt, a, old, he, hold, _, hps, htmp, hd'⟩ := update_ok h
  subst hd'
  refine ⟨a, old, _, he, hold, get_put_self _ _ _, ?_⟩
  simp only [newContent]
  exact afterFirstLine_formatLine _ _ _ _ _ _ (hplain _ _ hps)

/-- … and every other entry of the directory (every other user's file) byte for byte. -/
theorem update_preserves_others {c : Cfg} {d d' : Dir} {u pw salt : Bytes} {now : Int}
    (h : update c d u pw now salt = .ok d') (n : Bytes)
    (h1 : n ≠ u ++ userExt) (h2 : n ≠ u ++ adminExt) (h3 : n ≠ tmpName) : get d' n = get d n :=
  C03.effects_confined_update h n h1 h2 h3

/-- Set-admin preserves the whole record, time stamp and auxiliary data included: the node is
    moved, not rewritten. -/
theorem setAdmin_preserves_record {d d' : Dir} {u : Bytes} {st : Bool}
    (h : setAdmin d u st = .ok d') :
    ∃ a x, exists_ d u = .ok (true, a) ∧ get d (fileName u a) = some x ∧ get d' (fileName u st) = some x := by
  unfold setAdmin at h
  split at h
  · simp at h
  · simp at h
  · rename_i a he
    obtain ⟨_, _, h1, _⟩ := exists_ok_iff he
    obtain ⟨x, _, hx⟩ := h1 rfl
    split at h
    · rename_i heq
      injection h with h; subst h; subst heq
      exact ⟨a, x, he, hx, hx⟩
    · simp only at h
      split at h
      · simp at h
      · simp at h
      · rename_i x1 hy _ _
        injection h with h; subst h
        rw [hx] at hy
        injection hy with hy; subst hy
        exact ⟨a, x, he, hx, get_put_self _ _ _⟩
      · rename_i hn; rw [hx] at hn; simp at hn

/- Read-only calls (authenticate, exists, list, list-full, check) are functions
   `Cfg → Dir → … → result` in the model: they have no result directory, so there is nothing to
   state as a theorem about them; that the REAL calls perform no file-system mutation is decided
   on their strace traces by the checker `tr.c15ro` (no creat/write/rename/unlink/mkdir/fsync
   event at all between the markers). -/

end Whawty.Store.C15

namespace Whawty.Persist.C15
open Whawty Whawty.Persist Whawty.Trace

/-- Protocol-level fault analysis of update: if the operation stops after any number `k` of
    its system calls up to (not including) the rename and the deferred cleanup runs, every
    name of the store shows what it showed before — for all contents. -/
theorem model_update_fault_before_commit (old line r1 r2 : Bytes) :
    ∀ k, k ≤ 10 →
      killView (run (init [(Name.U, old)]) ((updTrace .U line r1 r2).take k ++ [.unlink (.tmp 1)])) .U = .clean old := by
  intro k hk
  have : k = 0 ∨ k = 1 ∨ k = 2 ∨ k = 3 ∨ k = 4 ∨ k = 5 ∨ k = 6 ∨ k = 7 ∨ k = 8 ∨ k = 9 ∨ k = 10 := by omega
  rcases this with rfl | rfl | rfl | rfl | rfl | rfl | rfl | rfl | rfl | rfl | rfl <;>
  simp [updTrace, run, init, step, killView, lookup, set, del, number, isDirName]

/-- The same for add (repaired code): the reservation is unlinked by the cleanup, the name is
    absent again. With the pinned cleanup (no unlink of the reservation) it is not: defect D7. -/
theorem model_add_fault_before_commit (line : Bytes) :
    ∀ k, k ≤ 8 →
      killView (run (init []) ((addTrace .U line).take k ++
        [.unlink (.tmp 1)] ++ (if 3 ≤ k then [.unlink .U] else []))) .U = .absent := by
  intro k hk
  have : k = 0 ∨ k = 1 ∨ k = 2 ∨ k = 3 ∨ k = 4 ∨ k = 5 ∨ k = 6 ∨ k = 7 ∨ k = 8 := by omega
  rcases this with rfl | rfl | rfl | rfl | rfl | rfl | rfl | rfl | rfl <;>
  simp [addTrace, run, init, step, killView, lookup, set, del, number, isDirName]

theorem pinned_add_fault_leaves_reservation :
    killView (run (init []) ((addTrace .U [1]).take 7 ++ [.unlink (.tmp 1)])) .U = .clean [] := by decide

/-- Known finding D10 (kept as `…_partial` above): a failure AFTER the rename (opening or
    fsyncing the base directory) is reported as an error although the new record is in place. -/
theorem fault_after_commit_is_visible :
    killView (run (init [(Name.U, [1])]) ((updTrace .U [2] [] []).take 12 ++ [.unlink (.tmp 1)])) .U = .clean [2] := by
  decide

/-- **The two layers agree.** The system-call protocol of update (layer L0), run on a file holding
    `old`, with the new first line the store formats and the old tail it copies (in whatever two
    pieces the reader buffer and copy_file_range split it), leaves — durably, from the
    acknowledgement on, in every post-crash state — exactly the content the directory-map model
    (layer L1, `Store.update`) installs: `Store.newContent`. -/
theorem l0_update_installs_l1_content (ps : Store.ParamSet) (id : Nat) (now : Int) (salt pw old r1 r2 : Bytes)
    (hsplit : r1 ++ r2 = Rec.afterFirstLine old) :
    durableAtAck (init [(Name.U, old)])
      (updTrace .U (Rec.formatLine ps.formatId now id (Rec.hashStrOf salt (ps.digest salt pw))) r1 r2) .U
      (.clean (Store.newContent ps id now salt pw old)) = true := by
  have h := C09.model_update_durable old (Rec.formatLine ps.formatId now id (Rec.hashStrOf salt (ps.digest salt pw))) r1 r2
  simp only [Store.newContent, ← hsplit]
  simpa [List.append_assoc] using h

/-- The same for add: the reserved empty file is replaced by exactly L1's content. -/
theorem l0_add_installs_l1_content (ps : Store.ParamSet) (id : Nat) (now : Int) (salt pw : Bytes) :
    durableAtAck (init []) (addTrace .A (Store.newContent ps id now salt pw [])) .A
      (.clean (Store.newContent ps id now salt pw [])) = true :=
  C09.model_add_durable _

end Whawty.Persist.C15
