/-
  The regenerated tie (user-name grammar): `Whawty/Gen/Facts.lean` is written on every run by the translator
  `harness/cmd/factgen` from /repo's CURRENT source. The theorems below connect what the source
  says now with the constants the hand-written model uses; a source edit that changes them breaks
  this module (a broken proof obligation: the check then searches for a failing input with the
  ordinary suites). The four Gen* modules are separate so that an edit breaks only the properties
  that depend on the fact in question.
-/
import Whawty.Gen.Facts
import Whawty.Model.Store
namespace Whawty.Gen.Tie
open Whawty Whawty.Gen

/-- The translator understood the regular expression: `^[first-class][rest-class]*$`. -/
theorem grammar_shape : nameReShape = "^[first][rest]*$" := by decide

theorem first_class_table : ∀ n, n < 256 → nameFirstClass.contains n = Store.isAlnum (UInt8.ofNat n) := by
  decide +kernel

theorem rest_class_table : ∀ n, n < 256 → nameRestClass.contains n = Store.isNameChar (UInt8.ofNat n) := by
  decide +kernel

theorem first_class (c : Byte) : nameFirstClass.contains c.toNat = Store.isAlnum c := by
  have := first_class_table c.toNat c.toNat_lt
  simpa using this

theorem rest_class (c : Byte) : nameRestClass.contains c.toNat = Store.isNameChar c := by
  have := rest_class_table c.toNat c.toNat_lt
  simpa using this

/-- **The model's `validName` is the language of the regular expression in the source**: first
    byte in the first class, every further byte in the second class, nothing else (Go's `$`
    without the `m` flag is the end of the text). -/
theorem validName_is_source_grammar (u : Bytes) :
    Store.validName u =
      (match u with
       | [] => false
       | c :: r => nameFirstClass.contains c.toNat && r.all fun x => nameRestClass.contains x.toNat) := by
  cases u with
  | nil => rfl
  | cons c r =>
    simp only [Store.validName, first_class]
    congr 1
    induction r with
    | nil => rfl
    | cons x xs ih => simp only [List.all_cons, rest_class, ih]

end Whawty.Gen.Tie
