/-
  C03 — Only schema-valid user names are usable; all effects stay inside the base dir.
  The model is the repaired code (name grammar enforced in every UserHash operation, commit
  "fix: store validates the user name in every UserHash operation"; `Check` skips invalid
  names, commit "fix: store check ignores files with invalid user names").
-/
import Whawty.Lemmas.StoreCheck
import Whawty.Lemmas.Path
import Whawty.Props.C01
namespace Whawty.Store.C03
open Whawty Whawty.Rec Whawty.Store

/-- Every operation given a name outside the grammar fails, or (remove) is a no-op; nothing
    authenticates; the directory is not changed (a failing operation has no result directory). -/
theorem invalid_name_noop (c : Cfg) (d : Dir) (u pw salt : Bytes) (adm st : Bool) (now : Int)
    (h : validName u = false) :
    exists_ d u = .error .invalidName ∧
    authenticate c d u pw = .error .invalidName ∧
    add c d u pw adm now salt = .error .invalidName ∧
    update c d u pw now salt = .error .invalidName ∧
    setAdmin d u st = .error .invalidName ∧
    remove d u = d := by
  have he : exists_ d u = .error .invalidName := by simp [exists_, h]
  refine ⟨he, ?_, ?_, ?_, ?_, ?_⟩
  · simp [authenticate, he]
  · simp [add, he]
  · simp [update, he]
  · simp [setAdmin, he]
  · simp [remove, h]

/-- The grammar `^[A-Za-z0-9][-_.@A-Za-z0-9]*$` excludes every byte that matters to a path:
    '/', NUL, newline; and the names "", "." and "..". -/
theorem valid_name_has_no_path_syntax (u : Bytes) (h : validName u = true) :
    (47 : Byte) ∉ u ∧ (0 : Byte) ∉ u ∧ (10 : Byte) ∉ u ∧ u ≠ [] ∧ u ≠ [46] ∧ u ≠ [46, 46] := by
  cases u with
  | nil => simp [validName] at h
  | cons c rest =>
    simp only [validName, Bool.and_eq_true, List.all_eq_true] at h
    obtain ⟨hc, hr⟩ := h
    have key : ∀ x : Byte, (isNameChar x = true) → x ≠ 47 ∧ x ≠ 0 ∧ x ≠ 10 := by
      intro x hx
      refine ⟨?_, ?_, ?_⟩ <;> (intro e; subst e; revert hx; decide)
    have hcn : isNameChar c = true := by simp [isNameChar, hc]
    refine ⟨?_, ?_, ?_, by simp, ?_, ?_⟩
    · intro hm; simp only [List.mem_cons] at hm
      rcases hm with e | hm
      · exact (key c hcn).1 e.symm
      · exact (key _ (hr _ hm)).1 rfl
    · intro hm; simp only [List.mem_cons] at hm
      rcases hm with e | hm
      · exact (key c hcn).2.1 e.symm
      · exact (key _ (hr _ hm)).2.1 rfl
    · intro hm; simp only [List.mem_cons] at hm
      rcases hm with e | hm
      · exact (key c hcn).2.2 e.symm
      · exact (key _ (hr _ hm)).2.2 rfl
    · intro e; injection e with e1 _; subst e1; revert hc; decide
    · intro e; injection e with e1 _; subst e1; revert hc; decide

/-- Whatever the (valid) name, password or directory content, an operation changes no entry
    of the base directory other than `<name>.user`, `<name>.admin` and `.tmp`. -/
theorem effects_confined_add {c : Cfg} {d d' : Dir} {u pw salt : Bytes} {adm : Bool} {now : Int}
    (h : add c d u pw adm now salt = .ok d') (n : Bytes)
    (h1 : n ≠ u ++ userExt) (h2 : n ≠ u ++ adminExt) (h3 : n ≠ tmpName) : get d' n = get d n := by
  obtain ⟨ps, dt, a, _, _, htmp, hd'⟩ := add_ok h
  subst hd'
  have : n ≠ fileName u adm := by cases adm <;> simpa [fileName]
  rw [get_put_ne _ _ this, get_ensureTmp htmp h3]

theorem effects_confined_update {c : Cfg} {d d' : Dir} {u pw salt : Bytes} {now : Int}
    (h : update c d u pw now salt = .ok d') (n : Bytes)
    (h1 : n ≠ u ++ userExt) (h2 : n ≠ u ++ adminExt) (h3 : n ≠ tmpName) : get d' n = get d n := by
  obtain ⟨ps, dt, a, old, _, _, _, _, htmp, hd'⟩ := update_ok h
  subst hd'
  have : n ≠ fileName u a := by cases a <;> simpa [fileName]
  rw [get_put_ne _ _ this, get_ensureTmp htmp h3]

theorem effects_confined_remove (d : Dir) (u n : Bytes)
    (h1 : n ≠ u ++ userExt) (h2 : n ≠ u ++ adminExt) : get (remove d u) n = get d n := by
  unfold remove
  split
  · rfl
  · rw [get_del_ne _ h1, get_del_ne _ h2]

theorem effects_confined_setAdmin {d d' : Dir} {u : Bytes} {st : Bool}
    (h : setAdmin d u st = .ok d') (n : Bytes)
    (h1 : n ≠ u ++ userExt) (h2 : n ≠ u ++ adminExt) : get d' n = get d n := by
  have hf : ∀ a, n ≠ fileName u a := by intro a; cases a <;> simpa [fileName]
  unfold setAdmin at h
  split at h
  · simp at h
  · simp at h
  · split at h
    · injection h with h; subst h; rfl
    · simp only at h
      split at h
      · simp at h
      · simp at h
      · injection h with h; subst h
        rw [get_put_ne _ _ (hf _), get_del_ne _ (hf _)]
      · simp at h

/-- `List` never shows a file whose stem is not a valid user name. -/
theorem list_only_valid_names (c : Cfg) (d : Dir) (l : List ListEntry) (h : list c d = some l) :
    ∀ e ∈ l, validName e.user = true := by
  have hnone : ∀ (r : Dir), r.foldl (listStep c) none = none := by
    intro r; induction r with
    | nil => rfl
    | cons _ _ ihr => simpa [List.foldl, listStep] using ihr
  have gen : ∀ (rest : Dir) (acc : List ListEntry), (∀ e ∈ acc, validName e.user = true) →
      ∀ l, rest.foldl (listStep c) (some acc) = some l → ∀ e ∈ l, validName e.user = true := by
    intro rest
    induction rest with
    | nil => intro acc hacc l hl; simp at hl; subst hl; exact hacc
    | cons x rest ih =>
      intro acc hacc l hl
      simp only [List.foldl] at hl
      generalize hs : listStep c (some acc) x = s at hl
      unfold listStep at hs
      by_cases ht : x.1 = tmpName
      · simp only [ht, if_true] at hs; subst hs; exact ih acc hacc l hl
      · simp only [ht, if_false] at hs
        cases hc : checkUserFile x.1 with
        | none => simp only [hc] at hs; subst hs; rw [hnone] at hl; simp at hl
        | some r =>
          obtain ⟨valid, u, adm⟩ := r
          have hvu := checkUserFile_valid hc
          simp only [hc] at hs
          cases valid with
          | false => simp only [Bool.not_false, if_true] at hs; subst hs; exact ih acc hacc l hl
          | true =>
            simp only [Bool.not_true, Bool.false_eq_true, if_false] at hs
            split at hs
            · subst hs; exact ih acc hacc l hl
            · subst hs
              refine ih _ ?_ l hl
              intro e he
              simp only [List.mem_append, List.mem_filter, List.mem_singleton] at he
              rcases he with he | he
              · exact hacc e he.1
              · subst he; exact hvu.symm
  exact gen d [] (by simp) l h

/-- An invalid-named file never counts as the administrator a valid store requires. -/
theorem invalid_named_admin_never_counts (c : Cfg) (e : Bytes × Node) (u : Bytes) (adm : Bool)
    (hc : checkUserFile e.1 = some (false, u, adm)) : entryAdmin c e = false := by
  simp [entryAdmin, hc]

/- Non-vacuity: names of the classes in the property's quantifier are invalid. -/
example : validName [46, 46, 47, 98] = false := by decide      -- "../b"
example : validName [] = false := by decide
example : validName [97, 10] = false := by decide              -- "a\n"
example : validName [46, 47, 97] = false := by decide          -- "./a"
example : validName [97, 46, 98, 64, 99] = true := by decide   -- "a.b@c"

/-! ### The path the code computes for a valid name is an entry of the base directory

`UserHash.getFilename` is `filepath.Join(BaseDir, user) + ext` — a LEXICAL computation
(`Model/Path.lean`: byte-for-byte model of `filepath.Clean` / `Join`, compared with Go on every
run). For every base directory string whatsoever and every valid name, the result has exactly
the components of the cleaned base directory followed by the single component `user ++ ext`:
it names the entry `<user><ext>` directly inside the base directory, which is what the
directory-map model (`Store.Dir`) and the trace vocabulary (`Persist.Name.U/.A`) assume. -/
namespace Path
open Whawty.Path

theorem valid_is_plain (u : Bytes) (h : validName u = true) : Plain u := by
  obtain ⟨h1, _, _, h4, h5, h6⟩ := valid_name_has_no_path_syntax u h
  exact ⟨h4, h5, h6, h1⟩

/-- Join with a plain component pushes exactly that component. -/
theorem join_plain (base u : Bytes) (hb : base ≠ []) (hu : Plain u) :
    join2 base u = render (isRooted base) (comps base ++ [u]) := by
  have hune : u ≠ [] := hu.1
  have hne : base ++ slash :: u ≠ [] := by simp
  have hroot : isRooted (base ++ slash :: u) = isRooted base := by
    cases base with
    | nil => exact absurd rfl hb
    | cons c rest => rfl
  simp only [join2, hb, hune, false_and, if_false, clean, hne, hroot, comps]
  rw [splitSlash_append_comp base u hu.2.2.2, cleanStack_append, cleanStack_plain _ _ u hu]
  simp

theorem clean_eq_render (base : Bytes) (hb : base ≠ []) : clean base = render (isRooted base) (comps base) := by
  simp [clean, hb]

/-- **The file a valid name addresses.** -/
theorem file_path_is_entry_of_base (base u : Bytes) (adm : Bool) (hb : base ≠ []) (hv : validName u = true) :
    getFilename base u (if adm then adminExt else userExt) =
      render (isRooted base) (comps base ++ [fileName u adm]) := by
  have hp := valid_is_plain u hv
  simp only [getFilename, join_plain base u hb hp, render, fileName]
  have hne : comps base ++ [u] ≠ [] := by simp
  have hne2 : comps base ++ [u ++ if adm then adminExt else userExt] ≠ [] := by simp
  by_cases hr : isRooted base = true
  · simp only [hr, if_true, List.cons_append, joinSlash_append_ext]
  · simp only [hr, Bool.false_eq_true, if_false, hne, hne2, joinSlash_append_ext]

/-- In the usual case (the cleaned base directory is neither "/" nor "."): literally
    `<clean base>/<user><ext>`. -/
theorem file_path_literal (base u : Bytes) (adm : Bool) (hb : base ≠ []) (hv : validName u = true)
    (hc : comps base ≠ []) :
    getFilename base u (if adm then adminExt else userExt) = clean base ++ slash :: fileName u adm := by
  rw [file_path_is_entry_of_base base u adm hb hv, clean_eq_render base hb]
  simp only [render, joinSlash_append_single, hc, if_false]
  by_cases hr : isRooted base = true
  · simp [hr]
  · have : comps base ++ [fileName u adm] ≠ [] := by simp
    simp [hr, this]

/- Why the grammar check is needed in EVERY operation (defect D1, repaired): for names outside
   the grammar the same computation leaves the base directory or aliases another entry. -/
example : join2 (str "/srv/store") (str "../other/bob") = str "/srv/other/bob" := by decide +kernel
example : join2 (str "/srv/store") (str "./admin") = str "/srv/store/admin" := by decide +kernel
example : getFilename (str "/srv/store") [] adminExt = str "/srv/store.admin" := by decide +kernel
example : getFilename (str "/srv/store") (str "a/../bob") userExt = str "/srv/store/bob.user" := by decide +kernel
/- Non-vacuity of the theorem above, on a base directory that itself needs cleaning. -/
example : getFilename (str "/srv//x/../store/") (str "alice") userExt = str "/srv/store/alice.user" := by decide +kernel
example : comps (str "/srv//x/../store/") = [str "srv", str "store"] := by decide +kernel

end Path

end Whawty.Store.C03
