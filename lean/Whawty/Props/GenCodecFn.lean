/-
  The regenerated tie (the four codec methods): `Whawty/Gen/Codec.lean` holds the statement-by-
  statement translations of `(*Request).Encode`, `(*Request).Decode`, `(*Response).Encode` and
  `(*Response).Decode` (sasl/sasl_encoding.go) that the translator `harness/cmd/factgen` writes from
  /repo's CURRENT source on every run. The loops over the parts (`encodeLengthEncodedStrings`,
  `decodeLengthEncodedStrings` with its `bufio.Scanner`) are NOT translated: they are the parameters
  `enc` (the error result of writing these parts) and `dec` (`none` = the part decoder failed,
  `some ps` = it filled the slots with `ps`), modelled by `Sasl.encodeParts` / `Sasl.decodeScan`
  and tied to the code by the split function's own translation (GenScan) and the differential run.

  The ties are stated for whatever function the translator produced (`… = some f → f = …`): a
  method that a maintainer rewrites with constructs outside the translated subset (a loop, a helper
  closure) is `none`, nothing is claimed about it any more, the check says so in its evidence
  (`ties_not_established`) and the property rests on the differential run alone for that method, as
  it did before these ties existed. A method that IS translated and differs from the model breaks
  this module (a broken proof obligation).

  The `*_is_source` theorems hold for EVERY `enc` / `dec`: what the methods do around the loops —
  the per-field limits, which parts are handed to the encoder and in which order, the field checks
  after decoding, the response text grammar — is what the source says now. The `source_*`
  corollaries instantiate them with the model's loops: the translated methods then compute the
  model's `Request.encode`, `Request.decodeChunked`, `Response.encode`, `Response.decodeChunked`,
  which is what the theorems of C13 / C05 / C04 are about.
-/
import Whawty.Gen.Codec
import Whawty.Model.Sasl
import Whawty.Lemmas.Sasl
namespace Whawty.Gen.Tie
open Whawty Whawty.Gen Whawty.Sasl

/-- `Request.Encode`: refused (an error, the encoder is never called) when a field is longer than
    `MaxRequestLength`; otherwise exactly the four fields, in the order login, password, service,
    realm, go to the part encoder and its result is the method's. -/
theorem requestEncode_is_source (f) (hf : requestEncode = some f) :
    f = (fun enc l p s r =>
      if l.length > maxLen ∨ p.length > maxLen ∨ s.length > maxLen ∨ r.length > maxLen then true
      else enc [l, p, s, r]) := by
  unfold requestEncode at hf
  first
    | (cases hf; done)   -- the method left the translated subset: nothing is claimed
    | (injection hf with hf
       subst hf
       funext enc l p s r
       simp only [maxLen, decide_eq_true_eq]
       repeat' split
       all_goals first | rfl | omega | (simp_all; done) | (simp_all; omega))

/-- With the model's part encoder: the source's `Request.Encode` fails exactly when the model's does. -/
theorem source_requestEncode_model (f) (hf : requestEncode = some f) (r : Request) :
    f (fun ps => (encodeParts ps).isNone) r.login r.password r.service r.realm = (Request.encode r).isNone := by
  rw [requestEncode_is_source f hf]
  simp only [Request.encode]
  repeat' split
  all_goals first | rfl | (simp_all; done) | (simp_all; omega) | omega

/-- `Request.Decode`: an error of the part decoder is the method's error and the receiver keeps its
    fields; four decoded parts are subjected to exactly the model's field checks (`Request.ofParts`:
    empty login / empty password refused, receiver untouched) and otherwise become the receiver's
    fields in the order login, password, service, realm. -/
theorem requestDecode_is_source (f) (hf : requestDecode = some f) :
    f = (fun dec l0 p0 s0 r0 =>
      match dec 4 with
      | none => (true, l0, p0, s0, r0)
      | some ps =>
        match Request.ofParts [ps.getD 0 [], ps.getD 1 [], ps.getD 2 [], ps.getD 3 []] with
        | none => (true, l0, p0, s0, r0)
        | some q => (false, q.login, q.password, q.service, q.realm)) := by
  unfold requestDecode at hf
  first
    | (cases hf; done)
    | (injection hf with hf
       subst hf
       funext dec l0 p0 s0 r0
       cases dec 4 with
       | none => rfl
       | some ps =>
         simp only [Request.ofParts, decide_eq_true_eq]
         generalize ps.getD 0 [] = a
         generalize ps.getD 1 [] = b
         cases a <;> cases b <;> simp only [List.length_cons, List.length_nil, List.isEmpty_cons, List.isEmpty_nil,
           Bool.or_true, Bool.or_false, if_true, Bool.false_eq_true, if_false] <;>
           (repeat' split) <;> first | rfl | omega | (simp_all; done))

/-- `Response.Encode`: the single part handed to the encoder is the model's `Response.text`. -/
theorem responseEncode_is_source (f) (hf : responseEncode = some f) :
    f = (fun enc b m => enc [Response.text ⟨b, m⟩]) := by
  unfold responseEncode at hf
  first
    | (cases hf; done)
    | (injection hf with hf
       subst hf
       funext enc b m
       cases b <;> cases m <;> simp [Response.text, okB, noB])

/-- With the model's part encoder: the source's `Response.Encode` fails exactly when the model's does. -/
theorem source_responseEncode_model (f) (hf : responseEncode = some f) (r : Response) :
    f (fun ps => (encodeParts ps).isNone) r.result r.message = (Response.encode r).isNone := by
  rw [responseEncode_is_source f hf]
  rfl

/-- The model's response grammar seen as the result triple of `Response.Decode` (error, Result,
    Message) for a receiver whose `Message` was `m0`, as nested conditions. -/
theorem ofText_view (t m0 : Bytes) :
    (match Response.ofText t with
     | none => (true, false, m0)
     | some q => (false, q.result, if t.length > 3 then q.message else m0)) =
    if t.length < 2 then (true, false, m0)
    else if t.take 2 = okB then (false, true, if t.length > 3 then t.drop 3 else m0)
    else if t.take 2 = noB then (false, false, if t.length > 3 then t.drop 3 else m0)
    else (true, false, m0) := by
  unfold Response.ofText
  by_cases h1 : t.length < 2
  · simp [h1]
  · by_cases h2 : t.take 2 = okB
    · simp [h1, h2]
    · have hne : ¬ (noB = okB) := by decide
      by_cases h3 : t.take 2 = noB <;> simp [h1, h2, h3, hne]

/-- `Response.Decode` on a receiver whose fields were `(b0, m0)`: `Result` is reset first; an error
    of the part decoder or a text outside the grammar (`Response.ofText`: shorter than two bytes,
    not starting with OK / NO) is an error with `Result = false`; otherwise the verdict is the
    model's, and the message is the model's when the text is longer than three bytes — a shorter
    text leaves the receiver's `Message` as it was (`m0`; the model's `ofText` is for `m0 = ""`). -/
theorem responseDecode_is_source (f) (hf : responseDecode = some f) :
    f = (fun dec (_b0 : Bool) m0 =>
      match dec 1 with
      | none => (true, false, m0)
      | some ps =>
        match Response.ofText (ps.getD 0 []) with
        | none => (true, false, m0)
        | some q => (false, q.result, if (ps.getD 0 []).length > 3 then q.message else m0)) := by
  unfold responseDecode at hf
  first
    | (cases hf; done)
    | (injection hf with hf
       subst hf
       funext dec b0 m0
       cases dec 1 with
       | none => rfl
       | some ps =>
         simp only []
         generalize ps.getD 0 [] = t
         have t2 : Int.toNat 2 = 2 := rfl
         have t0 : Int.toNat 0 = 0 := rfl
         have t3 : Int.toNat 3 = 3 := rfl
         rw [ofText_view]
         simp only [slice, t0, t2, t3, List.drop_zero, Nat.sub_zero, okB, noB, decide_eq_true_eq]
         repeat' split
         all_goals first | rfl | omega | (simp_all; done) | (simp_all; omega))

/-- For a fresh receiver (`Message` empty, as in `sasl.Client.Auth` and in the PAM-side reading of
    the reply) the source's `Response.Decode` computes exactly the model's `ofText`. -/
theorem source_responseDecode_fresh (f) (hf : responseDecode = some f) (dec) (b0 : Bool) :
    f dec b0 [] =
      match dec 1 with
      | none => (true, false, [])
      | some ps =>
        match Response.ofText (ps.getD 0 []) with
        | none => (true, false, [])
        | some q => (false, q.result, q.message) := by
  rw [responseDecode_is_source f hf]
  cases hd : dec 1 with
  | none => simp only [hd]
  | some ps =>
    simp only [hd]
    generalize ps.getD 0 [] = t
    cases h : Response.ofText t with
    | none => rfl
    | some q =>
      simp only []
      by_cases h3 : t.length > 3
      · simp [h3]
      · simp only [h3, if_false]
        unfold Response.ofText at h
        have : t.drop 3 = [] := List.drop_eq_nil_of_le (by omega)
        split at h
        · simp at h
        · split at h
          · injection h with h; subst h; simp [this]
          · split at h
            · injection h with h; subst h; simp [this]
            · simp at h

/-- About the source's `Response.Decode` itself: it reports success with `Result = true` only for a
    text that starts with the two bytes `OK` — whatever the part decoder delivers. -/
theorem source_response_positive_only_on_OK (f) (hf : responseDecode = some f) (dec) (b0 : Bool) (m0 m : Bytes)
    (h : f dec b0 m0 = (false, true, m)) :
    ∃ ps, dec 1 = some ps ∧ (ps.getD 0 []).take 2 = okB := by
  rw [responseDecode_is_source f hf] at h
  cases hd : dec 1 with
  | none => simp [hd] at h
  | some ps =>
    refine ⟨ps, rfl, ?_⟩
    simp only [hd] at h
    generalize ps.getD 0 [] = t at h ⊢
    rw [ofText_view] at h
    split at h
    · simp at h
    · split at h
      · assumption
      · split at h <;> simp at h

/-- About the source's `Request.Decode` itself: success means four parts were decoded, login and
    password are non-empty, and the receiver holds exactly those parts. -/
theorem source_request_decode_fields (f) (hf : requestDecode = some f) (dec) (l0 p0 s0 r0 l p s r : Bytes)
    (h : f dec l0 p0 s0 r0 = (false, l, p, s, r)) :
    ∃ ps, dec 4 = some ps ∧ l = ps.getD 0 [] ∧ p = ps.getD 1 [] ∧ s = ps.getD 2 [] ∧ r = ps.getD 3 [] ∧
      l ≠ [] ∧ p ≠ [] := by
  rw [requestDecode_is_source f hf] at h
  cases hd : dec 4 with
  | none => simp [hd] at h
  | some ps =>
    refine ⟨ps, rfl, ?_⟩
    simp only [hd, Request.ofParts] at h
    split at h
    · simp at h
    · rename_i q hq
      split at hq
      · simp at hq
      · rename_i hne
        injection hq with hq
        subst hq
        simp only [Prod.mk.injEq] at h
        obtain ⟨_, h1, h2, h3, h4⟩ := h
        subst h1; subst h2; subst h3; subst h4
        simp only [Bool.or_eq_true, List.isEmpty_iff, not_or] at hne
        exact ⟨rfl, rfl, rfl, rfl, hne.1, hne.2⟩

/-- The scanner loop delivers exactly as many parts as it was asked for. -/
theorem decodeScan_length (k : Nat) (buf : Bytes) (cs : List Bytes) (e : Nat) :
    ∀ ps n, decodeScan k buf cs e = some (ps, n) → ps.length = k := by
  fun_induction decodeScan k buf cs e with
  | case1 => intro ps n h; simp at h; simp [h.1]
  | case2 k buf e adv p hs ih =>
    intro ps n h
    cases hd : decodeScan k (List.drop adv buf) [] 0 with
    | none => simp [hd] at h
    | some r =>
      obtain ⟨ps', n'⟩ := r
      simp [hd] at h
      have := ih ps' n' hd
      rw [← h.1]; simp [this]
  | case3 => intro ps n h; simp at h
  | case4 k buf c cs e adv p hs ih =>
    intro ps n h
    cases hd : decodeScan k (List.drop adv buf) (c :: cs) 0 with
    | none => simp [hd] at h
    | some r =>
      obtain ⟨ps', n'⟩ := r
      simp [hd] at h
      have := ih ps' n' hd
      rw [← h.1]; simp [this]
  | case5 => intro ps n h; simp at h
  | case6 => intro ps n h; simp at h
  | case7 k buf c cs e _ _ _ _ ih => intro ps n h; exact ih ps n h
  | case8 k buf c cs e _ _ _ ih => intro ps n h; exact ih ps n h

/-- With the model's scanner loop as the part decoder (any fragmentation `cs` of the stream): the
    source's `Request.Decode` computes the model's `Request.decodeChunked`. -/
theorem source_requestDecode_model (f) (hf : requestDecode = some f) (cs : List Bytes) (l0 p0 s0 r0 : Bytes) :
    f (fun n => (decodeScan n [] cs 0).map (·.1)) l0 p0 s0 r0 =
      match Request.decodeChunked cs with
      | none => (true, l0, p0, s0, r0)
      | some (q, _) => (false, q.login, q.password, q.service, q.realm) := by
  rw [requestDecode_is_source f hf]
  simp only [Request.decodeChunked]
  cases hd : decodeScan 4 [] cs 0 with
  | none => simp
  | some r =>
    obtain ⟨ps, n⟩ := r
    have hl := decodeScan_length 4 [] cs 0 ps n hd
    match ps, hl with
    | [a, b, c, d], _ =>
      simp only [Option.map_some, List.getD_cons_zero, List.getD_cons_succ]
      try (cases Request.ofParts [a, b, c, d] <;> simp)

/-- … and its `Response.Decode`, on a fresh receiver, the model's `Response.decodeChunked`. -/
theorem source_responseDecode_model (f) (hf : responseDecode = some f) (cs : List Bytes) (b0 : Bool) :
    f (fun n => (decodeScan n [] cs 0).map (·.1)) b0 [] =
      match Response.decodeChunked cs with
      | none => (true, false, [])
      | some q => (false, q.result, q.message) := by
  rw [source_responseDecode_fresh f hf]
  simp only [Response.decodeChunked]
  cases hd : decodeScan 1 [] cs 0 with
  | none => simp
  | some r =>
    obtain ⟨ps, n⟩ := r
    have hl := decodeScan_length 1 [] cs 0 ps n hd
    match ps, hl with
    | [t], _ =>
      simp only [Option.map_some, List.getD_cons_zero]
      try (cases Response.ofText t <;> simp)

end Whawty.Gen.Tie
