/-
  The regenerated tie (policy condition parser): `Whawty/Gen/PolicyCond.lean` is the statement-by-
  statement translation of `newZXCVBNPolicy` (cmd/whawty-auth/policy.go) written by the translator from
  /repo's CURRENT source on every run (the three condition functions are the enumeration 1 = score,
  2 = entropy, 3 = time; 0 = none). The theorem proves that the source's parser accepts exactly the
  strings the model's `Policy.parseCondition` accepts, with the same kind and threshold:
  `condition_parser_exact` and `store_change_implies_policy` (C17) are thereby about the condition the
  source parses now. Optional tie (see GenCodecFn): a parser rewritten outside the translated subset
  is `none` and nothing is claimed.
-/
import Whawty.Gen.PolicyCond
import Whawty.Model.Policy
namespace Whawty.Gen.Tie
open Whawty Whawty.Gen Whawty.Policy

/-- The enumeration the translator uses for the three condition functions. -/
def kindCode : Kind → Int
  | .score => 1
  | .entropy => 2
  | .time => 3

/-- The model's parser as nested conditions on the three fields. -/
theorem parseCondition_view (s : Bytes) :
    parseCondition s =
      if (fields s).length ≠ 3 then none
      else if (fields s).getD 1 [] ≠ geB then none
      else match Rec.parseUint64 ((fields s).getD 2 []) with
        | none => none
        | some thr =>
          if (fields s).getD 0 [] = scoreB then (if thr > 4 then none else some ⟨.score, thr⟩)
          else if (fields s).getD 0 [] = entropyB then some ⟨.entropy, thr⟩
          else if (fields s).getD 0 [] = timeB then some ⟨.time, thr⟩
          else none := by
  unfold parseCondition
  match hf : fields s with
  | [] => simp
  | [_] => simp
  | [_, _] => simp
  | [k, op, t] =>
    simp only [List.length_cons, List.length_nil, List.getD_cons_zero, List.getD_cons_succ]
    by_cases hop : op = geB <;> simp [hop] <;> (cases Rec.parseUint64 t <;> rfl)
  | _ :: _ :: _ :: _ :: _ => simp

/-- The source's condition parser is the model's: an error exactly when the model refuses the string;
    otherwise the model's threshold and the function for the model's kind. -/
theorem newZXCVBNPolicy_is_source (f) (hf : newZXCVBNPolicy = some f) (s : Bytes) :
    (f s).1 = (parseCondition s).isNone ∧
    ∀ c, parseCondition s = some c → f s = (false, kindCode c.kind, (c.threshold : Int)) := by
  unfold newZXCVBNPolicy at hf
  first
  | (cases hf; done)   -- the parser left the translated subset: nothing is claimed
  | (
    injection hf with hf
    subst hf
    have hfs : fields s = stringsFields s := rfl
    unfold parseCondition
    rw [hfs]
    dsimp only
    generalize stringsFields s = fs
    -- a list of another length: the model refuses; whatever the source's length test looks like, its
    -- true branch is the error return and its false branch contradicts the length (linear arithmetic)
    have wrongLen : ∀ (l : List Bytes) (P : Prop) [Decidable P] (e : Bool × Int × Int) (x : Bool × Int × Int),
        e.1 = true → (¬ P → False) → (if P then e else x).1 = true := by
      intro l P _ e x he hP
      by_cases hp : P
      · simp [hp, he]
      · exact absurd hp (fun h => hP h)
    match fs with
    | [] =>
      refine ⟨?_, by intro c hc; simp at hc⟩
      simp only [List.length_nil, decide_eq_true_eq]
      first
        | (apply wrongLen [] _ _ _ rfl; intro h; first | omega | (simp at h) | (simp at h; omega))
        | simp
    | [_] =>
      refine ⟨?_, by intro c hc; simp at hc⟩
      simp only [List.length_cons, List.length_nil, decide_eq_true_eq]
      first
        | (apply wrongLen [] _ _ _ rfl; intro h; first | omega | (simp at h) | (simp at h; omega))
        | simp
    | [_, _] =>
      refine ⟨?_, by intro c hc; simp at hc⟩
      simp only [List.length_cons, List.length_nil, decide_eq_true_eq]
      first
        | (apply wrongLen [] _ _ _ rfl; intro h; first | omega | (simp at h) | (simp at h; omega))
        | simp
    | _ :: _ :: _ :: _ :: rest =>
      refine ⟨?_, by intro c hc; simp at hc⟩
      simp only [List.length_cons, List.length_nil, decide_eq_true_eq]
      first
        | (apply wrongLen [] _ _ _ rfl; intro h; first | omega | (simp at h; omega))
        | (have hne : ¬ ((rest.length : Int) + 1 + 1 + 1 + 1 = 3) := by omega
           simp [hne])
    | [k, op, t] =>
      simp only [List.length_cons, List.length_nil, List.getD_cons_zero, List.getD_cons_succ, parseUint,
        geB, scoreB, entropyB, timeB, decide_eq_true_eq]
      by_cases hop : op = ([62, 61] : Bytes)
      · cases hp : Rec.parseUint64 t with
        | none => simp [hop]
        | some thr =>
          by_cases k1 : k = ([115, 99, 111, 114, 101] : Bytes)
          · by_cases h4 : thr > 4
            · have : ((thr : Int) > 4) := by omega
              simp [hop, k1, h4, this]
            · have : ¬ ((thr : Int) > 4) := by omega
              simp [hop, k1, h4, this, kindCode]
          · by_cases k2 : k = ([101, 110, 116, 114, 111, 112, 121] : Bytes)
            · simp [hop, k1, k2, kindCode]
            · by_cases k3 : k = ([116, 105, 109, 101] : Bytes)
              · simp [hop, k1, k2, k3, kindCode]
              · simp [hop, k1, k2, k3]
      · simp [hop])

/-- About the source's parser itself: what it accepts has exactly three blank-separated fields, the
    second `>=`, the third a decimal 64-bit number, the first one of the three names — and a score
    threshold above 4 is refused. -/
theorem source_condition_accepted (f) (hf : newZXCVBNPolicy = some f) (s : Bytes) (k thr : Int)
    (h : f s = (false, k, thr)) :
    ∃ c, parseCondition s = some c ∧ k = kindCode c.kind ∧ thr = c.threshold ∧
      (c.kind = .score → c.threshold ≤ 4) := by
  have ⟨h1, h2⟩ := newZXCVBNPolicy_is_source f hf s
  rw [h] at h1
  cases hc : parseCondition s with
  | none => simp [hc] at h1
  | some c =>
    have := h2 c hc
    rw [h] at this
    simp only [Prod.mk.injEq, true_and] at this
    refine ⟨c, rfl, this.1, this.2, ?_⟩
    intro hk
    rw [parseCondition_view] at hc
    split at hc
    · simp at hc
    · split at hc
      · simp at hc
      · split at hc
        · simp at hc
        · rename_i t _
          split at hc
          · split at hc
            · simp at hc
            · rename_i h4
              injection hc with hc
              subst hc
              simp only [] at *
              omega
          · split at hc
            · injection hc with hc; subst hc; simp at hk
            · split at hc
              · injection hc with hc; subst hc; simp at hk
              · simp at hc

/-- `NewPasswordPolicy`: no policy for the empty type, the zxcvbn parser's own results for `zxcvbn`
    (for EVERY behaviour `zx` of that parser), an error for any other type. -/
theorem newPasswordPolicy_is_source (f) (hf : newPasswordPolicy = some f) (zx : Bytes → Bool × Bool) (ty cond : Bytes) :
    f zx ty cond = if ty = [] then (true, false) else if ty = zxcvbnB then zx cond else (false, true) := by
  unfold newPasswordPolicy at hf
  first
  | (cases hf; done)
  | (injection hf with hf
     subst hf
     simp only [zxcvbnB, decide_eq_true_eq]
     repeat' split
     all_goals first | rfl | (simp_all; done))

/-- With the translated condition parser's verdict as `zx`: the source's constructor succeeds exactly
    when the model's `newPolicy` does (`bad_policy_stops_agent` of C17 is about this function). -/
theorem source_newPolicy_model (f) (hf : newPasswordPolicy = some f) (ty cond : Bytes) :
    f (fun c => ((parseCondition c).isSome, (parseCondition c).isNone)) ty cond =
      ((newPolicy ty cond).isSome, (newPolicy ty cond).isNone) := by
  rw [newPasswordPolicy_is_source f hf]
  unfold newPolicy
  by_cases h1 : ty = []
  · simp [h1]
  · by_cases h2 : ty = zxcvbnB
    · subst h2
      have hz : ¬ (zxcvbnB = []) := by decide
      simp only [hz, if_false, if_true]
      cases parseCondition cond <;> rfl
    · simp [h1, h2]

end Whawty.Gen.Tie
