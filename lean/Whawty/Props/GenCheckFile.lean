/-
  The regenerated tie (directory-entry classification): `Whawty/Gen/CheckFile.lean` is the
  statement-by-statement translation of `checkUserFile` (store/store.go) written by the translator
  `harness/cmd/factgen` (translate.go) from /repo's CURRENT source on every run. The theorem below
  proves that it is the model's `Store.checkUserFile` for every directory-entry name (a name
  without `/`). Together with GenGrammar (the regular expression) this ties the grammar of the
  store directory — what `Check`, `List`, `ListFull` accept — to what the source says now.
-/
import Whawty.Gen.CheckFile
import Whawty.Props.GenGrammar
import Whawty.Lemmas.StoreInv
namespace Whawty.Gen.Tie
open Whawty Whawty.Gen

/-- `filepath.Ext` on a name without `/` is the model's `extOf`. -/
theorem pathExtAux_eq (r : Bytes) : ∀ acc, (47 : Byte) ∉ r →
    pathExtAux r acc = if r.dropWhile (· ≠ 46) = [] then [] else 46 :: ((r.takeWhile (· ≠ 46)).reverse ++ acc) := by
  induction r with
  | nil => intro acc _; simp [pathExtAux]
  | cons c r ih =>
    intro acc h
    have hc : c ≠ 47 := by intro e; apply h; simp [e]
    have hr : (47 : Byte) ∉ r := by intro e; apply h; simp [e]
    simp only [pathExtAux, hc, if_false]
    by_cases h46 : c = 46
    · subst h46; simp
    · simp only [h46, if_false]
      rw [ih (c :: acc) hr]
      simp [List.dropWhile_cons, List.takeWhile_cons, h46]

theorem pathExt_eq (n : Bytes) (h : (47 : Byte) ∉ n) : pathExt n = Store.extOf n := by
  unfold pathExt Store.extOf
  rw [pathExtAux_eq _ [] (by simpa using h)]
  simp

theorem trimSuffix_ext (n : Bytes) (h : Store.extOf n ≠ []) :
    trimSuffix n (Store.extOf n) = n.take (n.length - (Store.extOf n).length) := by
  obtain ⟨p, hp⟩ := Store.extOf_suffix n h
  unfold trimSuffix
  have hl : n.length = p.length + (Store.extOf n).length := by
    conv => lhs; rw [hp]
    simp
  have h1 : (Store.extOf n).length ≤ n.length := by omega
  have h2 : n.drop (n.length - (Store.extOf n).length) = Store.extOf n := by
    have : n.length - (Store.extOf n).length = p.length := by omega
    rw [this]
    conv => lhs; rw [hp]
    simp
  simp [h1, h2]

/-- Go's `(valid, user, isAdmin, err)` for the model's outcome. -/
def cfView : Option (Bool × Bytes × Bool) → Bool × Bytes × Bool × Bool
  | none => (false, [], false, true)
  | some (v, u, a) => (v, u, a, false)

theorem userNameReMatch_eq (u : Bytes) : userNameReMatch u = Store.validName u := by
  rw [validName_is_source_grammar]; rfl

/- (The script below closes the goal for the `switch` form of the function and for an `if`/`else if`
   chain with `valid = userNameRe.MatchString(user)`: behaviour-preserving rewrites inside the
   translated subset keep the tie.) -/
theorem checkUserFile_is_source (n : Bytes) (h : (47 : Byte) ∉ n) :
    checkUserFile.map (· n) = some (cfView (Store.checkUserFile n)) := by
  unfold checkUserFile
  simp only [Option.map_some, Option.some.injEq]
  simp only [pathExt_eq n h, userNameReMatch_eq, Store.checkUserFile]
  have ha : ([46, 97, 100, 109, 105, 110] : Bytes) = Store.adminExt := rfl
  have hu : ([46, 117, 115, 101, 114] : Bytes) = Store.userExt := rfl
  rw [ha, hu]
  by_cases h1 : Store.extOf n = Store.adminExt
  · have hne : Store.extOf n ≠ [] := by rw [h1]; decide
    have ht := trimSuffix_ext n hne
    rw [h1] at ht
    simp only [h1, decide_true, if_true, ht, cfView]
    try (cases Store.validName (List.take (n.length - Store.adminExt.length) n) <;> simp)
  · by_cases h2 : Store.extOf n = Store.userExt
    · have hne : Store.extOf n ≠ [] := by rw [h2]; decide
      have ht := trimSuffix_ext n hne
      rw [h2] at ht
      have hd : ¬ Store.userExt = Store.adminExt := by decide
      simp only [h2, hd, decide_false, decide_true, Bool.false_eq_true, if_false, if_true, ht, cfView]
      try (cases Store.validName (List.take (n.length - Store.userExt.length) n) <;> simp)
    · simp [h1, h2, cfView]

/- Non-vacuity: the translation exists and classifies a real entry. -/
example : checkUserFile.map (· [97, 46, 117, 115, 101, 114]) = some (true, [97], false, false) := by decide

end Whawty.Gen.Tie
