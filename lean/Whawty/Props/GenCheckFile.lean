/-
  The regenerated tie (directory-entry classification): `Whawty/Gen/CheckFile.lean` is the
  statement-by-statement translation of `checkUserFile` (store/store.go) written by the translator
  `harness/cmd/factgen` (translate.go) from /repo's CURRENT source on every run. The theorem below
  proves that it is the model's `Store.checkUserFile` for every directory-entry name (a name
  without `/`). Together with GenGrammar (the regular expression) this ties the grammar of the
  store directory — what `Check`, `List`, `ListFull` accept — to what the source says now.
-/
import Whawty.Gen.CheckFile
import Whawty.Props.GenGrammar
import Whawty.Lemmas.StoreInv
import Whawty.Lemmas.StoreCheck
namespace Whawty.Gen.Tie
open Whawty Whawty.Gen

/-- `filepath.Ext` on a name without `/` is the model's `extOf`. -/
theorem pathExtAux_eq (r : Bytes) : ∀ acc, (47 : Byte) ∉ r →
    pathExtAux r acc = if r.dropWhile (· ≠ 46) = [] then [] else 46 :: ((r.takeWhile (· ≠ 46)).reverse ++ acc) := by
  induction r with
  | nil => intro acc _; simp [pathExtAux]
  | cons c r ih =>
    intro acc h
    have hc : c ≠ 47 := by intro e; apply h; simp [e]
    have hr : (47 : Byte) ∉ r := by intro e; apply h; simp [e]
    simp only [pathExtAux, hc, if_false]
    by_cases h46 : c = 46
    · subst h46; simp
    · simp only [h46, if_false]
      rw [ih (c :: acc) hr]
      simp [List.dropWhile_cons, List.takeWhile_cons, h46]

theorem pathExt_eq (n : Bytes) (h : (47 : Byte) ∉ n) : pathExt n = Store.extOf n := by
  unfold pathExt Store.extOf
  rw [pathExtAux_eq _ [] (by simpa using h)]
  simp

theorem trimSuffix_ext (n : Bytes) (h : Store.extOf n ≠ []) :
    trimSuffix n (Store.extOf n) = n.take (n.length - (Store.extOf n).length) := by
  obtain ⟨p, hp⟩ := Store.extOf_suffix n h
  unfold trimSuffix
  have hl : n.length = p.length + (Store.extOf n).length := by
    conv => lhs; rw [hp]
    simp
  have h1 : (Store.extOf n).length ≤ n.length := by omega
  have h2 : n.drop (n.length - (Store.extOf n).length) = Store.extOf n := by
    have : n.length - (Store.extOf n).length = p.length := by omega
    rw [this]
    conv => lhs; rw [hp]
    simp
  simp [h1, h2]

/-- Go's `(valid, user, isAdmin, err)` for the model's outcome. -/
def cfView : Option (Bool × Bytes × Bool) → Bool × Bytes × Bool × Bool
  | none => (false, [], false, true)
  | some (v, u, a) => (v, u, a, false)

theorem userNameReMatch_eq (u : Bytes) : userNameReMatch u = Store.validName u := by
  rw [validName_is_source_grammar]; rfl

/-- `strings.HasSuffix(n, ext)` for one of the two extensions says the same as `filepath.Ext(n) == ext`. -/
theorem hasSuffix_iff_ext (n e : Bytes) (he : e = Store.adminExt ∨ e = Store.userExt) :
    (e.length ≤ n.length ∧ n.drop (n.length - e.length) = e) ↔ Store.extOf n = e := by
  constructor
  · rintro ⟨hl, hd⟩
    have hn : n = n.take (n.length - e.length) ++ e := by
      conv => lhs; rw [← List.take_append_drop (n.length - e.length) n]
      rw [hd]
    rw [hn]
    rcases he with rfl | rfl
    · exact Store.extOf_admin' _
    · exact Store.extOf_user _
  · intro h
    have hne : Store.extOf n ≠ [] := by
      rw [h]; rcases he with rfl | rfl <;> decide
    obtain ⟨p, hp⟩ := Store.extOf_suffix n hne
    rw [h] at hp
    have hl : n.length = p.length + e.length := by rw [hp]; simp
    refine ⟨by omega, ?_⟩
    have : n.length - e.length = p.length := by omega
    rw [this]
    conv => lhs; rw [hp]
    simp

theorem cutSuffix_ext (n e : Bytes) (he : e = Store.adminExt ∨ e = Store.userExt) :
    cutSuffix n e = if Store.extOf n = e then (n.take (n.length - e.length), true) else (n, false) := by
  unfold cutSuffix
  by_cases h : Store.extOf n = e
  · have := (hasSuffix_iff_ext n e he).mpr h
    simp [h, this]
  · have : ¬ (e.length ≤ n.length ∧ n.drop (n.length - e.length) = e) := fun hh => h ((hasSuffix_iff_ext n e he).mp hh)
    simp only [this, h, if_false]
/- (The script below closes the goal for the `switch` form of the function, for an `if`/`else if`
   chain on `filepath.Ext` with `valid = userNameRe.MatchString(user)` (benign M-4) and for the
   `strings.CutSuffix` form a maintainer-style sub-agent wrote (benign B3-3): behaviour-preserving
   rewrites inside the translated subset keep the tie.) -/
theorem checkUserFile_is_source (n : Bytes) (h : (47 : Byte) ∉ n) :
    checkUserFile.map (· n) = some (cfView (Store.checkUserFile n)) := by
  unfold checkUserFile
  simp only [Option.map_some, Option.some.injEq]
  have ha : ([46, 97, 100, 109, 105, 110] : Bytes) = Store.adminExt := rfl
  have hu : ([46, 117, 115, 101, 114] : Bytes) = Store.userExt := rfl
  simp only [ha, hu, pathExt_eq n h, userNameReMatch_eq, Store.checkUserFile,
    cutSuffix_ext n Store.adminExt (Or.inl rfl), cutSuffix_ext n Store.userExt (Or.inr rfl)]
  have hd : ¬ Store.userExt = Store.adminExt := by decide
  by_cases h1 : Store.extOf n = Store.adminExt
  · have hne : Store.extOf n ≠ [] := by rw [h1]; decide
    have ht := trimSuffix_ext n hne
    rw [h1] at ht
    simp only [h1, decide_true, if_true, ht, cfView]
    try (cases Store.validName (List.take (n.length - Store.adminExt.length) n) <;> simp)
  · by_cases h2 : Store.extOf n = Store.userExt
    · have hne : Store.extOf n ≠ [] := by rw [h2]; decide
      have ht := trimSuffix_ext n hne
      rw [h2] at ht
      simp only [h1, h2, hd, decide_false, decide_true, Bool.false_eq_true, if_false, if_true, ht, cfView]
      try (cases Store.validName (List.take (n.length - Store.userExt.length) n) <;> simp)
    · simp [h1, h2, cfView]


/-- **What the source's `checkUserFile` accepts**, stated about the translated function itself: for
    a directory-entry name `n` (no `/`), it reports a valid entry exactly when `n` is
    `<u>.user` or `<u>.admin` for a name `u` of the user-name grammar — and then it returns that `u`
    and whether the extension was `.admin`; the error flag is set exactly when the extension is
    neither. -/
theorem source_checkUserFile_exact (n : Bytes) (h : (47 : Byte) ∉ n)
    (f : Bytes → Bool × Bytes × Bool × Bool) (hf : checkUserFile = some f) (u : Bytes) (a : Bool) :
    f n = (true, u, a, false) ↔ (Store.validName u = true ∧ n = Store.fileName u a) := by
  have hs := checkUserFile_is_source n h
  rw [hf] at hs
  simp only [Option.map_some, Option.some.injEq] at hs
  rw [hs]
  constructor
  · intro hv
    cases hc : Store.checkUserFile n with
    | none => simp [hc, cfView] at hv
    | some r =>
      obtain ⟨v, u', a'⟩ := r
      simp only [hc, cfView, Prod.mk.injEq, and_true] at hv
      obtain ⟨hv1, hv2, hv3⟩ := hv
      subst hv1; subst hv2; subst hv3
      have h1 := Store.checkUserFile_valid hc
      have h2 := Store.checkUserFile_name hc
      exact ⟨h1.symm, h2⟩
  · rintro ⟨hv, hn⟩
    rw [hn, Store.checkUserFile_fileName, hv]
    rfl

/-- … and it signals an error exactly for names with neither extension. -/
theorem source_checkUserFile_error (n : Bytes) (h : (47 : Byte) ∉ n)
    (f : Bytes → Bool × Bytes × Bool × Bool) (hf : checkUserFile = some f) :
    (f n).2.2.2 = true ↔ (Store.extOf n ≠ Store.adminExt ∧ Store.extOf n ≠ Store.userExt) := by
  have hs := checkUserFile_is_source n h
  rw [hf] at hs
  simp only [Option.map_some, Option.some.injEq] at hs
  rw [hs]
  simp only [Store.checkUserFile]
  by_cases h1 : Store.extOf n = Store.adminExt
  · simp [h1, cfView]
  · by_cases h2 : Store.extOf n = Store.userExt
    · have hd : ¬ Store.userExt = Store.adminExt := by decide
      simp [h2, hd, cfView]
    · simp [h1, h2, cfView]

/- Non-vacuity: the translation exists and classifies a real entry. -/
example : checkUserFile.map (· [97, 46, 117, 115, 101, 114]) = some (true, [97], false, false) := by decide

end Whawty.Gen.Tie
