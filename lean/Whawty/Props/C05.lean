/-
  C05 — The saslauthd server fails closed on every byte stream.
  `handle true` is the server of the repaired tree (reply message clipped to the part limit,
  commit "fix: sasl server clips the reply message"); `handle false` is the pinned code, for
  which the reply clauses are false (defect D3) — negations below.
-/
import Whawty.Lemmas.SaslServer
import Whawty.Props.C13
namespace Whawty.SaslServer.C05
open Whawty Whawty.Sasl Whawty.SaslServer

/-- The callback is called at most once, and only with exactly the four decoded fields of
    a stream that decodes completely. -/
theorem cb_at_most_once_exact_fields (clip : Bool) (cs : List Bytes) (cb : Request → CbOutcome) (t : Bytes) :
    (handle clip cs cb t).cbCalls.length ≤ 1 ∧
    ∀ q ∈ (handle clip cs cb t).cbCalls, ∃ n, Request.decode cs.flatten = some (q, n) := by
  simp only [handle]
  cases h : Request.decodeChunked cs with
  | none => simp
  | some qn =>
    obtain ⟨q, n⟩ := qn
    have := C13.chunked_result_is_stream_result cs (q, n) h
    simp only [List.length_cons, List.length_nil, Nat.le_refl, List.mem_singleton, true_and]
    intro q' hq'; subst hq'; exact ⟨n, this⟩

/-- Verdict the server is supposed to convey. -/
def verdict (cs : List Bytes) (cb : Request → CbOutcome) : Bool :=
  match Request.decode cs.flatten with
  | some (q, _) => (cb q).ok && (cb q).err.isNone
  | none => false

/-- A positive response is built only from a decoded request the callback approved. -/
theorem response_true (clip : Bool) (dec : Option (Request × Nat)) (cb : Request → CbOutcome) (t : Bytes)
    (h : (response clip dec cb t).result = true) :
    ∃ q n, dec = some (q, n) ∧ (cb q).ok = true ∧ (cb q).err = none := by
  cases dec with
  | none => cases clip <;> simp [response] at h
  | some qn =>
    obtain ⟨q, n⟩ := qn
    cases he : (cb q).err with
    | some e => cases clip <;> simp [response, he] at h
    | none =>
      refine ⟨q, n, rfl, ?_, he⟩
      cases clip <;> simpa [response, he] using h

/-- (`hsf`: the connection's reads are those of a reader that makes progress — at most 100
    zero-length reads in a row; a socket read never returns zero bytes without an error.) -/
theorem response_result (clip : Bool) (cs : List Bytes) (cb : Request → CbOutcome) (t : Bytes)
    (hsf : stallFree 0 cs = true) :
    (response clip (Request.decodeChunked cs) cb t).result = verdict cs cb := by
  simp only [response, verdict, C13.fragment_independent_request _ hsf]
  cases h : Request.decode cs.flatten with
  | none => cases clip <;> simp
  | some qn =>
    obtain ⟨q, n⟩ := qn
    cases he : (cb q).err <;> cases clip <;> simp [he]

/-- At most one reply is written, then the connection is closed (both code versions). -/
theorem at_most_one_reply_then_close (clip : Bool) (cs : List Bytes) (cb : Request → CbOutcome) (t : Bytes) :
    (handle clip cs cb t).replies.length ≤ 1 ∧ (handle clip cs cb t).closed = true := by
  simp only [handle]
  split <;> simp

/-- Repaired server: exactly one length-prefixed reply, for every callback result and message. -/
theorem one_reply_then_close (cs : List Bytes) (cb : Request → CbOutcome) (t : Bytes) :
    ∃ text, (handle true cs cb t).replies = [be16 text.length ++ text] ∧ text.length ≤ maxLen ∧
      (handle true cs cb t).closed = true := by
  have h256 := clipped_text_le (Request.decodeChunked cs) cb t
  refine ⟨(response true (Request.decodeChunked cs) cb t).text, ?_, h256, rfl⟩
  simp only [handle]
  rw [encode_of_le _ (by unfold maxLen at h256; omega)]

/-- Repaired server: the reply is decodable by the bundled Go client and by the PAM module,
    and both obtain the verdict (positive only if the request decoded completely and the
    callback approved without error). -/
theorem reply_decodable (cs : List Bytes) (cb : Request → CbOutcome) (t : Bytes) (hsf : stallFree 0 cs = true) :
    ∀ reply ∈ (handle true cs cb t).replies,
      (∃ m, Response.decode reply = some ⟨verdict cs cb, m⟩) ∧
      Pam.verdictOfReply reply = (if verdict cs cb then Pam.PAM_SUCCESS else Pam.PAM_AUTH_ERR) := by
  intro reply hmem
  have h256 := clipped_text_le (Request.decodeChunked cs) cb t
  have hres := response_result true cs cb t hsf
  simp only [handle] at hmem
  rw [encode_of_le _ (by unfold maxLen at h256; omega)] at hmem
  simp only [List.mem_singleton] at hmem
  subst hmem
  generalize response true (Request.decodeChunked cs) cb t = r at *
  constructor
  · refine ⟨r.message, ?_⟩
    simp only [Response.decode, decodePure_one_part r.text h256, ofText_text]
    rw [← hres]
  · rw [pam_verdict_of_text r h256, hres]

/-- The reply is positive only if the request decoded completely and the callback approved
    without error (both code versions, whenever the reply is decodable at all). -/
theorem positive_only_if (clip : Bool) (cs : List Bytes) (cb : Request → CbOutcome) (t m : Bytes) :
    ∀ reply ∈ (handle clip cs cb t).replies, Response.decode reply = some ⟨true, m⟩ →
      ∃ q n, Request.decode cs.flatten = some (q, n) ∧ (cb q).ok = true ∧ (cb q).err = none := by
  intro reply hmem hdec
  simp only [handle] at hmem
  have key := response_true clip (Request.decodeChunked cs) cb t
  generalize response clip (Request.decodeChunked cs) cb t = r at *
  have htrue : r.result = true := by
    by_cases h65 : r.text.length ≤ 65535
    · rw [encode_of_le r h65] at hmem
      simp only [List.mem_singleton] at hmem
      subst hmem
      by_cases h256 : r.text.length ≤ maxLen
      · simp only [Response.decode, decodePure_one_part r.text h256, ofText_text] at hdec
        injection hdec with hdec
        rw [hdec]
      · rw [Response.decode, decodePure_one_part_long r.text (by omega) (by omega)] at hdec
        simp at hdec
    · rw [encode_none_of_gt r (by omega)] at hmem
      simp at hmem
  obtain ⟨q, n, hq, hok, herr⟩ := key htrue
  exact ⟨q, n, C13.chunked_result_is_stream_result cs (q, n) hq, hok, herr⟩

/-- The server's behaviour depends on the client's stream only through the bytes, not
    through their fragmentation or write timing. -/
theorem fragmentation_irrelevant (clip : Bool) (cs ds : List Bytes) (cb : Request → CbOutcome) (t : Bytes)
    (h : cs.flatten = ds.flatten) (hc : stallFree 0 cs = true) (hd : stallFree 0 ds = true) :
    handle clip cs cb t = handle clip ds cb t := by
  simp only [handle, C13.fragment_independent_request _ hc, C13.fragment_independent_request _ hd, h]

/-- Pinned code (no clipping), defect D3: a message longer than 253 bytes gives a reply the
    Go client cannot decode; one longer than 65532 bytes gives no reply at all. -/
theorem pinned_reply_undecodable (cs : List Bytes) (cb : Request → CbOutcome) (t : Bytes)
    (q : Request) (n : Nat) (hq : Request.decode cs.flatten = some (q, n)) (he : (cb q).err = none)
    (hlong : maxMsg < (cb q).msg.length) (hsf : stallFree 0 cs = true) :
    ∀ reply ∈ (handle false cs cb t).replies, Response.decode reply = none := by
  intro reply hmem
  simp only [handle, response, C13.fragment_independent_request _ hsf, hq, he] at hmem
  generalize hr : (Response.mk (cb q).ok (cb q).msg) = r at hmem
  have hmsg : maxMsg < r.message.length := by rw [← hr]; exact hlong
  have hne : r.message ≠ [] := by intro h; rw [h] at hmsg; simp at hmsg
  have htl := text_len_gt_msg r hne
  simp only [Bool.false_eq_true, if_false] at hmem
  by_cases h65 : r.text.length ≤ 65535
  · rw [encode_of_le r h65] at hmem
    simp only [List.mem_singleton] at hmem
    subst hmem
    rw [Response.decode, decodePure_one_part_long r.text (by unfold maxMsg at hmsg; omega) (by omega)]
  · rw [encode_none_of_gt r (by omega)] at hmem
    simp at hmem

theorem pinned_no_reply (cs : List Bytes) (cb : Request → CbOutcome) (t : Bytes)
    (q : Request) (n : Nat) (hq : Request.decode cs.flatten = some (q, n)) (he : (cb q).err = none)
    (hlong : 65532 < (cb q).msg.length) (hsf : stallFree 0 cs = true) : (handle false cs cb t).replies = [] := by
  simp only [handle, response, C13.fragment_independent_request _ hsf, hq, he]
  generalize hr : (Response.mk (cb q).ok (cb q).msg) = r
  have hmsg : 65532 < r.message.length := by rw [← hr]; exact hlong
  have hne : r.message ≠ [] := by intro h; rw [h] at hmsg; simp at hmsg
  have htl := text_len_gt_msg r hne
  simp only [Bool.false_eq_true, if_false]
  rw [encode_none_of_gt r (by omega)]

/-- What a socket delivers: a read returns at least one byte (or the end of the stream); such reads
    have no run of zero-length reads at all (`Sasl.stallFree_of_nonempty`). So for connections (the property's "all byte streams a client can send, in any
    fragmentation") the server's reply carries exactly the verdict, whatever the fragmentation. -/
theorem socket_reply_decodable (cs : List Bytes) (cb : Request → CbOutcome) (t : Bytes) (h : ∀ c ∈ cs, c ≠ []) :
    ∀ reply ∈ (handle true cs cb t).replies,
      (∃ m, Response.decode reply = some ⟨verdict cs cb, m⟩) ∧
      Pam.verdictOfReply reply = (if verdict cs cb then Pam.PAM_SUCCESS else Pam.PAM_AUTH_ERR) :=
  reply_decodable cs cb t (stallFree_of_nonempty cs h 0)

theorem socket_fragmentation_irrelevant (clip : Bool) (cs ds : List Bytes) (cb : Request → CbOutcome) (t : Bytes)
    (h : cs.flatten = ds.flatten) (hc : ∀ c ∈ cs, c ≠ []) (hd : ∀ c ∈ ds, c ≠ []) :
    handle clip cs cb t = handle clip ds cb t :=
  fragmentation_irrelevant clip cs ds cb t h (stallFree_of_nonempty cs hc 0) (stallFree_of_nonempty ds hd 0)


/- Non-vacuity: a fragmented well-formed request, approving callback. -/
example : (handle true [[0, 1, 97, 0], [1, 98, 0, 0, 0], [0]] (fun _ => ⟨true, [104, 105], none⟩) []).replies
    = [[0, 5, 79, 75, 32, 104, 105]] := by
  simp only [handle, C13.fragment_independent_request _ (show stallFree 0 [[0, 1, 97, 0], [1, 98, 0, 0, 0], [0]] = true by decide)]; decide

end Whawty.SaslServer.C05
