/-
  C20 — The PAM module succeeds only on an explicit OK from the agent.
-/
import Whawty.Lemmas.Pam
import Whawty.Props.C13
namespace Whawty.Pam.C20
open Whawty Whawty.Pam

/-- The reply check succeeds exactly when the delivered stream is a length prefix `L`
    followed by at least `min L 256 ≥ 2` bytes that begin with "OK". -/
theorem recv_success_iff (evs : List SrvEv) :
    recvVerdict evs = PAM_SUCCESS ↔
      ∃ hi lo rest, stream evs = hi :: lo :: 79 :: 75 :: rest ∧
        2 ≤ min (be16val hi lo) 256 ∧ min (be16val hi lo) 256 ≤ rest.length + 2 := by
  have key : recvVerdict evs = PAM_SUCCESS ↔ verdictSpec (stream evs) = PAM_SUCCESS := by
    rw [recvVerdict_eq_spec]
    by_cases hz : zeroLenInterrupted evs = true
    · simp [hz, zeroLenInterrupted_spec evs hz, PAM_AUTHINFO_UNAVAIL, PAM_AUTH_ERR, PAM_SUCCESS]
    · simp [hz]
  rw [key]
  constructor
  · intro h
    match hs : stream evs, h with
    | [], h => simp [verdictSpec, PAM_AUTHINFO_UNAVAIL, PAM_SUCCESS] at h
    | [_], h => simp [verdictSpec, PAM_AUTHINFO_UNAVAIL, PAM_SUCCESS] at h
    | hi :: lo :: body, h =>
      simp only [verdictSpec, PAM_AUTH_ERR, PAM_AUTHINFO_UNAVAIL, PAM_SUCCESS] at h
      split at h
      · simp at h
      · split at h
        · simp at h
        · split at h
          · rename_i h0 hlen hok
            match body, hok, hlen with
            | [], hok, _ => simp [Sasl.okB] at hok
            | [a], hok, _ => 
              simp only [Sasl.okB] at hok
              cases hm : min (be16val hi lo) 256 with
              | zero => simp [hm] at hok
              | succ m => simp [hm] at hok
            | a :: b :: rest, hok, hlen =>
              cases hm : min (be16val hi lo) 256 with
              | zero => exact absurd hm h0
              | succ m =>
                cases m with
                | zero => simp [hm, Sasl.okB] at hok
                | succ m' =>
                  simp only [hm, List.take_succ_cons, Sasl.okB, List.take_zero, List.cons.injEq, and_true] at hok
                  obtain ⟨ha, hb⟩ := hok
                  subst ha; subst hb
                  refine ⟨hi, lo, rest, rfl, by omega, ?_⟩
                  simp only [hm, List.length_cons] at hlen; omega
          · simp at h
  · rintro ⟨hi, lo, rest, hs, h2, hl⟩
    rw [hs]
    simp only [verdictSpec]
    have h0 : ¬ min (be16val hi lo) 256 = 0 := by omega
    have h1 : ¬ (79 :: 75 :: rest : Bytes).length < min (be16val hi lo) 256 := by
      simp only [List.length_cons]; omega
    simp only [h0, h1, if_false]
    obtain ⟨m, hm⟩ : ∃ m, min (be16val hi lo) 256 = m + 2 := ⟨min (be16val hi lo) 256 - 2, by omega⟩
    simp [hm, Sasl.okB]

/-- PAM_SUCCESS is returned only if the agent's reply begins with "OK". -/
theorem success_only_on_ok (i : Input) (h : (authenticate i).1 = PAM_SUCCESS) :
    ∃ hi lo rest, stream i.server = hi :: lo :: 79 :: 75 :: rest ∧ 2 ≤ min (be16val hi lo) 256 := by
  unfold authenticate at h
  split at h
  · rename_i e he
    have := getPassword_error he
    simp only at h
    simp [this, PAM_SUCCESS, PAM_AUTHTOK_RECOVERY_ERR] at h
  · split at h
    · simp [PAM_AUTHINFO_UNAVAIL, PAM_SUCCESS] at h
    · obtain ⟨hi, lo, rest, a, b, _⟩ := (recv_success_iff i.server).mp h
      exact ⟨hi, lo, rest, a, b⟩

/-- Every reply-handling outcome is one of success / authentication error / unavailable. -/
theorem verdict_range (evs : List SrvEv) :
    recvVerdict evs = PAM_SUCCESS ∨ recvVerdict evs = PAM_AUTH_ERR ∨ recvVerdict evs = PAM_AUTHINFO_UNAVAIL := by
  rw [recvVerdict_eq_spec]
  split
  · simp
  unfold verdictSpec
  split
  · simp only []; split
    · simp
    · split
      · simp
      · split <;> simp
  · simp

/-- Any other server behaviour yields a non-success code: silence or close before the two
    length bytes, a body shorter than announced (short read, timeout, early close), a reply
    not beginning with "OK", an unreachable socket. -/
theorem every_failure_nonsuccess (i : Input)
    (h : ¬ i.connectOk ∨
         (¬ ∃ hi lo rest, stream i.server = hi :: lo :: 79 :: 75 :: rest ∧
            2 ≤ min (be16val hi lo) 256 ∧ min (be16val hi lo) 256 ≤ rest.length + 2)) :
    (authenticate i).1 ≠ PAM_SUCCESS := by
  intro hs
  unfold authenticate at hs
  split at hs
  · rename_i e he
    have := getPassword_error he
    simp only at hs
    simp [this, PAM_SUCCESS, PAM_AUTHTOK_RECOVERY_ERR] at hs
  · split at hs
    · simp [PAM_AUTHINFO_UNAVAIL, PAM_SUCCESS] at hs
    · rename_i hc
      rcases h with h | h
      · simp at hc; exact h hc
      · exact h ((recv_success_iff i.server).mp hs)

theorem silence_is_unavail (rest : List SrvEv) : recvVerdict (.timeout :: rest) = PAM_AUTHINFO_UNAVAIL := by
  simp [recvVerdict, recvVerdictCore, zeroLenInterrupted, readN]
/-- A signal that interrupts the wait for the reply makes the module give up (non-success). -/
theorem interrupt_is_unavail (rest : List SrvEv) : recvVerdict (.intr :: rest) = PAM_AUTHINFO_UNAVAIL := by
  simp [recvVerdict, recvVerdictCore, zeroLenInterrupted, readN]

/-- … also after part of the reply has arrived: an interrupt or a close before the announced
    body is complete never yields success, whatever follows. (The model has no `errno`: in the
    repaired code a read of 0 bytes is the end of the stream regardless of what the caller's
    errno happened to be — defect D11 was exactly that dependence.) -/
theorem incomplete_body_never_succeeds (hi lo : Byte) (part : Bytes) (e : SrvEv) (rest : List SrvEv)
    (he : e = .intr ∨ e = .eof ∨ e = .timeout) (hl : part.length < min (be16val hi lo) 256) :
    recvVerdict (.data ([hi, lo] ++ part) :: e :: rest) ≠ PAM_SUCCESS := by
  have h2 : readN 2 (.data ([hi, lo] ++ part) :: e :: rest) [] = .full [hi, lo] (.data part :: e :: rest) := by
    simp [readN]
  have hpos : ¬ min (be16val hi lo) 256 = 0 := by omega
  have hz : zeroLenInterrupted (.data ([hi, lo] ++ part) :: e :: rest) = false := by
    unfold zeroLenInterrupted
    rw [h2]
    simp [hpos]
  simp only [recvVerdict, hz, Bool.false_eq_true, if_false, recvVerdictCore, h2, hpos]
  have hnot : ¬ min (be16val hi lo) 256 ≤ part.length := by omega
  rcases he with rfl | rfl | rfl <;> simp [readN, hnot, PAM_SUCCESS, PAM_AUTHINFO_UNAVAIL]

theorem early_close_is_unavail (rest : List SrvEv) : recvVerdict (.eof :: rest) = PAM_AUTHINFO_UNAVAIL := by
  simp [recvVerdict, recvVerdictCore, zeroLenInterrupted, readN]

/-- A signal that interrupts the wait after a ZERO-length announcement: the module gives up (it
    still waits once for the empty body) — non-success either way. -/
theorem zero_length_then_interrupt_is_unavail (rest : List SrvEv) :
    recvVerdict (.data [0, 0] :: .intr :: rest) = PAM_AUTHINFO_UNAVAIL := by
  simp [recvVerdict, zeroLenInterrupted, readN, nextEv, be16val]

/-- The request written to the socket is the well-formed saslauthd request carrying user and
    password (C strings, each clipped to 256 bytes) with empty service and realm. -/
theorem request_wellformed (i : Input) :
    (authenticate i).2 = [] ∨
    ∃ pw, getPassword i = .ok pw ∧
      (Sasl.Request.mk ((cstr i.user).take 256) ((cstr pw).take 256) [] []).encode = some (authenticate i).2 := by
  unfold authenticate
  split
  · left; rfl
  · rename_i pw hp
    split
    · left; rfl
    · right; exact ⟨pw, hp, Sasl.C13.pam_encoder_agrees _ _⟩

/-- Bounded time: the reply is read in at most 3 + 257 select()/read() rounds, each of which
    is bounded by the module's timeout. -/
theorem terminates (evs : List SrvEv) (l : Nat) (hl : l ≤ 256) (rest : List SrvEv)
    (h1 : ∀ b, SrvEv.data b ∈ evs → b ≠ []) (h2 : ∀ b, SrvEv.data b ∈ rest → b ≠ []) :
    readRounds 2 evs + readRounds l rest ≤ 3 + 257 := by
  have := readRounds_le 2 evs h1
  have := readRounds_le l rest h2
  omega

/- Non-vacuity. -/
example : recvVerdict [.data [0], .data [2, 79], .data [75], .eof] = PAM_SUCCESS := by decide
example : recvVerdict [.data [0, 2, 78, 79], .eof] = PAM_AUTH_ERR := by decide
example : recvVerdict [.data [0, 5, 79, 75], .timeout] = PAM_AUTHINFO_UNAVAIL := by decide

end Whawty.Pam.C20
