/-
  C10 — The agent never wedges: every request is eventually answered.
  Over the transition system of Model/Agent.lean, for ALL capacities, client counts and
  interleavings. Liveness is stated as progress: whenever the dispatcher is inside a request it
  can take its next step (possibly after one step of a party that never waits for the
  dispatcher), so no reachable state is a dispatcher deadlock; fairness of Go's `select` is the
  remaining (runtime) hypothesis for "eventually".
-/
import Whawty.Model.Agent
namespace Whawty.Agent.C10
open Whawty Whawty.Agent

/-- Invariant of reachable states. -/
structure Inv (c : Cfg) (s : St) : Prop where
  auth_le : s.qAuth.length ≤ c.capAuth
  update_le : s.qUpdate.length ≤ c.capUpdate
  other_le : s.qOther.length ≤ c.capOther
  notify_le : s.qNotify ≤ c.capNotify
  remote_le : s.qRemote ≤ c.capRemote
  upgrade_mode : ∀ r, s.pc = .sendUpgrade r → c.mode ≠ .off
  respond_client : ∀ r, s.pc = .respond r → r.client.isSome = true

theorem respondOrSelect_client (r : Req) : ∀ q, respondOrSelect r = .respond q → q.client.isSome = true := by
  intro q h
  unfold respondOrSelect at h
  split at h
  · rename_i cl hc; injection h with h; subst h; simp [hc]
  · simp at h

theorem respondOrSelect_not_upgrade (r q : Req) : respondOrSelect r ≠ .sendUpgrade q := by
  unfold respondOrSelect; split <;> simp

theorem afterExec_inv (c : Cfg) (r : Req) :
    (∀ q, afterExec c r = .sendUpgrade q → c.mode ≠ .off) ∧
    (∀ q, afterExec c r = .respond q → q.client.isSome = true) := by
  unfold afterExec
  constructor
  · intro q h
    split at h
    · split at h
      · exact absurd h (respondOrSelect_not_upgrade r q)
      · assumption
    · exact absurd h (respondOrSelect_not_upgrade r q)
    · split at h
      · simp at h
      · exact absurd h (respondOrSelect_not_upgrade r q)
  · intro q h
    split at h
    · split at h
      · exact respondOrSelect_client r q h
      · simp at h
    · exact respondOrSelect_client r q h
    · split at h
      · simp at h
      · exact respondOrSelect_client r q h

theorem inv_init (c : Cfg) : Inv c init := by
  constructor <;> simp [init]

theorem inv_step (c : Cfg) (s t : St) (l : Label) (hi : Inv c s) (h : next c s l = some t) : Inv c t := by
  obtain ⟨h1, h2, h3, h4, h5, h6, h7⟩ := hi
  cases l <;> simp only [next] at h
  case enqAuth cl up =>
    split at h
    · simp at h
    · rename_i hc; injection h with h; subst h
      simp only [Bool.or_eq_true, decide_eq_true_eq, not_or, Nat.not_le] at hc
      exact ⟨by simp; omega, h2, h3, h4, h5, h6, h7⟩
  case enqUpdate cl n =>
    split at h
    · simp at h
    · rename_i hc; injection h with h; subst h
      simp only [Bool.or_eq_true, decide_eq_true_eq, not_or, Nat.not_le] at hc
      exact ⟨h1, by simp; omega, h3, h4, h5, h6, h7⟩
  case enqOther cl n =>
    split at h
    · simp at h
    · rename_i hc; injection h with h; subst h
      simp only [Bool.or_eq_true, decide_eq_true_eq, not_or, Nat.not_le] at hc
      exact ⟨h1, h2, by simp; omega, h4, h5, h6, h7⟩
  case selAuth =>
    split at h
    · rename_i r rest hp hq; injection h with h; subst h
      rw [hq] at h1
      exact ⟨by simp at h1 ⊢; omega, h2, h3, h4, h5,
        fun q hq' => (afterExec_inv c r).1 q hq', fun q hq' => (afterExec_inv c r).2 q hq'⟩
    · simp at h
  case selUpdate =>
    split at h
    · rename_i r rest hp hq; injection h with h; subst h
      rw [hq] at h2
      exact ⟨h1, by simp at h2 ⊢; omega, h3, h4, h5,
        fun q hq' => (afterExec_inv c r).1 q hq', fun q hq' => (afterExec_inv c r).2 q hq'⟩
    · simp at h
  case selOther =>
    split at h
    · rename_i r rest hp hq; injection h with h; subst h
      rw [hq] at h3
      exact ⟨h1, h2, by simp at h3 ⊢; omega, h4, h5,
        fun q hq' => (afterExec_inv c r).1 q hq', fun q hq' => (afterExec_inv c r).2 q hq'⟩
    · simp at h
  case upgradeSend =>
    split at h
    · rename_i r hp
      split at h
      · simp at h
      · split at h
        · rename_i hsp; injection h with h; subst h
          exact ⟨h1, by simp; omega, h3, h4, h5,
            fun q hq' => absurd hq' (respondOrSelect_not_upgrade r q), fun q hq' => respondOrSelect_client r q hq'⟩
        · simp at h
      · split at h
        · rename_i hsp; injection h with h; subst h
          exact ⟨h1, by simp; omega, h3, h4, h5,
            fun q hq' => absurd hq' (respondOrSelect_not_upgrade r q), fun q hq' => respondOrSelect_client r q hq'⟩
        · injection h with h; subst h
          exact ⟨h1, h2, h3, h4, h5,
            fun q hq' => absurd hq' (respondOrSelect_not_upgrade r q), fun q hq' => respondOrSelect_client r q hq'⟩
      · split at h
        · rename_i hsp; injection h with h; subst h
          exact ⟨h1, h2, h3, h4, by simp; omega,
            fun q hq' => absurd hq' (respondOrSelect_not_upgrade r q), fun q hq' => respondOrSelect_client r q hq'⟩
        · injection h with h; subst h
          exact ⟨h1, h2, h3, h4, h5,
            fun q hq' => absurd hq' (respondOrSelect_not_upgrade r q), fun q hq' => respondOrSelect_client r q hq'⟩
    · simp at h
  case remoteDrain =>
    split at h
    · injection h with h; subst h; exact ⟨h1, h2, h3, h4, by simp; omega, h6, h7⟩
    · simp at h
  case notifySend =>
    split at h
    · rename_i r hp
      split at h
      · injection h with h; subst h
        exact ⟨h1, h2, h3, by simp; omega, h5,
          fun q hq' => absurd hq' (respondOrSelect_not_upgrade r q), fun q hq' => respondOrSelect_client r q hq'⟩
      · simp at h
    · simp at h
  case hookConsume =>
    split at h
    · injection h with h; subst h; exact ⟨h1, h2, h3, by simp; omega, h5, h6, h7⟩
    · simp at h
  case respond =>
    split at h
    · rename_i r hp
      split at h
      · injection h with h; subst h
        exact ⟨h1, h2, h3, h4, h5, by simp, by simp⟩
      · simp at h
    · simp at h

theorem inv_reach (c : Cfg) (s : St) (h : Reach c s) : Inv c s := by
  induction h with
  | init => exact inv_init c
  | step l _ hn ih => exact inv_step c _ _ l ih hn

/-- The dispatcher's own next step is enabled, possibly after one step of the hooks runner
    (which consumes notifications without ever waiting for the dispatcher). -/
def Progress (c : Cfg) (s : St) : Prop :=
  ∃ l ∈ [Label.upgradeSend, .notifySend, .respond],
    (next c s l).isSome = true ∨ ∃ t, next c s .hookConsume = some t ∧ (next c t l).isSome = true

/-- No reachable state is a dispatcher deadlock — for upgrade modes off, remote, and local with
    the non-blocking enqueue; all capacities, any number of clients, every interleaving. -/
theorem dispatcher_never_stuck (c : Cfg) (s : St) (hr : Reach c s) (hpc : s.pc ≠ .select)
    (hm : c.mode ≠ .localBlocking) (hN : 0 < c.capNotify) : Progress c s := by
  have hi := inv_reach c s hr
  cases hp : s.pc with
  | select => exact absurd hp hpc
  | sendUpgrade r =>
    refine ⟨.upgradeSend, by simp, Or.inl ?_⟩
    have hoff := hi.upgrade_mode r hp
    simp only [next, hp]
    cases hmode : c.mode with
    | off => exact absurd hmode hoff
    | localBlocking => exact absurd hmode hm
    | localNonBlocking => simp only []; split <;> simp
    | remote => simp only []; split <;> simp
  | sendNotify r =>
    refine ⟨.notifySend, by simp, ?_⟩
    by_cases hfull : s.qNotify < c.capNotify
    · left; simp [next, hp, hfull]
    · right
      have hpos : s.qNotify > 0 := by omega
      refine ⟨{ s with qNotify := s.qNotify - 1 }, by simp [next, hpos], ?_⟩
      have : s.qNotify - 1 < c.capNotify := by have := hi.notify_le; omega
      simp [next, hp, this]
  | respond r =>
    refine ⟨.respond, by simp, Or.inl ?_⟩
    have := hi.respond_client r hp
    simp only [next, hp]
    cases hc : r.client with
    | none => simp [hc] at this
    | some cl => simp

/-- While the dispatcher is at `select`, it can serve any non-empty queue: every queued
    request is selectable. -/
theorem select_serves_nonempty (c : Cfg) (s : St) (hpc : s.pc = .select) :
    (s.qAuth ≠ [] → (next c s .selAuth).isSome = true) ∧
    (s.qUpdate ≠ [] → (next c s .selUpdate).isSome = true) ∧
    (s.qOther ≠ [] → (next c s .selOther).isSome = true) := by
  refine ⟨fun h => ?_, fun h => ?_, fun h => ?_⟩
  · cases hq : s.qAuth with
    | nil => exact absurd hq h
    | cons r rest => simp [next, hpc, hq]
  · cases hq : s.qUpdate with
    | nil => exact absurd hq h
    | cons r rest => simp [next, hpc, hq]
  · cases hq : s.qOther with
    | nil => exact absurd hq h
    | cons r rest => simp [next, hpc, hq]

/-- FIFO progress: a selection of a queue executes exactly its head and moves every other
    queued request one place forward; no other step changes its position. Hence the request at
    position `i` is executed by the `(i+1)`-th selection of its queue. -/
theorem fifo_progress (c : Cfg) (s t : St) (h : next c s .selUpdate = some t) :
    ∃ r, s.qUpdate = r :: t.qUpdate ∧ t.executed = s.executed ++ [r] := by
  simp only [next] at h
  split at h
  · rename_i r rest _ hq; injection h with h; subst h; exact ⟨r, hq, rfl⟩
  · simp at h

theorem queue_only_grows_at_tail (c : Cfg) (s t : St) (l : Label) (h : next c s l = some t)
    (hl : l ≠ .selUpdate) : ∃ tail, t.qUpdate = s.qUpdate ++ tail := by
  cases l <;> simp only [next] at h
  case selUpdate => exact absurd rfl hl
  case enqAuth cl up =>
    split at h
    · simp at h
    · injection h with h; subst h; exact ⟨[], by simp⟩
  case enqUpdate cl n =>
    split at h
    · simp at h
    · injection h with h; subst h; exact ⟨_, rfl⟩
  case enqOther cl n =>
    split at h
    · simp at h
    · injection h with h; subst h; exact ⟨[], by simp⟩
  case selAuth =>
    split at h
    · injection h with h; subst h; exact ⟨[], by simp⟩
    · simp at h
  case selOther =>
    split at h
    · injection h with h; subst h; exact ⟨[], by simp⟩
    · simp at h
  case upgradeSend =>
    split at h
    · split at h
      · simp at h
      · split at h
        · injection h with h; subst h; exact ⟨_, rfl⟩
        · simp at h
      · split at h
        · injection h with h; subst h; exact ⟨_, rfl⟩
        · injection h with h; subst h; exact ⟨[], by simp⟩
      · split at h
        · injection h with h; subst h; exact ⟨[], by simp⟩
        · injection h with h; subst h; exact ⟨[], by simp⟩
    · simp at h
  case remoteDrain =>
    split at h
    · injection h with h; subst h; exact ⟨[], by simp⟩
    · simp at h
  case notifySend =>
    split at h
    · split at h
      · injection h with h; subst h; exact ⟨[], by simp⟩
      · simp at h
    · simp at h
  case hookConsume =>
    split at h
    · injection h with h; subst h; exact ⟨[], by simp⟩
    · simp at h
  case respond =>
    split at h
    · split at h
      · injection h with h; subst h; exact ⟨[], by simp⟩
      · simp at h
    · simp at h

/-- Each response is delivered to the client of the request it answers (no cross-talk). -/
theorem response_goes_to_own_client (c : Cfg) (s t : St) (h : next c s .respond = some t) :
    ∃ r cl, s.pc = .respond r ∧ r.client = some cl ∧ t.answered = cl :: s.answered := by
  simp only [next] at h
  split at h
  · rename_i r hp
    split at h
    · rename_i cl hc; injection h with h; subst h; exact ⟨r, cl, hp, hc, rfl⟩
    · simp at h
  · simp at h

/-- Pinned code (defect D5): with local upgrades and the blocking enqueue the deadlock state IS
    reachable — ten queued updates and one upgradeable login — … -/
def cfgPinned : Cfg := { mode := .localBlocking, capAuth := 10, capUpdate := 10, capOther := 10, capRemote := 10, capNotify := 32 }
def witness : List Label :=
  (List.range 10).map (fun i => Label.enqUpdate (i + 1) true) ++ [.enqAuth 0 true, .selAuth]
def stuckShape (c : Cfg) (s : St) : Bool :=
  (match s.pc with | .sendUpgrade _ => true | _ => false) && s.qUpdate.length == c.capUpdate

theorem deadlock_reached : (run cfgPinned init witness).map (stuckShape cfgPinned) = some true := by decide

/-- … and once there, the dispatcher never moves again, whatever the clients and helpers do. -/
theorem stuck_forever (c : Cfg) (hm : c.mode = .localBlocking) (s t : St) (l : Label)
    (hs : stuckShape c s = true) (hn : next c s l = some t) : stuckShape c t = true := by
  simp only [stuckShape, Bool.and_eq_true, beq_iff_eq] at hs ⊢
  obtain ⟨hpc, hfull⟩ := hs
  cases hp : s.pc with
  | select => simp [hp] at hpc
  | sendNotify r => simp [hp] at hpc
  | respond r => simp [hp] at hpc
  | sendUpgrade r =>
    cases l <;> simp only [next, hp] at hn
    case enqAuth cl up => split at hn <;> first | (simp at hn; done) | (injection hn with hn; subst hn; simp [hp, hfull])
    case enqUpdate cl n =>
      split at hn
      · simp at hn
      · rename_i hc; simp only [Bool.or_eq_true, decide_eq_true_eq, not_or, Nat.not_le] at hc; omega
    case enqOther cl n => split at hn <;> first | (simp at hn; done) | (injection hn with hn; subst hn; simp [hp, hfull])
    case selAuth => simp at hn
    case selUpdate => simp at hn
    case selOther => simp at hn
    case upgradeSend => simp only [hm] at hn; split at hn <;> first | omega | simp at hn
    case remoteDrain => split at hn <;> first | (simp at hn; done) | (injection hn with hn; subst hn; simp [hp, hfull])
    case notifySend => simp at hn
    case hookConsume => split at hn <;> first | (simp at hn; done) | (injection hn with hn; subst hn; simp [hp, hfull])
    case respond => simp at hn

/- Non-vacuity: the repaired configuration runs the same schedule to completion. -/
example : ((run { cfgPinned with mode := .localNonBlocking } init (witness ++ [.upgradeSend, .respond])).map (·.answered)) = some [0] := by
  decide

end Whawty.Agent.C10
