/-
  The regenerated tie (salt / digest strings): `Whawty/Gen/HashStr.lean` holds the statement-by-
  statement translations of `argon2IDDecodeBase64`, `scryptAuthDecodeBase64` and of the two
  `IsValid` methods (store/userhash_argon2id.go, store/userhash_scryptauth.go), written by the
  translator from /repo's CURRENT source on every run. The theorems prove that they compute the
  model's `Rec.decodeSaltHash` and `Rec.isValid` (for whatever the translator produced: a function
  rewritten outside the translated subset is `none` and nothing is claimed about it; see GenCodecFn) — the functions `auth_iff_record` (C02), the
  write-then-authenticate theorems (C01) and `check_exact` (C16) are stated over — for every string.
  (The source returns the pair in the order digest, salt although the results are NAMED salt, hash;
  both callers agree with that order: the tie makes this explicit.)
-/
import Whawty.Gen.HashStr
import Whawty.Model.Record
import Whawty.Lemmas.Record
namespace Whawty.Gen.Tie
open Whawty Whawty.Gen Whawty.Rec

theorem splitByte_ne_nil (c : Byte) (s : Bytes) : splitByte c s ≠ [] := by
  induction s with
  | nil => simp [splitByte]
  | cons x xs ih =>
    unfold splitByte
    split
    · simp
    · split <;> simp

theorem splitByte_cons_eq (c : Byte) (xs : Bytes) : splitByte c (c :: xs) = [] :: splitByte c xs := by
  rw [splitByte]; simp

theorem splitByte_cons_ne (c x : Byte) (xs hd : Bytes) (tl : List Bytes) (h : x ≠ c)
    (hs : splitByte c xs = hd :: tl) : splitByte c (x :: xs) = (x :: hd) :: tl := by
  rw [splitByte]; simp [h, hs]

/-- `strings.Split` and the model's `cut`: no separator — the string itself; otherwise the piece
    before the first separator, then the split of the rest. -/
theorem splitByte_cut (c : Byte) (s : Bytes) :
    match cut c s with
    | none => splitByte c s = [s]
    | some (a, b) => splitByte c s = a :: splitByte c b := by
  induction s with
  | nil => simp [cut, splitByte]
  | cons x xs ih =>
    by_cases hx : x = c
    · subst hx
      simp only [cut, if_true]
      exact splitByte_cons_eq x xs
    · cases hc : cut c xs with
      | none =>
        simp only [hc] at ih
        simp only [cut, hx, if_false, hc, Option.map_none]
        exact splitByte_cons_ne c x xs xs [] hx ih
      | some r =>
        obtain ⟨a, b⟩ := r
        simp only [hc] at ih
        simp only [cut, hx, if_false, hc, Option.map_some]
        exact splitByte_cons_ne c x xs a _ hx ih

theorem cut_none_iff (c : Byte) (s : Bytes) : cut c s = none ↔ c ∉ s := by
  induction s with
  | nil => simp [cut]
  | cons x xs ih =>
    unfold cut
    by_cases hx : x = c
    · simp [hx]
    · simp only [hx, if_false, Option.map_eq_none_iff, ih, List.mem_cons, not_or]
      constructor
      · intro h; exact ⟨fun e => hx e.symm, h⟩
      · intro h; exact h.2

/-- Exactly two pieces ⇔ the model's `split2` succeeds, and then they are its two halves. -/
theorem split_view (s : Bytes) :
    match split2 s with
    | none => (splitByte colon s).length ≠ 2
    | some (a, b) => splitByte colon s = [a, b] := by
  unfold split2
  have h1 := splitByte_cut colon s
  cases hc : cut colon s with
  | none => simp only [hc] at h1; simp [h1]
  | some r =>
    obtain ⟨a, b⟩ := r
    simp only [hc] at h1
    have h2 := splitByte_cut colon b
    by_cases hb : b.contains colon = true
    · simp only [hb, if_true]
      have : cut colon b ≠ none := by
        rw [Ne, cut_none_iff]; simpa using hb
      cases hc2 : cut colon b with
      | none => exact absurd hc2 this
      | some r2 =>
        obtain ⟨a2, b2⟩ := r2
        simp only [hc2] at h2
        have hn := splitByte_ne_nil colon b2
        rw [h1, h2]
        cases hs : splitByte colon b2 with
        | nil => exact absurd hs hn
        | cons _ _ => simp
    · have hb' : b.contains colon = false := by simpa using hb
      simp only [hb', Bool.false_eq_true, if_false]
      have : cut colon b = none := by
        rw [cut_none_iff]; simpa using hb'
      simp only [this] at h2
      rw [h1, h2]

/-- The model's decoding seen through Go's result triple of the SOURCE's functions: the digest
    first, then the salt (the named results notwithstanding), `nil, nil, err` on any failure. -/
def decodeView (hashStr : Bytes) : Bytes × Bytes × Bool :=
  match decodeSaltHash hashStr with
  | none => ([], [], true)
  | some (salt, hash) => (hash, salt, false)

theorem decode_body (s : Bytes) :
    (let parts := stringsSplit s [58]
     if (decide (((parts).length : Int) ≠ (2 : Int))) = true then (([] : Bytes), ([] : Bytes), true)
     else
       if (b64urlDecode (parts.getD 0 [])).2 = true then (([] : Bytes), ([] : Bytes), true)
       else if (b64urlDecode (parts.getD 1 [])).2 = true then (([] : Bytes), ([] : Bytes), true)
       else ((b64urlDecode (parts.getD 1 [])).1, (b64urlDecode (parts.getD 0 [])).1, false)) = decodeView s := by
  have hv := split_view s
  simp only [stringsSplit, decodeView, decodeSaltHash]
  have hcol : (58 : Byte) = colon := rfl
  rw [hcol]
  cases h2 : split2 s with
  | none =>
    simp only [h2] at hv
    have : ((splitByte colon s).length : Int) ≠ 2 := by omega
    simp [this]
  | some r =>
    obtain ⟨a, b⟩ := r
    simp only [h2] at hv
    simp only [hv, List.length_cons, List.length_nil, List.getD_cons_zero, List.getD_cons_succ, b64urlDecode]
    cases B64.decode a <;> cases B64.decode b <;> simp

/-- The source's `argon2IDDecodeBase64` is the model's `decodeSaltHash`. -/
theorem argonDecode_is_source (g) (hg : argonDecodeBase64 = some g) : g = decodeView := by
  unfold argonDecodeBase64 at hg
  first
    | (cases hg; done)   -- the function left the translated subset: nothing is claimed
    | (injection hg with hg
       subst hg
       funext s
       refine Eq.trans ?_ (decode_body s)
       first
         | rfl
         | (simp only [] <;> (try (repeat' split)) <;> first | rfl | (simp_all; done)))

/-- The source's `scryptAuthDecodeBase64` is the model's `decodeSaltHash`. -/
theorem scryptDecode_is_source (g) (hg : scryptDecodeBase64 = some g) : g = decodeView := by
  unfold scryptDecodeBase64 at hg
  first
    | (cases hg; done)   -- the function left the translated subset: nothing is claimed
    | (injection hg with hg
       subst hg
       funext s
       refine Eq.trans ?_ (decode_body s)
       first
         | rfl
         | (simp only [] <;> (try (repeat' split)) <;> first | rfl | (simp_all; done)))

/-- `IsValid` composed with the source's own decoding is the model's `isValid` (result, error). -/
theorem argonIsValid_is_source (f) (hf : argonIsValid = some f) (s : Bytes) :
    f decodeView s = (isValid s, !isValid s) := by
  unfold argonIsValid at hf
  first
  | (cases hf; done)
  | (
  injection hf with hf
  subst hf
  have key : ∀ x : Option (Bytes × Bytes),
      (match x with | none => (([] : Bytes), ([] : Bytes), true) | some (salt, hash) => (hash, salt, false)) =
      ((x.map (·.2)).getD [], (x.map (·.1)).getD [], x.isNone) := by
    intro x; cases x <;> rfl
  simp only [decodeView, isValid, key]
  generalize decodeSaltHash s = x
  cases x with
  | none => simp
  | some r =>
    obtain ⟨salt, hash⟩ := r
    cases salt <;> cases hash <;> simp <;> omega)

theorem scryptIsValid_is_source (f) (hf : scryptIsValid = some f) (s : Bytes) :
    f decodeView s = (isValid s, !isValid s) := by
  unfold scryptIsValid at hf
  first
  | (cases hf; done)
  | (
  injection hf with hf
  subst hf
  have key : ∀ x : Option (Bytes × Bytes),
      (match x with | none => (([] : Bytes), ([] : Bytes), true) | some (salt, hash) => (hash, salt, false)) =
      ((x.map (·.2)).getD [], (x.map (·.1)).getD [], x.isNone) := by
    intro x; cases x <;> rfl
  simp only [decodeView, isValid, key]
  generalize decodeSaltHash s = x
  cases x with
  | none => simp
  | some r =>
    obtain ⟨salt, hash⟩ := r
    cases salt <;> cases hash <;> simp <;> omega)

/-- About the source's functions themselves: a string `IsValid` accepts has exactly one colon and
    both halves decode to non-empty byte strings. -/
theorem source_isValid_accepts (f g) (hf : argonIsValid = some f) (hg : argonDecodeBase64 = some g) (s : Bytes) (e : Bool)
    (h : f g s = (true, e)) :
    ∃ a b salt hash, split2 s = some (a, b) ∧ B64.decode a = some salt ∧ B64.decode b = some hash ∧
      salt ≠ [] ∧ hash ≠ [] ∧ e = false := by
  have hg' := argonDecode_is_source g hg
  subst hg'
  rw [argonIsValid_is_source f hf s] at h
  simp only [Prod.mk.injEq] at h
  obtain ⟨hv, he⟩ := h
  rw [hv] at he
  simp only [isValid, decodeSaltHash] at hv
  cases h2 : split2 s with
  | none => simp [h2] at hv
  | some r =>
    obtain ⟨a, b⟩ := r
    simp only [h2] at hv
    cases ha : B64.decode a with
    | none => simp [ha] at hv
    | some salt =>
      cases hb : B64.decode b with
      | none => simp [ha, hb] at hv
      | some hash =>
        simp only [ha, hb, Bool.and_eq_true, Bool.not_eq_true', List.isEmpty_eq_false_iff] at hv
        exact ⟨a, b, salt, hash, rfl, ha, hb, hv.1, hv.2, by simpa using he.symm⟩

end Whawty.Gen.Tie
