/-
  End-to-end statements about the SOURCE's codec methods (the functions the translator produced from
  /repo's current sasl/sasl_encoding.go), obtained by composing the regenerated ties
  (Props/GenCodecFn.lean, Props/GenScan.lean) with the theorems of C13 about the model: what the
  source's `Request.Encode` writes, the source's `Request.Decode` reads back — for every request
  within the limits, every way the stream is fragmented into reads by a reader that makes progress,
  and whatever follows the message on the stream; likewise for responses. The loops over the parts
  are the model's (`encodeParts`, `decodeScan` over the source's own split function, `scan_is_source`).
-/
import Whawty.Props.GenCodecFn
import Whawty.Props.C13
namespace Whawty.Gen.Tie
open Whawty Whawty.Gen Whawty.Sasl Whawty.Sasl.C13

/-- Source encoder then source decoder, any fragmentation: the receiver ends up with exactly the
    fields that were encoded, whatever it held before; the encoder reports no error. -/
theorem source_request_roundtrip (fe) (hfe : requestEncode = some fe) (fd) (hfd : requestDecode = some fd)
    (r : Request) (hf : fieldsOk r) (hl : r.login ≠ []) (hp : r.password ≠ [])
    (enc rest : Bytes) (henc : r.encode = some enc)
    (cs : List Bytes) (hcs : cs.flatten = enc ++ rest) (hst : stallFree 0 cs = true)
    (l0 p0 s0 r0 : Bytes) :
    fe (fun ps => (encodeParts ps).isNone) r.login r.password r.service r.realm = false ∧
    fd (fun n => (decodeScan n [] cs 0).map (·.1)) l0 p0 s0 r0 =
      (false, r.login, r.password, r.service, r.realm) := by
  constructor
  · rw [source_requestEncode_model fe hfe r, henc]; rfl
  · rw [source_requestDecode_model fd hfd cs, fragment_independent_request cs hst, hcs,
      decode_encode_request r enc rest hf hl hp henc]

/-- The same for responses read into a fresh receiver: verdict and message come back unchanged. -/
theorem source_response_roundtrip (fe) (hfe : responseEncode = some fe) (fd) (hfd : responseDecode = some fd)
    (r : Response) (h : r.text.length ≤ maxLen) (enc rest : Bytes) (henc : r.encode = some enc)
    (cs : List Bytes) (hcs : cs.flatten = enc ++ rest) (hst : stallFree 0 cs = true) (b0 : Bool) :
    fe (fun ps => (encodeParts ps).isNone) r.result r.message = false ∧
    fd (fun n => (decodeScan n [] cs 0).map (·.1)) b0 [] = (false, r.result, r.message) := by
  constructor
  · rw [source_responseEncode_model fe hfe r, henc]; rfl
  · rw [source_responseDecode_model fd hfd cs b0, fragment_independent_response cs hst, hcs,
      decode_encode_response r enc rest h henc]

/-- An over-limit field: the source's encoder reports an error and never reaches the part encoder
    (stated with a part encoder that would succeed on anything). -/
theorem source_request_overlimit_refused (fe) (hfe : requestEncode = some fe) (r : Request) (h : ¬ fieldsOk r) :
    fe (fun _ => false) r.login r.password r.service r.realm = true := by
  rw [requestEncode_is_source fe hfe]
  unfold fieldsOk at h
  simp only []
  split
  · rfl
  · rename_i hn
    exfalso
    apply h
    simp only [not_or, Nat.not_lt] at hn
    exact ⟨hn.1, hn.2.1, hn.2.2.1, hn.2.2.2⟩

/-- Non-vacuity: a concrete request meets the hypotheses of the round trip (limits, non-empty login
    and password, an encoding exists). -/
example : ∃ enc, (Request.mk [97] [98] [] []).encode = some enc ∧ fieldsOk ⟨[97], [98], [], []⟩ := by
  refine ⟨[0, 1, 97, 0, 1, 98, 0, 0, 0, 0], by decide, ?_⟩
  simp [fieldsOk, maxLen]

end Whawty.Gen.Tie
