/-
  C19 — Update hooks: no change un-notified, bursts coalesced, only safe files run.
-/
import Whawty.Model.Hooks
import Whawty.Model.Agent
namespace Whawty.Hooks.C19
open Whawty Whawty.Hooks

/- Invariant of the run loop: the timer is armed exactly while notifications are pending. -/
theorem armed_iff_init : (init.armed = true ↔ init.pending ≥ 1) := by simp [init]

theorem armed_iff_step (R : Int) (s t : St) (e : Ev) (hi : s.armed = true ↔ s.pending ≥ 1)
    (h : step R s e = some t) : (t.armed = true ↔ t.pending ≥ 1) := by
  cases e with
  | notify τ =>
    simp only [step] at h
    split at h
    · injection h with h; subst h; simp
    · rename_i hp
      injection h with h; subst h
      have hp' : s.pending ≥ 1 := by omega
      simp only
      constructor
      · intro _; omega
      · intro _; exact hi.mpr hp'
  | fire τ =>
    simp only [step] at h
    split at h
    · injection h with h; subst h; simp
    · simp at h

theorem armed_iff_run (R : Int) (s t : St) (es : List Ev) (hi : s.armed = true ↔ s.pending ≥ 1)
    (h : run R s es = some t) : (t.armed = true ↔ t.pending ≥ 1) := by
  induction es generalizing s with
  | nil => simp [run] at h; subst h; exact hi
  | cons e es ih =>
    simp only [run] at h
    cases hs : step R s e with
    | none => simp [hs] at h
    | some u => simp only [hs, Option.bind_some] at h; exact ih u (armed_iff_step R s u e hi hs) h

/-- No change stays un-notified: a notification either triggers a round at once (leading
    edge) or finds the timer armed with at least two notifications pending, so that the firing
    of that timer runs a round — at a time not earlier than the notification. -/
theorem no_change_unnotified (R : Int) (s t : St) (τ : Int) (hi : s.armed = true ↔ s.pending ≥ 1)
    (h : step R s (.notify τ) = some t) :
    (t.runs = τ :: s.runs) ∨
    (t.armed = true ∧ t.pending ≥ 2 ∧ ∀ τ' u, step R t (.fire τ') = some u → u.runs = τ' :: t.runs) := by
  simp only [step] at h
  split at h
  · injection h with h; subst h; exact Or.inl rfl
  · rename_i hp
    injection h with h; subst h
    right
    have hp' : s.pending ≥ 1 := by omega
    refine ⟨hi.mpr hp', by simp; omega, ?_⟩
    intro τ' u hu
    simp only [step] at hu
    split at hu
    · injection hu with hu; subst hu
      have : s.pending + 1 > 1 := by omega
      simp [this]
    · simp at hu

/-- The armed timer does fire: once `t ≥ deadline` the fire event is enabled. -/
theorem fire_enabled (R : Int) (s : St) (τ : Int) (ha : s.armed = true) (hd : τ ≥ s.deadline) :
    (step R s (.fire τ)).isSome = true := by
  simp [step, ha, hd]

/-- A notification and the timer becoming ready at the same instant: both orders in which
    `select` may take them end with a round at that instant. -/
theorem race_both_orders (R : Int) (s : St) (τ : Int) (ha : s.armed = true) (hd : τ ≥ s.deadline) (hp : s.pending ≥ 1) :
    ((step R s (.notify τ)).bind (step R · (.fire τ))).map (fun b => (b.runs, b.pending)) = some (τ :: s.runs, 0) ∧
    ((step R s (.fire τ)).bind (step R · (.notify τ))).map (fun b => b.runs.head?) = some (some τ) := by
  have hne : ¬ s.pending = 0 := by omega
  have hgt : s.pending + 1 > 1 := by omega
  constructor
  · simp [step, hne, ha, hd, hgt]
  · simp [step, ha, hd]

/-- Coalescing: while the timer is armed, no round happens before its deadline — a burst of
    any number of notifications inside the interval produces no round at all before the timer
    fires, and then exactly one (trailing) round. Together with the leading round that armed the
    timer, that is at most two rounds per rate-limit interval. -/
theorem burst_coalesced (R : Int) (s t : St) (e : Ev) (hi : s.armed = true ↔ s.pending ≥ 1) (ha : s.armed = true)
    (h : step R s e = some t) (hr : t.runs ≠ s.runs) :
    ∃ τ, e = .fire τ ∧ τ ≥ s.deadline ∧ t.runs = τ :: s.runs ∧ t.armed = false := by
  cases e with
  | notify τ =>
    simp only [step] at h
    have hp : s.pending ≥ 1 := hi.mp ha
    split at h
    · omega
    · injection h with h; subst h; exact absurd rfl hr
  | fire τ =>
    simp only [step] at h
    split at h
    · rename_i hc
      simp only [Bool.and_eq_true, decide_eq_true_eq] at hc
      injection h with h; subst h
      refine ⟨τ, rfl, hc.2, ?_, rfl⟩
      simp only at hr ⊢
      split
      · rfl
      · rename_i hgt; simp [hgt] at hr
    · simp at h

/-- A leading round arms the timer `R` after itself. -/
theorem leading_round_arms_timer (R : Int) (s t : St) (τ : Int) (hs : s.pending = 0)
    (h : step R s (.notify τ) = some t) : t.runs = τ :: s.runs ∧ t.armed = true ∧ t.deadline = τ + R := by
  simp only [step, hs, if_true] at h
  injection h with h; subst h; exact ⟨rfl, rfl, rfl⟩

/-- Soundness of the log checker: an accepted log has a round at or after every notification,
    and any three consecutive rounds span at least `R - eps`. -/
theorem hookLogOk_sound (R eps : Int) (notifies runs : List Int) (h : hookLogOk R eps notifies runs = true) :
    (∀ n ∈ notifies, ∃ r ∈ runs, r ≥ n) ∧ spaced R eps runs = true := by
  simp only [hookLogOk, Bool.and_eq_true, List.all_eq_true, coveredBy, List.any_eq_true, decide_eq_true_eq] at h
  exact ⟨fun n hn => h.1 n hn, h.2⟩

theorem spaced_spec (R eps : Int) (a b c : Int) (rest : List Int) (h : spaced R eps (a :: b :: c :: rest) = true) :
    c - a ≥ R - eps ∧ spaced R eps (b :: c :: rest) = true := by
  simpa [spaced] using h

/-- Eligibility is exact: a hook is started iff the directory is not world-writable, the name
    is not hidden, the entry is a regular file or a symlink, and some execute bit is set. -/
theorem eligibility_exact (ww : Bool) (name : Bytes) (reg sym : Bool) (perm : Nat) :
    eligible ww name reg sym perm = true ↔
      ww = false ∧ name.head? ≠ some 46 ∧ (reg = true ∨ sym = true) ∧ (perm % 512) &&& 73 ≠ 0 := by
  simp [eligible]
  constructor
  · rintro ⟨⟨⟨h1, h2⟩, h3⟩, h4⟩; exact ⟨h1, h2, h3, h4⟩
  · rintro ⟨h1, h2, h3, h4⟩; exact ⟨⟨⟨h1, h2⟩, h3⟩, h4⟩

/-- Notifications are sent only by successful add / update / set-admin and by remove: in the
    dispatcher's transition system the notify step is reached only from a request whose
    `notifies` flag (operation succeeded and notifies) is set. -/
theorem notify_only_on_success (c : Agent.Cfg) (r q : Agent.Req) (h : Agent.afterExec c r = .sendNotify q) :
    q = r ∧ r.notifies = true := by
  unfold Agent.afterExec at h
  split at h
  · split at h
    · unfold Agent.respondOrSelect at h; split at h <;> simp at h
    · simp at h
  · unfold Agent.respondOrSelect at h; split at h <;> simp at h
  · split at h
    · rename_i hn; injection h with h; exact ⟨h.symm, hn⟩
    · unfold Agent.respondOrSelect at h; split at h <;> simp at h

/- Non-vacuity: a burst of five notifications in one interval gives a leading and a trailing round. -/
example : (run 5 init [.notify 0, .notify 1, .notify 2, .notify 3, .notify 4, .fire 5]).map (·.runs) = some [5, 0] := by decide
example : (run 5 init [.notify 0, .fire 5, .notify 5]).map (·.runs) = some [5, 0] := by decide
example : eligible false [104, 105] true false 0o755 = true := by decide
example : eligible false [46, 104] true false 0o755 = false := by decide     -- hidden
example : eligible true [104, 105] true false 0o755 = false := by decide     -- world-writable directory
example : eligible false [104, 105] true false 0o644 = false := by decide    -- not executable

/-! ### A hook that hangs is killed after its time limit

`runHook` starts the process, waits for it in its own goroutine and, when the timer of `limit`
seconds fires first, calls `Process.Kill()` — SIGKILL, which (an assumption about the kernel)
no process can catch, block or ignore. What the hook does with other signals is irrelevant. -/

/-- What a hook process does on its own. -/
inductive HookProc
  | exitsAfter (d : Nat)                -- terminates by itself after d seconds
  | hangs (ignoresTerm : Bool)          -- never terminates; may ignore SIGTERM / SIGHUP / SIGINT
  deriving Repr, DecidableEq

/-- Seconds after its start at which the process is gone. -/
def goneAfter (limit : Nat) : HookProc → Nat
  | .exitsAfter d => min d limit
  | .hangs _ => limit

theorem hook_gone_within_limit (limit : Nat) (p : HookProc) : goneAfter limit p ≤ limit := by
  cases p <;> simp [goneAfter, Nat.min_le_right]

/-- The time limit does not depend on the hook's signal dispositions (a SIGTERM-based limit would). -/
theorem kill_ignores_signal_disposition (limit : Nat) (a b : Bool) : goneAfter limit (.hangs a) = goneAfter limit (.hangs b) := rfl

end Whawty.Hooks.C19
