/-
  C12 — Hash upgrades preserve the password, converge, and can be switched off.
-/
import Whawty.Props.C01
import Whawty.Props.C02
import Whawty.Props.C11
import Whawty.Props.C15
namespace Whawty.Store.C12
open Whawty Whawty.Rec Whawty.Store

/-- Authentication reports a hash as upgradeable exactly when its parameter set differs from
    the configured default. -/
theorem upgradeable_iff (c : Cfg) (d : Dir) (u pw : Bytes) (r : AuthOk) (h : authenticate c d u pw = .ok r) :
    ∃ a b hd, get d (fileName u a) = some (.file b) ∧ readHead b = some hd ∧
      (r.upgradeable = true ↔ c.default ≠ hd.paramId) := by
  obtain ⟨a, b, hd, ps, salt, hash, _, hb, h1, _, _, _, _, hr⟩ := (C02.auth_iff_record c d u pw r).mp h
  exact ⟨a, b, hd, hb, h1, by rw [hr]; simp⟩

/-- The upgrade step of the repaired agent: re-authenticate with the login password, then
    update with it. -/
def upgradeStep (c : Cfg) (d : Dir) (u pw : Bytes) (now : Int) (salt : Bytes) : Dir :=
  match authenticate c d u pw with
  | .ok r => if r.upgradeable then (match update c d u pw now salt with | .ok d' => d' | .error _ => d) else d
  | .error _ => d

/-- A failed login never rewrites anything (the step is the identity). -/
theorem failed_login_never_writes (c : Cfg) (d : Dir) (u pw : Bytes) (now : Int) (salt : Bytes) (e : Err)
    (h : authenticate c d u pw = .error e) : upgradeStep c d u pw now salt = d := by
  simp [upgradeStep, h]

/-- With an up-to-date hash the step is the identity too. -/
theorem up_to_date_not_rewritten (c : Cfg) (d : Dir) (u pw : Bytes) (now : Int) (salt : Bytes) (r : AuthOk)
    (h : authenticate c d u pw = .ok r) (hu : r.upgradeable = false) : upgradeStep c d u pw now salt = d := by
  simp [upgradeStep, h, hu]

/-- After the upgrade step for a successful upgradeable login: the record is either untouched
    or rewritten under the default set for exactly the same password — the same passwords
    authenticate as before (`digest salt' p = digest salt' pw` under the default set), the admin
    flag is the same, the auxiliary lines are the same, the hash is no longer upgradeable — and
    every other user's files are untouched. -/
theorem upgrade_same_password {c : Cfg} {d : Dir} {u pw salt : Bytes} {now : Int} {r : AuthOk}
    (hc : C01.CfgOk c) (ht : C01.timeOk now)
    (h : authenticate c d u pw = .ok r) (hu : r.upgradeable = true) :
    upgradeStep c d u pw now salt = d ∨
    ∃ ps, c.lookup c.default = some ps ∧
      (∀ p, authenticate c (upgradeStep c d u pw now salt) u p =
        if ps.digest salt p = ps.digest salt pw then .ok ⟨r.isAdmin, false, now⟩ else .error .wrongPassword) ∧
      (∀ v, v ≠ u → sameUser d (upgradeStep c d u pw now salt) v) := by
  simp only [upgradeStep, h, hu, if_true]
  cases hup : update c d u pw now salt with
  | error e => exact Or.inl rfl
  | ok d' =>
    right
    obtain ⟨ps, a, hps, he, hauth⟩ := C01.update_then_auth hup hc ht
    refine ⟨ps, hps, ?_, fun v hv => C01.update_other_user hup hv⟩
    have ha : a = r.isAdmin := by
      obtain ⟨a', b, up, ts, he', _, _, hr⟩ := (authenticate_ok_iff c d u pw r).mp h
      rw [he] at he'
      injection he' with he'; injection he' with _ he'
      rw [hr]; exact he'
    subst ha
    exact hauth

/-- … and afterwards the hash is no longer upgradeable: a second step is the identity
    (convergence on an idle agent). -/
theorem converges {c : Cfg} {d d' : Dir} {u pw salt salt2 : Bytes} {now now2 : Int}
    (hc : C01.CfgOk c) (ht : C01.timeOk now) (hup : update c d u pw now salt = .ok d') :
    upgradeStep c d' u pw now2 salt2 = d' := by
  obtain ⟨ps, a, _, _, hauth⟩ := C01.update_then_auth hup hc ht
  have := hauth pw
  simp only [if_true] at this
  simp [upgradeStep, this]

/-- With upgrades disabled no authentication modifies the store: `authenticate` has no result
    directory (read-only by type), and the dispatcher takes no upgrade step in mode off. -/
theorem off_never_upgrades (c : Agent.Cfg) (r : Agent.Req) (h : c.mode = .off) :
    ∀ q, Agent.afterExec c r ≠ .sendUpgrade q := by
  intro q hq
  exact ((Agent.C10.afterExec_inv c r).1 q hq) h

/-- Nothing remembers a dropped upgrade request: whether the dispatcher queues the upgrade of
    an upgradeable login depends ONLY on the free space of the queue at that moment — not on
    what happened to earlier requests of the same user. Whenever there is space (in particular
    on an otherwise idle agent) the request is queued. -/
theorem upgrade_queued_whenever_space (c : Agent.Cfg) (s : Agent.St) (r : Agent.Req)
    (hm : c.mode = .localNonBlocking) (hpc : s.pc = .sendUpgrade r) (hlen : s.qUpdate.length < c.capUpdate) :
    ∃ t, Agent.next c s .upgradeSend = some t ∧ t.qUpdate = s.qUpdate ++ [Agent.upgradeReq] := by
  simp [Agent.next, hpc, hm, hlen]

/-- … and when there is none it is dropped without blocking and without any other effect than
    moving on: the state afterwards differs from the state before only in the program counter. -/
theorem dropped_upgrade_leaves_no_trace (c : Agent.Cfg) (s t : Agent.St) (r : Agent.Req)
    (hm : c.mode = .localNonBlocking) (hpc : s.pc = .sendUpgrade r) (hfull : ¬ s.qUpdate.length < c.capUpdate)
    (h : Agent.next c s .upgradeSend = some t) : t = { s with pc := Agent.respondOrSelect r } := by
  simp [Agent.next, hpc, hm, hfull] at h
  exact h.symm

end Whawty.Store.C12
