/-
  C02 — Malformed, unsupported or tampered hash files never authenticate.
  Statements are about `Store.authenticate` on a directory holding ANY bytes as the user's file.
  (The model returns `Except`: a failing call has no new directory at all, so "left
  byte-identical" for refused operations is structural in the model and is checked against
  the real code by the correspondence: post-snapshot = pre-snapshot.)
-/
import Whawty.Lemmas.Store
import Whawty.Lemmas.StoreInv
namespace Whawty.Store.C02
open Whawty Whawty.Rec Whawty.Store

/-- Authentication succeeds exactly when the user's file (`.admin` probed first) has a first
    line that parses as a record of a configured parameter set with matching format id whose
    stored digest equals the digest recomputed from the submitted password and stored salt —
    whatever bytes the file contains. Every other content is a clean failure (the model
    function is total). -/
theorem auth_iff_record (c : Cfg) (d : Dir) (u pw : Bytes) (r : AuthOk) :
    authenticate c d u pw = .ok r ↔
      ∃ a b h ps salt hash,
        exists_ d u = .ok (true, a) ∧ get d (fileName u a) = some (.file b) ∧
        readHead b = some h ∧ c.lookup h.paramId = some ps ∧ ps.formatId = h.formatId ∧
        decodeSaltHash h.hashStr = some (salt, hash) ∧ ps.digest salt pw = hash ∧
        r = ⟨a, decide (c.default ≠ h.paramId), h.lastChange⟩ := by
  rw [authenticate_ok_iff]
  constructor
  · rintro ⟨a, b, up, ts, he, hb, ha, hr⟩
    obtain ⟨h, ps, salt, hash, h1, h2, h3, h4, h5, h6, h7⟩ := (authFile_ok_iff c b pw up ts).mp ha
    exact ⟨a, b, h, ps, salt, hash, he, hb, h1, h2, h3, h4, h5, by rw [hr, h6, h7]⟩
  · rintro ⟨a, b, h, ps, salt, hash, he, hb, h1, h2, h3, h4, h5, hr⟩
    exact ⟨a, b, _, _, he, hb, (authFile_ok_iff c b pw _ _).mpr ⟨h, ps, salt, hash, h1, h2, h3, h4, h5, rfl, rfl⟩, hr⟩

/-- No success without a stored digest that is the full digest of the submitted password:
    in particular an empty, truncated or extended digest never matches a digest function
    whose outputs differ from it. -/
theorem auth_only_if_digest_equal (c : Cfg) (d : Dir) (u pw : Bytes) (r : AuthOk)
    (h : authenticate c d u pw = .ok r) :
    ∃ a b hd ps salt hash, get d (fileName u a) = some (.file b) ∧ readHead b = some hd ∧
      c.lookup hd.paramId = some ps ∧ decodeSaltHash hd.hashStr = some (salt, hash) ∧
      ps.digest salt pw = hash := by
  obtain ⟨a, b, hd, ps, salt, hash, _, hb, h1, h2, _, h4, h5, _⟩ := (auth_iff_record c d u pw r).mp h
  exact ⟨a, b, hd, ps, salt, hash, hb, h1, h2, h4, h5⟩

/-- A record produced by an independent implementation of doc/SCHEMA.md (`formatLine`,
    `hashStrOf`, `B64.encode` are the model's own codec) authenticates with its password,
    whatever auxiliary data follows the first line. -/
theorem foreign_record_accepted (c : Cfg) (d : Dir) (u pw salt aux : Bytes) (a : Bool) (ts : Int) (pid : Nat)
    (ps : ParamSet) (he : exists_ d u = .ok (true, a))
    (hfile : get d (fileName u a) =
      some (.file (formatLine ps.formatId ts pid (hashStrOf salt (ps.digest salt pw)) ++ aux)))
    (hps : c.lookup pid = some ps) (hf : ∀ ch ∈ ps.formatId, ch ≠ colon ∧ ch ≠ nl)
    (h1 : -(2 ^ 63 : Int) ≤ ts) (h2 : ts < 2 ^ 63) (hp : pid < 2 ^ 64) :
    authenticate c d u pw = .ok ⟨a, decide (c.default ≠ pid), ts⟩ := by
  apply (auth_iff_record c d u pw _).mpr
  refine ⟨a, _, ⟨ps.formatId, ts, pid, hashStrOf salt (ps.digest salt pw) ++ [nl]⟩, ps, salt, ps.digest salt pw,
    he, hfile, readHead_formatLine _ _ _ _ _ _ hf h1 h2 hp, hps, rfl, decodeSaltHash_hashStrOf _ _, rfl, rfl⟩

/-- Unsupported or invalid hash file of `u`: add reports "exists". -/
theorem unsupported_add_exists (c : Cfg) (d : Dir) (u pw salt : Bytes) (adm a : Bool) (now : Int)
    (he : exists_ d u = .ok (true, a)) : add c d u pw adm now salt = .error .exists_ := by
  simp [add, he]

/-- Unsupported or invalid hash file of `u`: update is refused. -/
theorem unsupported_update_refused (c : Cfg) (d : Dir) (u pw salt : Bytes) (a : Bool) (now : Int) (x : Node)
    (he : exists_ d u = .ok (true, a)) (hx : get d (fileName u a) = some x) (hs : supported c x = false) :
    update c d u pw now salt = .error .unsupported := by
  cases x with
  | dir => simp [update, he, hx]
  | file b => simp [update, he, hx, hs]

/-- Remove deletes the user's files whatever they contain. -/
theorem remove_deletes (d : Dir) (u : Bytes) (hv : validName u = true) :
    get (remove d u) (u ++ adminExt) = none ∧ get (remove d u) (u ++ userExt) = none := by
  simp only [remove, hv, Bool.not_true, Bool.false_eq_true, if_false]
  constructor
  · rw [get_del_ne _ (append_adminExt_ne_userExt u u), get_del_self]
  · rw [get_del_self]

/- Non-vacuity: a concrete record of a toy parameter set authenticates; a tampered one does not. -/
def toySet : ParamSet := { formatId := [116], digest := fun salt pw => salt ++ pw }
def toyCfg : Cfg := { default := 1, params := [(1, toySet)] }
def toyDir : Dir := [([97] ++ userExt, .file (formatLine [116] 5 1 (hashStrOf [1, 2] [1, 2, 9]) ++ [120]))]
example : authenticate toyCfg toyDir [97] [9] = .ok ⟨false, false, 5⟩ := by
  apply foreign_record_accepted toyCfg toyDir [97] [9] [1, 2] [120] false 5 1 toySet
  · rfl
  · rfl
  · rfl
  · decide
  · decide
  · decide
  · decide


/-! ### Unsupported and invalid hash files are hidden from `list` -/

/-- Every entry `List` reports is backed by a file of that user with that extension whose hash
    is SUPPORTED (a record of a configured parameter set with matching format id, non-empty salt
    and digest). Hence a file with an unsupported or invalid hash is never listed — whatever
    else the directory holds, in whatever order `readdir` returns it. -/
theorem list_only_supported (c : Cfg) (d : Dir) (l : List ListEntry) (h : list c d = some l) :
    ∀ e ∈ l, ∃ x, (fileName e.user e.isAdmin, x) ∈ d ∧ supported c x = true := by
  have hnone : ∀ (r : Dir), r.foldl (listStep c) none = none := by
    intro r; induction r with
    | nil => rfl
    | cons _ _ ihr => simpa [List.foldl, listStep] using ihr
  have gen : ∀ (rest : Dir) (acc : List ListEntry), (∀ y ∈ rest, y ∈ d) →
      (∀ e ∈ acc, ∃ x, (fileName e.user e.isAdmin, x) ∈ d ∧ supported c x = true) →
      ∀ l, rest.foldl (listStep c) (some acc) = some l →
        ∀ e ∈ l, ∃ x, (fileName e.user e.isAdmin, x) ∈ d ∧ supported c x = true := by
    intro rest
    induction rest with
    | nil => intro acc _ hacc l hl; simp at hl; subst hl; exact hacc
    | cons y rest ih =>
      intro acc hsub hacc l hl
      have hsub' : ∀ z ∈ rest, z ∈ d := fun z hz => hsub z (by simp [hz])
      have hy : y ∈ d := hsub y (by simp)
      simp only [List.foldl] at hl
      generalize hs : listStep c (some acc) y = s at hl
      unfold listStep at hs
      by_cases ht : y.1 = tmpName
      · simp only [ht, if_true] at hs; subst hs; exact ih acc hsub' hacc l hl
      · simp only [ht, if_false] at hs
        cases hc : checkUserFile y.1 with
        | none => simp only [hc] at hs; subst hs; rw [hnone] at hl; simp at hl
        | some r =>
          obtain ⟨valid, u, adm⟩ := r
          simp only [hc] at hs
          cases valid with
          | false => simp only [Bool.not_false, if_true] at hs; subst hs; exact ih acc hsub' hacc l hl
          | true =>
            simp only [Bool.not_true, Bool.false_eq_true, if_false] at hs
            split at hs
            · subst hs; exact ih acc hsub' hacc l hl
            · rename_i hsup
              subst hs
              refine ih _ hsub' ?_ l hl
              intro e he
              simp only [List.mem_append, List.mem_filter, List.mem_singleton] at he
              rcases he with he | he
              · exact hacc e he.1
              · subst he
                refine ⟨y.2, ?_, ?_⟩
                · have hn := checkUserFile_name hc
                  simp only
                  rw [← hn]; exact hy
                · simpa [supported] using hsup
  exact gen d [] (fun _ h => h) (by simp) l h

/-- In particular: if the only file of `u` is unsupported, `u` is not in the list. -/
theorem unsupported_hidden_from_list (c : Cfg) (d : Dir) (l : List ListEntry) (h : list c d = some l) (u : Bytes)
    (hu : ∀ a x, (fileName u a, x) ∈ d → supported c x = false) : ∀ e ∈ l, e.user ≠ u := by
  intro e he heq
  obtain ⟨x, hx, hs⟩ := list_only_supported c d l h e he
  rw [heq] at hx
  rw [hu _ _ hx] at hs
  exact absurd hs (by simp)

/-- One iteration of the loop in `ListFull` (the lambda of `listFull`, named). -/
def listFullStep (c : Cfg) (acc : Option (List FullEntry)) (e : Bytes × Node) : Option (List FullEntry) :=
  match acc with
  | none => none
  | some l =>
    if e.1 = tmpName then some l
    else match checkUserFile e.1 with
      | none => none
      | some (valid, u, adm) =>
        let (ok, f, ts, pid) := supportedFull c e.2
        some (l.filter (·.user ≠ u) ++ [⟨u, adm, ts, valid, ok, f, pid⟩])

theorem listFull_eq_fold (c : Cfg) (d : Dir) : listFull c d = d.foldl (listFullStep c) (some []) := by
  unfold listFull
  congr 1

/-- `ListFull` shows every file with a user-file name, and its "supported" column is exactly the
    supported-format predicate of that file: an unsupported or invalid hash is SHOWN, as unsupported. -/
theorem listFull_reports_support (c : Cfg) (d : Dir) (l : List FullEntry) (h : listFull c d = some l) :
    ∀ e ∈ l, ∃ x, (fileName e.user e.isAdmin, x) ∈ d ∧ e.supported = supported c x ∧ e.valid = validName e.user := by
  rw [listFull_eq_fold] at h
  have hnone : ∀ (r : Dir), r.foldl (listFullStep c) none = none := by
    intro r; induction r with
    | nil => rfl
    | cons _ _ ihr => simpa [List.foldl, listFullStep] using ihr
  have gen : ∀ (rest : Dir) (acc : List FullEntry), (∀ y ∈ rest, y ∈ d) →
      (∀ e ∈ acc, ∃ x, (fileName e.user e.isAdmin, x) ∈ d ∧ e.supported = supported c x ∧ e.valid = validName e.user) →
      ∀ l, rest.foldl (listFullStep c) (some acc) = some l →
        ∀ e ∈ l, ∃ x, (fileName e.user e.isAdmin, x) ∈ d ∧ e.supported = supported c x ∧ e.valid = validName e.user := by
    intro rest
    induction rest with
    | nil => intro acc _ hacc l hl; simp at hl; subst hl; exact hacc
    | cons y rest ih =>
      intro acc hsub hacc l hl
      have hsub' : ∀ z ∈ rest, z ∈ d := fun z hz => hsub z (by simp [hz])
      have hy : y ∈ d := hsub y (by simp)
      simp only [List.foldl] at hl
      generalize hs : listFullStep c (some acc) y = s at hl
      unfold listFullStep at hs
      by_cases ht : y.1 = tmpName
      · simp only [ht, if_true] at hs; subst hs; exact ih acc hsub' hacc l hl
      · simp only [ht, if_false] at hs
        cases hc : checkUserFile y.1 with
        | none => simp only [hc] at hs; subst hs; rw [hnone] at hl; simp at hl
        | some r =>
          obtain ⟨valid, u, adm⟩ := r
          simp only [hc] at hs
          subst hs
          refine ih _ hsub' ?_ l hl
          intro e he
          simp only [List.mem_append, List.mem_filter, List.mem_singleton] at he
          rcases he with he | he
          · exact hacc e he.1
          · subst he
            refine ⟨y.2, ?_, rfl, ?_⟩
            · have hn := checkUserFile_name hc
              simp only
              rw [← hn]; exact hy
            · exact checkUserFile_valid hc
  exact gen d [] (fun _ h => h) (by simp) l h

end Whawty.Store.C02
