/-
  C17 — No password failing the configured policy is ever stored.
-/
import Whawty.Lemmas.Policy
import Whawty.Lemmas.Utf8
namespace Whawty.Policy.C17
open Whawty Whawty.Policy

/-- A store change implies that the policy accepted the password; a refusal leaves the store
    unchanged (every write path of the agent — init, add, update, from the CLI or the HTTP API,
    by an administrator or by the user — goes through this one gate). -/
theorem store_change_implies_policy {σ : Type} (p : PolicyCfg) (z : Estimate) (st : σ) (op : Option σ)
    (h : (guardedWrite p z st op).2 ≠ st) : policyOk p z = true := by
  unfold guardedWrite at h
  by_cases hp : policyOk p z = true
  · exact hp
  · simp [hp] at h

theorem refusal_changes_nothing {σ : Type} (p : PolicyCfg) (z : Estimate) (st : σ) (op : Option σ)
    (h : (guardedWrite p z st op).1 = none) : (guardedWrite p z st op).2 = st := by
  unfold guardedWrite at h ⊢
  by_cases hp : policyOk p z = true
  · simp only [hp, Bool.not_true, Bool.false_eq_true, if_false] at h ⊢
    cases op with
    | none => rfl
    | some st' => simp at h
  · simp [hp]

/-- A password that satisfies the policy is not refused on policy grounds: the outcome is the
    store's own. -/
theorem policy_ok_not_refused {σ : Type} (p : PolicyCfg) (z : Estimate) (st : σ) (op : Option σ)
    (h : policyOk p z = true) : (guardedWrite p z st op).1 = op := by
  unfold guardedWrite
  simp only [h, Bool.not_true, Bool.false_eq_true, if_false]
  cases op <;> rfl

/-- The condition parser is exact. -/
theorem condition_parser_exact (s : Bytes) (c : Cond) :
    parseCondition s = some c ↔
      ∃ k t, fields s = [k, geB, t] ∧ Rec.parseUint64 t = some c.threshold ∧
        ((k = scoreB ∧ c.kind = .score ∧ c.threshold ≤ 4) ∨ (k = entropyB ∧ c.kind = .entropy) ∨
         (k = timeB ∧ c.kind = .time)) := by
  unfold parseCondition
  constructor
  · intro h
    split at h
    · rename_i k op t hf
      split at h
      · simp at h
      · rename_i hop
        have hop' : op = geB := by simpa using hop
        subst hop'
        split at h
        · simp at h
        · rename_i thr ht
          by_cases h1 : k = scoreB
          · simp only [h1, if_true] at h
            split at h
            · simp at h
            · rename_i hle; injection h with h; subst h
              exact ⟨scoreB, t, by rw [hf, h1], ht, Or.inl ⟨rfl, rfl, by simpa using hle⟩⟩
          · by_cases h2 : k = entropyB
            · simp only [h1, h2, if_false, if_true] at h
              have : ¬ entropyB = scoreB := by decide
              simp only [this, if_false] at h
              injection h with h; subst h
              exact ⟨entropyB, t, by rw [hf, h2], ht, Or.inr (Or.inl ⟨rfl, rfl⟩)⟩
            · by_cases h3 : k = timeB
              · simp only [h3] at h
                have a : ¬ timeB = scoreB := by decide
                have b : ¬ timeB = entropyB := by decide
                simp only [a, b, if_false, if_true] at h
                injection h with h; subst h
                exact ⟨timeB, t, by rw [hf, h3], ht, Or.inr (Or.inr ⟨rfl, rfl⟩)⟩
              · simp [h1, h2, h3] at h
    · simp at h
  · rintro ⟨k, t, hf, ht, hk⟩
    simp only [hf, ne_eq, not_true_eq_false, if_false, ht]
    rcases hk with ⟨h1, h2, h3⟩ | ⟨h1, h2⟩ | ⟨h1, h2⟩
    · have : ¬ c.threshold > 4 := by omega
      subst h1; cases c; simp_all
    · have a : ¬ entropyB = scoreB := by decide
      subst h1; cases c; simp_all
    · have a : ¬ timeB = scoreB := by decide
      have b : ¬ timeB = entropyB := by decide
      subst h1; cases c; simp_all

/-- An unparsable policy configuration stops the agent from starting rather than disabling
    the policy: `newPolicy` yields "no policy" only for the empty policy type. -/
theorem bad_policy_stops_agent (ty cond : Bytes) (h : newPolicy ty cond = some .none) : ty = [] := by
  unfold newPolicy at h
  split at h
  · assumption
  · split at h
    · simp only [Option.map_eq_some_iff] at h
      obtain ⟨c, _, hc⟩ := h
      simp at hc
    · simp at h

/-- `strings.Fields` as modelled: the fuel of the scan is irrelevant once it covers the input … -/
theorem fields_fuel_irrelevant (s : Bytes) (n : Nat) (h : s.length ≤ n) : fieldsAux n s [] = fields s :=
  fieldsAux_fuel n s.length s [] h (Nat.le_refl _)

/-- … and its fields are words: non-empty, without any ASCII white space inside. -/
theorem fields_are_words (s : Bytes) : ∀ f ∈ fields s, f ≠ [] ∧ ∀ b ∈ f, isSpace b = false :=
  fun f hf => ⟨fieldsAux_nonempty _ s [] f hf, fieldsAux_no_space _ s [] (by simp) f hf⟩

/-- A condition that parses has exactly three words; none of them contains white space, so the
    accepted spellings are exactly `score|entropy|time`, `>=`, a decimal number, separated (and
    surrounded) by any white space — Unicode white space included, as `strings.Fields` has it. -/
theorem parsed_condition_has_three_words (s : Bytes) (c : Cond) (h : parseCondition s = some c) :
    (fields s).length = 3 := by
  obtain ⟨k, t, hf, _⟩ := (condition_parser_exact s c).mp h
  rw [hf]; rfl

theorem digitsVal_all_digits (t : Bytes) : ∀ acc n, Rec.digitsVal t acc = some n → ∀ b ∈ t, Rec.isDigit b = true := by
  induction t with
  | nil => intro _ _ _ b hb; simp at hb
  | cons c rest ih =>
    intro acc n h b hb
    simp only [Rec.digitsVal] at h
    split at h
    · rename_i hc
      rcases List.mem_cons.mp hb with rfl | hb'
      · exact hc
      · exact ih _ _ h b hb'
    · simp at h

/-- The threshold of an accepted condition is written in decimal digits only — no sign, no prefix
    (`0x`, `0o`, a leading zero is just a zero), no separators, no exponent — and is its decimal value,
    below 2^64. -/
theorem parsed_threshold_is_plain_decimal (s : Bytes) (c : Cond) (h : parseCondition s = some c) :
    ∃ k t, fields s = [k, geB, t] ∧ t ≠ [] ∧ (∀ b ∈ t, Rec.isDigit b = true) ∧
      Rec.digitsVal t 0 = some c.threshold ∧ c.threshold < 2 ^ 64 := by
  obtain ⟨k, t, hf, ht, _⟩ := (condition_parser_exact s c).mp h
  refine ⟨k, t, hf, ?_⟩
  unfold Rec.parseUint64 at ht
  split at ht
  · simp at ht
  · rename_i hne
    split at ht
    · rename_i n hn
      split at ht
      · rename_i hlt
        injection ht with ht
        rw [← ht]
        exact ⟨hne, digitsVal_all_digits t 0 n hn, hn, hlt⟩
      · simp at ht
    · simp at ht

-- "entropy >= 040" is forty, not thirty-two
example : parseCondition [101, 110, 116, 114, 111, 112, 121, 32, 62, 61, 32, 48, 52, 48] = some ⟨.entropy, 40⟩ := by decide

/-- **The model's `fields` is Go's `strings.Fields`** as its documentation defines it: the maximal
    substrings between `unicode.IsSpace` runes, with runes decoded the way `for … range` decodes
    them (`Utf8.decodeRune`: overlong, surrogate, out-of-range and truncated spellings are one-byte
    `RuneError`s). The byte-level scan of the model needs no decoder because every white-space rune
    starts with a lead byte, and a lead byte is always at a rune boundary — proved, not assumed:
    `Utf8.spaceLen_eq_rune`, `Utf8.width_conts`, `Utf8.spaceLen_cont`. -/
theorem fields_is_strings_Fields (s : Bytes) : fields s = Utf8.fieldsSpec s := Utf8.fields_eq_spec s

/- Non-vacuity -/
example : Utf8.decodeRune [0xE2, 0x82, 0xAC, 65] = (0x20AC, 3) := by decide        -- "€A"
example : Utf8.decodeRune [0xC0, 0xA0] = (Utf8.runeError, 1) := by decide           -- overlong U+0020
example : Utf8.decodeRune [0xED, 0xA0, 0x80] = (Utf8.runeError, 1) := by decide     -- a surrogate
example : Utf8.fieldsSpec [97, 0xE2, 0x80, 0x83, 98, 0xC2, 0xA0] = [[97], [98]] := by decide
-- "score\u00a0>=\u20003" (no-break space, en quad) parses; U+200B (zero width space) is not white space
example : parseCondition [115, 99, 111, 114, 101, 0xC2, 0xA0, 62, 61, 0xE2, 0x80, 0x80, 51] = some ⟨.score, 3⟩ := by decide
example : parseCondition [115, 99, 111, 114, 101, 0xE2, 0x80, 0x8B, 62, 61, 32, 51] = none := by decide
example : fields [0xE3, 0x80, 0x80, 97, 0xE2, 0x80, 0xA8, 98, 0xC2] = [[97], [98, 0xC2]] := by decide
example : parseCondition [115, 99, 111, 114, 101, 32, 62, 61, 32, 51] = some ⟨.score, 3⟩ := by decide   -- "score >= 3"
example : parseCondition [115, 99, 111, 114, 101, 32, 62, 61, 32, 53] = none := by decide                  -- "score >= 5"
example : parseCondition [115, 99, 111, 114, 101, 32, 62, 32, 51] = none := by decide                      -- "score > 3"

end Whawty.Policy.C17
