/-
  C18 — reload is all-or-nothing and does not disturb requests in flight.
-/
import Whawty.Model.Reload
import Whawty.Props.C10
namespace Whawty.Reload.C18
open Whawty Whawty.Agent Whawty.Reload

/-- One reload: the complete previous configuration, or the complete new one — and the new one
    only if it loaded and its directory passed the check. -/
theorem reload_all_or_nothing (cur : Live) (r : Loaded) :
    (reload cur r = cur ∧ ∀ cfg, r ≠ .ok cfg true) ∨ (∃ cfg, r = .ok cfg true ∧ reload cur r = cfg) := by
  cases r with
  | bad => exact Or.inl ⟨rfl, fun _ h => by cases h⟩
  | ok cfg d =>
    cases d with
    | true => exact Or.inr ⟨cfg, rfl, rfl⟩
    | false => exact Or.inl ⟨rfl, fun _ h => by cases h⟩

/-- Never a mixture: base directory, default and parameter sets of the live configuration all
    come from the same configuration. -/
theorem reload_no_mixture (cur : Live) (r : Loaded) :
    let l := reload cur r
    (l.base = cur.base ∧ l.default = cur.default ∧ l.sets = cur.sets) ∨
    (∃ cfg, r = .ok cfg true ∧ l.base = cfg.base ∧ l.default = cfg.default ∧ l.sets = cfg.sets) := by
  rcases reload_all_or_nothing cur r with ⟨h, _⟩ | ⟨cfg, hr, h⟩
  · exact Or.inl (by simp [h])
  · exact Or.inr ⟨cfg, hr, by simp [h]⟩

theorem failed_reload_keeps_everything (cur : Live) : reload cur .bad = cur ∧ ∀ cfg, reload cur (.ok cfg false) = cur :=
  ⟨rfl, fun _ => rfl⟩

/-- Requests in flight: the reload step leaves the dispatcher's queues, waiting clients, program
    counter and execution history exactly as they were. -/
theorem reload_preserves_requests (c : Agent.Cfg) (s t : St) (r : Loaded)
    (h : next c s (.reload r) = some t) : t.ag = s.ag := by
  simp only [next] at h
  split at h
  · injection h with h; subst h; rfl
  · simp at h

/-- Along EVERY run of the agent with any number of reload signals at any points: the live
    configuration is the initial one or one of the configurations that were offered complete
    and valid — never anything else. -/
theorem live_is_initial_or_offered (c : Agent.Cfg) (ls : List Label) :
    ∀ s t, run c s ls = some t → t.live = s.live ∨ t.live ∈ offered ls := by
  induction ls with
  | nil => intro s t h; simp only [run, Option.some.injEq] at h; subst h; exact Or.inl rfl
  | cons l rest ih =>
    intro s t h
    simp only [run] at h
    cases hn : next c s l with
    | none => simp [hn] at h
    | some m =>
      simp only [hn, Option.bind_some] at h
      rcases ih m t h with hm | hm
      · -- the live configuration after the first step
        cases l with
        | agent al =>
          simp only [next, Option.map_eq_some_iff] at hn
          obtain ⟨a, _, rfl⟩ := hn
          exact Or.inl hm
        | reload r =>
          simp only [next] at hn
          split at hn
          · injection hn with hn; subst hn
            rcases reload_all_or_nothing s.live r with ⟨hk, _⟩ | ⟨cfg, hr, hk⟩
            · exact Or.inl (by rw [hm]; exact hk)
            · subst hr
              right
              rw [hm]; simp only at hk ⊢
              rw [hk]; simp [offered]
          · simp at hn
      · right
        cases l with
        | agent al => simpa [offered] using hm
        | reload r =>
          cases r with
          | bad => simpa [offered] using hm
          | ok cfg d => cases d <;> simp [offered, hm]

/-- The dispatcher component of a run with reloads is a run of the plain dispatcher: every C10
    theorem (no reachable dispatcher deadlock, FIFO progress, answers to the right client) holds
    unchanged with reload signals arriving at any time. -/
theorem agent_component_reachable (c : Agent.Cfg) (ls : List Label) :
    ∀ s t, Agent.Reach c s.ag → run c s ls = some t → Agent.Reach c t.ag := by
  induction ls with
  | nil => intro s t hr h; simp only [run, Option.some.injEq] at h; subst h; exact hr
  | cons l rest ih =>
    intro s t hr h
    simp only [run] at h
    cases hn : next c s l with
    | none => simp [hn] at h
    | some m =>
      simp only [hn, Option.bind_some] at h
      refine ih m t ?_ h
      cases l with
      | agent al =>
        simp only [next, Option.map_eq_some_iff] at hn
        obtain ⟨a, ha, rfl⟩ := hn
        exact Agent.Reach.step al hr ha
      | reload r =>
        rw [reload_preserves_requests c s m r hn]; exact hr

/- Non-vacuity. -/
example : reload ⟨[65], 1, [1, 2]⟩ (.ok ⟨[66], 2, [1, 2, 3]⟩ true) = ⟨[66], 2, [1, 2, 3]⟩ := rfl
example : reload ⟨[65], 1, [1, 2]⟩ (.ok ⟨[66], 2, [1, 2, 3]⟩ false) = ⟨[65], 1, [1, 2]⟩ := rfl

end Whawty.Reload.C18
