/-
  C16 — The store directory stays valid; the consistency check is exact.
-/
import Whawty.Lemmas.StoreCheck
namespace Whawty.Store.C16
open Whawty Whawty.Rec Whawty.Store

/-- Exactness of `Check`, without any reference to the iteration order: it accepts iff every
    entry other than `.tmp` has extension `.user` / `.admin` and (for a valid user name) the
    other extension is absent, and some `.admin` entry with a valid name holds a supported hash. -/
theorem check_exact (c : Cfg) (d : Dir) :
    check c d = true ↔
      (∀ e ∈ d, e.1 = tmpName ∨ ∃ valid u adm, checkUserFile e.1 = some (valid, u, adm) ∧
          (valid = true → has d (u ++ if adm then userExt else adminExt) = false)) ∧
      (∃ e ∈ d, e.1 ≠ tmpName ∧ ∃ u, checkUserFile e.1 = some (true, u, true) ∧ supported c e.2 = true) := by
  rw [check_eq, Bool.and_eq_true, List.all_eq_true, List.any_eq_true]
  constructor
  · rintro ⟨h1, e, he, h2⟩
    refine ⟨fun e he => ?_, e, he, ?_⟩
    · have := h1 e he
      unfold entryOk at this
      by_cases ht : e.1 = tmpName
      · exact Or.inl ht
      · right
        simp only [ht, decide_false, Bool.false_or] at this
        split at this
        · simp at this
        · rename_i valid u adm hc
          refine ⟨valid, u, adm, hc, fun hv => ?_⟩
          subst hv
          cases adm <;> simpa using this
    · unfold entryAdmin at h2
      simp only [Bool.and_eq_true, decide_eq_true_eq] at h2
      refine ⟨h2.1, ?_⟩
      have h3 := h2.2
      split at h3
      · rename_i u hc; exact ⟨u, hc, h3⟩
      · simp at h3
  · rintro ⟨h1, e, he, hne, u, hc, hs⟩
    refine ⟨fun e he => ?_, e, he, ?_⟩
    · unfold entryOk
      rcases h1 e he with ht | ⟨valid, u, adm, hc, hv⟩
      · simp [ht]
      · simp only [hc]
        cases valid with
        | false => simp
        | true => have := hv rfl; cases adm <;> simp_all
    · unfold entryAdmin
      simp [hne, hc, hs]

/-- The accept / reject outcome does not depend on the order in which `readdir` returns the
    entries. -/
theorem check_perm_invariant (c : Cfg) {d d' : Dir} (h : d.Perm d') : check c d = check c d' := by
  rw [check_eq, check_eq, h.any_eq, h.all_eq]
  congr 1
  congr 1
  funext e
  exact entryOk_perm h e

/-- An invalid-named file never counts as the administrator a valid store requires. -/
theorem invalid_named_admin_never_counts (c : Cfg) (e : Bytes × Node) (valid : Bool) (u : Bytes) (adm : Bool)
    (hc : checkUserFile e.1 = some (valid, u, adm)) (hv : valid = false) : entryAdmin c e = false := by
  subst hv
  simp [entryAdmin, hc]

/-- Initialisation succeeds only on an empty directory (ignoring a `.tmp` directory). -/
theorem init_only_on_empty {c : Cfg} {d d' : Dir} {u pw salt : Bytes} {now : Int}
    (h : init c d u pw now salt = .ok d') : d = [] ∨ d = [(tmpName, .dir)] := by
  unfold init at h
  split at h
  · simp at h
  · rename_i he
    simp only [Bool.not_eq_true, Bool.not_eq_false] at he
    unfold isDirEmpty at he
    split at he
    · exact Or.inl rfl
    · rename_i n
      right; simp at he; rw [he]
    · simp at he

theorem extOf_admin (u : Bytes) : extOf (u ++ adminExt) = adminExt := by
  simp [extOf, adminExt, List.reverse_append, List.takeWhile, List.dropWhile]

theorem checkUserFile_admin (u : Bytes) : checkUserFile (u ++ adminExt) = some (validName u, u, true) := by
  simp [checkUserFile, extOf_admin]

/-- … and then produces a directory that passes the check. -/
theorem init_produces_valid_store {c : Cfg} {d d' : Dir} {u pw salt : Bytes} {now : Int}
    (h : init c d u pw now salt = .ok d')
    (hlt : c.default < 2 ^ 64)
    (hplain : ∀ id ps, c.lookup id = some ps → ∀ ch ∈ ps.formatId, ch ≠ colon ∧ ch ≠ nl)
    (ht : -(2 ^ 63 : Int) ≤ now ∧ now < 2 ^ 63) (hsalt : salt ≠ [])
    (hdig : ∀ id ps, c.lookup id = some ps → ps.digest salt pw ≠ []) : check c d' = true := by
  have hempty := init_only_on_empty h
  unfold init at h
  split at h
  · simp at h
  · obtain ⟨ps, dt, a, he, hps, htmp, hd'⟩ := add_ok h
    have hv : validName u = true := (exists_ok_iff he).1
    -- the new administrator file is supported
    have hsup : supported c (.file (newContent ps c.default now salt pw [])) = true := by
      simp only [supported, supportedFull, newContent,
        readHead_formatLine _ _ _ _ _ _ (hplain _ _ hps) ht.1 ht.2 hlt, hps, ne_eq, not_true_eq_false,
        if_false, isValid, decodeSaltHash_hashStrOf]
      have := hdig _ _ hps
      cases hs : salt with
      | nil => exact absurd hs hsalt
      | cons s ss =>
        cases hdd : ps.digest (s :: ss) pw with
        | nil => rw [hs] at this; exact absurd hdd this
        | cons _ _ => simp
    rw [check_exact]
    subst hd'
    have hget : ∀ n, get dt n = if n = tmpName then some Node.dir else none := by
      intro n
      rcases hempty with rfl | rfl
      · simp only [ensureTmp, get_nil, List.nil_append] at htmp
        injection htmp with htmp; subst htmp
        simp only [get_cons, get_nil]
        by_cases hn : tmpName = n
        · simp [hn]
        · have : ¬ n = tmpName := fun e => hn e.symm
          simp [hn, this]
      · simp only [ensureTmp, get_cons, if_true] at htmp
        injection htmp with htmp; subst htmp
        simp only [get_cons, get_nil]
        by_cases hn : tmpName = n
        · simp [hn]
        · have : ¬ n = tmpName := fun e => hn e.symm
          simp [hn, this]
    have hdt : ∀ e ∈ dt, e.1 = tmpName := by
      intro e he
      rcases hempty with rfl | rfl
      · simp only [ensureTmp, get_nil, List.nil_append] at htmp
        injection htmp with htmp; subst htmp; simp at he; rw [he]
      · simp only [ensureTmp, get_cons, if_true] at htmp
        injection htmp with htmp; subst htmp; simp at he; rw [he]
    constructor
    · intro e he
      simp only [put, List.mem_cons] at he
      rcases he with rfl | he
      · right
        refine ⟨validName u, u, true, checkUserFile_admin u, fun _ => ?_⟩
        simp only [if_true, has]
        have hne : u ++ userExt ≠ fileName u true := by
          simp only [fileName, if_true]; exact fun e => append_adminExt_ne_userExt u u e.symm
        rw [get_put_ne _ _ hne, hget]
        have : ¬ u ++ userExt = tmpName := fun e => tmp_ne_user u e.symm
        simp [this]
      · left
        simp only [del, List.mem_filter] at he
        exact hdt e he.1
    · refine ⟨(fileName u true, _), by simp [put], ?_, u, ?_, hsup⟩
      · exact fun e => tmp_ne_admin u (by simpa [fileName] using e.symm)
      · simp only [fileName, if_true, checkUserFile_admin, hv]

/- Non-vacuity of `check_exact`: a two-entry store. -/
example : checkUserFile ([97] ++ adminExt) = some (true, [97], true) := by
  rw [checkUserFile_admin]; rfl

end Whawty.Store.C16
