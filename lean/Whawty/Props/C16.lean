/-
  C16 — The store directory stays valid; the consistency check is exact.
-/
import Whawty.Lemmas.StoreInv
import Whawty.Model.Cli
namespace Whawty.Store.C16
open Whawty Whawty.Rec Whawty.Store

/-- Exactness of `Check`, without any reference to the iteration order: it accepts iff every
    entry other than `.tmp` has extension `.user` / `.admin` and (for a valid user name) the
    other extension is absent, and some `.admin` entry with a valid name holds a supported hash. -/
theorem check_exact (c : Cfg) (d : Dir) :
    check c d = true ↔
      (∀ e ∈ d, e.1 = tmpName ∨ ∃ valid u adm, checkUserFile e.1 = some (valid, u, adm) ∧
          (valid = true → has d (u ++ if adm then userExt else adminExt) = false)) ∧
      (∃ e ∈ d, e.1 ≠ tmpName ∧ ∃ u, checkUserFile e.1 = some (true, u, true) ∧ supported c e.2 = true) := by
  rw [check_eq, Bool.and_eq_true, List.all_eq_true, List.any_eq_true]
  constructor
  · rintro ⟨h1, e, he, h2⟩
    refine ⟨fun e he => ?_, e, he, ?_⟩
    · have := h1 e he
      unfold entryOk at this
      by_cases ht : e.1 = tmpName
      · exact Or.inl ht
      · right
        simp only [ht, decide_false, Bool.false_or] at this
        split at this
        · simp at this
        · rename_i valid u adm hc
          refine ⟨valid, u, adm, hc, fun hv => ?_⟩
          subst hv
          cases adm <;> simpa using this
    · unfold entryAdmin at h2
      simp only [Bool.and_eq_true, decide_eq_true_eq] at h2
      refine ⟨h2.1, ?_⟩
      have h3 := h2.2
      split at h3
      · rename_i u hc; exact ⟨u, hc, h3⟩
      · simp at h3
  · rintro ⟨h1, e, he, hne, u, hc, hs⟩
    refine ⟨fun e he => ?_, e, he, ?_⟩
    · unfold entryOk
      rcases h1 e he with ht | ⟨valid, u, adm, hc, hv⟩
      · simp [ht]
      · simp only [hc]
        cases valid with
        | false => simp
        | true => have := hv rfl; cases adm <;> simp_all
    · unfold entryAdmin
      simp [hne, hc, hs]

/-- The accept / reject outcome does not depend on the order in which `readdir` returns the
    entries. -/
theorem check_perm_invariant (c : Cfg) {d d' : Dir} (h : d.Perm d') : check c d = check c d' := by
  rw [check_eq, check_eq, h.any_eq, h.all_eq]
  congr 1
  congr 1
  funext e
  exact entryOk_perm h e

/-- An invalid-named file never counts as the administrator a valid store requires. -/
theorem invalid_named_admin_never_counts (c : Cfg) (e : Bytes × Node) (valid : Bool) (u : Bytes) (adm : Bool)
    (hc : checkUserFile e.1 = some (valid, u, adm)) (hv : valid = false) : entryAdmin c e = false := by
  subst hv
  simp [entryAdmin, hc]

/-- Initialisation succeeds only on an empty directory (ignoring a `.tmp` directory). -/
theorem init_only_on_empty {c : Cfg} {d d' : Dir} {u pw salt : Bytes} {now : Int}
    (h : init c d u pw now salt = .ok d') : d = [] ∨ d = [(tmpName, .dir)] := by
  unfold init at h
  split at h
  · simp at h
  · rename_i he
    simp only [Bool.not_eq_true, Bool.not_eq_false] at he
    unfold isDirEmpty at he
    split at he
    · exact Or.inl rfl
    · rename_i n
      right; simp at he; rw [he]
    · simp at he

theorem extOf_admin (u : Bytes) : extOf (u ++ adminExt) = adminExt := by
  simp [extOf, adminExt, List.reverse_append, List.takeWhile, List.dropWhile]

theorem checkUserFile_admin (u : Bytes) : checkUserFile (u ++ adminExt) = some (validName u, u, true) := by
  simp [checkUserFile, extOf_admin]

/-- … and then produces a directory that passes the check. -/
theorem init_produces_valid_store {c : Cfg} {d d' : Dir} {u pw salt : Bytes} {now : Int}
    (h : init c d u pw now salt = .ok d')
    (hlt : c.default < 2 ^ 64)
    (hplain : ∀ id ps, c.lookup id = some ps → ∀ ch ∈ ps.formatId, ch ≠ colon ∧ ch ≠ nl)
    (ht : -(2 ^ 63 : Int) ≤ now ∧ now < 2 ^ 63) (hsalt : salt ≠ [])
    (hdig : ∀ id ps, c.lookup id = some ps → ps.digest salt pw ≠ []) : check c d' = true := by
  have hempty := init_only_on_empty h
  unfold init at h
  split at h
  · simp at h
  · obtain ⟨ps, dt, a, he, hps, htmp, hd'⟩ := add_ok h
    have hv : validName u = true := (exists_ok_iff he).1
    -- the new administrator file is supported
    have hsup : supported c (.file (newContent ps c.default now salt pw [])) = true := by
      simp only [supported, supportedFull, newContent,
        readHead_formatLine _ _ _ _ _ _ (hplain _ _ hps) ht.1 ht.2 hlt, hps, ne_eq, not_true_eq_false,
        if_false, isValid, decodeSaltHash_hashStrOf]
      have := hdig _ _ hps
      cases hs : salt with
      | nil => exact absurd hs hsalt
      | cons s ss =>
        cases hdd : ps.digest (s :: ss) pw with
        | nil => rw [hs] at this; exact absurd hdd this
        | cons _ _ => simp
    rw [check_exact]
    subst hd'
    have hget : ∀ n, get dt n = if n = tmpName then some Node.dir else none := by
      intro n
      rcases hempty with rfl | rfl
      · simp only [ensureTmp, get_nil, List.nil_append] at htmp
        injection htmp with htmp; subst htmp
        simp only [get_cons, get_nil]
        by_cases hn : tmpName = n
        · simp [hn]
        · have : ¬ n = tmpName := fun e => hn e.symm
          simp [hn, this]
      · simp only [ensureTmp, get_cons, if_true] at htmp
        injection htmp with htmp; subst htmp
        simp only [get_cons, get_nil]
        by_cases hn : tmpName = n
        · simp [hn]
        · have : ¬ n = tmpName := fun e => hn e.symm
          simp [hn, this]
    have hdt : ∀ e ∈ dt, e.1 = tmpName := by
      intro e he
      rcases hempty with rfl | rfl
      · simp only [ensureTmp, get_nil, List.nil_append] at htmp
        injection htmp with htmp; subst htmp; simp at he; rw [he]
      · simp only [ensureTmp, get_cons, if_true] at htmp
        injection htmp with htmp; subst htmp; simp at he; rw [he]
    constructor
    · intro e he
      simp only [put, List.mem_cons] at he
      rcases he with rfl | he
      · right
        refine ⟨validName u, u, true, checkUserFile_admin u, fun _ => ?_⟩
        simp only [if_true, has]
        have hne : u ++ userExt ≠ fileName u true := by
          simp only [fileName, if_true]; exact fun e => append_adminExt_ne_userExt u u e.symm
        rw [get_put_ne _ _ hne, hget]
        have : ¬ u ++ userExt = tmpName := fun e => tmp_ne_user u e.symm
        simp [this]
      · left
        simp only [del, List.mem_filter] at he
        exact hdt e he.1
    · refine ⟨(fileName u true, _), by simp [put], ?_, u, ?_, hsup⟩
      · exact fun e => tmp_ne_admin u (by simpa [fileName] using e.symm)
      · simp only [fileName, if_true, checkUserFile_admin, hv]

/- Non-vacuity of `check_exact`: a two-entry store. -/
example : checkUserFile ([97] ++ adminExt) = some (true, [97], true) := by
  rw [checkUserFile_admin]; rfl


/-! ### The store stays valid over every history that keeps an administrator -/

/-- What the oracle inputs of a write must satisfy for the written record to be a supported
    one: a time in the machine range, a non-empty salt and a non-empty digest (true of every
    real write: 16/32 random bytes, tag length ≥ 1). -/
def WriteOk (c : Cfg) (pw salt : Bytes) (now : Int) : Prop :=
  (-(2 ^ 63 : Int) ≤ now ∧ now < 2 ^ 63) ∧ salt ≠ [] ∧ ∀ id ps, c.lookup id = some ps → ps.digest salt pw ≠ []

def OpOk (c : Cfg) : Op → Prop
  | .add _ pw _ now salt => WriteOk c pw salt now
  | .update _ pw now salt => WriteOk c pw salt now
  | _ => True

/-- The operation removes or demotes the LAST administrator: no supported, valid-named `.admin`
    file of any other user exists. -/
def TouchesLastAdmin (c : Cfg) (d : Dir) : Op → Prop
  | .remove u => ¬ HasOtherAdmin c d u
  | .setAdmin u false => ¬ HasOtherAdmin c d u
  | _ => False

structure CfgOk (c : Cfg) : Prop where
  defaultLt : c.default < 2 ^ 64
  plain : ∀ id ps, c.lookup id = some ps → ∀ ch ∈ ps.formatId, ch ≠ colon ∧ ch ≠ nl

/-- One operation — successful or failing — on a directory that passes the check leaves a
    directory that passes the check, unless it removes or demotes the last administrator. -/
theorem step_preserves_valid {c : Cfg} {d : Dir} (hc : CfgOk c) (hv : check c d = true) (op : Op)
    (hop : OpOk c op) (hl : ¬ TouchesLastAdmin c d op) : check c (step c d op) = true := by
  obtain ⟨hE, hA⟩ := (check_iff c d).1 hv
  cases op with
  | add u pw adm now salt =>
    simp only [step]
    cases hadd : add c d u pw adm now salt with
    | error e => exact hv
    | ok d' =>
      obtain ⟨ps, dt, a, he, hps, htmp, hd'⟩ := add_ok hadd
      subst hd'
      obtain ⟨hvn, _, _, h2⟩ := exists_ok_iff he
      obtain ⟨_, hga, hgu⟩ := h2 rfl
      have hother : has d (fileName u (!adm)) = false := by
        cases adm <;> simp [has, fileName, hga, hgu]
      obtain ⟨⟨ht1, ht2⟩, hsalt, hdig⟩ := hop
      refine (check_iff c _).2 ⟨entriesOk_write hE htmp hother, hasAdmin_write hA htmp hvn fun _ => ?_⟩
      exact supported_newContent c ps now salt pw [] hps (hc.plain _ _ hps) ht1 ht2 hc.defaultLt hsalt (hdig _ _ hps)
  | update u pw now salt =>
    simp only [step]
    cases hup : update c d u pw now salt with
    | error e => exact hv
    | ok d' =>
      obtain ⟨ps, dt, a, old, he, hold, _, hps, htmp, hd'⟩ := update_ok hup
      subst hd'
      obtain ⟨hvn, _, _, _⟩ := exists_ok_iff he
      -- the user's present file is an entry: its other extension is absent
      have hother : has d (fileName u (!a)) = false := by
        rcases hE _ (get_some_mem hold) with ht | ⟨valid, v, adm, hcu, hvv⟩
        · exact absurd ht.symm (tmp_ne_fileName u a)
        · rw [checkUserFile_fileName] at hcu
          simp only [Option.some.injEq, Prod.mk.injEq] at hcu
          obtain ⟨h1, h2, h3⟩ := hcu
          subst h2; subst h3
          exact hvv (by rw [← h1]; exact hvn)
      obtain ⟨⟨ht1, ht2⟩, hsalt, hdig⟩ := hop
      refine (check_iff c _).2 ⟨entriesOk_write hE htmp hother, hasAdmin_write hA htmp hvn fun _ => ?_⟩
      exact supported_newContent c ps now salt pw old hps (hc.plain _ _ hps) ht1 ht2 hc.defaultLt hsalt (hdig _ _ hps)
  | setAdmin u st =>
    simp only [step]
    cases hsa : setAdmin d u st with
    | error e => exact hv
    | ok d' =>
      rcases setAdmin_shape hsa with rfl | ⟨a, x, he, hst, hx, hd'⟩
      · exact hv
      · subst hd'
        have hOther : HasOtherAdmin c d u := by
          cases a with
          | true =>
            -- a demotion: by hypothesis not of the last administrator
            have : st = false := by simpa using hst
            subst this
            exact Classical.byContradiction fun hn => hl (by simpa [TouchesLastAdmin] using hn)
          | false =>
            -- a promotion: `u` has no `.admin` file, so the administrator that exists is another user
            obtain ⟨e, hed, hne, v, hcu, hs⟩ := hA
            refine ⟨e, hed, hne, v, fun hvu => ?_, hcu, hs⟩
            subst hvu
            obtain ⟨_, _, h1, _⟩ := exists_ok_iff he
            obtain ⟨y, hun, _⟩ := h1 rfl
            have hnone : get d (v ++ adminExt) = none := by
              simp only [userNode] at hun
              cases hg : get d (v ++ adminExt) with
              | none => rfl
              | some z => simp [hg] at hun
            have hname := checkUserFile_name hcu
            have := has_of_mem hed
            rw [hname] at this
            simp [has, fileName, hnone] at this
        exact (check_iff c _).2 ⟨entriesOk_rename hE, hasAdmin_rename_of_other hOther⟩
  | remove u =>
    simp only [step, remove]
    by_cases hvn : validName u = true
    · simp only [hvn, Bool.not_true, Bool.false_eq_true, if_false]
      have hOther : HasOtherAdmin c d u :=
        Classical.byContradiction fun hn => hl (by simpa [TouchesLastAdmin] using hn)
      exact (check_iff c _).2 ⟨entriesOk_remove u hE, hasAdmin_remove hOther⟩
    · simp only [hvn, Bool.not_false, if_true]
      exact hv

/-- A history is safe when every operation has well-formed oracle inputs and none of them, in
    the state it is applied to, removes or demotes the last administrator. -/
def SafeHist (c : Cfg) : Dir → List Op → Prop
  | _, [] => True
  | d, op :: rest => OpOk c op ∧ ¬ TouchesLastAdmin c d op ∧ SafeHist c (step c d op) rest

/-- **The store stays valid.** From a directory that passes the check, after EVERY prefix of
    every safe history — any length, any users, successful and failing operations — the
    directory passes the check. -/
theorem ops_preserve_valid {c : Cfg} (hc : CfgOk c) (h : List Op) :
    ∀ d, check c d = true → SafeHist c d h → ∀ k, check c (run c d (h.take k)) = true := by
  induction h with
  | nil => intro d hv _ k; simpa [run] using hv
  | cons op rest ih =>
    intro d hv hs k
    cases k with
    | zero => simpa [run] using hv
    | succ k =>
      obtain ⟨hop, hl, hrest⟩ := hs
      simp only [List.take_succ_cons, run, List.foldl_cons]
      exact ih (step c d op) (step_preserves_valid hc hv op hop hl) hrest k

/-- A directory that passes the check never holds two files for one (valid) user name … -/
theorem valid_never_two_files {c : Cfg} {d : Dir} (hv : check c d = true) (u : Bytes) (hvn : validName u = true) :
    ¬ (has d (u ++ adminExt) = true ∧ has d (u ++ userExt) = true) := by
  rintro ⟨ha, hu⟩
  obtain ⟨hE, _⟩ := (check_iff c d).1 hv
  obtain ⟨x, hx⟩ := has_mem ha
  rcases hE _ hx with ht | ⟨valid, v, adm, hcu, hvv⟩
  · exact tmp_ne_admin u ht.symm
  · have : (u ++ adminExt) = fileName u true := by simp [fileName]
    simp only [this, checkUserFile_fileName, Option.some.injEq, Prod.mk.injEq] at hcu
    obtain ⟨h1, h2, h3⟩ := hcu
    subst h2; subst h3
    have := hvv (by rw [← h1]; exact hvn)
    simp [fileName, hu] at this

/-- … hence no state of a safe history does. (The work area is structurally empty in this
    layer: `.tmp` is a `Node.dir` without content; that the real operations leave it empty is
    `law.C16.work_area_empty_after_op` on every step of the run and the trace skeletons.) -/
theorem history_never_two_files {c : Cfg} (hc : CfgOk c) (h : List Op) (d : Dir) (hv : check c d = true)
    (hs : SafeHist c d h) (k : Nat) (u : Bytes) (hvn : validName u = true) :
    ¬ (has (run c d (h.take k)) (u ++ adminExt) = true ∧ has (run c d (h.take k)) (u ++ userExt) = true) :=
  valid_never_two_files (ops_preserve_valid hc h d hv hs k) u hvn

/- Non-vacuity: a store with two administrators; removing one of them is safe, removing both
   is not (the second removal touches the last administrator). -/
section NonVacuity
def psX : ParamSet := ⟨[120], fun _ _ => [1]⟩                       -- format id "x", constant digest
def cX : Cfg := ⟨1, [(1, psX)]⟩
def recX : Bytes := formatLine [120] 5 1 (hashStrOf [7] [1])
def dX : Dir := [([97] ++ adminExt, .file recX), ([98] ++ adminExt, .file recX), (tmpName, .dir)]
example : check cX dX = true := by decide +kernel
example : check cX (run cX dX [.remove [97]]) = true := by decide +kernel
example : check cX (run cX dX [.remove [97], .remove [98]]) = false := by decide +kernel
end NonVacuity

end Whawty.Store.C16

namespace Whawty.Cli.C16
open Whawty.Cli

/-- The agent refuses to run any command (other than `init` and `check` themselves) on a
    directory that fails the check — unless checking is explicitly disabled. -/
theorem refuses_invalid_directory (e : Env) (c : Cmd) (hc : c ≠ .init ∧ c ≠ .check)
    (hdo : e.doCheck = true) (hv : e.dirValid = false) : gate e c = .exit3 := by
  cases c <;> simp_all [gate]

/-- Disabling the check is the ONLY way past an invalid directory. -/
theorem proceeds_only_if_valid_or_disabled (e : Env) (c : Cmd) (hc : c ≠ .init ∧ c ≠ .check)
    (hp : gate e c = .proceeds) : e.configLoads = true ∧ (e.dirValid = true ∨ e.doCheck = false) := by
  obtain ⟨cl, dv, de, dc⟩ := e
  cases c <;> cases cl <;> cases dv <;> cases dc <;> simp_all [gate]

/-- `check` reports exactly the check; `init` only proceeds on an empty directory. -/
theorem check_command_exact (e : Env) : gate e .check = .exit0 ↔ (e.configLoads = true ∧ e.dirValid = true) := by
  simp [gate]

theorem init_command_only_on_empty (e : Env) (h : gate e .init = .proceeds) : e.dirEmpty = true := by
  simp only [gate] at h
  split at h
  · simp_all
  · simp at h

end Whawty.Cli.C16
