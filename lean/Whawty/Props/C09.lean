/-
  C09 — Acknowledged changes survive power loss.
  `durableAtAck` is evaluated by the driver on the real strace trace of every traced
  operation; it is sound for "every crash instant after the return, every subset of
  not-yet-durable directory operations". The model of the repaired code satisfies it; the
  pinned code's SetAdmin / Remove (no directory fsync, defect D4) do not.
-/
import Whawty.Props.C08
namespace Whawty.Persist.C09
open Whawty Whawty.Persist Whawty.Trace Whawty.Persist.C08

theorem acked_stateAt_mem (s : St) (evs : List Ev) (k : Nat) (h : (stateAt s evs k).acked = true) :
    stateAt s evs k ∈ ackedStates s evs := by
  simp only [ackedStates, List.mem_filter]
  exact ⟨stateAt_mem_prefixStates s evs k, h⟩

/-- Soundness: if the checker accepts, then at every system-call boundary at or after the
    acknowledgement, under every subset of pending directory operations, the name shows
    exactly the acknowledged content (in particular never torn, never the old one). -/
theorem durableAtAck_sound (s0 : St) (evs : List Ev) (n : Name) (want : View)
    (h : durableAtAck s0 evs n want = true) :
    ∀ k, (stateAt s0 evs k).acked = true →
      ∀ kept, kept.Sublist (stateAt s0 evs k).pending → crashView (stateAt s0 evs k) kept n = want := by
  intro k hk kept hs
  simp only [durableAtAck, List.all_eq_true] at h
  have := h _ (acked_stateAt_mem s0 evs k hk) kept (mem_sublists hs)
  simpa using this

theorem model_update_durable (old line r1 r2 : Bytes) :
    durableAtAck (init [(Name.U, old)]) (updTrace .U line r1 r2) .U (.clean (line ++ r1 ++ r2)) = true := by
  simp [durableAtAck, ackedStates, prefixStates, updTrace, init, step, sublists, crashView,
    lookup, set, del, applyDir, opDir, dirOf, isDirName, number]

theorem model_add_durable (line : Bytes) :
    durableAtAck (init []) (addTrace .A line) .A (.clean line) = true := by
  simp [durableAtAck, ackedStates, prefixStates, addTrace, init, step, sublists, crashView,
    lookup, set, del, applyDir, opDir, dirOf, isDirName, number]

/-- Repaired set-admin: after the return the record is under the new extension and absent
    under the old one in every post-crash state. -/
theorem model_setAdmin_durable (rec : Bytes) :
    durableAtAck (init [(Name.U, rec)]) (setAdminTrace .U .A true) .A (.clean rec) = true ∧
    durableAtAck (init [(Name.U, rec)]) (setAdminTrace .U .A true) .U .absent = true := by
  constructor <;>
  simp [durableAtAck, ackedStates, prefixStates, setAdminTrace, init, step, sublists, crashView,
    lookup, set, del, applyDir, opDir, dirOf, isDirName, number]

theorem model_remove_durable (rec : Bytes) :
    durableAtAck (init [(Name.A, rec)]) (removeTrace true) .A .absent = true ∧
    durableAtAck (init [(Name.A, rec)]) (removeTrace true) .U .absent = true := by
  constructor <;>
  simp [durableAtAck, ackedStates, prefixStates, removeTrace, init, step, sublists, crashView,
    lookup, set, del, applyDir, opDir, dirOf, isDirName, number]

/-- Pinned code (defect D4): the acknowledged promotion can be lost — the old extension
    persists after a power loss — and a removed file can reappear. -/
theorem pinned_setAdmin_not_durable :
    durableAtAck (init [(Name.U, [1])]) (setAdminTrace .U .A false) .A (.clean [1]) = false := by decide

theorem pinned_remove_not_durable :
    durableAtAck (init [(Name.A, [1])]) (removeTrace false) .A .absent = false := by decide

/-- A new record never becomes visible under its final name before its content is durable:
    in the model of update, no crash view of the target is torn (from C08's theorem). -/
theorem never_visible_before_durable (old line r1 r2 : Bytes) :
    ∀ k kept, kept.Sublist (stateAt (init [(Name.U, old)]) (updTrace .U line r1 r2) k).pending →
      crashView (stateAt (init [(Name.U, old)]) (updTrace .U line r1 r2) k) kept .U ≠ .torn :=
  accepted_never_torn _ _ _ _ (by simp) (model_update_atomic old line r1 r2)

end Whawty.Persist.C09
