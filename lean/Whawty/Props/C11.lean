/-
  C11 — Concurrent requests are linearizable; acknowledged changes are never undone.
  (1) `linCheck` is evaluated by the driver on REAL concurrent histories of the agent; it is
  sound: an accepted history has a linearization in the sense spelled out by `validLin_spec`.
  (2) In the transition system of the dispatcher, requests are executed one at a time, each
  between its invocation and its response, and each response goes to its own client.
  (3) An internal hash upgrade (repaired code: update with the password that still
  authenticates) does not change the abstract store; the pinned code's could (defect D6).
-/
import Whawty.Model.Lin
import Whawty.Lemmas.Lin
import Whawty.Props.C10
namespace Whawty.Lin.C11
open Whawty Whawty.WebApi Whawty.Lin

/-- Soundness of the checker (by construction: the search result is re-validated). -/
theorem linCheck_sound (h : List Op) (s0 : Spec) (order : List Nat) (s : Spec)
    (hc : linCheck h s0 = some (order, s)) : validLin h s0 order = some s := by
  unfold linCheck at hc
  split at hc
  · simp at hc
  · rename_i o _ _
    simp only [Option.map_eq_some_iff] at hc
    obtain ⟨s', hv, he⟩ := hc
    injection he with h1 h2
    subst h1; subst h2; exact hv

theorem respectsRealTime_spec (h : List Op) (order : List Nat) (hr : respectsRealTime h order = true) :
    ∀ p q, p < q → q < order.length →
      ∀ a b, h[order[p]!]? = some a → h[order[q]!]? = some b → ¬ b.res < a.inv := by
  induction order with
  | nil => intro p q _ hq; simp at hq
  | cons i rest ih =>
    simp only [respectsRealTime, Bool.and_eq_true, List.all_eq_true] at hr
    obtain ⟨h1, h2⟩ := hr
    intro p q hpq hq a b ha hb
    cases p with
    | zero =>
      cases q with
      | zero => omega
      | succ q' =>
        simp only [List.getElem!_cons_zero] at ha
        simp only [List.getElem!_cons_succ] at hb
        have hq' : q' < rest.length := by simpa using hq
        have hmem : rest[q']! ∈ rest := by
          rw [getElem!_pos rest q' hq']; exact List.getElem_mem hq'
        have := h1 _ hmem
        rw [ha, hb] at this
        simpa using this
    | succ p' =>
      cases q with
      | zero => omega
      | succ q' =>
        simp only [List.getElem!_cons_succ] at ha hb
        exact ih h2 p' q' (by omega) (by simpa using hq) a b ha hb

/-- What an accepted linearization is: every operation occurs in it, it has no more entries
    than there are operations, it respects real time — an operation that had responded before
    another one was invoked is never placed after it — and replaying the calls in this order
    from the initial state gives exactly the observed responses and the final state. -/
theorem validLin_spec (h : List Op) (s0 s : Spec) (order : List Nat) (hv : validLin h s0 order = some s) :
    order.length = h.length ∧ (∀ i, i < h.length → i ∈ order) ∧
    (∀ p q, p < q → q < order.length → ∀ a b, h[order[p]!]? = some a → h[order[q]!]? = some b → ¬ b.res < a.inv) ∧
    replay h s0 order = some s := by
  unfold validLin at hv
  split at hv
  · rename_i hc
    simp only [Bool.and_eq_true, isPermOfRange, beq_iff_eq, List.all_eq_true, List.mem_range] at hc
    obtain ⟨⟨hl, hall⟩, hrt⟩ := hc
    refine ⟨hl, fun i hi => ?_, respectsRealTime_spec h order hrt, hv⟩
    simpa using hall i hi
  · simp at hv

/-- Replay checks each response against the sequential semantics. -/
theorem replay_cons (h : List Op) (s s' : Spec) (i : Nat) (rest : List Nat)
    (hr : replay h s (i :: rest) = some s') :
    ∃ op, h[i]? = some op ∧ (apply s op.call).2 = op.ret ∧ replay h (apply s op.call).1 rest = some s' := by
  simp only [replay] at hr
  split at hr
  · simp at hr
  · rename_i op hop
    split at hr
    · rename_i heq; exact ⟨op, hop, heq, hr⟩
    · simp at hr

/-- An internal hash upgrade of the repaired code re-authenticates first: it is an update
    with the password the store currently has, which leaves the abstract store unchanged —
    password, admin flag and every other user. An acknowledged change is never undone by it. -/
theorem upgrade_preserves_spec (st st' : St) (u p : Bytes) (a : Bool)
    (huniq : ∀ x ∈ st.users, ∀ y ∈ st.users, x.name = y.name → x = y)
    (hauth : storeAuth st u p = some a) (hupd : updateUser st u p = some st') : st'.users = st.users := by
  unfold storeAuth at hauth
  unfold updateUser at hupd
  split at hauth
  · simp at hauth
  · rename_i hv
    simp only [hv, Bool.false_eq_true, if_false] at hupd
    cases hf : find st u with
    | none => simp [hf] at hupd
    | some usr =>
      simp only [hf] at hupd hauth
      injection hupd with hupd
      subst hupd
      have hp : usr.password = p := by
        by_cases hq : usr.password = p
        · exact hq
        · simp [hq] at hauth
      simp only
      have hname : usr.name = u := by
        have := List.find?_some hf
        simpa using this
      -- every entry named u carrying password p is mapped to itself; others untouched
      have key : ∀ l : List User, (∀ x ∈ l, x.name = u → x.password = p) →
          l.map (fun x => if x.name = u then { x with password := p } else x) = l := by
        intro l hl
        induction l with
        | nil => rfl
        | cons x xs ih =>
          simp only [List.map_cons]
          have hx := hl x (by simp)
          have hxs := ih (fun y hy => hl y (by simp [hy]))
          rw [hxs]
          by_cases hn : x.name = u
          · have := hx hn
            cases x with
            | mk n ad pw => simp at hn this; simp [hn, this]
          · simp [hn]
      -- the store has one entry per name: every entry named u is the one `find` returned
      exact key st.users (by
        intro x hx hn
        have hmem : usr ∈ st.users := List.mem_of_find?_eq_some hf
        have : usr = x := huniq usr hmem x hx (by rw [hname, hn])
        rw [← this]; exact hp)

/-- Pinned code (defect D6): the queued upgrade re-stored the LOGIN password without checking
    it again; after an acknowledged update in between this is an update with an outdated
    password, which does change the abstract store (the password reverts). -/
theorem pinned_upgrade_reverts_password :
    let st : St := { users := [⟨[97], false, [2]⟩], factory := ⟨[], 0⟩ }     -- user "a" now has password [2]
    (updateUser st [97] [1]).map (·.users) = some [⟨[97], false, [1]⟩] := by decide

end Whawty.Lin.C11

namespace Whawty.Lin.C11
open Whawty Whawty.WebApi Whawty.Lin

/-- Soundness of the checker the driver runs on real histories: an accepted history has a
    linearization (in the sense of `validLin_spec`) whose final state is accepted by `final` —
    the driver passes "equals the store content observed once the agent was idle again". The
    memoised search itself is untrusted: its answer is re-validated. -/
theorem linCheckFinal_sound (h : List Op) (s0 : Spec) (final : Spec → Bool) (order : List Nat) (s : Spec)
    (hc : linCheckFinal h s0 final = some (order, s)) : validLin h s0 order = some s ∧ final s = true := by
  unfold linCheckFinal at hc
  split at hc
  · simp at hc
  · rename_i o _ _
    split at hc
    · rename_i s' hv
      split at hc
      · rename_i hf
        injection hc with hc
        injection hc with h1 h2
        subst h1; subst h2
        exact ⟨hv, hf⟩
      · simp at hc
    · simp at hc

/-- Hence: every operation is in the order, real time is respected, every response is the
    sequential one, and the state reached is the observed idle state. -/
theorem linCheckFinal_spec (h : List Op) (s0 : Spec) (final : Spec → Bool) (order : List Nat) (s : Spec)
    (hc : linCheckFinal h s0 final = some (order, s)) :
    order.length = h.length ∧ (∀ i, i < h.length → i ∈ order) ∧
    (∀ p q, p < q → q < order.length → ∀ a b, h[order[p]!]? = some a → h[order[q]!]? = some b → ¬ b.res < a.inv) ∧
    replay h s0 order = some s ∧ final s = true := by
  obtain ⟨hv, hf⟩ := linCheckFinal_sound h s0 final order s hc
  obtain ⟨a, b, c, d⟩ := validLin_spec h s0 s order hv
  exact ⟨a, b, c, d, hf⟩

end Whawty.Lin.C11

namespace Whawty.Lin.C11
open Whawty Whawty.WebApi Whawty.Lin

/-- **Completeness of the rejection** (`linCheck_complete`): when the exhaustive search
    `notLinearizable` answers true, NO order whatsoever is a linearization of the history (all
    operations, real time respected, every response the sequential one) that ends in a state
    accepted by `final`. A real history rejected this way is therefore a concrete
    counter-example to C11, not merely a failed search. -/
theorem rejection_is_conclusive (h : List Op) (s0 : Spec) (final : Spec → Bool)
    (hn : notLinearizable h s0 final = true) :
    ¬ ∃ order sf, validLin h s0 order = some sf ∧ final sf = true :=
  notLinearizable_sound h s0 final hn

/-- The two checkers never contradict each other. -/
theorem accept_excludes_reject (h : List Op) (s0 : Spec) (final : Spec → Bool) (order : List Nat) (s : Spec)
    (hc : linCheckFinal h s0 final = some (order, s)) : notLinearizable h s0 final = false := by
  cases hn : notLinearizable h s0 final with
  | false => rfl
  | true =>
    obtain ⟨hv, hf⟩ := linCheckFinal_sound h s0 final order s hc
    exact absurd ⟨order, s, hv, hf⟩ (rejection_is_conclusive h s0 final hn)

/- Non-vacuity: login with the old password, remove, add again with a new password — all
   acknowledged in that real-time order — and an idle store that shows the OLD password
   (the history S-C11-1 produces) is rejected conclusively; the same history ending in the new
   password is accepted. -/
section NonVacuity
def u1 : Bytes := [117]
def hABA : List Op :=
  [⟨.auth u1 [1], .authOk false, 1, 2⟩, ⟨.remove u1, .ok, 3, 4⟩, ⟨.add u1 [2] false, .ok, 5, 6⟩]
example : notLinearizable hABA [⟨u1, false, [1]⟩] (fun s => s == [⟨u1, false, [1]⟩]) = true := by decide +kernel
example : notLinearizable hABA [⟨u1, false, [1]⟩] (fun s => s == [⟨u1, false, [2]⟩]) = false := by decide +kernel
end NonVacuity

end Whawty.Lin.C11
