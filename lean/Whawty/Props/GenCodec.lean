/-
  The regenerated tie (codec limits): `Whawty/Gen/Facts.lean` is written on every run by the translator
  `harness/cmd/factgen` from /repo's CURRENT source. The theorems below connect what the source
  says now with the constants the hand-written model uses; a source edit that changes them breaks
  this module (a broken proof obligation: the check then searches for a failing input with the
  ordinary suites). The four Gen* modules are separate so that an edit breaks only the properties
  that depend on the fact in question.
-/
import Whawty.Gen.Facts
import Whawty.Model.Sasl
import Whawty.Model.SaslServer
import Whawty.Model.Pam
namespace Whawty.Gen.Tie
open Whawty Whawty.Gen

/-- The part-length limit of the codec, in the Go package and in the PAM module; the module's
    reply buffer is longer than the clip (it stays NUL-terminated). -/
theorem codec_limits :
    saslMaxRequestLength = some Sasl.maxLen ∧ pamMaxPartLen = some Sasl.maxLen ∧
    (∃ k, pamResponseSlack = some k ∧ 1 ≤ k) := by
  refine ⟨by decide, by decide, ?_⟩
  exact ⟨1, by decide, by decide⟩

end Whawty.Gen.Tie
