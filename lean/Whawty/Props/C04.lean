/-
  C04 — Every frontend returns exactly the store's verdict for the submitted credentials.
  Frontends are functions of the abstract store's verdict `storeAuth` (WebApi.lean); the wire
  codecs are C13's (saslauthd) and the ones of the Go standard library (trusted transports).
-/
import Whawty.Model.WebApi
import Whawty.Lemmas.Record
import Whawty.Props.C13
namespace Whawty.WebApi.C04
open Whawty Whawty.Rec Whawty.WebApi

/-- saslauthd: the callback approves exactly when the store approves these very bytes. -/
theorem sasl_front (st : St) (l p : Bytes) : saslFront st l p = (storeAuth st l p).isSome := rfl

/-- … and over the wire: for fields within the transport's limits the server decodes exactly
    what the client encoded (C13), so the verdict is the store's for exactly those bytes. -/
theorem sasl_front_wire (st : St) (r : Sasl.Request) (enc : Bytes) (hf : Sasl.C13.fieldsOk r)
    (hl : r.login ≠ []) (hp : r.password ≠ []) (henc : r.encode = some enc) :
    (Sasl.Request.decode enc).map (fun q => saslFront st q.1.login q.1.password) =
      some ((storeAuth st r.login r.password).isSome) := by
  have := Sasl.C13.decode_encode_request r enc [] hf hl hp henc
  simp only [List.append_nil] at this
  simp [this, saslFront]

/-- HTTP basic-auth: for a user name without a colon the verdict is the store's for exactly
    (user, password) — whatever bytes the password has (further colons included). -/
theorem basic_front (st : St) (l p : Bytes) (h : colon ∉ l) :
    basicFront st (l ++ colon :: p) = (storeAuth st l p).isSome := by
  simp [basicFront, cut_append h]

/-- LDAP simple bind: the verdict is the store's for the bind name up to the first '@'. -/
theorem ldap_front (st : St) (dn p : Bytes) :
    ldapFront st dn p = (storeAuth st (dn.takeWhile (· ≠ 64)) p).isSome := rfl

theorem takeWhile_ne_of_not_mem (l : Bytes) (c : Byte) (h : c ∉ l) : l.takeWhile (· ≠ c) = l := by
  induction l with
  | nil => rfl
  | cons x xs ih =>
    have hx : x ≠ c := by intro e; apply h; simp [e]
    have hxs : c ∉ xs := by intro e; apply h; simp [e]
    have := ih hxs
    simp only [ne_eq, decide_not] at this
    simp [List.takeWhile, hx, this]

theorem ldap_front_no_at (st : St) (dn p : Bytes) (h : (64 : Byte) ∉ dn) :
    ldapFront st dn p = (storeAuth st dn p).isSome := by
  unfold ldapFront
  rw [takeWhile_ne_of_not_mem dn 64 h]

/-- HTTP API: a token is issued (2xx) exactly when the store approves the decoded fields. -/
theorem api_front (st : St) (now : Int) (n c : Bytes) (r : Req) (hep : r.ep = .authenticate)
    (hb : r.bodyOk = true) (hu : r.username ≠ []) (hp : r.password ≠ []) :
    (step st now n c r).2.ok = (storeAuth st r.username r.password).isSome := by
  have hu' : r.username.isEmpty = false := by simpa [List.isEmpty_iff] using hu
  have hp' : r.password.isEmpty = false := by simpa [List.isEmpty_iff] using hp
  simp only [step, authorize, hb, hep, hu', hp', Bool.not_true, Bool.false_eq_true, if_false, Bool.or_self]
  cases hs : storeAuth st r.username r.password with
  | none => simp [deny]
  | some a => simp [perform, respOf]

/-- No frontend alters the credentials in a way that changes the verdict: the store verdict
    depends on exactly the bytes given — a user name that differs in case, whitespace or by an
    alias is a different name. (Invalid names are denials.) -/
theorem invalid_name_is_denial (st : St) (u p : Bytes) (h : Store.validName u = false) :
    storeAuth st u p = none := by
  simp [storeAuth, h]

/-- An internal error is always a denial: the verdict type has no third value, and every
    frontend maps `none` (error or wrong password alike) to a denial. -/
theorem error_is_denial (st : St) (u p : Bytes) (h : storeAuth st u p = none) :
    saslFront st u p = false ∧ (colon ∉ u → basicFront st (u ++ colon :: p) = false) ∧
    ((64 : Byte) ∉ u → ldapFront st u p = false) := by
  refine ⟨by simp [saslFront, h], fun hc => by rw [basic_front st u p hc, h]; rfl,
    fun ha => by rw [ldap_front_no_at st u p ha, h]; rfl⟩

/- Non-vacuity -/
def demo : St := { users := [⟨[97], false, [58, 120]⟩], factory := ⟨[], 600⟩ }   -- user "a", password ":x"
example : basicFront demo [97, 58, 58, 120] = true := by decide     -- "a::x" splits at the FIRST colon
example : ldapFront demo [97, 64, 98] [58, 120] = true := by decide  -- "a@b" binds as "a"
example : saslFront demo [65] [58, 120] = false := by decide         -- "A" is not "a"

end Whawty.WebApi.C04
