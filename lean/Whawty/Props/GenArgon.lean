/-
  The regenerated tie (argon2id constructor): `Whawty/Gen/Argon.lean` is the statement-by-statement
  translation of `NewArgon2IDHasher` (store/userhash_argon2id.go) written by the translator from
  /repo's CURRENT source on every run. The theorem proves that the constructor accepts exactly the
  parameter sets the model's `Config.argonOk` accepts (time, threads, length ≥ 1 — the domain on
  which `argon2.IDKey` does not panic): `accepted_argon_in_domain` of C18 is thereby a statement
  about what the source's constructor checks now (defect D8 was the absence of these checks).
-/
import Whawty.Gen.Argon
import Whawty.Model.Config
namespace Whawty.Gen.Tie
open Whawty Whawty.Gen Whawty.Config

/-- The source's constructor on unsigned field values (Go: uint32 / uint8): a hasher and no error
    exactly when the model accepts the set, otherwise no hasher and an error. -/
theorem newArgon2IDHasher_is_source (f) (hf : newArgon2IDHasher = some f) (a : ArgonCfg) :
    f a.time a.memory a.threads a.length = (argonOk a, !argonOk a) := by
  unfold newArgon2IDHasher at hf
  first
    | (cases hf; done)   -- the constructor left the translated subset: nothing is claimed
    | (injection hf with hf
       subst hf
       simp only [argonOk, decide_eq_true_eq]
       repeat' split
       all_goals first
         | (simp only [Prod.mk.injEq]; constructor <;> simp <;> omega)
         | (simp_all; done) | (simp_all; omega))

/-- About the source's constructor itself: a parameter set it accepts lies in the primitive's domain. -/
theorem source_argon_accepted_in_domain (f) (hf : newArgon2IDHasher = some f) (a : ArgonCfg) (e : Bool)
    (h : f a.time a.memory a.threads a.length = (true, e)) :
    1 ≤ a.time ∧ 1 ≤ a.threads ∧ 1 ≤ a.length ∧ e = false := by
  rw [newArgon2IDHasher_is_source f hf a] at h
  simp only [Prod.mk.injEq] at h
  obtain ⟨h1, h2⟩ := h
  simp only [argonOk, Bool.and_eq_true, decide_eq_true_eq] at h1
  rw [show argonOk a = true by simp [argonOk, h1]] at h2
  exact ⟨h1.1.1, h1.1.2, h1.2, by simpa using h2.symm⟩

end Whawty.Gen.Tie
