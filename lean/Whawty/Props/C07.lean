/-
  C07 — Session tokens are unforgeable, instance-bound, identity-bound and expire.
  All statements are relative to the ideal-AEAD interface of Model/Session.lean.
-/
import Whawty.Model.Session
import Whawty.Lemmas.Record
namespace Whawty.Session.C07
open Whawty Whawty.Rec Whawty.Session

/-- A token is accepted iff its decoded halves are exactly the nonce and ciphertext of
    something this instance sealed, the nonce has the AEAD's size, and the sealed plaintext
    passes the strict parse and the age test; the result is what that plaintext says. -/
theorem accept_iff_issued (f : Factory) (now : Int) (nonce cipher user : Bytes) (admin : Bool) :
    check f now nonce cipher = some (user, admin) ↔
      nonce.length = nonceSize ∧
      ∃ plain, aeadOpen f nonce cipher = some plain ∧ splitCheck f.lifetime now plain = some (user, admin) := by
  unfold check
  by_cases hl : nonce.length = nonceSize
  · simp only [hl, ne_eq, not_true_eq_false, if_false, true_and]
    cases ho : aeadOpen f nonce cipher with
    | none => simp
    | some p => simp
  · simp [hl]

/-- Whatever is accepted was sealed by this very instance: some sealed entry has exactly the
    presented nonce and exactly the presented ciphertext (no partial match, no splice). -/
theorem accepted_was_sealed_here (f : Factory) (now : Int) (nonce cipher : Bytes) (r : Bytes × Bool)
    (h : check f now nonce cipher = some r) :
    ∃ s ∈ f.sealed, s.nonce = nonce ∧ s.cipher = cipher := by
  unfold check at h
  split at h
  · simp at h
  · split at h
    · simp at h
    · rename_i plain ho
      simp only [aeadOpen, Option.map_eq_some_iff] at ho
      obtain ⟨s, hs, _⟩ := ho
      have := List.find?_some hs
      have hm := List.mem_of_find?_eq_some hs
      simp only [decide_eq_true_eq] at this
      exact ⟨s, hm, this.1, this.2⟩

/-- A token of another instance (nothing of which this instance sealed), a modified, truncated,
    extended or re-spliced one — any pair that is not exactly a sealed pair — is rejected. -/
theorem not_sealed_rejected (f : Factory) (now : Int) (nonce cipher : Bytes)
    (h : ∀ s ∈ f.sealed, ¬ (s.nonce = nonce ∧ s.cipher = cipher)) : check f now nonce cipher = none := by
  cases hc : check f now nonce cipher with
  | none => rfl
  | some r =>
    obtain ⟨s, hs, h1, h2⟩ := accepted_was_sealed_here f now nonce cipher r hc
    exact absurd ⟨h1, h2⟩ (h s hs)

/-- The strict plaintext parse: exactly `user:true|false:<decimal time>`, the age within
    `[0, lifetime]`. -/
theorem plain_parse_strict (lifetime now : Int) (plain user : Bytes) (admin : Bool)
    (h : splitCheck lifetime now plain = some (user, admin)) :
    ∃ flag ts t, splitN3 plain = some (user, flag, ts) ∧ (flag = trueB ∨ flag = falseB) ∧
      admin = decide (flag = trueB) ∧ parseInt64 ts = some t ∧ 0 ≤ now - t ∧ now - t ≤ lifetime := by
  unfold splitCheck at h
  split at h
  · simp at h
  · rename_i u flag ts hs
    split at h
    · simp at h
    · rename_i hflag
      split at h
      · simp at h
      · rename_i t ht
        split at h
        · simp at h
        · split at h
          · simp at h
          · rename_i h1 h2
            injection h with h; injection h with hu ha
            subst hu
            refine ⟨flag, ts, t, hs, ?_, ha.symm, ht, by omega, by omega⟩
            by_cases hx : flag = trueB
            · exact Or.inl hx
            · by_cases hy : flag = falseB
              · exact Or.inr hy
              · exact absurd ⟨hx, hy⟩ hflag

/-- Expired and future-dated tokens are rejected even though they are authentic. -/
theorem expired_or_future_rejected (lifetime now : Int) (user flag ts : Bytes) (t : Int)
    (hp : parseInt64 ts = some t) (h : now - t < 0 ∨ now - t > lifetime)
    (plain : Bytes) (hs : splitN3 plain = some (user, flag, ts)) : splitCheck lifetime now plain = none := by
  unfold splitCheck
  simp only [hs, hp]
  split
  · rfl
  · rcases h with h | h
    · simp [h]
    · by_cases h0 : now - t < 0
      · simp [h0]
      · simp [h0, h]

/-- A colon in the user name can only make the token invalid, never change the identity:
    what `Generate` seals for (user, admin, now) parses back to exactly (user, admin) when the
    user name has no colon — and is rejected when it has one (unless the prefix before the first
    colon is followed by a literal true/false, which `Generate`d plaintexts of valid names never are). -/
theorem generated_plain_parses (lifetime now : Int) (user : Bytes) (admin : Bool)
    (hu : colon ∉ user) (h1 : -(2 ^ 63 : Int) ≤ now) (h2 : now < 2 ^ 63) (hl : 0 ≤ lifetime) :
    splitCheck lifetime now (plainOf user admin now) = some (user, admin) := by
  have hflag : colon ∉ (if admin then trueB else falseB) := by cases admin <;> decide
  simp only [splitCheck, splitN3, plainOf, List.append_assoc, List.cons_append, cut_append hu, cut_append hflag,
    parseInt64_decInt h1 h2]
  cases admin <;> simp [trueB, falseB] <;> omega

/-- The text layer: a text is accepted iff it has the `nonce:cipher` shape, both halves decode
    and the decoded halves are accepted; two texts with the same decoded content are treated
    alike. -/
theorem text_layer (f : Factory) (now : Int) (text : Bytes) (r : Bytes × Bool) :
    checkText f now text = some r ↔
      ∃ a b n c, cut colon text = some (a, b) ∧ B64.decode a = some n ∧ B64.decode b = some c ∧
        check f now n c = some r := by
  unfold checkText
  constructor
  · intro h
    split at h
    · simp at h
    · rename_i a b hc
      split at h
      · rename_i n c hn hcc; exact ⟨a, b, n, c, hc, hn, hcc, h⟩
      · simp at h
  · rintro ⟨a, b, n, c, hc, hn, hcc, h⟩
    simp [hc, hn, hcc, h]

/-- Issuing a token makes exactly that (nonce, ciphertext) acceptable, for exactly the issued
    identity; every previously sealed pair stays as it was. -/
theorem issued_token_accepted (f : Factory) (user : Bytes) (admin : Bool) (now now' : Int) (nonce cipher : Bytes)
    (hn : nonce.length = nonceSize) (hu : colon ∉ user) (h1 : -(2 ^ 63 : Int) ≤ now) (h2 : now < 2 ^ 63)
    (hage : 0 ≤ now' - now ∧ now' - now ≤ f.lifetime) :
    check (generate f user admin now nonce cipher).1 now' nonce cipher = some (user, admin) := by
  have hflag : colon ∉ (if admin then trueB else falseB) := by cases admin <;> decide
  have hnl : ¬ nonce.length ≠ nonceSize := by simp [hn]
  simp only [check, generate, hnl, if_false, aeadOpen, List.find?, and_self, decide_true, Option.map_some]
  simp only [splitCheck, splitN3, plainOf, List.append_assoc, List.cons_append, cut_append hu, cut_append hflag,
    parseInt64_decInt h1 h2]
  have a1 : ¬ now' - now < 0 := by omega
  have a2 : ¬ now' - now > f.lifetime := by omega
  cases admin <;> simp [trueB, falseB, a1, a2]

/- Non-vacuity -/
example : splitCheck 600 1000 [97, 58, 116, 114, 117, 101, 58, 57, 48, 48] = some ([97], true) := by decide  -- "a:true:900"
example : splitCheck 600 1000 [97, 58, 84, 82, 85, 69, 58, 57, 48, 48] = none := by decide                   -- "a:TRUE:900"
example : splitCheck 600 1000 [97, 58, 116, 114, 117, 101, 58, 49, 48, 48] = none := by decide               -- expired

end Whawty.Session.C07
