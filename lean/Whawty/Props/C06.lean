/-
  C06 — Web API: management actions require the right session or password.
  `WebApi.step` = `authorize` (the handlers' gate logic) followed by `perform` (the store
  call); sessions are checked by the ideal-AEAD factory (C07), so "a valid, unexpired session
  token issued by this instance to U with admin flag A" is
  `checkText st.factory now session = some (U, A)`.
-/
import Whawty.Model.WebApi
namespace Whawty.WebApi.C06
open Whawty Whawty.Session Whawty.WebApi

/-- A refused request (non-2xx) changes nothing, discloses no list and issues no token. -/
theorem refused_changes_nothing (st : St) (now : Int) (n c : Bytes) (r : Req)
    (h : (step st now n c r).2.ok = false) :
    (step st now n c r).1 = st ∧ (step st now n c r).2.list = false ∧ (step st now n c r).2.token = false := by
  unfold step at h ⊢
  cases ha : authorize st now r with
  | none => exact ⟨rfl, rfl, rfl⟩
  | some a =>
    cases hp : perform st now n c r a with
    | none => simp [hp, deny]
    | some st' =>
      simp only [ha, hp] at h
      cases a <;> simp [respOf] at h

/-- Every effect of a request was authorised. -/
theorem effect_was_authorized (st : St) (now : Int) (n c : Bytes) (r : Req)
    (h : (step st now n c r).2.ok = true ∨ (step st now n c r).1 ≠ st ∨ (step st now n c r).2.list = true
         ∨ (step st now n c r).2.token = true) :
    ∃ a, authorize st now r = some a ∧ (step st now n c r).2.ok = true ∧
      perform st now n c r a = some (step st now n c r).1 ∧ (step st now n c r).2 = respOf a := by
  by_cases hok : (step st now n c r).2.ok = true
  · unfold step at hok ⊢
    cases ha : authorize st now r with
    | none => simp [ha, deny] at hok
    | some a =>
      cases hp : perform st now n c r a with
      | none => simp [ha, hp, deny] at hok
      | some st' =>
        simp only [ha, hp] at hok ⊢
        exact ⟨a, rfl, hok, hp, rfl⟩
  · have hno : (step st now n c r).2.ok = false := by simpa using hok
    obtain ⟨h1, h2, h3⟩ := refused_changes_nothing st now n c r hno
    rcases h with h | h | h | h
    · exact absurd h hok
    · exact absurd h1 h
    · rw [h2] at h; simp at h
    · rw [h3] at h; simp at h

theorem adminSession_spec {sess : Option (Bytes × Bool)}
    (h : isAdminSession sess = true) : ∃ who, sess = some (who, true) := by
  unfold isAdminSession at h
  split at h
  · rename_i who; exact ⟨who, rfl⟩
  · simp at h

theorem perform_factory (st st' : St) (now : Int) (n c : Bytes) (r : Req) (a : Action)
    (ha : ∀ adm, a ≠ .issue adm) (h : perform st now n c r a = some st') : st'.factory = st.factory := by
  cases a with
  | issue adm => exact absurd rfl (ha adm)
  | add =>
    simp only [perform, addUser] at h
    split at h
    · simp at h
    · split at h
      · simp at h
      · injection h with h; rw [← h]
  | remove =>
    simp only [perform, removeUser, Option.some.injEq] at h
    split at h <;> rw [← h]
  | setAdmin =>
    simp only [perform, setAdminUser] at h
    split at h
    · simp at h
    · split at h
      · simp at h
      · injection h with h; rw [← h]
  | update =>
    simp only [perform, updateUser] at h
    split at h
    · simp at h
    · split at h
      · simp at h
      · injection h with h; rw [← h]
  | upgradeOnly => simp only [perform, Option.some.injEq] at h; rw [← h]
  | list => simp only [perform, Option.some.injEq] at h; rw [← h]

/-- The gate of add / remove / set-admin / list / list-full: a decodable body, a non-empty
    session field, and a valid unexpired session of this instance whose admin flag is set. -/
theorem mgmt_gate (st : St) (now : Int) (r : Req) (a : Action)
    (hep : r.ep = .add ∨ r.ep = .remove ∨ r.ep = .setAdmin ∨ r.ep = .list ∨ r.ep = .listFull)
    (h : authorize st now r = some a) :
    r.bodyOk = true ∧ r.session ≠ [] ∧ ∃ who, checkText st.factory now r.session = some (who, true) := by
  unfold authorize at h
  split at h
  · simp at h
  · rename_i hb
    have hb' : r.bodyOk = true := by simpa using hb
    simp only [] at h
    rcases hep with e | e | e | e | e <;> simp only [e] at h <;>
      (split at h
       · simp at h
       · rename_i hempty
         split at h
         · rename_i hadm
           refine ⟨hb', ?_, adminSession_spec hadm⟩
           intro he; simp [he] at hempty
         · simp at h)

/-- Add, remove, set-admin, list and list-full take effect (2xx, store change, or list
    disclosure) only with such a session. -/
theorem mgmt_requires_admin_session (st : St) (now : Int) (n c : Bytes) (r : Req)
    (hep : r.ep = .add ∨ r.ep = .remove ∨ r.ep = .setAdmin ∨ r.ep = .list ∨ r.ep = .listFull)
    (h : (step st now n c r).2.ok = true ∨ (step st now n c r).1 ≠ st ∨ (step st now n c r).2.list = true) :
    r.bodyOk = true ∧ r.session ≠ [] ∧ ∃ who, checkText st.factory now r.session = some (who, true) := by
  obtain ⟨a, ha, _⟩ := effect_was_authorized st now n c r (by
    rcases h with h | h | h
    · exact Or.inl h
    · exact Or.inr (Or.inl h)
    · exact Or.inr (Or.inr (Or.inl h)))
  exact mgmt_gate st now r a hep ha

/-- The gate of a password update: exactly one of session / old password; with a session: an
    admin token or a token issued to the very user being updated, and a non-empty new password;
    with the old password: that user's current password. -/
theorem update_gate (st : St) (now : Int) (r : Req) (a : Action) (hep : r.ep = .update)
    (h : authorize st now r = some a) :
    (r.oldpw = [] ∧ r.newpw ≠ [] ∧ a = .update ∧
       ∃ who adm, checkText st.factory now r.session = some (who, adm) ∧ (adm = true ∨ who = r.username)) ∨
    (r.session = [] ∧ (storeAuth st r.username r.oldpw).isSome = true ∧
       ((r.newpw = [] ∧ a = .upgradeOnly) ∨ (r.newpw ≠ [] ∧ a = .update))) := by
  unfold authorize at h
  split at h
  · simp at h
  · simp only [hep] at h
    split at h
    · simp at h
    · split at h
      · rename_i hsess
        simp only [Bool.and_eq_true, Bool.not_eq_true', List.isEmpty_eq_false_iff, List.isEmpty_iff] at hsess
        split at h
        · simp at h
        · rename_i hnew
          split at h
          · rename_i who adm hs
            split at h
            · simp at h
            · rename_i hgate
              injection h with h
              left
              refine ⟨hsess.2, by intro e; simp [e] at hnew, h.symm, who, adm, hs, ?_⟩
              simp only [Bool.and_eq_true, Bool.not_eq_true', decide_eq_true_eq, not_and, Bool.not_eq_false] at hgate
              by_cases hadm : adm = true
              · exact Or.inl hadm
              · right
                have : adm = false := by simpa using hadm
                simpa using hgate this
          · simp at h
      · split at h
        · rename_i hold
          simp only [Bool.and_eq_true, Bool.not_eq_true', List.isEmpty_eq_false_iff, List.isEmpty_iff] at hold
          split at h
          · simp at h
          · rename_i x ha
            right
            refine ⟨hold.1, by simp [ha], ?_⟩
            split at h
            · rename_i hnew; injection h with h
              exact Or.inl ⟨by simpa [List.isEmpty_iff] using hnew, h.symm⟩
            · rename_i hnew; injection h with h
              exact Or.inr ⟨by intro e; simp [e] at hnew, h.symm⟩
        · simp at h

/-- A password update changes the store only through that gate. -/
theorem update_requires (st : St) (now : Int) (n c : Bytes) (r : Req) (hep : r.ep = .update)
    (h : (step st now n c r).1 ≠ st) :
    r.newpw ≠ [] ∧
    ((r.oldpw = [] ∧ ∃ who adm, checkText st.factory now r.session = some (who, adm) ∧ (adm = true ∨ who = r.username)) ∨
     (r.session = [] ∧ (storeAuth st r.username r.oldpw).isSome = true)) := by
  obtain ⟨a, ha, _, hp, _⟩ := effect_was_authorized st now n c r (Or.inr (Or.inl h))
  rcases update_gate st now r a hep ha with ⟨h1, h2, _, h4⟩ | ⟨h1, h2, h3⟩
  · exact ⟨h2, Or.inl ⟨h1, h4⟩⟩
  · rcases h3 with ⟨_, hu⟩ | ⟨hn, _⟩
    · subst hu
      simp only [perform, Option.some.injEq] at hp
      exact absurd hp.symm h
    · exact ⟨hn, Or.inr ⟨h1, h2⟩⟩

/-- A token is issued (the factory changes) only by `/api/authenticate`, only after a
    successful password authentication, and it names that user and the admin status the store
    reported at that moment. -/
theorem token_only_after_auth (st : St) (now : Int) (n c : Bytes) (r : Req)
    (h : (step st now n c r).1.factory ≠ st.factory ∨ (step st now n c r).2.token = true) :
    r.ep = .authenticate ∧ ∃ a, storeAuth st r.username r.password = some a ∧
      (step st now n c r).1.factory = (generate st.factory r.username a now n c).1 := by
  have hne : (step st now n c r).1 ≠ st ∨ (step st now n c r).2.token = true := by
    rcases h with h | h
    · left; intro e; rw [e] at h; exact h rfl
    · exact Or.inr h
  obtain ⟨a, ha, _, hp, hr⟩ := effect_was_authorized st now n c r (by
    rcases hne with h | h
    · exact Or.inr (Or.inl h)
    · exact Or.inr (Or.inr (Or.inr h)))
  -- only the `issue` action touches the factory or sets the token flag
  have hissue : ∃ adm, a = .issue adm := by
    cases a with
    | issue adm => exact ⟨adm, rfl⟩
    | _ =>
      exfalso
      rcases h with h | h
      · exact h (perform_factory st _ now n c r _ (by intro adm; simp) hp)
      · rw [hr] at h; simp [respOf] at h
  obtain ⟨adm, rfl⟩ := hissue
  -- which only `/api/authenticate` grants, after the store approved
  unfold authorize at ha
  split at ha
  · simp at ha
  · cases hep : r.ep <;> simp only [hep] at ha
    · split at ha
      · simp at ha
      · simp only [Option.map_eq_some_iff] at ha
        obtain ⟨a', ha', he⟩ := ha
        injection he with he; subst he
        simp only [perform, Option.some.injEq] at hp
        exact ⟨rfl, a', ha', by rw [← hp]⟩
    all_goals
      exfalso
      revert ha
      (repeat' split) <;> simp

/-- Closure over histories: whatever sequence of requests is processed, every token the
    factory ever seals beyond the initial ones was sealed by a successful password login. -/
def runReqs (st : St) : List (Int × Bytes × Bytes × Req) → St
  | [] => st
  | (now, n, c, r) :: rest => runReqs (step st now n c r).1 rest

theorem history_closure (st : St) (reqs : List (Int × Bytes × Bytes × Req)) :
    ∀ s ∈ (runReqs st reqs).factory.sealed, s ∈ st.factory.sealed ∨
      ∃ u a t, s.plain = plainOf u a t := by
  induction reqs generalizing st with
  | nil => intro s hs; exact Or.inl hs
  | cons q rest ih =>
    obtain ⟨now, n, c, r⟩ := q
    intro s hs
    simp only [runReqs] at hs
    rcases ih _ s hs with h | h
    · by_cases hf : (step st now n c r).1.factory = st.factory
      · rw [hf] at h; exact Or.inl h
      · obtain ⟨_, a, _, hgen⟩ := token_only_after_auth st now n c r (Or.inl hf)
        rw [hgen] at h
        simp only [generate, List.mem_cons] at h
        rcases h with h | h
        · right; exact ⟨r.username, a, now, by rw [h]⟩
        · exact Or.inl h
    · exact Or.inr h

end Whawty.WebApi.C06
