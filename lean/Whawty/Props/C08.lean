/-
  C08 — A crash at any instant leaves each hash file old-complete or new-complete.
  Two layers: (1) the checker `crashAtomic`, which the driver evaluates on the REAL strace
  trace of every traced operation, is sound for the quantified statement (every prefix of the
  trace = every system-call boundary, every subset of not-yet-durable directory operations,
  torn data never visible); (2) the model of `writeHashStr`'s protocol satisfies it for all
  contents.
-/
import Whawty.Model.Trace
namespace Whawty.Persist.C08
open Whawty Whawty.Persist Whawty.Trace

theorem mem_sublists {α} {l k : List α} (h : k.Sublist l) : k ∈ sublists l := by
  induction h with
  | slnil => simp [sublists]
  | cons a _ ih => simp only [sublists, List.mem_append]; exact Or.inl ih
  | cons_cons a _ ih => simp only [sublists, List.mem_append, List.mem_map]; exact Or.inr ⟨_, ih, rfl⟩

/-- The state after the first `k` events. -/
def stateAt (s : St) (evs : List Ev) (k : Nat) : St := run s (evs.take k)

theorem stateAt_mem_prefixStates (s : St) (evs : List Ev) (k : Nat) :
    stateAt s evs k ∈ prefixStates s evs := by
  induction evs generalizing s k with
  | nil => simp [stateAt, run, prefixStates]
  | cons e es ih =>
    cases k with
    | zero => simp [stateAt, run, prefixStates]
    | succ k =>
      simp only [prefixStates, List.mem_cons]
      right
      have := ih (step s e) k
      simpa [stateAt, run, List.take_succ_cons, List.foldl] using this

/-- Soundness of the checker: if `crashAtomic` accepts, then at EVERY system-call boundary
    `k`, for EVERY subset `kept` of the not-yet-durable directory operations (in program
    order), the post-crash view of the name is allowed — and so is what any concurrent reader
    or a restarted process sees after a process kill at that boundary. -/
theorem crashAtomic_sound (s0 : St) (evs : List Ev) (n : Name) (allowed : View → Bool)
    (h : crashAtomic s0 evs n allowed = true) :
    ∀ k, (∀ kept, kept.Sublist (stateAt s0 evs k).pending →
            allowed (crashView (stateAt s0 evs k) kept n) = true) ∧
         allowed (killView (stateAt s0 evs k) n) = true := by
  intro k
  simp only [crashAtomic, Bool.and_eq_true, List.all_eq_true] at h
  obtain ⟨⟨h1, h2⟩, _⟩ := h
  have hmem := stateAt_mem_prefixStates s0 evs k
  constructor
  · intro kept hk
    apply h1
    simp only [crashViews, List.mem_flatMap, List.mem_map]
    exact ⟨_, hmem, kept, mem_sublists hk, rfl⟩
  · apply h2
    simp only [killViews, List.mem_map]
    exact ⟨_, hmem, rfl⟩

/-- `torn` is never an allowed view in the instances the driver uses: an accepted trace never
    exposes a name bound to an inode with un-synced data. -/
theorem accepted_never_torn (s0 : St) (evs : List Ev) (n : Name) (allowed : View → Bool)
    (ht : allowed .torn = false) (h : crashAtomic s0 evs n allowed = true) :
    ∀ k kept, kept.Sublist (stateAt s0 evs k).pending → crashView (stateAt s0 evs k) kept n ≠ .torn := by
  intro k kept hk e
  have := (crashAtomic_sound s0 evs n allowed h k).1 kept hk
  rw [e, ht] at this; simp at this

/-- Model layer, update: for ALL old and new contents (new line, buffered tail, copied tail of
    any size), every crash view and every kill view of the target is the complete old record
    or the complete new record. -/
theorem model_update_atomic (old line r1 r2 : Bytes) :
    crashAtomic (init [(Name.U, old)]) (updTrace .U line r1 r2) .U
      (fun v => v == .clean old || v == .clean (line ++ r1 ++ r2)) = true := by
  simp [crashAtomic, crashViews, killViews, prefixStates, updTrace, init, step, sublists, crashView, killView,
    lookup, set, del, applyDir, opDir, dirOf, isDirName, run, number]

/-- Model layer, add: absent, the empty reservation, or the complete new record. -/
theorem model_add_atomic (line : Bytes) :
    crashAtomic (init []) (addTrace .U line) .U
      (fun v => v == .absent || v == .clean [] || v == .clean line) = true := by
  simp [crashAtomic, crashViews, killViews, prefixStates, addTrace, init, step, sublists, crashView, killView,
    lookup, set, del, applyDir, opDir, dirOf, isDirName, run, number]

/-- … and every other user's file is untouched in every crash state. -/
theorem model_update_other_user (old oth line r1 r2 : Bytes) :
    crashAtomic (init [(Name.U, old), (Name.sib [111], oth)]) (updTrace .U line r1 r2) (.sib [111])
      (fun v => v == .clean oth) = true := by
  simp [crashAtomic, crashViews, killViews, prefixStates, updTrace, init, step, sublists, crashView, killView,
    lookup, set, del, applyDir, opDir, dirOf, isDirName, run, number]

/-- Negative control (what the checker is for): without the fsync of the temporary file a
    torn record becomes visible under the final name. -/
theorem no_file_fsync_is_rejected :
    crashAtomic (init [(Name.U, [1])])
      [.open 3 .U, .creat 6 (.tmp 1), .write 6 [2], .rename (.tmp 1) .U, .open 7 .B, .fsync 7, .ack] .U
      (fun v => v == .clean [1] || v == .clean [2]) = false := by decide

/-- Negative control: writing the final name in place exposes a truncated record. -/
theorem in_place_write_is_rejected :
    crashAtomic (init [(Name.U, [1])]) [.openw 3 .U true, .write 3 [2], .fsync 3, .ack] .U
      (fun v => v == .clean [1] || v == .clean [2]) = false := by decide

end Whawty.Persist.C08
