/-
  C18 — Configuration loading is exact (this file: the loader; the reload step of the agent
  is in the agent model, see Props/C18 theorems `reload_*` in Whawty/Props/C18Reload.lean).
  `fromConfig` is the model of store/config.go on the decoded document; unknown keys and type
  errors are decode errors of yaml.v3 (KnownFields(true)) and never reach it.
-/
import Whawty.Model.Config
namespace Whawty.Config.C18
open Whawty Whawty.Config

/-- A parameter set is well-formed: id greater than zero, exactly one algorithm, and that
    algorithm's constructor accepts its parameters. -/
def setOk (s : SetCfg) : Bool :=
  s.id ≠ 0 &&
  (match s.scrypt, s.argon with
   | some sc, none => scryptOk sc
   | none, some ar => argonOk ar
   | _, _ => false)

theorem loadSets_some_iff (l : List SetCfg) (acc : List (Nat × Alg)) :
    (loadSets l acc).isSome = l.all setOk := by
  induction l generalizing acc with
  | nil => simp [loadSets]
  | cons s rest ih =>
    simp only [loadSets, List.all_cons, setOk]
    by_cases h0 : s.id = 0
    · simp [h0]
    · simp only [h0, if_false, ne_eq, not_false_eq_true, decide_true, Bool.true_and]
      cases hs : s.scrypt <;> cases ha : s.argon <;> simp only []
      · simp
      · rename_i ar; by_cases hk : argonOk ar = true <;> simp [hk, ih]
      · rename_i sc; by_cases hk : scryptOk sc = true <;> simp [hk, ih]
      · simp

/-- The ids of the loaded sets are exactly the ids of the document's sets. -/
theorem loadSets_ids (l : List SetCfg) (acc sets : List (Nat × Alg)) (h : loadSets l acc = some sets) (id : Nat) :
    sets.any (·.1 = id) = (l.any (·.id = id) || acc.any (·.1 = id)) := by
  induction l generalizing acc with
  | nil => simp [loadSets] at h; subst h; simp
  | cons s rest ih =>
    simp only [loadSets] at h
    by_cases h0 : s.id = 0
    · simp [h0] at h
    · simp only [h0, if_false] at h
      have step : ∀ alg, loadSets rest ((s.id, alg) :: acc.filter (·.1 ≠ s.id)) = some sets →
          sets.any (·.1 = id) = ((s :: rest).any (·.id = id) || acc.any (·.1 = id)) := by
        intro alg hh
        rw [ih _ hh]
        simp only [List.any_cons, List.any_filter]
        by_cases hid : s.id = id
        · simp [hid]
        · have hne : ¬ id = s.id := fun e => hid e.symm
          have : ∀ x : Nat × Alg, (decide (x.1 ≠ s.id) && decide (x.1 = id)) = decide (x.1 = id) := by
            intro x
            by_cases hx : x.1 = id
            · simp [hx, hne]
            · simp [hx]
          simp only [hid, decide_false, Bool.false_or, this]
      cases hs : s.scrypt <;> cases ha : s.argon <;> simp only [hs, ha] at h
      · simp at h
      · rename_i ar; by_cases hk : argonOk ar = true
        · simp only [hk, if_true] at h; exact step _ h
        · simp [hk] at h
      · rename_i sc; by_cases hk : scryptOk sc = true
        · simp only [hk, if_true] at h; exact step _ h
        · simp [hk] at h
      · simp at h

/-- The loader accepts exactly the well-formed configurations: non-empty base directory, every
    set well-formed (id > 0, exactly one algorithm, constructible), and a default naming a
    defined set — or default 0 with no sets at all. -/
theorem loader_exact (c : FileCfg) :
    fromConfig c = true ↔
      c.basedirEmpty = false ∧ c.params.all setOk = true ∧
      ((c.default = 0 ∧ c.params = []) ∨ (c.default ≠ 0 ∧ c.params.any (·.id = c.default) = true)) := by
  unfold fromConfig
  cases hb : c.basedirEmpty
  · simp only [Bool.false_eq_true, if_false, true_and]
    cases hl : loadSets c.params [] with
    | none =>
      have := loadSets_some_iff c.params []
      rw [hl] at this
      simp at this
      simp only [Bool.false_eq_true, false_iff, not_and]
      intro hall
      obtain ⟨x, hx, hx2⟩ := this
      have := List.all_eq_true.mp hall x hx
      simp [hx2] at this
    | some sets =>
      have hall : c.params.all setOk = true := by
        have := loadSets_some_iff c.params []
        rw [hl] at this; simpa using this.symm
      have hids := loadSets_ids c.params [] sets hl
      simp only [hall, true_and]
      by_cases hd : c.default = 0
      · simp only [hd, if_true, true_and, ne_eq, not_true_eq_false, false_and, or_false]
        constructor
        · intro he
          have hsets : sets = [] := by simpa using he
          cases hp : c.params with
          | nil => rfl
          | cons s rest =>
            exfalso
            have := hids s.id
            rw [hsets, hp] at this
            simp at this
        · intro hp
          rw [hp] at hl
          simp [loadSets] at hl
          subst hl; rfl
      · simp only [hd, if_false, false_and, false_or, ne_eq, not_false_eq_true, true_and]
        rw [hids c.default]
        simp
  · simp

/-- Every accepted argon2id set is inside the primitive's domain (time, threads, length ≥ 1):
    with the hypothesis that argon2.IDKey is total there (it panics only for time < 1 or
    threads < 1 and fails for length 0 — observed), accepted sets hash and verify. -/
theorem accepted_argon_in_domain (c : FileCfg) (h : fromConfig c = true) :
    ∀ s ∈ c.params, ∀ a, s.argon = some a → 1 ≤ a.time ∧ 1 ≤ a.threads ∧ 1 ≤ a.length := by
  intro s hs a ha
  have hall := ((loader_exact c).mp h).2.1
  have := List.all_eq_true.mp hall s hs
  simp only [setOk, ha, Bool.and_eq_true] at this
  cases hsc : s.scrypt with
  | some sc => simp [hsc] at this
  | none =>
    simp only [hsc, argonOk, Bool.and_eq_true, decide_eq_true_eq] at this
    exact ⟨this.2.1.1, this.2.1.2, this.2.2⟩

/-- Every accepted scrypt set has a 32-byte key and a cost the library accepts. -/
theorem accepted_scrypt_in_domain (c : FileCfg) (h : fromConfig c = true) :
    ∀ s ∈ c.params, ∀ sc, s.scrypt = some sc → sc.hmackeyLen = some 32 ∧ sc.cost ≤ 31 := by
  intro s hs sc hsc
  have hall := ((loader_exact c).mp h).2.1
  have := List.all_eq_true.mp hall s hs
  simp only [setOk, hsc, Bool.and_eq_true] at this
  cases ha : s.argon with
  | some a => simp [ha] at this
  | none =>
    simp only [ha, scryptOk, Bool.and_eq_true, beq_iff_eq, decide_eq_true_eq] at this
    exact this.2

/- Non-vacuity. -/
example : fromConfig ⟨false, 2, [⟨1, some ⟨some 32, 14, none, none⟩, none⟩, ⟨2, none, some ⟨1, 64, 1, 32⟩⟩]⟩ = true := by decide
example : fromConfig ⟨false, 2, [⟨2, none, some ⟨0, 64, 1, 32⟩⟩]⟩ = false := by decide   -- time 0 (D8)
example : fromConfig ⟨false, 0, []⟩ = true := by decide
example : fromConfig ⟨false, 0, [⟨1, none, some ⟨1, 64, 1, 32⟩⟩]⟩ = false := by decide

end Whawty.Config.C18
