/-
  The regenerated tie (split function of the codec): `Whawty/Gen/Scan.lean` is the statement-by-
  statement translation of `scanLengthEncodedString` (sasl/sasl_encoding.go) that the translator
  `harness/cmd/factgen` (translate.go) writes from /repo's CURRENT source on every run. The theorem
  below proves that the translated function IS the hand-written model's `Sasl.scan` (seen through
  Go's result triple) for every buffer and both values of `atEOF`: the theorems of C13 / C05 about
  the scanner loop are thereby theorems about what the source says now. An edit of the function
  that changes its behaviour, or that leaves the translated subset, breaks this module.
-/
import Whawty.Gen.Scan
import Whawty.Model.Sasl
import Whawty.Lemmas.Sasl
namespace Whawty.Gen.Tie
open Whawty Whawty.Gen Whawty.Sasl

/-- Go's `(advance, token, err)` for the model's outcome on the buffer `data`: "need more data"
    and "clean end" are both `(0, nil, nil)`; the token is the first `advance` bytes. -/
def goView (data : Bytes) : ScanR → Int × Option Bytes × Bool
  | .more => (0, none, false)
  | .eof => (0, none, false)
  | .err => (0, none, true)
  | .tok adv _ => ((adv : Int), some (data.take adv), false)

/-- The model's payload is the token without its two length bytes (`scanner.Bytes()[2:]` in
    `decodeLengthEncodedStrings`). -/
theorem scan_tok_payload (data : Bytes) (e : Bool) (adv : Nat) (p : Bytes) (h : scan data e = .tok adv p) :
    p = (data.take adv).drop 2 ∧ adv = p.length + 2 := by
  match data, h with
  | [], h => simp [scan] at h; split at h <;> simp at h
  | [_], h => simp [scan] at h; split at h <;> simp at h
  | hi :: lo :: rest, h =>
    simp only [scan] at h
    split at h
    · simp at h
    · split at h
      · split at h <;> simp at h
      · rename_i h1 h2
        injection h with ha hp
        subst ha; subst hp
        simp only [List.take_succ_cons, List.drop_succ_cons, List.drop_zero, List.length_take]
        exact ⟨trivial, by omega⟩

/-- The model's outcome on a buffer of at least two bytes, as nested conditions. -/
theorem goView_scan (hi lo : Byte) (rest : Bytes) (e : Bool) :
    goView (hi :: lo :: rest) (scan (hi :: lo :: rest) e) =
      if be16val hi lo > 256 then (0, none, true)
      else if rest.length < be16val hi lo then (if e = true then (0, none, true) else (0, none, false))
      else (((be16val hi lo + 2 : Nat) : Int), some ((hi :: lo :: rest).take (be16val hi lo + 2)), false) := by
  simp only [scan, maxLen]
  by_cases h1 : be16val hi lo > 256
  · simp [h1, goView]
  · by_cases h2 : rest.length < be16val hi lo
    · cases e <;> simp [h1, h2, goView]
    · simp [h1, h2, goView]

/-- The source's split function is the model's `scan`. The proof script does not follow the shape of
    the Go function: every path of the translated body is compared with the model under the
    conditions that lead to it (`repeat' split`, then linear arithmetic), so that a rewrite of the
    function within the translated subset that keeps its behaviour keeps this proof (tried with
    the maintainer-style rewrite benign/B1-4: `len(data)-2 < strlen`, no special case for empty parts). -/
theorem scan_is_source :
    scanLengthEncodedString = some (fun data atEOF => goView data (scan data atEOF)) := by
  unfold scanLengthEncodedString
  congr 1
  funext data atEOF
  match data with
  | [] => cases atEOF <;> simp [scan, goView]
  | [x] => cases atEOF <;> simp [scan, goView]
  | hi :: lo :: rest =>
    have t2 : Int.toNat 2 = 2 := rfl
    have t0 : Int.toNat 0 = 0 := rfl
    have hb : be16of [hi, lo] = be16val hi lo := rfl
    rw [goView_scan]
    simp only [slice, List.length_cons, List.drop_zero, t2, t0,
      List.take_succ_cons, List.take_zero, List.drop_succ_cons, Nat.sub_zero, hb]
    generalize be16val hi lo = n
    have e3 : ((↑n : Int) + 2).toNat = n + 2 := by omega
    have e3' : ((2 : Int) + ↑n).toNat = n + 2 := by omega
    try simp only [e3, e3']
    cases atEOF <;>
      simp only [Bool.true_and, Bool.false_and, Bool.and_true, Bool.and_false, Bool.true_or, Bool.false_or,
        Bool.or_true, Bool.or_false, Bool.not_true, Bool.not_false, Bool.false_eq_true, if_false, if_true,
        decide_eq_true_eq] <;>
      (repeat' split) <;>
      (first | rfl | omega | (subst_vars; simp; done) | (simp_all; done) | (simp_all; omega))


/-- About the source's split function itself: an announced length above `MaxRequestLength` is an
    error whatever else is buffered and whether or not the stream has ended. -/
theorem source_scan_overlimit (f : Bytes → Bool → Int × Option Bytes × Bool)
    (hf : scanLengthEncodedString = some f) (hi lo : Byte) (rest : Bytes) (e : Bool)
    (h : be16val hi lo > 256) : f (hi :: lo :: rest) e = (0, none, true) := by
  have hs := scan_is_source
  rw [hf] at hs
  injection hs with hs
  rw [hs]
  simp only [goView_scan, h, if_true]

/-- … a token it returns is a prefix of the buffer: the two length bytes and exactly the announced
    number of payload bytes; it never returns a token and an error together. -/
theorem source_scan_token (f : Bytes → Bool → Int × Option Bytes × Bool)
    (hf : scanLengthEncodedString = some f) (data : Bytes) (e : Bool) (adv : Int) (tok : Bytes) (err : Bool)
    (h : f data e = (adv, some tok, err)) :
    err = false ∧ ∃ hi lo rest, data = hi :: lo :: rest ∧ adv = (be16val hi lo + 2 : Nat) ∧
      be16val hi lo ≤ 256 ∧ be16val hi lo ≤ rest.length ∧ tok = data.take (be16val hi lo + 2) := by
  have hs := scan_is_source
  rw [hf] at hs
  injection hs with hs
  rw [hs] at h
  simp only [] at h
  match data, h with
  | [], h => cases e <;> simp [scan, goView] at h
  | [_], h => cases e <;> simp [scan, goView] at h
  | hi :: lo :: rest, h =>
    rw [goView_scan] at h
    split at h
    · simp at h
    · rename_i h1
      split at h
      · split at h <;> simp at h
      · rename_i h2
        simp only [Prod.mk.injEq, Option.some.injEq] at h
        obtain ⟨ha, ht, he⟩ := h
        exact ⟨he.symm, hi, lo, rest, rfl, ha.symm, by omega, by omega, ht.symm⟩

end Whawty.Gen.Tie
