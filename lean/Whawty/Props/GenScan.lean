/-
  The regenerated tie (split function of the codec): `Whawty/Gen/Scan.lean` is the statement-by-
  statement translation of `scanLengthEncodedString` (sasl/sasl_encoding.go) that the translator
  `harness/cmd/factgen` (translate.go) writes from /repo's CURRENT source on every run. The theorem
  below proves that the translated function IS the hand-written model's `Sasl.scan` (seen through
  Go's result triple) for every buffer and both values of `atEOF`: the theorems of C13 / C05 about
  the scanner loop are thereby theorems about what the source says now. An edit of the function
  that changes its behaviour, or that leaves the translated subset, breaks this module.
-/
import Whawty.Gen.Scan
import Whawty.Model.Sasl
namespace Whawty.Gen.Tie
open Whawty Whawty.Gen Whawty.Sasl

/-- Go's `(advance, token, err)` for the model's outcome on the buffer `data`: "need more data"
    and "clean end" are both `(0, nil, nil)`; the token is the first `advance` bytes. -/
def goView (data : Bytes) : ScanR → Nat × Option Bytes × Bool
  | .more => (0, none, false)
  | .eof => (0, none, false)
  | .err => (0, none, true)
  | .tok adv _ => (adv, some (data.take adv), false)

/-- The model's payload is the token without its two length bytes (`scanner.Bytes()[2:]` in
    `decodeLengthEncodedStrings`). -/
theorem scan_tok_payload (data : Bytes) (e : Bool) (adv : Nat) (p : Bytes) (h : scan data e = .tok adv p) :
    p = (data.take adv).drop 2 ∧ adv = p.length + 2 := by
  match data, h with
  | [], h => simp [scan] at h; split at h <;> simp at h
  | [_], h => simp [scan] at h; split at h <;> simp at h
  | hi :: lo :: rest, h =>
    simp only [scan] at h
    split at h
    · simp at h
    · split at h
      · split at h <;> simp at h
      · rename_i h1 h2
        injection h with ha hp
        subst ha; subst hp
        simp only [List.take_succ_cons, List.drop_succ_cons, List.drop_zero, List.length_take]
        exact ⟨trivial, by omega⟩

/-- The source's split function is the model's `scan`. -/
theorem scan_is_source :
    scanLengthEncodedString = some (fun data atEOF => goView data (scan data atEOF)) := by
  unfold scanLengthEncodedString
  congr 1
  funext data atEOF
  match data with
  | [] => cases atEOF <;> simp [scan, goView]
  | [x] => cases atEOF <;> simp [scan, goView]
  | hi :: lo :: rest =>
    have hb : ∀ r, be16of (hi :: lo :: r) = be16val hi lo := fun _ => rfl
    simp only [scan, goView, slice, hb, maxLen, List.length_cons, List.drop_zero,
      List.take_succ_cons, List.take_zero, List.drop_succ_cons]
    generalize be16val hi lo = n
    have e1 : ¬ (rest.length + 1 + 1 = 0) := by omega
    have e2 : ¬ (rest.length + 1 + 1 < 2) := by omega
    simp only [e1, e2, decide_false, Bool.and_false, Bool.false_eq_true, if_false]
    by_cases h1 : n > 256
    · simp [h1]
    · by_cases h0 : n = 0
      · subst h0; simp
      · by_cases h2 : rest.length < n
        · cases atEOF <;> simp [h1, h0, h2]
        · simp [h1, h0, h2]

end Whawty.Gen.Tie
