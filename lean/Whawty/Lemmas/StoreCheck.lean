import Whawty.Lemmas.Store
namespace Whawty.Store
open Whawty Whawty.Rec

/-- The entry does not make `Check` return an error. -/
def entryOk (D : Dir) (e : Bytes × Node) : Bool :=
  e.1 = tmpName ||
  match checkUserFile e.1 with
  | none => false
  | some (valid, u, adm) => !valid || (if adm then !has D (u ++ userExt) else !has D (u ++ adminExt))

/-- The entry is an administrator file with a valid name and a supported hash. -/
def entryAdmin (c : Cfg) (e : Bytes × Node) : Bool :=
  e.1 ≠ tmpName &&
  match checkUserFile e.1 with
  | some (true, _, true) => supported c e.2
  | _ => false

/-- One iteration of the loop in `Check` (with the directory used for the duplicate test). -/
def checkStep (c : Cfg) (D : Dir) (acc : Option Bool) (e : Bytes × Node) : Option Bool :=
  match acc with
  | none => none
  | some found =>
    if e.1 = tmpName then some found
    else match checkUserFile e.1 with
      | none => none
      | some (valid, u, adm) =>
        if !valid then some found
        else if adm then
          if has D (u ++ userExt) then none else some (found || supported c e.2)
        else
          if has D (u ++ adminExt) then none else some found

theorem checkUserFile_valid {n u : Bytes} {v a : Bool} (h : checkUserFile n = some (v, u, a)) :
    v = validName u := by
  simp only [checkUserFile] at h
  by_cases h1 : extOf n = adminExt
  · simp only [h1, if_true, Option.some.injEq, Prod.mk.injEq] at h
    rw [← h.1, ← h.2.1]
  · by_cases h2 : extOf n = userExt
    · have hne : ¬ userExt = adminExt := by decide
      simp only [h2, hne, if_false, if_true, Option.some.injEq, Prod.mk.injEq] at h
      rw [← h.1, ← h.2.1]
    · simp [h1, h2] at h

theorem check_unfold (c : Cfg) (d : Dir) :
    check c d = (match d.foldl (checkStep c d) (some false) with | some true => true | _ => false) := by
  unfold check
  congr 1

theorem foldl_checkStep_none (c : Cfg) (D : Dir) (l : Dir) : l.foldl (checkStep c D) none = none := by
  induction l with
  | nil => rfl
  | cons e l ih => simpa [List.foldl, checkStep] using ih

theorem checkStep_some (c : Cfg) (D : Dir) (b : Bool) (e : Bytes × Node) :
    checkStep c D (some b) e = if entryOk D e then some (b || entryAdmin c e) else none := by
  unfold checkStep entryOk entryAdmin
  by_cases ht : e.1 = tmpName
  · simp [ht]
  · simp only [ht, if_false, decide_false, Bool.false_or, ne_eq, not_false_eq_true, decide_true, Bool.true_and]
    cases hc : checkUserFile e.1 with
    | none => simp
    | some r =>
      obtain ⟨valid, u, adm⟩ := r
      cases valid with
      | false => simp
      | true =>
        cases adm with
        | true =>
          by_cases hh : has D (u ++ userExt) = true
          · simp [hh]
          · simp [hh]
        | false =>
          by_cases hh : has D (u ++ adminExt) = true
          · simp [hh]
          · simp [hh]

theorem foldl_checkStep (c : Cfg) (D : Dir) (l : Dir) (b : Bool) :
    l.foldl (checkStep c D) (some b) =
      if l.all (entryOk D) then some (b || l.any (entryAdmin c)) else none := by
  induction l generalizing b with
  | nil => simp
  | cons e l ih =>
    simp only [List.foldl, List.all_cons, List.any_cons, checkStep_some]
    by_cases h : entryOk D e = true
    · simp only [h, if_true, ih, Bool.or_assoc, Bool.true_and]
    · simp [h, foldl_checkStep_none]

/-- `Check` accepts exactly when no entry is objectionable and some entry is a supported
    administrator — a statement without any iteration order. -/
theorem check_eq (c : Cfg) (d : Dir) : check c d = (d.all (entryOk d) && d.any (entryAdmin c)) := by
  rw [check_unfold, foldl_checkStep]
  by_cases h : d.all (entryOk d) = true
  · simp only [h, if_true, Bool.false_or, Bool.true_and]
    cases d.any (entryAdmin c) <;> rfl
  · simp [h]

theorem has_eq_any (d : Dir) (n : Bytes) : has d n = d.any (fun e => e.1 = n) := by
  simp only [has, get]
  induction d with
  | nil => rfl
  | cons e d ih =>
    simp only [List.find?, List.any_cons]
    by_cases h : e.1 = n
    · simp [h]
    · simp [h]; simpa using ih

theorem has_perm {d d' : Dir} (h : d.Perm d') (n : Bytes) : has d n = has d' n := by
  rw [has_eq_any, has_eq_any, h.any_eq]

theorem entryOk_perm {d d' : Dir} (h : d.Perm d') (e : Bytes × Node) : entryOk d e = entryOk d' e := by
  unfold entryOk
  split
  · rfl
  · rename_i valid u adm _
    rw [has_perm h, has_perm h]

end Whawty.Store
