import Whawty.Model.Lin
namespace Whawty.Lin
open Whawty Whawty.WebApi

/-- Pigeonhole: a list of length `n` that contains every `i < n` is a permutation of `range n`. -/
theorem perm_range_of_length_of_mem : ∀ (n : Nat) (l : List Nat), l.length = n → (∀ i, i < n → i ∈ l) →
    l.Perm (List.range n) := by
  intro n
  induction n with
  | zero => intro l hl _; have : l = [] := List.length_eq_zero_iff.1 hl; subst this; exact List.Perm.refl _
  | succ n ih =>
    intro l hl hall
    have hn : n ∈ l := hall n (Nat.lt_succ_self n)
    have h1 : l.Perm (n :: l.erase n) := List.perm_cons_erase hn
    have hlen : (l.erase n).length = n := by rw [List.length_erase_of_mem hn, hl]; rfl
    have hmem : ∀ i, i < n → i ∈ l.erase n := fun i hi =>
      (List.mem_erase_of_ne (Nat.ne_of_lt hi)).2 (hall i (Nat.lt_succ_of_lt hi))
    have h2 := ih (l.erase n) hlen hmem
    rw [List.range_succ]
    exact h1.trans ((List.Perm.cons n h2).trans (List.perm_append_comm (l₁ := [n]) (l₂ := List.range n)))

theorem respectsRealTime_cons {h : List Op} {i : Nat} {rest : List Nat} (hr : respectsRealTime h (i :: rest) = true) :
    (∀ j ∈ rest, ∃ a b, h[i]? = some a ∧ h[j]? = some b ∧ ¬ b.res < a.inv) ∧ respectsRealTime h rest = true := by
  simp only [respectsRealTime, Bool.and_eq_true, List.all_eq_true] at hr
  refine ⟨fun j hj => ?_, hr.2⟩
  have := hr.1 j hj
  cases ha : h[i]? with
  | none => simp [ha] at this
  | some a =>
    cases hb : h[j]? with
    | none => simp [ha, hb] at this
    | some b => exact ⟨a, b, rfl, rfl, by simpa [ha, hb] using this⟩

/-- Completeness of the exhaustive search: whenever SOME order of the remaining operations is
    a real-time respecting replay ending in an accepted state, `searchB` says so. -/
theorem searchB_complete (h : List Op) (final : Spec → Bool) :
    ∀ (order : List Nat) (s sf : Spec) (remaining : List Nat),
      remaining.Perm order → order.Nodup → respectsRealTime h order = true →
      replay h s order = some sf → final sf = true →
      searchB h final order.length s remaining = true := by
  intro order
  induction order with
  | nil =>
    intro s sf remaining hp _ _ hrep hf
    have : remaining = [] := hp.eq_nil
    subst this
    simp only [replay, Option.some.injEq] at hrep
    subst hrep
    simp [searchB, hf]
  | cons i rest ih =>
    intro s sf remaining hp hnd hrt hrep hf
    obtain ⟨hmin, hrt'⟩ := respectsRealTime_cons hrt
    -- the first operation of the order exists and its response is the sequential one
    simp only [replay] at hrep
    cases hop : h[i]? with
    | none => simp [hop] at hrep
    | some op =>
      simp only [hop] at hrep
      by_cases hret : (apply s op.call).2 = op.ret
      · simp only [hret, if_true] at hrep
        have hne : remaining ≠ [] := by
          intro e; subst e; exact absurd hp.nil_eq (by simp)
        have hemp : remaining.isEmpty = false := by
          cases remaining with
          | nil => exact absurd rfl hne
          | cons _ _ => rfl
        simp only [List.length_cons, searchB, hemp, Bool.false_eq_true, if_false, List.any_eq_true]
        refine ⟨i, (hp.mem_iff).2 (by simp), ?_⟩
        simp only [hop, Bool.and_eq_true, Bool.not_eq_true', beq_iff_eq]
        obtain ⟨hi_notin, hnd'⟩ := List.nodup_cons.1 hnd
        refine ⟨⟨?_, hret⟩, ?_⟩
        · -- minimality: nothing that remains had responded before op was invoked
          cases hany : remaining.any (fun j => j ≠ i && (match h[j]? with | some b => b.res < op.inv | none => false)) with
          | false => rfl
          | true =>
            obtain ⟨j, hj, hjp⟩ := List.any_eq_true.1 hany
            simp only [Bool.and_eq_true, decide_eq_true_eq] at hjp
            have hjr : j ∈ rest := by
              have := (hp.mem_iff).1 hj
              simp only [List.mem_cons] at this
              rcases this with e | e
              · exact absurd e hjp.1
              · exact e
            obtain ⟨a, b, ha, hb, hnb⟩ := hmin j hjr
            rw [hop] at ha; injection ha with ha; subst ha
            simp only [hb, decide_eq_true_eq] at hjp
            exact absurd hjp.2 hnb
        · -- the rest of the order, by induction
          have hfilter : (remaining.filter (· ≠ i)).Perm rest := by
            have h1 := List.Perm.filter (fun x => decide (x ≠ i)) hp
            have h2 : (i :: rest).filter (fun x => decide (x ≠ i)) = rest := by
              simp only [List.filter_cons, ne_eq, not_true_eq_false, decide_false, Bool.false_eq_true, if_false]
              exact List.filter_eq_self.2 fun a ha => by
                simp only [decide_eq_true_eq]; intro e; subst e; exact hi_notin ha
            rw [h2] at h1; exact h1
          exact ih (apply s op.call).1 sf _ hfilter hnd' hrt' hrep hf
      · simp [hret] at hrep

/-- **A rejection is conclusive.** If the exhaustive search fails, the history has NO
    linearization (in the sense of `validLin`) that ends in a state accepted by `final`. -/
theorem notLinearizable_sound (h : List Op) (s0 : Spec) (final : Spec → Bool)
    (hn : notLinearizable h s0 final = true) :
    ¬ ∃ order sf, validLin h s0 order = some sf ∧ final sf = true := by
  rintro ⟨order, sf, hv, hf⟩
  unfold validLin at hv
  split at hv
  · rename_i hc
    simp only [Bool.and_eq_true, isPermOfRange, beq_iff_eq, List.all_eq_true, List.mem_range] at hc
    obtain ⟨⟨hl, hall⟩, hrt⟩ := hc
    have hperm : order.Perm (List.range h.length) :=
      perm_range_of_length_of_mem h.length order hl (fun i hi => by simpa using hall i hi)
    have hnd : order.Nodup := (hperm.nodup_iff).2 List.nodup_range
    have := searchB_complete h final order s0 sf (List.range h.length) hperm.symm hnd hrt hv hf
    rw [hl] at this
    simp [notLinearizable, this] at hn
  · simp at hv

end Whawty.Lin
