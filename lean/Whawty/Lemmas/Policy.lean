/-
  Helper lemmas about the model of `strings.Fields` (Model/Policy.lean).
-/
import Whawty.Model.Policy
namespace Whawty.Policy
open Whawty

theorem fieldsAux_fuel (n : Nat) : ∀ (m : Nat) (s cur : Bytes), s.length ≤ n → s.length ≤ m →
    fieldsAux n s cur = fieldsAux m s cur := by
  induction n with
  | zero =>
    intro m s cur h _
    have : s = [] := List.eq_nil_of_length_eq_zero (by omega)
    subst this
    cases m <;> simp [fieldsAux]
  | succ n ih =>
    intro m s cur h hm
    cases s with
    | nil => cases m <;> simp [fieldsAux]
    | cons c rest =>
      cases m with
      | zero => simp at hm
      | succ m =>
        have hk := spaceLen_le (c :: rest)
        simp only [fieldsAux]
        simp only [List.length_cons] at h hm hk
        have hd : ((c :: rest).drop (spaceLen (c :: rest))).length ≤ n ∨ spaceLen (c :: rest) = 0 := by
          by_cases h0 : spaceLen (c :: rest) = 0
          · right; exact h0
          · left; simp only [List.length_drop, List.length_cons]; omega
        by_cases h0 : spaceLen (c :: rest) = 0
        · simp only [h0, if_true]
          exact ih m rest (c :: cur) (by omega) (by omega)
        · simp only [h0, if_false]
          have l1 : ((c :: rest).drop (spaceLen (c :: rest))).length ≤ n := by
            simp only [List.length_drop, List.length_cons]; omega
          have l2 : ((c :: rest).drop (spaceLen (c :: rest))).length ≤ m := by
            simp only [List.length_drop, List.length_cons]; omega
          rw [ih m _ [] l1 l2]

theorem fieldsAux_nonempty (n : Nat) : ∀ (s cur : Bytes), ∀ f ∈ fieldsAux n s cur, f ≠ [] := by
  induction n with
  | zero =>
    intro s cur f hf
    simp only [fieldsAux] at hf
    split at hf
    · simp at hf
    · rename_i hc
      simp only [List.mem_singleton] at hf; subst hf
      intro h; apply hc; simpa using h
  | succ n ih =>
    intro s cur f hf
    cases s with
    | nil =>
      simp only [fieldsAux] at hf
      split at hf
      · simp at hf
      · rename_i hc
        simp only [List.mem_singleton] at hf; subst hf
        intro h; apply hc; simpa using h
    | cons c rest =>
      simp only [fieldsAux] at hf
      split at hf
      · exact ih _ _ f hf
      · split at hf
        · exact ih _ _ f hf
        · rename_i hc
          rcases List.mem_cons.mp hf with h | h
          · subst h; intro h; apply hc; simpa using h
          · exact ih _ _ f h

theorem spaceLen_zero_head (c : Byte) (rest : Bytes) (h : spaceLen (c :: rest) = 0) : isSpace c = false := by
  by_cases hs : isSpace c = true
  · exfalso
    simp only [isSpace, Bool.or_eq_true, decide_eq_true_eq] at hs
    rcases hs with ((((rfl | rfl) | rfl) | rfl) | rfl) | rfl <;> simp [spaceLen, isSpace] at h
  · simpa using hs

theorem fieldsAux_no_space (n : Nat) : ∀ (s cur : Bytes), (∀ b ∈ cur, isSpace b = false) →
    ∀ f ∈ fieldsAux n s cur, ∀ b ∈ f, isSpace b = false := by
  induction n with
  | zero =>
    intro s cur hc f hf b hb
    simp only [fieldsAux] at hf
    split at hf
    · simp at hf
    · simp only [List.mem_singleton] at hf; subst hf
      exact hc b (by simpa using hb)
  | succ n ih =>
    intro s cur hc f hf b hb
    cases s with
    | nil =>
      simp only [fieldsAux] at hf
      split at hf
      · simp at hf
      · simp only [List.mem_singleton] at hf; subst hf
        exact hc b (by simpa using hb)
    | cons c rest =>
      simp only [fieldsAux] at hf
      split at hf
      · rename_i h0
        refine ih rest (c :: cur) ?_ f hf b hb
        intro x hx
        rcases List.mem_cons.mp hx with h | h
        · subst h; exact spaceLen_zero_head _ _ h0
        · exact hc x h
      · split at hf
        · exact ih _ [] (by simp) f hf b hb
        · rcases List.mem_cons.mp hf with h | h
          · subst h; exact hc b (by simpa using hb)
          · exact ih _ [] (by simp) f h b hb
end Whawty.Policy
