import Whawty.Lemmas.StoreCheck
namespace Whawty.Store
open Whawty Whawty.Rec

/-! ### membership and `has` under the directory updates -/

theorem mem_del {d : Dir} {n : Bytes} {e : Bytes × Node} : e ∈ del d n ↔ e ∈ d ∧ e.1 ≠ n := by
  simp [del, List.mem_filter]

theorem mem_put {d : Dir} {n : Bytes} {x : Node} {e : Bytes × Node} :
    e ∈ put d n x ↔ e = (n, x) ∨ (e ∈ d ∧ e.1 ≠ n) := by
  simp [put, mem_del]

theorem has_put {d : Dir} {n m : Bytes} {x : Node} : has (put d n x) m = true ↔ m = n ∨ has d m = true := by
  by_cases h : m = n
  · subst h; simp [has, get_put_self]
  · simp [has, get_put_ne d x h, h]

theorem has_del {d : Dir} {n m : Bytes} : has (del d n) m = true ↔ m ≠ n ∧ has d m = true := by
  by_cases h : m = n
  · subst h; simp [has, get_del_self]
  · simp [has, get_del_ne d h, h]

theorem has_of_mem {d : Dir} {e : Bytes × Node} (h : e ∈ d) : has d e.1 = true := by
  rw [has_eq_any]
  exact List.any_eq_true.2 ⟨e, h, by simp⟩

theorem mem_ensureTmp {d dt : Dir} (h : ensureTmp d = .ok dt) {e : Bytes × Node} :
    e ∈ dt ↔ e ∈ d ∨ (e = (tmpName, Node.dir) ∧ get d tmpName = none) := by
  unfold ensureTmp at h
  split at h
  · rename_i hg
    injection h with h; subst h
    simp [hg]
  · injection h with h; subst h
    rename_i hg
    simp [hg]
  · simp at h

theorem has_ensureTmp {d dt : Dir} (h : ensureTmp d = .ok dt) {m : Bytes} (hm : m ≠ tmpName) :
    has dt m = has d m := by
  simp only [has, get_ensureTmp h hm]

/-! ### `checkUserFile` determines the file name -/

theorem extOf_suffix (n : Bytes) (h : extOf n ≠ []) : ∃ p, n = p ++ extOf n := by
  have hdef : extOf n = if n.reverse.dropWhile (· ≠ 46) = [] then []
      else 46 :: (n.reverse.takeWhile (· ≠ 46)).reverse := rfl
  rw [hdef] at h ⊢
  by_cases hd : n.reverse.dropWhile (· ≠ 46) = []
  · rw [if_pos hd] at h; exact absurd rfl h
  · rw [if_neg hd]
    -- n.reverse = takeWhile ++ dropWhile, and dropWhile starts with the dot
    have hsplit := List.takeWhile_append_dropWhile (p := fun c : Byte => decide (c ≠ 46)) (l := n.reverse)
    have hhead := List.head_dropWhile_not (fun c : Byte => decide (c ≠ 46)) (l := n.reverse) hd
    cases hdw : n.reverse.dropWhile (fun c => decide (c ≠ 46)) with
    | nil => exact absurd hdw hd
    | cons c rest =>
      have hc : c = 46 := by
        simp only [hdw, List.head_cons] at hhead
        simpa using hhead
      subst hc
      rw [hdw] at hsplit
      refine ⟨rest.reverse, ?_⟩
      have := congrArg List.reverse hsplit
      simp only [List.reverse_append, List.reverse_cons, List.reverse_reverse, List.append_assoc,
        List.singleton_append] at this
      exact this.symm

theorem checkUserFile_name {n u : Bytes} {v a : Bool} (h : checkUserFile n = some (v, u, a)) :
    n = fileName u a := by
  simp only [checkUserFile] at h
  by_cases h1 : extOf n = adminExt
  · simp only [h1, if_true, Option.some.injEq, Prod.mk.injEq] at h
    obtain ⟨_, hu, ha⟩ := h
    subst ha
    obtain ⟨p, hp⟩ := extOf_suffix n (by rw [h1]; decide)
    rw [h1] at hp
    have : n.take (n.length - adminExt.length) = p := by
      rw [hp]; simp
    rw [← hu, this, hp]; simp [fileName]
  · by_cases h2 : extOf n = userExt
    · have hne : ¬ userExt = adminExt := by decide
      simp only [h2, hne, if_false, if_true, Option.some.injEq, Prod.mk.injEq] at h
      obtain ⟨_, hu, ha⟩ := h
      subst ha
      obtain ⟨p, hp⟩ := extOf_suffix n (by rw [h2]; decide)
      rw [h2] at hp
      have : n.take (n.length - userExt.length) = p := by
        rw [hp]; simp
      rw [← hu, this, hp]; simp [fileName]
    · simp [h1, h2] at h

theorem extOf_user (u : Bytes) : extOf (u ++ userExt) = userExt := by
  simp [extOf, userExt, List.reverse_append, List.takeWhile, List.dropWhile]

theorem extOf_admin' (u : Bytes) : extOf (u ++ adminExt) = adminExt := by
  simp [extOf, adminExt, List.reverse_append, List.takeWhile, List.dropWhile]

theorem checkUserFile_fileName (u : Bytes) (a : Bool) :
    checkUserFile (fileName u a) = some (validName u, u, a) := by
  cases a
  · have hne : ¬ userExt = adminExt := by decide
    simp [checkUserFile, fileName, extOf_user, hne]
  · simp [checkUserFile, fileName, extOf_admin']

theorem fileName_inj {u v : Bytes} {a b : Bool} (h : fileName u a = fileName v b) : u = v ∧ a = b := by
  by_cases huv : u = v
  · subst huv
    refine ⟨rfl, ?_⟩
    cases a <;> cases b <;> simp only [fileName, Bool.false_eq_true, if_false, if_true] at h
    · rfl
    · exact absurd h.symm (append_adminExt_ne_userExt u u)
    · exact absurd h (append_adminExt_ne_userExt u u)
    · rfl
  · exact absurd h (fileName_ne a b huv)

/-! ### the two halves of what `Check` accepts -/

/-- No entry makes `Check` return an error. -/
def EntriesOk (d : Dir) : Prop :=
  ∀ e ∈ d, e.1 = tmpName ∨ ∃ valid u adm, checkUserFile e.1 = some (valid, u, adm) ∧
    (valid = true → has d (fileName u (!adm)) = false)

/-- Some entry is an administrator file with a valid name and a supported hash. -/
def HasAdmin (c : Cfg) (d : Dir) : Prop :=
  ∃ e ∈ d, e.1 ≠ tmpName ∧ ∃ u, checkUserFile e.1 = some (true, u, true) ∧ supported c e.2 = true

/-- … and it belongs to somebody other than `u`. -/
def HasOtherAdmin (c : Cfg) (d : Dir) (u : Bytes) : Prop :=
  ∃ e ∈ d, e.1 ≠ tmpName ∧ ∃ v, v ≠ u ∧ checkUserFile e.1 = some (true, v, true) ∧ supported c e.2 = true

theorem check_iff (c : Cfg) (d : Dir) : check c d = true ↔ EntriesOk d ∧ HasAdmin c d := by
  rw [check_eq, Bool.and_eq_true, List.all_eq_true, List.any_eq_true]
  constructor
  · rintro ⟨h1, e, he, h2⟩
    refine ⟨fun e he => ?_, e, he, ?_⟩
    · have := h1 e he
      unfold entryOk at this
      by_cases ht : e.1 = tmpName
      · exact Or.inl ht
      · right
        simp only [ht, decide_false, Bool.false_or] at this
        split at this
        · simp at this
        · rename_i valid u adm hc
          refine ⟨valid, u, adm, hc, fun hv => ?_⟩
          subst hv
          cases adm <;> simpa [fileName] using this
    · unfold entryAdmin at h2
      simp only [Bool.and_eq_true, decide_eq_true_eq] at h2
      refine ⟨h2.1, ?_⟩
      have h3 := h2.2
      split at h3
      · rename_i u hc; exact ⟨u, hc, h3⟩
      · simp at h3
  · rintro ⟨h1, e, he, hne, u, hc, hs⟩
    refine ⟨fun e he => ?_, e, he, ?_⟩
    · unfold entryOk
      rcases h1 e he with ht | ⟨valid, u, adm, hc, hv⟩
      · simp [ht]
      · simp only [hc]
        cases valid with
        | false => simp
        | true => have := hv rfl; cases adm <;> simp_all [fileName]
    · unfold entryAdmin
      simp [hne, hc, hs]

/-! ### preservation by the directory updates the operations perform -/

/-- Installing a file under `fileName u a` when the other extension of `u` is absent. -/
theorem entriesOk_write {d dt : Dir} {u : Bytes} {a : Bool} {x : Node}
    (hd : EntriesOk d) (ht : ensureTmp d = .ok dt) (hother : has d (fileName u (!a)) = false) :
    EntriesOk (put dt (fileName u a) x) := by
  intro e he
  rcases mem_put.1 he with rfl | ⟨hedt, hne⟩
  · right
    refine ⟨validName u, u, a, checkUserFile_fileName u a, fun _ => ?_⟩
    cases hh : has (put dt (fileName u a) x) (fileName u (!a)) with
    | false => rfl
    | true =>
      rcases has_put.1 hh with heq | hdt
      · have := (fileName_inj heq).2; cases a <;> simp at this
      · rw [has_ensureTmp ht (fun e => tmp_ne_fileName u (!a) e.symm)] at hdt
        rw [hother] at hdt; exact absurd hdt (by simp)
  · rcases (mem_ensureTmp ht).1 hedt with hed | ⟨rfl, _⟩
    · rcases hd e hed with htmp | ⟨valid, v, adm, hc, hv⟩
      · exact Or.inl htmp
      · right
        refine ⟨valid, v, adm, hc, fun hval => ?_⟩
        cases hh : has (put dt (fileName u a) x) (fileName v (!adm)) with
        | false => rfl
        | true =>
          rcases has_put.1 hh with heq | hdt
          · -- then e is u's other file, which does not exist
            obtain ⟨hvu, hadm⟩ := fileName_inj heq
            subst hvu
            have hname : e.1 = fileName v adm := checkUserFile_name hc
            have : has d (fileName v (!a)) = true := by
              have h2 := has_of_mem hed
              rw [hname] at h2
              have : adm = !a := by cases adm <;> cases a <;> simp_all
              rw [← this]; exact h2
            rw [hother] at this; exact absurd this (by simp)
          · rw [has_ensureTmp ht (fun e => tmp_ne_fileName v (!adm) e.symm)] at hdt
            rw [hv hval] at hdt; exact absurd hdt (by simp)
    · exact Or.inl rfl

theorem hasAdmin_write {c : Cfg} {d dt : Dir} {u : Bytes} {a : Bool} {x : Node}
    (hd : HasAdmin c d) (ht : ensureTmp d = .ok dt) (hv : validName u = true)
    (hx : a = true → supported c x = true) : HasAdmin c (put dt (fileName u a) x) := by
  obtain ⟨e, he, hne, v, hc, hs⟩ := hd
  by_cases heq : e.1 = fileName u a
  · -- the administrator's own file is replaced: the new one is supported
    have hname := checkUserFile_name hc
    obtain ⟨hvu, ha⟩ := fileName_inj (hname.symm.trans heq)
    subst hvu; subst ha
    exact ⟨(fileName v true, x), mem_put.2 (Or.inl rfl), fun e => tmp_ne_fileName v true e.symm, v,
      by rw [checkUserFile_fileName, hv], hx rfl⟩
  · exact ⟨e, mem_put.2 (Or.inr ⟨(mem_ensureTmp ht).2 (Or.inl he), heq⟩), hne, v, hc, hs⟩

theorem entriesOk_remove {d : Dir} (u : Bytes) (hd : EntriesOk d) :
    EntriesOk (del (del d (u ++ adminExt)) (u ++ userExt)) := by
  intro e he
  have hed : e ∈ d := (mem_del.1 (mem_del.1 he).1).1
  rcases hd e hed with htmp | ⟨valid, v, adm, hc, hv⟩
  · exact Or.inl htmp
  · right
    refine ⟨valid, v, adm, hc, fun hval => ?_⟩
    cases hh : has (del (del d (u ++ adminExt)) (u ++ userExt)) (fileName v (!adm)) with
    | false => rfl
    | true =>
      have := (has_del.1 (has_del.1 hh).2).2
      rw [hv hval] at this; exact absurd this (by simp)

theorem hasAdmin_remove {c : Cfg} {d : Dir} {u : Bytes} (hd : HasOtherAdmin c d u) :
    HasAdmin c (del (del d (u ++ adminExt)) (u ++ userExt)) := by
  obtain ⟨e, he, hne, v, hvu, hc, hs⟩ := hd
  have hname := checkUserFile_name hc
  refine ⟨e, mem_del.2 ⟨mem_del.2 ⟨he, ?_⟩, ?_⟩, hne, v, hc, hs⟩
  · rw [hname]; exact fileName_ne true true hvu
  · rw [hname]; exact fileName_ne true false hvu

/-- The rename set-admin performs (`a ≠ st`). -/
theorem entriesOk_rename {d : Dir} {u : Bytes} {a : Bool} {x : Node} (hd : EntriesOk d) :
    EntriesOk (put (del d (fileName u a)) (fileName u (!a)) x) := by
  intro e he
  rcases mem_put.1 he with rfl | ⟨hedel, hne⟩
  · right
    refine ⟨validName u, u, !a, checkUserFile_fileName u (!a), fun _ => ?_⟩
    cases hh : has (put (del d (fileName u a)) (fileName u (!a)) x) (fileName u (!!a)) with
    | false => rfl
    | true =>
      rcases has_put.1 hh with heq | hdel
      · have := (fileName_inj heq).2; cases a <;> simp at this
      · have := (has_del.1 hdel).1
        simp at this
  · obtain ⟨hed, hne2⟩ := mem_del.1 hedel
    rcases hd e hed with htmp | ⟨valid, v, adm, hc, hv⟩
    · exact Or.inl htmp
    · right
      refine ⟨valid, v, adm, hc, fun hval => ?_⟩
      cases hh : has (put (del d (fileName u a)) (fileName u (!a)) x) (fileName v (!adm)) with
      | false => rfl
      | true =>
        rcases has_put.1 hh with heq | hdel
        · obtain ⟨hvu, hadm⟩ := fileName_inj heq
          subst hvu
          have hname : e.1 = fileName v adm := checkUserFile_name hc
          have : adm = a := by cases adm <;> cases a <;> simp_all
          subst this
          exact absurd hname hne2
        · have := (has_del.1 hdel).2
          rw [hv hval] at this; exact absurd this (by simp)

theorem hasAdmin_rename_of_other {c : Cfg} {d : Dir} {u : Bytes} {a : Bool} {x : Node}
    (hd : HasOtherAdmin c d u) : HasAdmin c (put (del d (fileName u a)) (fileName u (!a)) x) := by
  obtain ⟨e, he, hne, v, hvu, hc, hs⟩ := hd
  have hname := checkUserFile_name hc
  refine ⟨e, mem_put.2 (Or.inr ⟨mem_del.2 ⟨he, ?_⟩, ?_⟩), hne, v, hc, hs⟩
  · rw [hname]; exact fileName_ne true a hvu
  · rw [hname]; exact fileName_ne true (!a) hvu

end Whawty.Store

namespace Whawty.Store
open Whawty Whawty.Rec

theorem get_some_mem {d : Dir} {n : Bytes} {x : Node} (h : get d n = some x) : (n, x) ∈ d := by
  unfold get at h
  simp only [Option.map_eq_some_iff] at h
  obtain ⟨e, he, hx⟩ := h
  have hm := List.mem_of_find?_eq_some he
  have hn := List.find?_some he
  simp only [decide_eq_true_eq] at hn
  obtain ⟨n', x'⟩ := e
  simp only at hn hx
  subst hn; subst hx; exact hm

theorem has_mem {d : Dir} {n : Bytes} (h : has d n = true) : ∃ x, (n, x) ∈ d := by
  simp only [has, Option.isSome_iff_exists] at h
  obtain ⟨x, hx⟩ := h
  exact ⟨x, get_some_mem hx⟩

/-- A freshly written record is a supported one (non-empty salt and digest). -/
theorem supported_newContent (c : Cfg) (ps : ParamSet) (now : Int) (salt pw old : Bytes)
    (hps : c.lookup c.default = some ps) (hf : ∀ ch ∈ ps.formatId, ch ≠ colon ∧ ch ≠ nl)
    (h1 : -(2 ^ 63 : Int) ≤ now) (h2 : now < 2 ^ 63) (hp : c.default < 2 ^ 64)
    (hsalt : salt ≠ []) (hdig : ps.digest salt pw ≠ []) :
    supported c (.file (newContent ps c.default now salt pw old)) = true := by
  simp only [supported, supportedFull, newContent, readHead_formatLine _ _ _ _ _ _ hf h1 h2 hp, hps, ne_eq,
    not_true_eq_false, if_false, isValid, decodeSaltHash_hashStrOf]
  cases hs : salt with
  | nil => exact absurd hs hsalt
  | cons s ss =>
    cases hdd : ps.digest (s :: ss) pw with
    | nil => rw [hs] at hdig; exact absurd hdd hdig
    | cons _ _ => simp

/-- The shape of a successful set-admin: nothing, or the rename of the user's file. -/
theorem setAdmin_shape {d d' : Dir} {u : Bytes} {st : Bool} (h : setAdmin d u st = .ok d') :
    d' = d ∨ ∃ a x, exists_ d u = .ok (true, a) ∧ st = (!a) ∧ get d (fileName u a) = some x ∧
      d' = put (del d (fileName u a)) (fileName u (!a)) x := by
  unfold setAdmin at h
  split at h
  · simp at h
  · simp at h
  · rename_i a he
    split at h
    · injection h with h; exact Or.inl h.symm
    · rename_i hne
      have hst : st = (!a) := by cases a <;> cases st <;> simp_all
      subst hst
      simp only at h
      split at h
      · simp at h
      · simp at h
      · rename_i x hx _ _
        injection h with h
        exact Or.inr ⟨a, x, he, rfl, hx, h.symm⟩
      · simp at h

end Whawty.Store
