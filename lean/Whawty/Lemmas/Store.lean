import Whawty.Model.Store
import Whawty.Model.StoreHist
import Whawty.Lemmas.Record
namespace Whawty.Store
open Whawty Whawty.Rec

/-! ### finite-map lemmas -/

@[simp] theorem get_nil (n : Bytes) : get [] n = none := rfl

theorem get_cons (e : Bytes × Node) (d : Dir) (n : Bytes) :
    get (e :: d) n = if e.1 = n then some e.2 else get d n := by
  simp only [get, List.find?]
  by_cases h : e.1 = n <;> simp [h]

theorem get_del_self (d : Dir) (n : Bytes) : get (del d n) n = none := by
  induction d with
  | nil => rfl
  | cons e d ih =>
    by_cases h : e.1 = n
    · simpa [del, List.filter_cons, h] using ih
    · simpa [del, List.filter_cons, h, get_cons] using ih

theorem get_del_ne (d : Dir) {n m : Bytes} (h : m ≠ n) : get (del d n) m = get d m := by
  induction d with
  | nil => rfl
  | cons e d ih =>
    by_cases h1 : e.1 = n
    · have h3 : e.1 ≠ m := by rw [h1]; exact fun e => h e.symm
      have h4 : n ≠ m := fun e => h e.symm
      simpa [del, List.filter_cons, h1, get_cons, h3, h4] using ih
    · by_cases h2 : e.1 = m
      · simp [del, List.filter_cons, h, get_cons, h2]
      · simpa [del, List.filter_cons, h1, get_cons, h2] using ih

theorem get_put_self (d : Dir) (n : Bytes) (x : Node) : get (put d n x) n = some x := by
  simp [put, get_cons]

theorem get_put_ne (d : Dir) {n m : Bytes} (x : Node) (h : m ≠ n) : get (put d n x) m = get d m := by
  have : n ≠ m := fun e => h e.symm
  simp [put, get_cons, this, get_del_ne d h]

theorem get_append_single (d : Dir) (n m : Bytes) (x : Node) :
    get (d ++ [(n, x)]) m = match get d m with | some y => some y | none => if n = m then some x else none := by
  induction d with
  | nil => simp [get_cons]
  | cons e d ih =>
    simp only [List.cons_append, get_cons]
    by_cases h : e.1 = m
    · simp [h]
    · simp [h, ih]

theorem has_eq (d : Dir) (n : Bytes) : has d n = (get d n).isSome := rfl

/-! ### names of user files -/

theorem append_adminExt_ne_userExt (u v : Bytes) : u ++ adminExt ≠ v ++ userExt := by
  intro h
  have := congrArg List.getLast? h
  simp [adminExt, userExt] at this

theorem append_ext_inj {u v e : Bytes} (h : u ++ e = v ++ e) : u = v := List.append_cancel_right h

theorem tmp_ne_admin (u : Bytes) : tmpName ≠ u ++ adminExt := by
  intro h
  have := congrArg List.getLast? h
  simp [adminExt, tmpName] at this

theorem tmp_ne_user (u : Bytes) : tmpName ≠ u ++ userExt := by
  intro h
  have := congrArg List.getLast? h
  simp [userExt, tmpName] at this

theorem fileName_ne {u v : Bytes} (a b : Bool) (h : u ≠ v) : fileName u a ≠ fileName v b := by
  intro e
  cases a <;> cases b <;> simp only [fileName, Bool.false_eq_true, if_false, if_true] at e
  · exact h (append_ext_inj e)
  · exact append_adminExt_ne_userExt v u e.symm
  · exact append_adminExt_ne_userExt u v e
  · exact h (append_ext_inj e)

theorem tmp_ne_fileName (u : Bytes) (a : Bool) : tmpName ≠ fileName u a := by
  cases a
  · exact tmp_ne_user u
  · exact tmp_ne_admin u

/-! ### what a user's record is -/

/-- The node `Authenticate` / `Update` look at: the `.admin` file if present, else `.user`. -/
def userNode (d : Dir) (u : Bytes) : Option (Bool × Node) :=
  match get d (u ++ adminExt) with
  | some x => some (true, x)
  | none => (get d (u ++ userExt)).map fun x => (false, x)

theorem exists_ok_iff {d : Dir} {u : Bytes} {e a : Bool} (h : exists_ d u = .ok (e, a)) :
    validName u = true ∧ u.length + adminExt.length ≤ nameMax ∧
    (e = true → ∃ x, userNode d u = some (a, x) ∧ get d (fileName u a) = some x) ∧
    (e = false → userNode d u = none ∧ get d (u ++ adminExt) = none ∧ get d (u ++ userExt) = none) := by
  unfold exists_ at h
  split at h
  · simp at h
  · rename_i hv
    split at h
    · simp at h
    · rename_i hl
      have hv : validName u = true := by cases hvn : validName u <;> simp_all
      refine ⟨hv, by omega, ?_⟩
      split at h
      · rename_i ha
        injection h with h; injection h with h1 h2; subst h1; subst h2
        simp only [has, Option.isSome_iff_exists] at ha
        obtain ⟨x, hx⟩ := ha
        exact ⟨fun _ => ⟨x, by simp [userNode, hx], by simp [fileName, hx]⟩, by simp⟩
      · rename_i ha
        injection h with h; injection h with h1 h2; subst h2
        simp only [has, Bool.not_eq_true, Option.isSome_eq_false_iff, Option.isNone_iff_eq_none] at ha
        constructor
        · intro he
          rw [he] at h1
          simp only [has, Option.isSome_iff_exists] at h1
          obtain ⟨x, hx⟩ := h1
          exact ⟨x, by simp [userNode, ha, hx], by simp [fileName, hx]⟩
        · intro he
          rw [he] at h1
          simp only [has, Option.isSome_eq_false_iff, Option.isNone_iff_eq_none] at h1
          exact ⟨by simp [userNode, ha, h1], ha, h1⟩

theorem authenticate_ok_iff (c : Cfg) (d : Dir) (u pw : Bytes) (r : AuthOk) :
    authenticate c d u pw = .ok r ↔
      ∃ a b up ts, exists_ d u = .ok (true, a) ∧ get d (fileName u a) = some (.file b) ∧
        authFile c b pw = .ok (up, ts) ∧ r = ⟨a, up, ts⟩ := by
  unfold authenticate
  constructor
  · intro h
    split at h
    · simp at h
    · simp at h
    · rename_i a he
      split at h
      · rename_i b hb
        split at h
        · rename_i up ts ha
          injection h with h
          exact ⟨a, b, up, ts, he, hb, ha, h.symm⟩
        · simp at h
      · simp at h
  · rintro ⟨a, b, up, ts, he, hb, ha, hr⟩
    simp [he, hb, ha, hr]

theorem authFile_ok_iff (c : Cfg) (b pw : Bytes) (up : Bool) (ts : Int) :
    authFile c b pw = .ok (up, ts) ↔
      ∃ h ps salt hash, readHead b = some h ∧ c.lookup h.paramId = some ps ∧ ps.formatId = h.formatId ∧
        decodeSaltHash h.hashStr = some (salt, hash) ∧ ps.digest salt pw = hash ∧
        up = decide (c.default ≠ h.paramId) ∧ ts = h.lastChange := by
  unfold authFile
  constructor
  · intro hh
    split at hh
    · simp at hh
    · rename_i h hr
      split at hh
      · simp at hh
      · rename_i ps hl
        split at hh
        · simp at hh
        · rename_i hf
          split at hh
          · rename_i hc
            simp only [checkDigest] at hc
            split at hc
            · rename_i salt hash hd
              injection hh with hh; injection hh with h1 h2
              exact ⟨h, ps, salt, hash, hr, hl, by simpa using hf, hd, by simpa using hc, by simp [← h1], h2.symm⟩
            · simp at hc
          · simp at hh
  · rintro ⟨h, ps, salt, hash, hr, hl, hf, hd, hdig, hup, hts⟩
    simp [hr, hl, hf, checkDigest, hd, hdig, hup, hts]

end Whawty.Store

namespace Whawty.Store
open Whawty Whawty.Rec

/-! ### frame reasoning: what an operation on `u` leaves alone -/

/-- `d` and `d'` hold the same files for user `v`. -/
def sameUser (d d' : Dir) (v : Bytes) : Prop :=
  get d (v ++ adminExt) = get d' (v ++ adminExt) ∧ get d (v ++ userExt) = get d' (v ++ userExt)

theorem sameUser_get {d d' : Dir} {v : Bytes} (h : sameUser d d' v) (a : Bool) :
    get d (fileName v a) = get d' (fileName v a) := by
  cases a
  · simpa [fileName] using h.2
  · simpa [fileName] using h.1

theorem sameUser_exists {d d' : Dir} {v : Bytes} (h : sameUser d d' v) : exists_ d v = exists_ d' v := by
  have e1 : has d (v ++ adminExt) = has d' (v ++ adminExt) := by simp only [has, h.1]
  have e2 : has d (v ++ userExt) = has d' (v ++ userExt) := by simp only [has, h.2]
  simp only [exists_, e1, e2]

theorem sameUser_authenticate (c : Cfg) {d d' : Dir} {v : Bytes} (h : sameUser d d' v) (p : Bytes) :
    authenticate c d v p = authenticate c d' v p := by
  simp only [authenticate, sameUser_exists h]
  split
  · rfl
  · rfl
  · rw [sameUser_get h]

theorem get_ensureTmp {d d' : Dir} (h : ensureTmp d = .ok d') {n : Bytes} (hn : n ≠ tmpName) :
    get d' n = get d n := by
  unfold ensureTmp at h
  split at h
  · injection h with h; subst h
    rw [get_append_single]
    cases get d n with
    | some y => rfl
    | none => simp [Ne.symm hn]
  · injection h with h; subst h; rfl
  · simp at h

theorem sameUser_of_put {d d' : Dir} {u v : Bytes} {a : Bool} {x : Node} (ht : ensureTmp d = .ok d')
    (huv : v ≠ u) : sameUser d (put d' (fileName u a) x) v := by
  constructor
  · have : v ++ adminExt ≠ fileName u a := fileName_ne true a huv
    rw [get_put_ne _ _ this, get_ensureTmp ht (fun e => tmp_ne_admin v e.symm)]
  · have : v ++ userExt ≠ fileName u a := fileName_ne false a huv
    rw [get_put_ne _ _ this, get_ensureTmp ht (fun e => tmp_ne_user v e.symm)]

theorem add_ok {c : Cfg} {d d' : Dir} {u pw salt : Bytes} {adm : Bool} {now : Int}
    (h : add c d u pw adm now salt = .ok d') :
    ∃ ps dt a, exists_ d u = .ok (false, a) ∧ c.lookup c.default = some ps ∧ ensureTmp d = .ok dt ∧
      d' = put dt (fileName u adm) (.file (newContent ps c.default now salt pw [])) := by
  unfold add at h
  split at h
  · simp at h
  · simp at h
  · rename_i a he
    split at h
    · simp at h
    · rename_i ps hps
      split at h
      · simp at h
      · rename_i dt ht
        injection h with h
        exact ⟨ps, dt, a, he, hps, ht, h.symm⟩

theorem update_ok {c : Cfg} {d d' : Dir} {u pw salt : Bytes} {now : Int}
    (h : update c d u pw now salt = .ok d') :
    ∃ ps dt a old, exists_ d u = .ok (true, a) ∧ get d (fileName u a) = some (.file old) ∧
      supported c (.file old) = true ∧ c.lookup c.default = some ps ∧ ensureTmp d = .ok dt ∧
      d' = put dt (fileName u a) (.file (newContent ps c.default now salt pw old)) := by
  unfold update at h
  split at h
  · simp at h
  · simp at h
  · rename_i a he
    simp only at h
    split at h
    · rename_i old hold
      split at h
      · simp at h
      · rename_i hs
        split at h
        · simp at h
        · rename_i ps hps
          split at h
          · simp at h
          · rename_i dt ht
            injection h with h
            exact ⟨ps, dt, a, old, he, hold, by simpa using hs, hps, ht, h.symm⟩
    · simp at h

/-- What authenticating against a freshly written record gives. -/
theorem authFile_newContent (c : Cfg) (ps : ParamSet) (now : Int) (salt pw old p : Bytes)
    (hps : c.lookup c.default = some ps) (hf : ∀ ch ∈ ps.formatId, ch ≠ colon ∧ ch ≠ nl)
    (h1 : -(2 ^ 63 : Int) ≤ now) (h2 : now < 2 ^ 63) (hp : c.default < 2 ^ 64) :
    authFile c (newContent ps c.default now salt pw old) p =
      if ps.digest salt p = ps.digest salt pw then .ok (false, now) else .error .wrongPassword := by
  simp only [authFile, newContent, readHead_formatLine _ _ _ _ _ _ hf h1 h2 hp, hps, ne_eq,
    not_true_eq_false, if_false, checkDigest, decodeSaltHash_hashStrOf, decide_not, decide_true, Bool.not_true]
  by_cases h : ps.digest salt p = ps.digest salt pw <;> simp [h]

theorem exists_after_write {d dt : Dir} {u : Bytes} {a e a0 : Bool} {x : Node}
    (he : exists_ d u = .ok (e, a0)) (ha : e = true → a0 = a) (ht : ensureTmp d = .ok dt) :
    exists_ (put dt (fileName u a) x) u = .ok (true, a) := by
  obtain ⟨hv, hl, h1, h2⟩ := exists_ok_iff he
  have hl' : ¬ (u.length + adminExt.length > nameMax) := by omega
  cases a with
  | true =>
    have hA : has (put dt (fileName u true) x) (u ++ adminExt) = true := by
      have := get_put_self dt (fileName u true) x
      simp only [fileName, if_true] at this
      simp [has, fileName, this]
    simp only [exists_, hv, Bool.not_true, Bool.false_eq_true, if_false, hl', hA, if_true]
  | false =>
    have hne : u ++ adminExt ≠ fileName u false := by
      simp only [fileName, Bool.false_eq_true, if_false]; exact append_adminExt_ne_userExt u u
    have hnone : get d (u ++ adminExt) = none := by
      cases e with
      | false => exact (h2 rfl).2.1
      | true =>
        have := ha rfl; subst this
        obtain ⟨x', hx', _⟩ := h1 rfl
        simp only [userNode] at hx'
        cases hg : get d (u ++ adminExt) with
        | none => rfl
        | some y => simp [hg] at hx'
    have hA : has (put dt (fileName u false) x) (u ++ adminExt) = false := by
      simp only [has]
      rw [get_put_ne _ _ hne, get_ensureTmp ht (fun e => tmp_ne_admin u e.symm), hnone]; rfl
    have hU : has (put dt (fileName u false) x) (u ++ userExt) = true := by
      have := get_put_self dt (fileName u false) x
      simp only [fileName, Bool.false_eq_true, if_false] at this
      simp [has, fileName, this]
    simp only [exists_, hv, Bool.not_true, Bool.false_eq_true, if_false, hl', hA, hU]

end Whawty.Store

namespace Whawty.Store
open Whawty Whawty.Rec

/-- After a successful set-admin the user exists under the new flag with the very same node. -/
theorem setAdmin_ok {d d' : Dir} {u : Bytes} {st : Bool} (h : setAdmin d u st = .ok d') :
    ∃ a x, exists_ d u = .ok (true, a) ∧ get d (fileName u a) = some x ∧
      exists_ d' u = .ok (true, st) ∧ get d' (fileName u st) = some x := by
  unfold setAdmin at h
  split at h
  · simp at h
  · simp at h
  · rename_i a he
    obtain ⟨hv, hl, h1, _⟩ := exists_ok_iff he
    obtain ⟨x, hun, hx⟩ := h1 rfl
    have hl' : ¬ (u.length + adminExt.length > nameMax) := by omega
    split at h
    · rename_i heq
      injection h with h; subst h; subst heq
      exact ⟨a, x, he, hx, he, hx⟩
    · rename_i hne
      simp only at h
      split at h
      · simp at h
      · simp at h
      · rename_i x1 hy _ _
        injection h with h; subst h
        rw [hx] at hy; injection hy with hy; subst hy
        refine ⟨a, x, he, hx, ?_, get_put_self _ _ _⟩
        -- a ≠ st
        cases st with
        | true =>
          have hA : has (put (del d (fileName u a)) (fileName u true) x) (u ++ adminExt) = true := by
            have := get_put_self (del d (fileName u a)) (fileName u true) x
            simp only [fileName, if_true] at this
            simp [has, fileName, this]
          simp only [exists_, hv, Bool.not_true, Bool.false_eq_true, if_false, hl', hA, if_true]
        | false =>
          have ha : a = true := by cases a <;> simp_all
          subst ha
          have hne2 : u ++ adminExt ≠ fileName u false := by
            simp only [fileName, Bool.false_eq_true, if_false]; exact append_adminExt_ne_userExt u u
          have hA : has (put (del d (fileName u true)) (fileName u false) x) (u ++ adminExt) = false := by
            simp only [has]
            rw [get_put_ne _ _ hne2]
            have : u ++ adminExt = fileName u true := by simp [fileName]
            rw [this, get_del_self]; rfl
          have hU : has (put (del d (fileName u true)) (fileName u false) x) (u ++ userExt) = true := by
            have e2 : u ++ userExt = fileName u false := by simp [fileName]
            rw [e2]
            simp [has, get_put_self]
          simp only [exists_, hv, Bool.not_true, Bool.false_eq_true, if_false, hl', hA, hU]
      · rename_i hn; rw [hx] at hn; simp at hn

/-- Set-admin changes nothing about authentication but the reported admin flag. -/
theorem setAdmin_authenticate (c : Cfg) {d d' : Dir} {u : Bytes} {st : Bool}
    (h : setAdmin d u st = .ok d') (p : Bytes) :
    authenticate c d' u p =
      match authenticate c d u p with
      | .ok r => .ok { r with isAdmin := st }
      | .error e => .error e := by
  obtain ⟨a, x, he, hx, he', hx'⟩ := setAdmin_ok h
  simp only [authenticate, he, he', hx, hx']
  cases x with
  | dir => rfl
  | file b =>
    simp only
    cases authFile c b p with
    | error e => rfl
    | ok r => obtain ⟨up, ts⟩ := r; rfl

end Whawty.Store
