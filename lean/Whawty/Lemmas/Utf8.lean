/-
  Helper lemmas: the byte-level white-space scan of Model/Policy.lean against the rune-level
  definition of Model/Utf8.lean (Go's UTF-8 decoding, unicode.IsSpace, strings.FieldsFunc).
-/
import Whawty.Model.Utf8
import Whawty.Lemmas.Policy
namespace Whawty.Utf8
open Whawty

theorem r2_not_space (b0 s1 : Nat) (h0 : 0xC2 ≤ b0) (h1 : b0 < 0xE0) (h2 : 0x80 ≤ s1) (h3 : s1 ≤ 0xBF)
    (e1 : ¬(b0 = 0xC2 ∧ s1 = 0x85)) (e2 : ¬(b0 = 0xC2 ∧ s1 = 0xA0)) :
    isSpaceRune ((b0 - 0xC0) * 64 + (s1 - 0x80)) = false := by
  simp only [isSpaceRune, Bool.or_eq_false_iff, decide_eq_false_iff_not]
  omega

theorem r3_not_space (b0 s1 s2 : Nat) (h0 : 0xE0 ≤ b0) (h1 : b0 < 0xF0) (h2 : 0x80 ≤ s1) (h3 : s1 ≤ 0xBF)
    (h4 : 0x80 ≤ s2) (h5 : s2 ≤ 0xBF) (hov : b0 = 0xE0 → 0xA0 ≤ s1)
    (e1 : ¬(b0 = 0xE1 ∧ s1 = 0x9A ∧ s2 = 0x80)) (e2 : ¬(b0 = 0xE2 ∧ s1 = 0x80))
    (e3 : ¬(b0 = 0xE2 ∧ s1 = 0x81 ∧ s2 = 0x9F)) (e4 : ¬(b0 = 0xE3 ∧ s1 = 0x80 ∧ s2 = 0x80)) :
    isSpaceRune ((b0 - 0xE0) * 4096 + (s1 - 0x80) * 64 + (s2 - 0x80)) = false := by
  simp only [isSpaceRune, Bool.or_eq_false_iff, decide_eq_false_iff_not]
  omega

theorem r4_not_space (b0 s1 s2 s3 : Nat) (h0 : 0xF0 ≤ b0) (hov : b0 = 0xF0 → 0x90 ≤ s1) (h2 : 0x80 ≤ s1) :
    isSpaceRune ((b0 - 0xF0) * 262144 + (s1 - 0x80) * 4096 + (s2 - 0x80) * 64 + (s3 - 0x80)) = false := by
  simp only [isSpaceRune, Bool.or_eq_false_iff, decide_eq_false_iff_not]
  omega

theorem runeError_not_space : isSpaceRune runeError = false := by decide

theorem ascii_space (c : Byte) (h : c.toNat < 0x80) : isSpaceRune c.toNat = Policy.isSpace c := by
  simp only [isSpaceRune, Policy.isSpace, ← UInt8.toNat_inj]
  simp
  generalize c.toNat = n at *
  rw [Bool.eq_iff_iff]
  simp only [Bool.or_eq_true, Bool.and_eq_true, decide_eq_true_eq]
  omega


theorem byte_of_toNat (b : UInt8) (k : UInt8) (h : b.toNat = k.toNat) : b = k := UInt8.toNat_inj.mp h

theorem high_not_ascii_space (c : Byte) (h : ¬ c.toNat < 0x80) : Policy.isSpace c = false := by
  simp only [Policy.isSpace, ← UInt8.toNat_inj]
  simp
  omega

theorem isCont_iff (b : Byte) : isCont b = true ↔ 0x80 ≤ b.toNat ∧ b.toNat ≤ 0xBF := by
  simp [isCont]

theorem generic_case (c : UInt8) (tail : List UInt8)
    (x5 : ∀ (t : List UInt8), c = 194 → tail = 133 :: t → False)
    (x4 : ∀ (t : List UInt8), c = 194 → tail = 160 :: t → False)
    (x3 : ∀ (t : List UInt8), c = 225 → tail = 154 :: 128 :: t → False)
    (x2 : ∀ (d : UInt8) (t : List UInt8), c = 226 → tail = 128 :: d :: t → False)
    (x1 : ∀ (t : List UInt8), c = 226 → tail = 129 :: 159 :: t → False)
    (x0 : ∀ (t : List UInt8), c = 227 → tail = 128 :: 128 :: t → False) :
    (if Policy.isSpace c = true then 1 else 0) =
      if isSpaceRune (decodeRune (c :: tail)).fst = true then (decodeRune (c :: tail)).snd else 0 := by
  have hlt := c.toNat_lt
  by_cases a1 : c.toNat < 0x80
  · have : decodeRune (c :: tail) = (c.toNat, 1) := by simp [decodeRune, a1]
    rw [this]; simp only; rw [ascii_space c a1]
  · rw [high_not_ascii_space c a1]
    simp only [Bool.false_eq_true, if_false]
    suffices h : isSpaceRune (decodeRune (c :: tail)).fst = false by simp [h]
    by_cases a2 : c.toNat < 0xC2
    · have : decodeRune (c :: tail) = (runeError, 1) := by simp [decodeRune, a1, a2]
      rw [this]; exact runeError_not_space
    · by_cases a3 : c.toNat < 0xE0
      · rcases tail with _ | ⟨s1, t⟩
        · simp [decodeRune, a1, a2, a3, runeError_not_space]
        · by_cases hc : isCont s1 = true
          · have : decodeRune (c :: s1 :: t) = ((c.toNat - 0xC0) * 64 + (s1.toNat - 0x80), 2) := by
              simp [decodeRune, a1, a2, a3, hc]
            rw [this]
            have hr := (isCont_iff s1).mp hc
            apply r2_not_space _ _ (by omega) a3 hr.1 hr.2
            · rintro ⟨h1, h2⟩
              exact x5 t (byte_of_toNat c 194 h1) (by rw [byte_of_toNat s1 133 h2])
            · rintro ⟨h1, h2⟩
              exact x4 t (byte_of_toNat c 194 h1) (by rw [byte_of_toNat s1 160 h2])
          · have : decodeRune (c :: s1 :: t) = (runeError, 1) := by simp [decodeRune, a1, a2, a3, hc]
            rw [this]; exact runeError_not_space
      · by_cases a4 : c.toNat < 0xF0
        · rcases tail with _ | ⟨s1, _ | ⟨s2, t⟩⟩
          · simp [decodeRune, a1, a2, a3, a4, runeError_not_space]
          · simp [decodeRune, a1, a2, a3, a4, runeError_not_space]
          · by_cases hv : (if c.toNat = 0xE0 then 0xA0 else 0x80) ≤ s1.toNat ∧
                s1.toNat ≤ (if c.toNat = 0xED then 0x9F else 0xBF) ∧ isCont s2 = true
            · have : decodeRune (c :: s1 :: s2 :: t) =
                  ((c.toNat - 0xE0) * 4096 + (s1.toNat - 0x80) * 64 + (s2.toNat - 0x80), 3) := by
                simp only [decodeRune, a1, a2, a3, a4, if_false, if_true, hv, and_self]
              rw [this]
              obtain ⟨p, q, hc2⟩ := hv
              have hr2 := (isCont_iff s2).mp hc2
              have f1 : 0x80 ≤ s1.toNat ∧ s1.toNat ≤ 0xBF ∧ (c.toNat = 0xE0 → 0xA0 ≤ s1.toNat) := by
                split at p <;> split at q <;> omega
              apply r3_not_space _ _ _ (by omega) a4 f1.1 f1.2.1 hr2.1 hr2.2 f1.2.2
              · rintro ⟨h1, h2, h3⟩
                exact x3 t (byte_of_toNat c 225 h1) (by rw [byte_of_toNat s1 154 h2, byte_of_toNat s2 128 h3])
              · rintro ⟨h1, h2⟩
                exact x2 s2 t (byte_of_toNat c 226 h1) (by rw [byte_of_toNat s1 128 h2])
              · rintro ⟨h1, h2, h3⟩
                exact x1 t (byte_of_toNat c 226 h1) (by rw [byte_of_toNat s1 129 h2, byte_of_toNat s2 159 h3])
              · rintro ⟨h1, h2, h3⟩
                exact x0 t (byte_of_toNat c 227 h1) (by rw [byte_of_toNat s1 128 h2, byte_of_toNat s2 128 h3])
            · have : decodeRune (c :: s1 :: s2 :: t) = (runeError, 1) := by
                simp only [decodeRune, a1, a2, a3, a4, if_false, if_true, hv]
              rw [this]; exact runeError_not_space
        · by_cases a5 : c.toNat < 0xF5
          · rcases tail with _ | ⟨s1, _ | ⟨s2, _ | ⟨s3, t⟩⟩⟩
            · simp [decodeRune, a1, a2, a3, a4, a5, runeError_not_space]
            · simp [decodeRune, a1, a2, a3, a4, a5, runeError_not_space]
            · simp [decodeRune, a1, a2, a3, a4, a5, runeError_not_space]
            · by_cases hv : (if c.toNat = 0xF0 then 0x90 else 0x80) ≤ s1.toNat ∧
                  s1.toNat ≤ (if c.toNat = 0xF4 then 0x8F else 0xBF) ∧ isCont s2 = true ∧ isCont s3 = true
              · have : decodeRune (c :: s1 :: s2 :: s3 :: t) =
                    ((c.toNat - 0xF0) * 262144 + (s1.toNat - 0x80) * 4096 + (s2.toNat - 0x80) * 64 + (s3.toNat - 0x80), 4) := by
                  simp only [decodeRune, a1, a2, a3, a4, a5, if_false, if_true, hv, and_self]
                rw [this]
                obtain ⟨p, _, _, _⟩ := hv
                apply r4_not_space _ _ _ _ (by omega)
                · intro h; simp only [h, if_true] at p; exact p
                · split at p <;> omega
              · have : decodeRune (c :: s1 :: s2 :: s3 :: t) = (runeError, 1) := by
                  simp only [decodeRune, a1, a2, a3, a4, a5, if_false, if_true, hv]
                rw [this]; exact runeError_not_space
          · have : decodeRune (c :: tail) = (runeError, 1) := by simp [decodeRune, a1, a2, a3, a4, a5]
            rw [this]; exact runeError_not_space


/-- Lemma A: the byte-level test of Model/Policy.lean is the rune-level one. -/
theorem spaceLen_eq_rune (s : Bytes) :
    Policy.spaceLen s = if isSpaceRune (decodeRune s).1 then (decodeRune s).2 else 0 := by
  unfold Policy.spaceLen
  split
  · simp [decodeRune, isCont, isSpaceRune]
  · simp [decodeRune, isCont, isSpaceRune]
  · simp [decodeRune, isCont, isSpaceRune]
  · rename_i c tail
    have hlt := c.toNat_lt
    simp only [decodeRune, isCont, isSpaceRune, runeError, UInt8.le_iff_toNat_le, ← UInt8.toNat_inj]
    simp
    generalize c.toNat = n at *
    by_cases h : 128 ≤ n ∧ n ≤ 191
    · simp only [if_pos h]
      split <;> split <;> omega
    · simp only [if_neg h]
      split <;> split <;> omega
  · simp [decodeRune, isCont, isSpaceRune]
  · simp [decodeRune, isCont, isSpaceRune]
  · rename_i c tail x5 x4 x3 x2 x1 x0
    exact generic_case c tail x5 x4 x3 x2 x1 x0
  · simp [decodeRune, isSpaceRune, runeError]

/-- A continuation byte never starts a white-space rune. -/
theorem spaceLen_cont (b : Byte) (t : Bytes) (h : isCont b = true) : Policy.spaceLen (b :: t) = 0 := by
  rw [spaceLen_eq_rune]
  have hr := (isCont_iff b).mp h
  have : decodeRune (b :: t) = (runeError, 1) := by
    have a1 : ¬ b.toNat < 0x80 := by omega
    have a2 : b.toNat < 0xC2 := by omega
    simp [decodeRune, a1, a2]
  rw [this]; simp [runeError_not_space]


/-- The shape of a decoded rune: one byte, or a lead byte followed by continuation bytes. -/
theorem width_conts (c : Byte) (tail : Bytes) :
    (decodeRune (c :: tail)).2 = 1 ∨
    ((decodeRune (c :: tail)).2 = 2 ∧ ∃ s1 t, tail = s1 :: t ∧ isCont s1 = true) ∨
    ((decodeRune (c :: tail)).2 = 3 ∧ ∃ s1 s2 t, tail = s1 :: s2 :: t ∧ isCont s1 = true ∧ isCont s2 = true) ∨
    ((decodeRune (c :: tail)).2 = 4 ∧ ∃ s1 s2 s3 t, tail = s1 :: s2 :: s3 :: t ∧
        isCont s1 = true ∧ isCont s2 = true ∧ isCont s3 = true) := by
  by_cases a1 : c.toNat < 0x80
  · left; simp [decodeRune, a1]
  · by_cases a2 : c.toNat < 0xC2
    · left; simp [decodeRune, a1, a2]
    · by_cases a3 : c.toNat < 0xE0
      · rcases tail with _ | ⟨s1, t⟩
        · left; simp [decodeRune, a1, a2, a3]
        · by_cases hc : isCont s1 = true
          · right; left
            exact ⟨by simp [decodeRune, a1, a2, a3, hc], s1, t, rfl, hc⟩
          · left; simp [decodeRune, a1, a2, a3, hc]
      · by_cases a4 : c.toNat < 0xF0
        · rcases tail with _ | ⟨s1, _ | ⟨s2, t⟩⟩
          · left; simp [decodeRune, a1, a2, a3, a4]
          · left; simp [decodeRune, a1, a2, a3, a4]
          · by_cases hv : (if c.toNat = 0xE0 then 0xA0 else 0x80) ≤ s1.toNat ∧
                s1.toNat ≤ (if c.toNat = 0xED then 0x9F else 0xBF) ∧ isCont s2 = true
            · right; right; left
              refine ⟨by simp only [decodeRune, a1, a2, a3, a4, if_false, if_true, hv, and_self], s1, s2, t, rfl, ?_, hv.2.2⟩
              obtain ⟨p, q, _⟩ := hv
              rw [isCont_iff]
              split at p <;> split at q <;> omega
            · left; simp only [decodeRune, a1, a2, a3, a4, if_false, if_true, hv]
        · by_cases a5 : c.toNat < 0xF5
          · rcases tail with _ | ⟨s1, _ | ⟨s2, _ | ⟨s3, t⟩⟩⟩
            · left; simp [decodeRune, a1, a2, a3, a4, a5]
            · left; simp [decodeRune, a1, a2, a3, a4, a5]
            · left; simp [decodeRune, a1, a2, a3, a4, a5]
            · by_cases hv : (if c.toNat = 0xF0 then 0x90 else 0x80) ≤ s1.toNat ∧
                  s1.toNat ≤ (if c.toNat = 0xF4 then 0x8F else 0xBF) ∧ isCont s2 = true ∧ isCont s3 = true
              · right; right; right
                refine ⟨by simp only [decodeRune, a1, a2, a3, a4, a5, if_false, if_true, hv, and_self], s1, s2, s3, t, rfl, ?_, hv.2.2.1, hv.2.2.2⟩
                obtain ⟨p, q, _, _⟩ := hv
                rw [isCont_iff]
                split at p <;> split at q <;> omega
              · left; simp only [decodeRune, a1, a2, a3, a4, a5, if_false, if_true, hv]
          · left; simp [decodeRune, a1, a2, a3, a4, a5]


open Policy in
/-- The byte-level scan computes `strings.FieldsFunc(s, unicode.IsSpace)`. -/
theorem fieldsRune_eq_fieldsAux (n : Nat) : ∀ (s cur : Bytes), s.length ≤ n →
    fieldsRune n s cur = fieldsAux n s cur := by
  induction n using Nat.strongRecOn with
  | _ n ih =>
    intro s cur hlen
    cases n with
    | zero => simp [fieldsRune, fieldsAux]
    | succ n =>
      cases s with
      | nil => simp [fieldsRune, fieldsAux]
      | cons c rest =>
        simp only [List.length_cons] at hlen
        have hA := spaceLen_eq_rune (c :: rest)
        simp only [fieldsRune, fieldsAux]
        by_cases hsp : isSpaceRune (decodeRune (c :: rest)).1 = true
        · -- a white-space rune: both scans cut here
          simp only [hsp, if_true] at hA ⊢
          have hw : (decodeRune (c :: rest)).2 ≥ 1 := by
            rcases width_conts c rest with h | h | h | h <;> omega
          have hne : ¬ (decodeRune (c :: rest)).2 = 0 := by omega
          simp only [hA, hne, if_false]
          have hl : ((c :: rest).drop (decodeRune (c :: rest)).2).length ≤ n := by
            simp only [List.length_drop, List.length_cons]; omega
          rw [ih n (by omega) _ [] hl]
        · -- not white space: the byte-level scan walks over the rune's bytes one by one
          have hsp' : isSpaceRune (decodeRune (c :: rest)).1 = false := by simpa using hsp
          simp only [hsp', Bool.false_eq_true, if_false] at hA ⊢
          simp only [hA, if_true]
          rcases width_conts c rest with h | ⟨h, s1, t, rfl, c1⟩ | ⟨h, s1, s2, t, rfl, c1, c2⟩ | ⟨h, s1, s2, s3, t, rfl, c1, c2, c3⟩
          · rw [h]
            simp only [List.drop_succ_cons, List.drop_zero, List.take_succ_cons, List.take_zero, List.reverse_cons,
              List.reverse_nil, List.nil_append, List.singleton_append]
            exact ih n (by omega) rest (c :: cur) (by omega)
          · rw [h]
            simp only [List.drop_succ_cons, List.drop_zero, List.take_succ_cons, List.take_zero, List.reverse_cons,
              List.reverse_nil, List.nil_append, List.append_assoc, List.singleton_append, List.cons_append]
            simp only [List.length_cons] at hlen
            rw [ih n (by omega) t _ (by omega)]
            obtain ⟨m, rfl⟩ : ∃ m, n = m + 1 := ⟨n - 1, by omega⟩
            conv => rhs; unfold fieldsAux
            simp only [spaceLen_cont s1 t c1, if_true]
            exact fieldsAux_fuel _ _ _ _ (by omega) (by omega)
          · rw [h]
            simp only [List.drop_succ_cons, List.drop_zero, List.take_succ_cons, List.take_zero, List.reverse_cons,
              List.reverse_nil, List.nil_append, List.append_assoc, List.singleton_append, List.cons_append]
            simp only [List.length_cons] at hlen
            rw [ih n (by omega) t _ (by omega)]
            obtain ⟨m, rfl⟩ : ∃ m, n = m + 2 := ⟨n - 2, by omega⟩
            conv => rhs; unfold fieldsAux
            simp only [spaceLen_cont s1 (s2 :: t) c1, if_true]
            conv => rhs; unfold fieldsAux
            simp only [spaceLen_cont s2 t c2, if_true]
            exact fieldsAux_fuel _ _ _ _ (by omega) (by omega)
          · rw [h]
            simp only [List.drop_succ_cons, List.drop_zero, List.take_succ_cons, List.take_zero, List.reverse_cons,
              List.reverse_nil, List.nil_append, List.append_assoc, List.singleton_append, List.cons_append]
            simp only [List.length_cons] at hlen
            rw [ih n (by omega) t _ (by omega)]
            obtain ⟨m, rfl⟩ : ∃ m, n = m + 3 := ⟨n - 3, by omega⟩
            conv => rhs; unfold fieldsAux
            simp only [spaceLen_cont s1 (s2 :: s3 :: t) c1, if_true]
            conv => rhs; unfold fieldsAux
            simp only [spaceLen_cont s2 (s3 :: t) c2, if_true]
            conv => rhs; unfold fieldsAux
            simp only [spaceLen_cont s3 t c3, if_true]
            exact fieldsAux_fuel _ _ _ _ (by omega) (by omega)

/-- **`Policy.fields` is `strings.Fields`** as the Go documentation defines it: the substrings
    between runs of `unicode.IsSpace` runes, runes being decoded as Go decodes them. -/
theorem fields_eq_spec (s : Bytes) : Policy.fields s = fieldsSpec s :=
  (fieldsRune_eq_fieldsAux s.length s [] (Nat.le_refl _)).symm

end Whawty.Utf8
