import Whawty.Model.Base64
namespace Whawty.B64

theorem alpha_encChar_fin : ∀ n : Fin 64, alpha (encChar n.val) = some n.val := by decide
theorem alpha_encChar {n : Nat} (h : n < 64) : alpha (encChar n) = some n := alpha_encChar_fin ⟨n, h⟩

theorem alpha_pad : alpha pad = none := by decide

/-- Alphabet characters are none of LF, CR, ':' and '='. -/
theorem encChar_plain_fin : ∀ n : Fin 64,
    encChar n.val ≠ 10 ∧ encChar n.val ≠ 13 ∧ encChar n.val ≠ 58 ∧ encChar n.val ≠ pad := by decide
theorem encChar_plain {n : Nat} (h : n < 64) :
    encChar n ≠ 10 ∧ encChar n ≠ 13 ∧ encChar n ≠ 58 ∧ encChar n ≠ pad := encChar_plain_fin ⟨n, h⟩

/-- Characters of an encoding: never LF, CR or ':'. -/
theorem encode_chars (x : Bytes) : ∀ c ∈ encode x, c ≠ 10 ∧ c ≠ 13 ∧ c ≠ 58 := by
  fun_induction encode x with
  | case1 => simp
  | case2 a n =>
    intro c hc
    simp only [List.mem_cons, List.not_mem_nil, or_false] at hc
    have := a.toNat_lt
    have h1 := encChar_plain (n := n / 262144) (by omega)
    have h2 := encChar_plain (n := n / 4096 % 64) (by omega)
    rcases hc with rfl | rfl | rfl | rfl
    · exact ⟨h1.1, h1.2.1, h1.2.2.1⟩
    · exact ⟨h2.1, h2.2.1, h2.2.2.1⟩
    · decide
    · decide
  | case3 a b n =>
    intro c hc
    simp only [List.mem_cons, List.not_mem_nil, or_false] at hc
    have := a.toNat_lt; have := b.toNat_lt
    have h1 := encChar_plain (n := n / 262144) (by omega)
    have h2 := encChar_plain (n := n / 4096 % 64) (by omega)
    have h3 := encChar_plain (n := n / 64 % 64) (by omega)
    rcases hc with rfl | rfl | rfl | rfl
    · exact ⟨h1.1, h1.2.1, h1.2.2.1⟩
    · exact ⟨h2.1, h2.2.1, h2.2.2.1⟩
    · exact ⟨h3.1, h3.2.1, h3.2.2.1⟩
    · decide
  | case4 a b c' rest n ih =>
    intro c hc
    simp only [List.mem_cons] at hc
    have := a.toNat_lt; have := b.toNat_lt; have := c'.toNat_lt
    have h1 := encChar_plain (n := n / 262144) (by omega)
    have h2 := encChar_plain (n := n / 4096 % 64) (by omega)
    have h3 := encChar_plain (n := n / 64 % 64) (by omega)
    have h4 := encChar_plain (n := n % 64) (by omega)
    rcases hc with rfl | rfl | rfl | rfl | hc
    · exact ⟨h1.1, h1.2.1, h1.2.2.1⟩
    · exact ⟨h2.1, h2.2.1, h2.2.2.1⟩
    · exact ⟨h3.1, h3.2.1, h3.2.2.1⟩
    · exact ⟨h4.1, h4.2.1, h4.2.2.1⟩
    · exact ih c hc

theorem ofNat_toNat (a : UInt8) : UInt8.ofNat a.toNat = a := by
  apply UInt8.toNat_inj.mp; simp

theorem arith3 (a b c : Nat) (ha : a < 256) (hb : b < 256) (hc : c < 256) :
    let n := a * 65536 + b * 256 + c
    n / 262144 * 262144 + n / 4096 % 64 * 4096 + n / 64 % 64 * 64 + n % 64 = n ∧
    n / 65536 = a ∧ n / 256 % 256 = b ∧ n % 256 = c ∧
    n / 262144 < 64 ∧ n / 4096 % 64 < 64 ∧ n / 64 % 64 < 64 ∧ n % 64 < 64 := by
  intro n; omega

theorem arith2 (a b : Nat) (ha : a < 256) (hb : b < 256) :
    let n := a * 65536 + b * 256
    (n / 262144 * 262144 + n / 4096 % 64 * 4096 + n / 64 % 64 * 64) / 65536 = a ∧
    (n / 262144 * 262144 + n / 4096 % 64 * 4096 + n / 64 % 64 * 64) / 256 % 256 = b ∧
    n / 262144 < 64 ∧ n / 4096 % 64 < 64 ∧ n / 64 % 64 < 64 := by
  intro n; omega

theorem arith1 (a : Nat) (ha : a < 256) :
    let n := a * 65536
    (n / 262144 * 262144 + n / 4096 % 64 * 4096) / 65536 = a ∧
    n / 262144 < 64 ∧ n / 4096 % 64 < 64 := by
  intro n; omega

theorem decodeStripped_encode (x : Bytes) : decodeStripped (encode x) = some x := by
  fun_induction encode x with
  | case1 => simp [decodeStripped]
  | case2 a n =>
    have hh := arith1 a.toNat a.toNat_lt
    have e1 : (n / 262144 * 262144 + n / 4096 % 64 * 4096) / 65536 = a.toNat := hh.1
    have l1 : n / 262144 < 64 := hh.2.1
    have l2 : n / 4096 % 64 < 64 := hh.2.2
    simp only [decodeStripped, alpha_encChar l1, alpha_encChar l2, alpha_pad, and_self, if_true, bytes1]
    rw [e1, ofNat_toNat]
  | case3 a b n =>
    have hh := arith2 a.toNat b.toNat a.toNat_lt b.toNat_lt
    have e1 : (n / 262144 * 262144 + n / 4096 % 64 * 4096 + n / 64 % 64 * 64) / 65536 = a.toNat := hh.1
    have e2 : (n / 262144 * 262144 + n / 4096 % 64 * 4096 + n / 64 % 64 * 64) / 256 % 256 = b.toNat := hh.2.1
    have l1 : n / 262144 < 64 := hh.2.2.1
    have l2 : n / 4096 % 64 < 64 := hh.2.2.2.1
    have l3 : n / 64 % 64 < 64 := hh.2.2.2.2
    simp only [decodeStripped, alpha_encChar l1, alpha_encChar l2, alpha_encChar l3,
      alpha_pad, and_self, if_true, bytes2]
    rw [e1, e2, ofNat_toNat, ofNat_toNat]
  | case4 a b c rest n ih =>
    have hh := arith3 a.toNat b.toNat c.toNat a.toNat_lt b.toNat_lt c.toNat_lt
    have e0 : n / 262144 * 262144 + n / 4096 % 64 * 4096 + n / 64 % 64 * 64 + n % 64 = n := hh.1
    have e1 : n / 65536 = a.toNat := hh.2.1
    have e2 : n / 256 % 256 = b.toNat := hh.2.2.1
    have e3 : n % 256 = c.toNat := hh.2.2.2.1
    have l1 : n / 262144 < 64 := hh.2.2.2.2.1
    have l2 : n / 4096 % 64 < 64 := hh.2.2.2.2.2.1
    have l3 : n / 64 % 64 < 64 := hh.2.2.2.2.2.2.1
    have l4 : n % 64 < 64 := hh.2.2.2.2.2.2.2
    simp only [decodeStripped, alpha_encChar l1, alpha_encChar l2, alpha_encChar l3, alpha_encChar l4,
      ih, Option.map_some, bytes3]
    rw [e0, e1, e2, e3, ofNat_toNat, ofNat_toNat, ofNat_toNat]
    rfl

/-- Round trip, also when CR / LF follow (the record line's trailing newline). -/
theorem decode_encode_append (x tail : Bytes) (ht : ∀ c ∈ tail, c = 10 ∨ c = 13) :
    decode (encode x ++ tail) = some x := by
  unfold decode
  have h1 : (encode x).filter (fun c => c ≠ 10 ∧ c ≠ 13) = encode x := by
    apply List.filter_eq_self.mpr
    intro c hc
    have := encode_chars x c hc
    simp [this.1, this.2.1]
  have h2 : tail.filter (fun c => c ≠ 10 ∧ c ≠ 13) = [] := by
    apply List.filter_eq_nil_iff.mpr
    intro c hc
    rcases ht c hc with rfl | rfl <;> simp
  rw [List.filter_append, h1, h2, List.append_nil, decodeStripped_encode]

theorem decode_encode (x : Bytes) : decode (encode x) = some x := by
  simpa using decode_encode_append x [] (by simp)

theorem encode_eq_nil {x : Bytes} (h : encode x = []) : x = [] := by
  match x with
  | [] => rfl
  | [_] => simp [encode] at h
  | [_, _] => simp [encode] at h
  | _ :: _ :: _ :: _ => simp [encode] at h

end Whawty.B64
