import Whawty.Model.SaslServer
import Whawty.Lemmas.Sasl
import Whawty.Lemmas.Pam
namespace Whawty.SaslServer
open Whawty Whawty.Sasl

theorem text_len_le (r : Response) : r.text.length ≤ r.message.length + 3 := by
  simp only [Response.text, okB, noB]
  cases r.result <;> cases h : r.message.isEmpty <;> simp <;> omega

theorem text_len_ge (r : Response) : 2 ≤ r.text.length := by
  simp only [Response.text, okB, noB]; cases r.result <;> simp

theorem text_len_gt_msg (r : Response) (h : r.message ≠ []) : r.message.length + 3 = r.text.length := by
  simp only [Response.text, okB, noB]
  have : r.message.isEmpty = false := by simpa [List.isEmpty_iff] using h
  cases r.result <;> simp [this]

theorem text_take2 (r : Response) : r.text.take 2 = if r.result then okB else noB := by
  simp only [Response.text, okB, noB]; cases r.result <;> simp

theorem encode_of_le (r : Response) (h : r.text.length ≤ 65535) :
    r.encode = some (be16 r.text.length ++ r.text) := by
  have : ¬ r.text.length > 65535 := by omega
  simp [Response.encode, encodeParts, this]

theorem encode_none_of_gt (r : Response) (h : 65535 < r.text.length) : r.encode = none := by
  simp [Response.encode, encodeParts, h]

theorem decodePure_one_part (text : Bytes) (h : text.length ≤ maxLen) :
    decodePure 1 (be16 text.length ++ text) = some ([text], text.length + 2) := by
  have := decodePure_encodeParts [text] (be16 text.length ++ text) [] (by simpa using h)
    (by have : ¬ text.length > 65535 := by unfold maxLen at h; omega
        simp [encodeParts, this])
  simp only [List.length_cons, List.length_nil, List.append_nil, List.length_append, be16] at this
  simp only [be16, Nat.zero_add] at *
  rw [this]; congr 2; omega

theorem decodePure_one_part_long (text : Bytes) (h : maxLen < text.length) (h2 : text.length < 65536) :
    decodePure 1 (be16 text.length ++ text) = none := by
  simp [decodePure, be16, scan, be16val_be16 h2, h]

theorem ofText_text (r : Response) : Response.ofText r.text = some r := by
  obtain ⟨res, msg⟩ := r
  cases res <;> cases msg <;> simp [Response.ofText, Response.text, okB, noB]

theorem pam_verdict_of_text (r : Response) (h : r.text.length ≤ maxLen) :
    Pam.verdictOfReply (be16 r.text.length ++ r.text) =
      if r.result then Pam.PAM_SUCCESS else Pam.PAM_AUTH_ERR := by
  have hlt : r.text.length < 65536 := by unfold maxLen at h; omega
  have h2 := text_len_ge r
  simp only [Pam.verdictOfReply, Pam.recvVerdict_eq_spec, Pam.zeroLenInterrupted_single, Bool.false_eq_true, if_false,
    Pam.stream, List.append_nil, be16,
    List.cons_append, List.nil_append, Pam.verdictSpec, be16val_be16 hlt]
  have hmin : min r.text.length 256 = r.text.length := by unfold maxLen at h; omega
  have h0 : ¬ r.text.length = 0 := by omega
  simp only [hmin, h0, if_false, Nat.lt_irrefl, List.take_length, text_take2]
  cases r.result <;> simp [okB, noB]

theorem clipped_msg_le (dec : Option (Request × Nat)) (cb : Request → CbOutcome) (t : Bytes) :
    (response true dec cb t).message.length ≤ maxMsg := by
  simp only [response, if_true, List.length_take]; omega

theorem clipped_text_le (dec : Option (Request × Nat)) (cb : Request → CbOutcome) (t : Bytes) :
    (response true dec cb t).text.length ≤ maxLen := by
  have := clipped_msg_le dec cb t
  have := text_len_le (response true dec cb t)
  unfold maxMsg at *; unfold maxLen at *; omega

end Whawty.SaslServer
