import Whawty.Model.Pam
namespace Whawty.Pam
open Whawty

/-- The bytes the server delivers before the first timeout / close. -/
def stream : List SrvEv → Bytes
  | [] => []
  | .data b :: rest => b ++ stream rest
  | _ :: _ => []

theorem readN_full {need : Nat} {evs : List SrvEv} {acc got : Bytes} {rest : List SrvEv}
    (h : readN need evs acc = .full got rest) :
    need ≤ (stream evs).length ∧ got = acc ++ (stream evs).take need ∧
      stream rest = (stream evs).drop need := by
  induction evs generalizing need acc with
  | nil => simp [readN] at h
  | cons e evs ih =>
    cases e with
    | timeout => simp [readN] at h
    | intr => simp [readN] at h
    | eof => simp [readN] at h
    | data b =>
      simp only [readN] at h
      split at h
      · rename_i hle
        injection h with h1 h2
        subst h1; subst h2
        simp only [stream, List.length_append]
        refine ⟨by omega, ?_, ?_⟩
        · rw [List.take_append_of_le_length hle]
        · rw [List.drop_append_of_le_length hle]
      · rename_i hnle
        obtain ⟨a, b', c⟩ := ih h
        simp only [stream, List.length_append]
        refine ⟨by omega, ?_, ?_⟩
        · rw [b', List.take_append]
          have : List.take need b = b := List.take_of_length_le (by omega)
          simp [this, List.append_assoc]
        · rw [c, List.drop_append]
          have : List.drop need b = [] := List.drop_of_length_le (by omega)
          simp [this]

theorem readN_not_full {need : Nat} {evs : List SrvEv} {acc : Bytes} (hpos : 0 < need)
    (h : ∀ got rest, readN need evs acc ≠ .full got rest) : (stream evs).length < need := by
  induction evs generalizing need acc with
  | nil => simpa [stream] using hpos
  | cons e evs ih =>
    cases e with
    | timeout => simpa [stream] using hpos
    | intr => simpa [stream] using hpos
    | eof => simpa [stream] using hpos
    | data b =>
      simp only [readN] at h
      split at h
      · exact absurd rfl (h _ _)
      · rename_i hn
        have := ih (by omega) h
        simp only [stream, List.length_append]; omega

theorem readN_of_le {need : Nat} {evs : List SrvEv} {acc : Bytes}
    (h : need ≤ (stream evs).length) (hpos : 0 < need) :
    ∃ rest, readN need evs acc = .full (acc ++ (stream evs).take need) rest ∧
      stream rest = (stream evs).drop need := by
  cases hr : readN need evs acc with
  | full got rest =>
    obtain ⟨_, b, c⟩ := readN_full hr
    exact ⟨rest, by rw [b], c⟩
  | short got =>
    have := readN_not_full (need := need) (evs := evs) (acc := acc) hpos (by intro g r; rw [hr]; simp)
    omega
  | timedOut =>
    have := readN_not_full (need := need) (evs := evs) (acc := acc) hpos (by intro g r; rw [hr]; simp)
    omega

/-- Functional specification of the reply handling in terms of the delivered byte stream. -/
def verdictSpec (s : Bytes) : Nat :=
  match s with
  | hi :: lo :: body =>
    let l := min (be16val hi lo) 256
    if l = 0 then PAM_AUTH_ERR
    else if body.length < l then PAM_AUTHINFO_UNAVAIL
    else if (body.take l).take 2 = Sasl.okB then PAM_SUCCESS else PAM_AUTH_ERR
  | _ => PAM_AUTHINFO_UNAVAIL

theorem recvVerdictCore_eq_spec (evs : List SrvEv) : recvVerdictCore evs = verdictSpec (stream evs) := by
  unfold recvVerdictCore
  cases hr : readN 2 evs [] with
  | short got =>
    have := readN_not_full (need := 2) (evs := evs) (acc := []) (by omega) (by intro g r; rw [hr]; simp)
    match hs : stream evs, this with
    | [], _ => simp [verdictSpec]
    | [_], _ => simp [verdictSpec]
    | _ :: _ :: _, h => simp at h; omega
  | timedOut =>
    have := readN_not_full (need := 2) (evs := evs) (acc := []) (by omega) (by intro g r; rw [hr]; simp)
    match hs : stream evs, this with
    | [], _ => simp [verdictSpec]
    | [_], _ => simp [verdictSpec]
    | _ :: _ :: _, h => simp at h; omega
  | full got rest =>
    obtain ⟨hle, hgot, hrest⟩ := readN_full hr
    match hs : stream evs, hle with
    | [], h => simp at h
    | [_], h => simp at h
    | hi :: lo :: body, _ =>
      rw [hs] at hgot hrest
      simp only [List.nil_append, List.take_succ_cons, List.take_zero] at hgot
      simp only [List.drop_succ_cons, List.drop_zero] at hrest
      subst hgot
      simp only [verdictSpec]
      split
      · rfl
      · rename_i hl
        by_cases hb : body.length < min (be16val hi lo) 256
        · simp only [hb, if_true]
          have : ∀ got r, readN (min (be16val hi lo) 256) rest [] ≠ .full got r := by
            intro got r hc
            have := (readN_full hc).1
            rw [hrest] at this; omega
          cases hq : readN (min (be16val hi lo) 256) rest [] with
          | full g r => exact absurd hq (this g r)
          | short g => rfl
          | timedOut => rfl
        · simp only [hb, if_false]
          obtain ⟨r, hq, _⟩ := readN_of_le (need := min (be16val hi lo) 256) (evs := rest) (acc := [])
            (by rw [hrest]; omega) (by omega)
          simp only [hq, hrest, List.nil_append]

theorem readRounds_le (need : Nat) (evs : List SrvEv)
    (hne : ∀ b, SrvEv.data b ∈ evs → b ≠ []) : readRounds need evs ≤ need + 1 := by
  induction evs generalizing need with
  | nil => simp [readRounds]
  | cons e evs ih =>
    cases e with
    | timeout => simp [readRounds]
    | intr => simp [readRounds]
    | eof => simp [readRounds]
    | data b =>
      simp only [readRounds]
      split
      · omega
      · have hb : b ≠ [] := hne b (by simp)
        have hl : 0 < b.length := List.length_pos_iff.mpr hb
        have := ih (need - b.length) (fun c hc => hne c (by simp [hc]))
        omega

theorem getPassword_error {i : Input} {e : Nat} (h : getPassword i = .error e) :
    e = PAM_AUTHTOK_RECOVERY_ERR := by
  obtain ⟨user, ufp, tfp, stack, conv, cok, srv⟩ := i
  cases ufp <;> cases tfp <;> cases stack <;> cases conv <;> simp [getPassword] at h <;> exact h.symm

/-- The reply handling as a function of the delivered byte stream — except that a signal
    interrupting the wait after a zero-length announcement makes the module give up. -/
theorem recvVerdict_eq_spec (evs : List SrvEv) :
    recvVerdict evs = if zeroLenInterrupted evs then PAM_AUTHINFO_UNAVAIL else verdictSpec (stream evs) := by
  unfold recvVerdict
  split
  · rfl
  · exact recvVerdictCore_eq_spec evs

/-- In the singled-out case the announced length is zero: the byte-stream specification says
    "authentication error" there, the module says "unavailable" — neither is success. -/
theorem zeroLenInterrupted_spec (evs : List SrvEv) (h : zeroLenInterrupted evs = true) :
    verdictSpec (stream evs) = PAM_AUTH_ERR := by
  unfold zeroLenInterrupted at h
  split at h
  · rename_i hi lo rest hr
    simp only [Bool.and_eq_true, decide_eq_true_eq] at h
    obtain ⟨hle, hgot, _⟩ := readN_full hr
    match hs : stream evs, hle with
    | [], hh => simp at hh
    | [_], hh => simp at hh
    | a :: b :: body, _ =>
      rw [hs] at hgot
      simp only [List.nil_append, List.take_succ_cons, List.take_zero, List.cons.injEq, and_true] at hgot
      obtain ⟨h1, h2⟩ := hgot
      subst h1; subst h2
      simp [verdictSpec, h.1]
  · simp at h

/-- A complete reply in one piece followed by the close: nothing is interrupted. -/
theorem zeroLenInterrupted_single (b : Bytes) : zeroLenInterrupted [.data b, .eof] = false := by
  unfold zeroLenInterrupted
  match b with
  | [] => simp [readN]
  | [_] => simp [readN]
  | hi :: lo :: body =>
    cases body with
    | nil => simp [readN, nextEv]
    | cons x xs => simp [readN, nextEv]

end Whawty.Pam
