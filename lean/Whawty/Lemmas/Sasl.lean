import Whawty.Model.Sasl
namespace Whawty.Sasl

theorem scan_tok_mono {b x : Bytes} {e : Bool} {adv : Nat} {p : Bytes}
    (h : scan b false = .tok adv p) : scan (b ++ x) e = .tok adv p := by
  match b, h with
  | [], h => simp [scan] at h
  | [_], h => simp [scan] at h
  | hi :: lo :: rest, h =>
    simp only [scan] at h
    simp only [List.cons_append, scan]
    split at h
    · simp at h
    · split at h
      · simp at h
      · rename_i h1 h2
        simp only [h1, if_false]
        have : ¬ (rest ++ x).length < be16val hi lo := by
          simp only [List.length_append]; omega
        simp only [this, if_false]
        injection h with ha hp
        subst ha; subst hp
        congr 1
        rw [List.take_append_of_le_length (by omega)]

theorem scan_err_mono {b x : Bytes} {e : Bool}
    (h : scan b false = .err) : scan (b ++ x) e = .err := by
  match b, h with
  | [], h => simp [scan] at h
  | [_], h => simp [scan] at h
  | hi :: lo :: rest, h =>
    simp only [scan] at h
    simp only [List.cons_append, scan]
    split at h
    · rename_i h1; simp [h1]
    · split at h <;> simp at h

theorem scan_tok_adv_le {b : Bytes} {e : Bool} {adv : Nat} {p : Bytes}
    (h : scan b e = .tok adv p) : adv ≤ b.length ∧ 2 ≤ adv := by
  match b, h with
  | [], h => simp [scan] at h; split at h <;> simp at h
  | [_], h => simp [scan] at h; split at h <;> simp at h
  | hi :: lo :: rest, h =>
    simp only [scan] at h
    split at h
    · simp at h
    · split at h
      · split at h <;> simp at h
      · injection h with ha hp
        simp only [List.length_cons]; omega

/-- A token found without EOF is the token found at EOF. -/
theorem scan_tok_atEOF {b : Bytes} {adv : Nat} {p : Bytes}
    (h : scan b false = .tok adv p) : scan b true = .tok adv p := by
  have := scan_tok_mono (x := []) (e := true) h
  simpa using this

theorem scan_false_ne_eof (b : Bytes) : scan b false ≠ .eof := by
  match b with
  | [] => simp [scan]
  | [_] => simp [scan]
  | hi :: lo :: rest =>
    simp only [scan]
    split
    · simp
    · split <;> simp

/-- Fragment independence of the scanner loop: the result depends only on the concatenation
    of what is buffered and everything that will be read. -/
theorem decodeChunks_eq_decodePure (k : Nat) (buf : Bytes) (cs : List Bytes) :
    decodeChunks k buf cs = decodePure k (buf ++ cs.flatten) := by
  fun_induction decodeChunks k buf cs with
  | case1 => simp [decodePure]
  | case2 k buf adv p h ih =>
    simp only [List.flatten_nil, List.append_nil] at *
    simp [decodePure, h, ih]
  | case3 k buf h => 
    simp only [List.flatten_nil, List.append_nil]
    simp only [decodePure]
  | case4 k buf c cs adv p h ih =>
    have h' : scan (buf ++ (c :: cs).flatten) true = .tok adv p := scan_tok_mono h
    have hle := (scan_tok_adv_le h).1
    simp only [decodePure, h']
    rw [ih, List.drop_append_of_le_length hle]
  | case5 k buf c cs h =>
    have h' : scan (buf ++ (c :: cs).flatten) true = .err := scan_err_mono h
    simp only [decodePure, h']
  | case6 k buf c cs h1 h2 ih =>
    rw [ih]; simp [List.append_assoc]

end Whawty.Sasl

namespace Whawty.Sasl

theorem be16val_be16 {n : Nat} (h : n < 65536) :
    be16val (UInt8.ofNat (n / 256)) (UInt8.ofNat (n % 256)) = n := by
  simp only [be16val, UInt8.toNat_ofNat']
  omega

/-- Scanning an encoded part (length at most 256) returns exactly that part. -/
theorem scan_encoded_part (p rest : Bytes) (e : Bool) (h : p.length ≤ maxLen) :
    scan (be16 p.length ++ p ++ rest) e = .tok (p.length + 2) p := by
  have h256 : p.length < 65536 := by unfold maxLen at h; omega
  simp only [be16, List.cons_append, List.nil_append, scan, be16val_be16 h256]
  have h1 : ¬ p.length > maxLen := by omega
  simp only [h1, if_false, List.length_append]
  have h2 : ¬ (p.length + rest.length < p.length) := by omega
  simp [h2]

theorem encodeParts_some_of_le {ps : List Bytes} (h : ∀ p ∈ ps, p.length ≤ maxLen) :
    ∃ s, encodeParts ps = some s := by
  induction ps with
  | nil => exact ⟨[], rfl⟩
  | cons p ps ih =>
    have hp := h p (by simp)
    obtain ⟨s, hs⟩ := ih (fun q hq => h q (by simp [hq]))
    have : ¬ p.length > 65535 := by unfold maxLen at hp; omega
    exact ⟨be16 p.length ++ p ++ s, by simp [encodeParts, this, hs]⟩

/-- Decoding what the encoder wrote (followed by anything) gives back the parts and
    consumes exactly the encoder's output. -/
theorem decodePure_encodeParts (ps : List Bytes) (enc rest : Bytes)
    (hlen : ∀ p ∈ ps, p.length ≤ maxLen) (henc : encodeParts ps = some enc) :
    decodePure ps.length (enc ++ rest) = some (ps, enc.length) := by
  induction ps generalizing enc with
  | nil => simp [encodeParts] at henc; subst henc; simp [decodePure]
  | cons p ps ih =>
    have hp := hlen p (by simp)
    have hnot : ¬ p.length > 65535 := by unfold maxLen at hp; omega
    simp only [encodeParts, hnot, if_false] at henc
    cases hps : encodeParts ps with
    | none => simp [hps] at henc
    | some s =>
      simp only [hps, Option.map_some, Option.some.injEq] at henc
      subst henc
      have ihs := ih s (fun q hq => hlen q (by simp [hq])) hps
      simp only [List.length_cons, decodePure]
      rw [List.append_assoc, scan_encoded_part p (s ++ rest) true hp]
      have hdrop : List.drop (p.length + 2) (be16 p.length ++ p ++ (s ++ rest)) = s ++ rest := by
        have : (be16 p.length ++ p).length = p.length + 2 := by simp [be16]
        rw [← this]; simp
      simp only [hdrop, ihs, Option.map_some]
      simp [be16]; omega

theorem scan_tok_shape {b : Bytes} {e : Bool} {adv : Nat} {p : Bytes}
    (h : scan b e = .tok adv p) :
    p.length ≤ maxLen ∧ adv = p.length + 2 ∧ b.take adv = be16 p.length ++ p := by
  match b, h with
  | [], h => simp [scan] at h; split at h <;> simp at h
  | [_], h => simp [scan] at h; split at h <;> simp at h
  | hi :: lo :: rest, h =>
    simp only [scan] at h
    split at h
    · simp at h
    · split at h
      · split at h <;> simp at h
      · rename_i h1 h2
        injection h with ha hp
        have hl : p.length = be16val hi lo := by
          rw [← hp, List.length_take]; omega
        refine ⟨by omega, by omega, ?_⟩
        subst ha
        simp only [List.take_succ_cons, be16, List.cons_append, List.nil_append]
        rw [hp, hl]
        simp only [be16val]
        have := hi.toNat_lt; have := lo.toNat_lt
        congr 1
        · apply UInt8.toNat_inj.mp; simp; omega
        · congr 1
          apply UInt8.toNat_inj.mp; simp

/-- Re-encoding what was decoded reproduces exactly the consumed bytes. -/
theorem encodeParts_of_decodePure (k : Nat) (s : Bytes) (ps : List Bytes) (n : Nat)
    (h : decodePure k s = some (ps, n)) :
    encodeParts ps = some (s.take n) ∧ (∀ p ∈ ps, p.length ≤ maxLen) ∧ ps.length = k ∧ n ≤ s.length := by
  induction k generalizing s ps n with
  | zero => simp [decodePure] at h; obtain ⟨h1, h2⟩ := h; subst h1; subst h2; simp [encodeParts]
  | succ k ih =>
    simp only [decodePure] at h
    split at h
    · rename_i adv p hs
      cases hd : decodePure k (List.drop adv s) with
      | none => simp [hd] at h
      | some r =>
        obtain ⟨ps', n'⟩ := r
        simp only [hd, Option.map_some, Option.some.injEq, Prod.mk.injEq] at h
        obtain ⟨h1, h2⟩ := h
        subst h1; subst h2
        obtain ⟨ihe, ihl, ihk, ihn⟩ := ih _ _ _ hd
        obtain ⟨hpl, hadv, htake⟩ := scan_tok_shape hs
        have hadvle := (scan_tok_adv_le hs).1
        refine ⟨?_, ?_, by simp [ihk], ?_⟩
        · have : ¬ p.length > 65535 := by unfold maxLen at hpl; omega
          simp only [encodeParts, this, if_false, ihe, Option.map_some, Option.some.injEq]
          rw [← htake, ← List.take_add]
        · intro q hq
          simp at hq
          rcases hq with rfl | hq
          · exact hpl
          · exact ihl q hq
        · simp only [List.length_drop] at ihn; omega
    · simp at h

end Whawty.Sasl

namespace Whawty.Sasl

theorem stallFree_mono (cs : List Bytes) : ∀ (e e' : Nat), e' ≤ e → stallFree e cs = true → stallFree e' cs = true := by
  induction cs with
  | nil => intro e e' _ _; simp [stallFree]
  | cons c cs ih =>
    intro e e' hle h
    simp only [stallFree] at h ⊢
    split
    · rename_i hc
      simp only [hc, if_true, Bool.and_eq_true, decide_eq_true_eq] at h ⊢
      exact ⟨by omega, ih (e + 1) (e' + 1) (by omega) h.2⟩
    · rename_i hc
      simpa [hc] using h

/-- On fragmentations without a run of more than 100 zero-length reads the scanner loop as it
    is coincides with the loop without the guard. -/
theorem decodeScan_eq_decodeChunks (k : Nat) (buf : Bytes) (cs : List Bytes) (e : Nat)
    (h : stallFree e cs = true) : decodeScan k buf cs e = decodeChunks k buf cs := by
  fun_induction decodeScan k buf cs e with
  | case1 => simp [decodeChunks]
  | case2 k buf e adv p hs ih =>
    simp only [decodeChunks, hs]
    rw [ih (by simp [stallFree])]
  | case3 k buf e hs =>
    unfold decodeChunks
    split <;> simp_all
  | case4 k buf c cs e adv p hs ih =>
    simp only [decodeChunks, hs]
    rw [ih (stallFree_mono _ e 0 (by omega) h)]
  | case5 k buf c cs e hs =>
    simp [decodeChunks, hs]
  | case6 k buf c cs e hc hgt h1 h2 =>
    exfalso
    simp only [stallFree, hc, if_true, Bool.and_eq_true, decide_eq_true_eq] at h
    omega
  | case7 k buf c cs e hc hle h1 h2 ih =>
    simp only [stallFree, hc, if_true, Bool.and_eq_true, decide_eq_true_eq] at h
    rw [ih h.2]
    have hce : c = [] := by simpa using hc
    subst hce
    conv => rhs; unfold decodeChunks
    split
    · rename_i adv p hh; exact absurd hh (h1 adv p)
    · rename_i hh; exact absurd hh h2
    · simp
  | case8 k buf c cs e hc h1 h2 ih =>
    have hs : stallFree 0 cs = true := by
      simp only [stallFree, hc] at h; simpa using h
    rw [ih hs]
    conv => rhs; unfold decodeChunks
    split
    · rename_i adv p hh; exact absurd hh (h1 adv p)
    · rename_i hh; exact absurd hh h2
    · rfl

/-- A reader that makes no progress: while the scanner waits for more data, the 101st
    zero-length read in a row ends the decoding with an error, whatever would follow. -/
theorem decodeScan_stalled (k : Nat) (buf : Bytes) (rest : List Bytes) (hm : scan buf false = .more) :
    ∀ (n e : Nat), e ≤ maxEmptyReads → e + n > maxEmptyReads →
      decodeScan (k + 1) buf (List.replicate n [] ++ rest) e = none := by
  intro n
  induction n with
  | zero => intro e h1 h2; omega
  | succ n ih =>
    intro e h1 h2
    simp only [List.replicate_succ, List.cons_append]
    unfold decodeScan
    simp only [hm, List.isEmpty_nil, if_true]
    split
    · rfl
    · rename_i hgt
      exact ih (e + 1) (by omega) (by omega)

/-- A sequence of reads that all return at least one byte has no run of zero-length reads at all. -/
theorem stallFree_of_nonempty (cs : List Bytes) (h : ∀ c ∈ cs, c ≠ []) : ∀ e, stallFree e cs = true := by
  induction cs with
  | nil => intro e; simp [stallFree]
  | cons c cs ih =>
    intro e
    have hc : c.isEmpty = false := by
      have := h c (by simp)
      cases c <;> simp_all
    simp only [stallFree, hc, Bool.false_eq_true, if_false]
    exact ih (fun x hx => h x (by simp [hx])) 0


end Whawty.Sasl
