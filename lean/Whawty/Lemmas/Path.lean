import Whawty.Model.Path
namespace Whawty.Path
open Whawty

theorem splitSlash_ne_nil (p : Bytes) : splitSlash p ≠ [] := by
  cases p with
  | nil => simp [splitSlash]
  | cons c rest =>
    simp only [splitSlash]
    split
    · simp
    · split <;> simp

theorem splitSlash_noslash (u : Bytes) (h : slash ∉ u) : splitSlash u = [u] := by
  induction u with
  | nil => rfl
  | cons c rest ih =>
    have hc : c ≠ slash := fun e => h (by simp [e])
    have hr : slash ∉ rest := fun e => h (by simp [e])
    simp [splitSlash, hc, ih hr]

theorem splitSlash_append_comp (p u : Bytes) (h : slash ∉ u) :
    splitSlash (p ++ slash :: u) = splitSlash p ++ [u] := by
  induction p with
  | nil => simp [splitSlash, splitSlash_noslash u h]
  | cons c rest ih =>
    by_cases hc : c = slash
    · simp [splitSlash, hc, ih]
    · simp only [List.cons_append, splitSlash, hc, if_false, ih]
      cases hs : splitSlash rest with
      | nil => exact absurd hs (splitSlash_ne_nil rest)
      | cons x xs => simp

theorem cleanStack_append (r : Bool) (l m : List Bytes) : ∀ st,
    cleanStack r st (l ++ m) = cleanStack r (cleanStack r st l) m := by
  induction l with
  | nil => intro st; rfl
  | cons comp rest ih =>
    intro st
    simp only [List.cons_append, cleanStack]
    split
    · exact ih st
    · split
      · cases st with
        | nil => cases r <;> simp [ih]
        | cons top below =>
          simp only
          split
          · exact ih _
          · exact ih _
      · exact ih _

/-- A plain component: not empty, not "." or "..", no slash. -/
def Plain (u : Bytes) : Prop := u ≠ [] ∧ u ≠ dot ∧ u ≠ dotdot ∧ slash ∉ u

theorem cleanStack_plain (r : Bool) (st : List Bytes) (u : Bytes) (h : Plain u) :
    cleanStack r st [u] = u :: st := by
  obtain ⟨h1, h2, h3, _⟩ := h
  simp [cleanStack, h1, h2, h3]

theorem joinSlash_append_single (s : List Bytes) (u : Bytes) :
    joinSlash (s ++ [u]) = if s = [] then u else joinSlash s ++ slash :: u := by
  induction s with
  | nil => rfl
  | cons x xs ih =>
    cases xs with
    | nil => simp [joinSlash]
    | cons y ys =>
      simp only [List.cons_append, joinSlash] at ih ⊢
      simp only [reduceCtorEq, if_false] at ih ⊢
      rw [ih]; simp

theorem joinSlash_append_ext (s : List Bytes) (u ext : Bytes) :
    joinSlash (s ++ [u]) ++ ext = joinSlash (s ++ [u ++ ext]) := by
  rw [joinSlash_append_single, joinSlash_append_single]
  by_cases h : s = [] <;> simp [h]

end Whawty.Path
