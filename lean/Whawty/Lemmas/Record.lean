import Whawty.Model.Record
import Whawty.Lemmas.Base64
namespace Whawty.Rec
open Whawty

theorem cut_append {sep : Byte} {a b : Bytes} (h : sep ∉ a) : cut sep (a ++ sep :: b) = some (a, b) := by
  induction a with
  | nil => simp [cut]
  | cons c a ih =>
    have hc : c ≠ sep := by intro e; apply h; simp [e]
    have ha : sep ∉ a := by intro e; apply h; simp [e]
    simp [cut, hc, ih ha]

theorem cut_none {sep : Byte} {a : Bytes} (h : sep ∉ a) : cut sep a = none := by
  induction a with
  | nil => simp [cut]
  | cons c a ih =>
    have hc : c ≠ sep := by intro e; apply h; simp [e]
    have ha : sep ∉ a := by intro e; apply h; simp [e]
    simp [cut, hc, ih ha]

theorem firstLine_append {a rest : Bytes} (h : nl ∉ a) : firstLine (a ++ nl :: rest) = a ++ [nl] := by
  induction a with
  | nil => simp [firstLine]
  | cons c a ih =>
    have hc : c ≠ nl := by intro e; apply h; simp [e]
    have ha : nl ∉ a := by intro e; apply h; simp [e]
    simp [firstLine, hc, ih ha]

theorem firstLine_no_nl {a : Bytes} (h : nl ∉ a) : firstLine a = a := by
  induction a with
  | nil => simp [firstLine]
  | cons c a ih =>
    have hc : c ≠ nl := by intro e; apply h; simp [e]
    have ha : nl ∉ a := by intro e; apply h; simp [e]
    simp [firstLine, hc, ih ha]

theorem afterFirstLine_append {a rest : Bytes} (h : nl ∉ a) : afterFirstLine (a ++ nl :: rest) = rest := by
  induction a with
  | nil => simp [afterFirstLine]
  | cons c a ih =>
    have hc : c ≠ nl := by intro e; apply h; simp [e]
    have ha : nl ∉ a := by intro e; apply h; simp [e]
    simp [afterFirstLine, hc, ih ha]

theorem digitsVal_append (a b : Bytes) (acc : Nat) :
    digitsVal (a ++ b) acc = (digitsVal a acc).bind (digitsVal b) := by
  induction a generalizing acc with
  | nil => simp [digitsVal]
  | cons c a ih =>
    simp only [List.cons_append, digitsVal]
    split
    · exact ih _
    · rfl

theorem digit_byte {d : Nat} (h : d < 10) :
    isDigit (UInt8.ofNat (48 + d)) = true ∧ (UInt8.ofNat (48 + d)).toNat - 48 = d := by
  have : (UInt8.ofNat (48 + d)).toNat = 48 + d := by simp; omega
  simp [isDigit, this]; omega

theorem digitsVal_decNat (n acc : Nat) :
    digitsVal (decNat n) acc = some (acc * 10 ^ (decNat n).length + n) := by
  induction n using Nat.strongRecOn generalizing acc with
  | _ n ih =>
    rw [decNat]
    split
    · rename_i h
      obtain ⟨h1, h2⟩ := digit_byte h
      simp only [digitsVal, h1, if_true, h2, List.length_cons, List.length_nil, Nat.pow_succ, Nat.pow_zero,
        Nat.one_mul]
    · rename_i h
      have hd : n % 10 < 10 := Nat.mod_lt _ (by omega)
      obtain ⟨h1, h2⟩ := digit_byte hd
      rw [digitsVal_append, ih (n / 10) (by omega)]
      simp only [Option.bind_some, digitsVal, h1, if_true, List.length_append, List.length_cons,
        List.length_nil, Nat.pow_succ]
      rw [h2, ← Nat.mul_assoc]
      congr 1
      have := Nat.div_add_mod n 10
      generalize acc * 10 ^ (decNat (n / 10)).length = Y at *
      omega

theorem decNat_ne_nil (n : Nat) : decNat n ≠ [] := by
  rw [decNat]; split <;> simp

theorem decNat_digits (n : Nat) : ∀ c ∈ decNat n, isDigit c = true := by
  induction n using Nat.strongRecOn with
  | _ n ih =>
    rw [decNat]
    split
    · rename_i h
      intro c hc; simp only [List.mem_singleton] at hc; subst hc; exact (digit_byte h).1
    · rename_i h
      intro c hc
      simp only [List.mem_append, List.mem_singleton] at hc
      rcases hc with hc | hc
      · exact ih (n / 10) (by omega) c hc
      · subst hc; exact (digit_byte (Nat.mod_lt _ (by omega))).1

theorem isDigit_plain {c : Byte} (h : isDigit c = true) : c ≠ colon ∧ c ≠ nl ∧ c ≠ 43 ∧ c ≠ 45 := by
  simp only [isDigit, Bool.and_eq_true, decide_eq_true_eq] at h
  refine ⟨?_, ?_, ?_, ?_⟩ <;> (intro e; subst e; revert h; decide)

theorem parseUint64_decNat {n : Nat} (h : n < 2 ^ 64) : parseUint64 (decNat n) = some n := by
  simp [parseUint64, decNat_ne_nil, digitsVal_decNat, h]

theorem decNat_head (n : Nat) : ∃ c rest, decNat n = c :: rest ∧ isDigit c = true := by
  cases hd : decNat n with
  | nil => exact absurd hd (decNat_ne_nil n)
  | cons c rest => exact ⟨c, rest, rfl, decNat_digits n c (by simp [hd])⟩

theorem parseInt64_decInt {i : Int} (h1 : -(2 ^ 63 : Int) ≤ i) (h2 : i < 2 ^ 63) :
    parseInt64 (decInt i) = some i := by
  cases i with
  | ofNat n =>
    obtain ⟨c, rest, hc, hdig⟩ := decNat_head n
    have hp := isDigit_plain hdig
    have hn : n < 2 ^ 63 := by
      have : ((n : Nat) : Int) < 2 ^ 63 := h2
      omega
    have hn' : n < 2 ^ 64 := by omega
    simp only [decInt, hc, parseInt64, hp.2.2.1, hp.2.2.2, if_false]
    rw [← hc, parseUint64_decNat hn']
    simp [hn]
  | negSucc n =>
    have hn : n + 1 ≤ 2 ^ 63 := by
      have : -(2 ^ 63 : Int) ≤ Int.negSucc n := h1
      omega
    have hn' : n + 1 < 2 ^ 64 := by omega
    simp only [decInt, parseInt64]
    have : (45 : Byte) ≠ 43 := by decide
    simp only [this, if_false, if_true, parseUint64_decNat hn', hn]
    rfl

theorem decInt_plain (i : Int) : ∀ c ∈ decInt i, c ≠ colon ∧ c ≠ nl := by
  intro c hc
  cases i with
  | ofNat n => exact ⟨(isDigit_plain (decNat_digits n c hc)).1, (isDigit_plain (decNat_digits n c hc)).2.1⟩
  | negSucc n =>
    simp only [decInt, List.mem_cons] at hc
    rcases hc with rfl | hc
    · exact ⟨by decide, by decide⟩
    · exact ⟨(isDigit_plain (decNat_digits _ c hc)).1, (isDigit_plain (decNat_digits _ c hc)).2.1⟩

theorem decNat_plain (n : Nat) : ∀ c ∈ decNat n, c ≠ colon ∧ c ≠ nl := fun c hc =>
  ⟨(isDigit_plain (decNat_digits n c hc)).1, (isDigit_plain (decNat_digits n c hc)).2.1⟩

theorem hashStrOf_no_nl (salt hash : Bytes) : nl ∉ hashStrOf salt hash := by
  intro h
  simp only [hashStrOf, List.mem_append, List.mem_cons] at h
  rcases h with h | h | h
  · exact (B64.encode_chars salt _ h).1 rfl
  · revert h; decide
  · exact (B64.encode_chars hash _ h).1 rfl

/-- The hashers decode what `Generate` produced, trailing newline included. -/
theorem decodeSaltHash_hashStrOf (salt hash : Bytes) :
    decodeSaltHash (hashStrOf salt hash ++ [nl]) = some (salt, hash) := by
  have h1 : colon ∉ B64.encode salt := fun h => (B64.encode_chars salt _ h).2.2 rfl
  have h2 : colon ∉ B64.encode hash ++ [nl] := by
    intro h
    simp only [List.mem_append, List.mem_singleton] at h
    rcases h with h | h
    · exact (B64.encode_chars hash _ h).2.2 rfl
    · revert h; decide
  simp only [decodeSaltHash, split2, hashStrOf, List.append_assoc, List.cons_append, cut_append h1]
  have : (B64.encode hash ++ [nl]).contains colon = false := by
    simpa using h2
  simp only [this, Bool.false_eq_true, if_false]
  rw [B64.decode_encode, B64.decode_encode_append hash [nl] (by simp [nl])]

/-- `readHashStr` reads back exactly what `writeHashStr` formatted, whatever follows the line. -/
theorem readHead_formatLine (f : Bytes) (ts : Int) (pid : Nat) (salt hash rest : Bytes)
    (hf : ∀ c ∈ f, c ≠ colon ∧ c ≠ nl) (h1 : -(2 ^ 63 : Int) ≤ ts) (h2 : ts < 2 ^ 63) (hp : pid < 2 ^ 64) :
    readHead (formatLine f ts pid (hashStrOf salt hash) ++ rest) =
      some ⟨f, ts, pid, hashStrOf salt hash ++ [nl]⟩ := by
  have hnl : nl ∉ f ++ colon :: (decInt ts ++ colon :: (decNat pid ++ colon :: hashStrOf salt hash)) := by
    intro h
    simp only [List.mem_append, List.mem_cons] at h
    rcases h with h | h | h | h | h | h | h
    · exact (hf _ h).2 rfl
    · revert h; decide
    · exact (decInt_plain ts _ h).2 rfl
    · revert h; decide
    · exact (decNat_plain pid _ h).2 rfl
    · revert h; decide
    · exact hashStrOf_no_nl salt hash h
  have hline : firstLine (formatLine f ts pid (hashStrOf salt hash) ++ rest) =
      f ++ colon :: (decInt ts ++ colon :: (decNat pid ++ colon :: (hashStrOf salt hash ++ [nl]))) := by
    have := firstLine_append (rest := rest) hnl
    simp only [formatLine, List.append_assoc, List.cons_append, List.nil_append] at this ⊢
    rw [this]
  have c1 : colon ∉ f := fun h => (hf _ h).1 rfl
  have c2 : colon ∉ decInt ts := fun h => (decInt_plain ts _ h).1 rfl
  have c3 : colon ∉ decNat pid := fun h => (decNat_plain pid _ h).1 rfl
  simp only [readHead, hline, splitN4, cut_append c1, cut_append c2, cut_append c3,
    parseInt64_decInt h1 h2, parseUint64_decNat hp]

theorem afterFirstLine_formatLine (f : Bytes) (ts : Int) (pid : Nat) (salt hash rest : Bytes)
    (hf : ∀ c ∈ f, c ≠ colon ∧ c ≠ nl) :
    afterFirstLine (formatLine f ts pid (hashStrOf salt hash) ++ rest) = rest := by
  have hnl : nl ∉ f ++ colon :: (decInt ts ++ colon :: (decNat pid ++ colon :: hashStrOf salt hash)) := by
    intro h
    simp only [List.mem_append, List.mem_cons] at h
    rcases h with h | h | h | h | h | h | h
    · exact (hf _ h).2 rfl
    · revert h; decide
    · exact (decInt_plain ts _ h).2 rfl
    · revert h; decide
    · exact (decNat_plain pid _ h).2 rfl
    · revert h; decide
    · exact hashStrOf_no_nl salt hash h
  have := afterFirstLine_append (rest := rest) hnl
  simp only [formatLine, List.append_assoc, List.cons_append, List.nil_append] at this ⊢
  rw [this]

end Whawty.Rec
