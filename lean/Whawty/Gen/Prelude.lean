/-
  Hand-written prelude of the statement-by-statement translations (harness/cmd/factgen/translate.go):
  the Lean meaning of the Go library calls and slice expressions the translated subset may use.
  Part of the trusted translator.
-/
import Whawty.Model.Basic
namespace Whawty.Gen
open Whawty

/-- `binary.BigEndian.Uint16(b)` (Go panics on fewer than two bytes; total here). -/
def be16of : Bytes → Nat
  | hi :: lo :: _ => hi.toNat * 256 + lo.toNat
  | _ => 0

/-- `x[a:b]` (Go panics when out of range; total here). -/
def slice (x : Bytes) (a b : Nat) : Bytes := (x.drop a).take (b - a)

end Whawty.Gen
