/-
  Hand-written prelude for the translation of store/store.go:checkUserFile: the Lean meaning of
  the library calls it uses. Part of the trusted translator.
-/
import Whawty.Gen.Prelude
import Whawty.Gen.Facts
namespace Whawty.Gen
open Whawty

/-- `filepath.Ext(path)`: scanning backwards from the end, stop at the first `.` (the extension
    starts there) or at a `/` (no extension: ""). -/
def pathExtAux : Bytes → Bytes → Bytes      -- reversed rest, bytes seen so far (in order)
  | [], _ => []
  | c :: r, acc => if c = 47 then [] else if c = 46 then 46 :: acc else pathExtAux r (c :: acc)

def pathExt (p : Bytes) : Bytes := pathExtAux p.reverse []

/-- `strings.TrimSuffix(s, suffix)`. -/
def trimSuffix (s suffix : Bytes) : Bytes :=
  if suffix.length ≤ s.length ∧ s.drop (s.length - suffix.length) = suffix then s.take (s.length - suffix.length) else s

/-- `strings.CutSuffix(s, suffix)`. -/
def cutSuffix (s suffix : Bytes) : Bytes × Bool :=
  if suffix.length ≤ s.length ∧ s.drop (s.length - suffix.length) = suffix then (s.take (s.length - suffix.length), true) else (s, false)

/-- `userNameRe.MatchString(s)` for the regular expression the translator understood
    (`^[first][rest]*$`, tables in Facts.lean; Go's `$` without the `m` flag is the end of the
    text; bytes ≥ 0x80 decode to runes outside both ASCII classes). -/
def userNameReMatch (s : Bytes) : Bool :=
  match s with
  | [] => false
  | c :: r => nameFirstClass.contains c.toNat && r.all fun x => nameRestClass.contains x.toNat

end Whawty.Gen
