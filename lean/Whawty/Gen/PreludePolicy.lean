/-
  Hand-written prelude of the statement-by-statement translation of `newZXCVBNPolicy`
  (cmd/whawty-auth/policy.go): the Lean meaning of `strings.Fields` and `strconv.ParseUint(s, 10, 64)`.
  Part of the trusted translator. `strings.Fields` IS the model's `Policy.fields` (proved to compute
  `strings.FieldsFunc(unicode.IsSpace)` over Go's UTF-8 decoding: `fields_is_strings_Fields`, and
  compared with Go's on every run of C17); the number parser IS the model's `Rec.parseUint64`
  (compared with Go's on every run of C02 / C17). The value on an error is not modelled (0).
-/
import Whawty.Gen.Prelude
import Whawty.Model.Policy
namespace Whawty.Gen
open Whawty

/-- `strings.Fields(s)`. -/
def stringsFields (s : Bytes) : List Bytes := Policy.fields s

/-- `strconv.ParseUint(s, 10, 64)` as (value, err != nil); only base 10 / 64 bits is in the subset. -/
def parseUint (s : Bytes) (_base _bits : Int) : Int × Bool :=
  match Rec.parseUint64 s with
  | some n => ((n : Int), false)
  | none => (0, true)

end Whawty.Gen
