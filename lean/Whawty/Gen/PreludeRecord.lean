/-
  Hand-written prelude of the statement-by-statement translations of the salt / digest decoding
  (store/userhash_argon2id.go, store/userhash_scryptauth.go): the Lean meaning of `strings.Split`
  with a one-byte separator and of `base64.URLEncoding.DecodeString`. Part of the trusted
  translator. The base64 decoder IS the model's `B64.decode` (compared with Go's on every run of
  C01 / C02 / C14: suites `b64.*`); the data result on an error is not modelled (empty).
-/
import Whawty.Gen.Prelude
import Whawty.Model.Base64
namespace Whawty.Gen
open Whawty

/-- `strings.Split(s, string(c))`: the pieces between the occurrences of the byte `c`
    (never empty: `Split("", sep)` is `[""]`). -/
def splitByte (c : Byte) : Bytes → List Bytes
  | [] => [[]]
  | x :: xs =>
    if x = c then [] :: splitByte c xs
    else
      match splitByte c xs with
      | h :: t => (x :: h) :: t
      | [] => [[x]]

/-- `strings.Split(s, sep)` for the one-byte separators of the translated subset. -/
def stringsSplit (s sep : Bytes) : List Bytes :=
  match sep with
  | [c] => splitByte c s
  | _ => [s]

/-- `base64.URLEncoding.DecodeString(s)` as (data, err != nil). -/
def b64urlDecode (s : Bytes) : Bytes × Bool :=
  match B64.decode s with
  | some d => (d, false)
  | none => ([], true)

end Whawty.Gen
