"""Per-property configuration and the runners that produce (protocol line, driver verdict)."""
import os, subprocess, shutil, concurrent.futures as cf

ROOT = os.path.dirname(os.path.dirname(os.path.abspath(__file__)))
LEAN = os.path.join(ROOT, "lean")
HARN = os.path.join(ROOT, "harness")
REPO = "/repo"
DRIVER = os.path.join(LEAN, ".lake", "build", "bin", "driver")
NPROC = os.cpu_count() or 4
GOENV = dict(os.environ, GOFLAGS="-mod=mod", GOPROXY="off", GOSUMDB="off", GOTOOLCHAIN="local")

T_GO = "Go runtime and standard library (modelled by interface, not verified)"

NOT_APPLICABLE = {}
HOOK_COMMITS = []

PROPS = {
    "C13": dict(
        modules=["Whawty.Props.C13"],
        level_text="Wire format, round trip, over-limit refusal, re-encode = consumed prefix, fragment "
                   "independence of the bufio.Scanner loop and PAM/Go encoder agreement are Lean theorems for all "
                   "byte strings and all fragmentations (induction over the scanner loop); the model is compared "
                   "with sasl.Request/Response Encode/Decode/Marshal/Unmarshal on every run.",
        suites=[("hdrv", "c13")],
        rule="Requests over the exhaustive grid {0,1,2,255,256,257}^4 of field lengths plus the 65535/65536 "
             "boundary, responses over message lengths around every limit, decoder inputs (encoder output, "
             "truncations, bit flips, insertions, raw boundary-length parts, random bytes, fuzz-corpus shapes), "
             "each decoded under several fragmentations (whole, 1-byte reads, random cuts with zero-length "
             "reads, EOF with the last data or separate).",
        trusted=[T_GO + ": bufio.Scanner (modelled explicitly in Model/Sasl.lean: decodeChunks)"],
        partial=["more than 100 consecutive zero-length reads make bufio.Scanner give up (io.ErrNoProgress); "
                 "the model takes read sequences without such runs"],
        assumptions=["streams are finite and end in EOF"],
    ),
}


class HarnessError(Exception):
    pass


def build_hdrv(workdir):
    """Rebuild the Go harness against /repo's working tree."""
    src = os.path.join(REPO, "go.sum")
    dst = os.path.join(HARN, "go.sum")
    tmp = dst + ".%d" % os.getpid()
    shutil.copyfile(src, tmp)
    os.replace(tmp, dst)
    out = os.path.join(workdir, "hdrv")
    r = subprocess.run(["go", "build", "-o", out, "./cmd/hdrv"], cwd=HARN, env=GOENV,
                       stdout=subprocess.PIPE, stderr=subprocess.STDOUT, text=True)
    if r.returncode != 0:
        raise HarnessError("go build of the harness against /repo failed:\n" + r.stdout[-3000:])
    return out


def drive(lines_path, out_path):
    with open(lines_path, "rb") as fi, open(out_path, "wb") as fo:
        r = subprocess.run([DRIVER], stdin=fi, stdout=fo, stderr=subprocess.PIPE)
    if r.returncode != 0:
        raise HarnessError("lean driver failed: " + r.stderr.decode()[-500:])


def zip_results(lines_path, out_path):
    with open(lines_path, "r", errors="replace") as fi, open(out_path, "r", errors="replace") as fo:
        for line in fi:
            line = line.rstrip("\n")
            if not line.strip():
                continue
            v = fo.readline().rstrip("\n")
            yield line, (v if v else "E driver produced no answer")


def run_hdrv(suite, tier, seed, workdir, filt):
    exe = build_hdrv(workdir)
    n = NPROC

    def shard(i):
        sw = os.path.join(workdir, "%s-shard%d" % (suite, i))
        os.makedirs(sw, exist_ok=True)
        lp = os.path.join(workdir, "%s-%d.lines" % (suite, i))
        op = os.path.join(workdir, "%s-%d.out" % (suite, i))
        with open(lp, "wb") as f:
            r = subprocess.run([exe, suite, str(seed), tier, str(i), str(n), sw], stdout=f,
                               stderr=subprocess.PIPE, env=GOENV)
        if r.returncode != 0:
            raise HarnessError("harness %s shard %d exited %d: %s" % (suite, i, r.returncode, r.stderr.decode()[-2000:]))
        if filt is not None:
            keep = [l for l in open(lp, errors="replace") if l.rstrip("\n") in filt_set]
            open(lp, "w").writelines(keep)
        drive(lp, op)
        shutil.rmtree(sw, ignore_errors=True)
        return lp, op

    filt_set = set(filt or [])
    with cf.ThreadPoolExecutor(max_workers=n) as ex:
        res = list(ex.map(shard, range(n)))
    for lp, op in res:
        yield from zip_results(lp, op)
        os.remove(lp)
        os.remove(op)


RUNNERS = {"hdrv": run_hdrv}


def run_suite(prop, tier, seed, workdir, filt=None):
    for kind, name in PROPS[prop]["suites"]:
        yield from RUNNERS[kind](name, tier, seed, workdir, filt)
