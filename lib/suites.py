"""Per-property configuration and the runners that produce (protocol line, driver verdict)."""
import os, subprocess, shutil, concurrent.futures as cf

ROOT = os.path.dirname(os.path.dirname(os.path.abspath(__file__)))
LEAN = os.path.join(ROOT, "lean")
HARN = os.path.join(ROOT, "harness")
REPO = os.environ.get("VERIF_REPO", "/repo")   # background sweeps on a snapshot set VERIF_REPO (and rewrite harness/go.mod)
DRIVER = os.path.join(LEAN, ".lake", "build", "bin", "driver")
NPROC = os.cpu_count() or 4
GOENV = dict(os.environ, GOFLAGS="-mod=mod", GOPROXY="off", GOSUMDB="off", GOTOOLCHAIN="local")

T_GO = "Go runtime and standard library (modelled by interface, not verified)"

T_CRYPTO = "x/crypto argon2 / scrypt, HMAC-SHA256, crypto/rand: digests are an uninterpreted function in the model, supplied to the driver by an oracle table the harness fills by calling x/crypto directly (never through the store package)"
T_FS = "the file system is modelled as a finite map from entry names to nodes (flat base directory); os/bufio/strconv/base64 of the Go standard library are modelled explicitly (Model/Record.lean, Model/Base64.lean)"
NOT_APPLICABLE = {}
HOOK_COMMITS = []

PROPS = {
    "C01": dict(
        modules=["Whawty.Props.C01", "Whawty.Props.GenFiles", "Whawty.Props.GenHashStr"],
        suites=[("hdrv", "c01"), ("hdrv", "c15i"), ("overlay", "v11s")],
        level_text="Store operations are pure functions on a directory map following store.go / userhash.go branch by "
                   "branch; write-then-authenticate (verdict = digest equality with the last written password, via the "
                   "proved record and base64 round trips), frame theorems for every other user, set-admin / remove "
                   "behaviour and the PBKDF2-HMAC key equivalence are Lean theorems; verdict_is_function_of_last_write: after ANY "
                   "history of successful and failed operations from a state without the user, authentication answers "
                   "exactly according to the most recent acknowledged add / update that no later removal erased "
                   "(induction over the history with the invariant Agrees); every step of generated histories "
                   "on a real store.Dir is compared with the model (pre-snapshot, operation, post-snapshot, verdicts) and "
                   "with the harness's own sequential specification.",
        rule="Histories of 10-35 (thorough: 20-140) add/update/set-admin/remove/config-change operations over 1-5 users "
             "and 2-4 cheap parameter sets of both algorithms (any default; sets withdrawn and restored), passwords of "
             "0..4096 bytes incl. ':' LF NUL and non-UTF-8, auxiliary data attached behind the store's back; after "
             "operations the near-miss family of every user's last password is probed (prefixes, extensions, case/bit "
             "flip, whitespace, truncations, trailing NULs, 64-byte padding, SHA-256 of long passwords, another user's "
             "password). Round 7: the interference suite c15i (a second process completes an operation between the probe and the first mutating call).",
        trusted=[T_CRYPTO, T_FS],
        partial=["collision resistance of the KDFs (a password with a different key never has the same digest) is a "
                 "cryptographic hypothesis; the run compares verdicts with the harness's own keyEquiv specification"],
        assumptions=["no symlinks or special files inside the base directory"],
    ),
    "C02": dict(
        modules=["Whawty.Props.C02", "Whawty.Props.GenFiles", "Whawty.Props.GenHashStr"],
        suites=[("hdrv", "c02"), ("overlay4", "v02")],
        level_text="auth_iff_record: for ANY bytes as the user's file, authentication succeeds iff the first line parses "
                   "(model of bufio.ReadString, SplitN, strconv.ParseInt/ParseUint, Go's non-strict URL base64) as a record "
                   "of a configured set with matching format id and digest equality; foreign_record_accepted uses the "
                   "model's own independent formatter; unsupported-file rules for add/update/remove, list_only_supported "
                   "(whatever the directory holds and in whatever order, List shows only files with a supported hash) and "
                   "listFull_reports_support. The real store is "
                   "run on systematically mutated files and compared with the model and with an independent schema reader.",
        rule="Per generated configuration ~300 file contents: records of the harness's own formatter (with/without aux, "
             "without newline), every field emptied / swapped pairwise, truncation at (sampled; thorough: every) length, "
             "3..7 separators, std/raw/CR-LF/non-canonical base64, digest prefixes/extension/bit flip, CR/LF/NUL insertions, "
             "other algorithm and parameter-set ids (0, unknown, +id, 0id, 2^64-1, 2^64, -1, 0x1), time-stamp edge cases, "
             "64 KiB / 1 MiB lines, random bytes; each observed with right/wrong/empty password, list, list-full, add, "
             "update, remove; ten kinds of unsupported / invalid files x both extensions also through the agent's request "
             "interface (list, list-full, add, authenticate, update, remove). Round 6: fields that are non-empty text but decode to nothing (CR only), judged also by an independent reading of the schema.",
        trusted=[T_CRYPTO, T_FS],
        assumptions=["file contents are those of regular files (FIFOs/devices would block open)"],
    ),
    "C16": dict(
        modules=["Whawty.Props.C16", "Whawty.Props.GenGrammar", "Whawty.Props.GenFiles", "Whawty.Props.GenCheckFile"],
        suites=[("hdrv", "c16"), ("overlay4", "v16cli"), ("overlay", "v11s")],
        level_text="check_exact characterises Dir.Check without reference to iteration order (proved from the fold over "
                   "readdir entries), check_perm_invariant gives order independence, init_only_on_empty and "
                   "init_produces_valid_store cover initialisation; step_preserves_valid / ops_preserve_valid: after EVERY "
                   "prefix of every history (any length, users, successful and failing operations) that never removes or "
                   "demotes the last administrator the directory passes the check, and never holds two files for one "
                   "user (induction over the history); generated directories and histories are run on the "
                   "real store and compared with the model and with an independent statement of the property.",
        rule="Directories of 0-8 entries from valid names (half of them from a family of RELATED names: P, P.doe, P.b, "
             "P.user, P.admin, P-x, P@m ... so that other users' files sort between P.admin and P.user): .user/.admin files (supported, unknown set, empty, garbage, other "
             "algorithm's format id), other extensions, sub-directories with user-file names, .tmp as directory or file, "
             "invalid-named files, double extensions; Check/List/ListFull/Exists/Init observed. Histories from an "
             "initialised store that never remove or demote the last administrator: Check, no-two-files and empty work "
             "area after every operation; for stretches of a history the work area .tmp is a regular file (every write "
             "fails after it opened / reserved its target and must change nothing). CLI gate: the built binary, ten commands x "
             "check enabled by default / by flag, disabled by flag / by environment, on valid, duplicate-pair, no-admin, "
             "stray-file and empty directories: exit status and directory digest vs the gate model. Agent level: the staged "
             "schedules of C11 (internal upgrade racing set-admin / remove / add of the same user, a third of them with "
             "2 MiB of auxiliary lines behind the records): the idle store passes the check, one file per user. Round 5: entry names with embedded line feeds and control bytes.",
        trusted=[T_CRYPTO, T_FS],
        partial=["that main.go's commands are wired to the gate as modelled (Model/Cli.lean; refuses_invalid_directory, "
                 "proceeds_only_if_valid_or_disabled) is decided by the run: the built binary on valid / invalid directories"],
    ),
    "C03": dict(
        modules=["Whawty.Props.C03", "Whawty.Props.GenGrammar", "Whawty.Props.GenFiles"],
        suites=[("hdrv", "c03"), ("hdrv", "c03tr")],
        level_text="invalid_name_noop (every operation of the repaired code fails or is a no-op on a name outside the "
                   "grammar), valid names contain no path syntax, effects of every operation are confined to "
                   "<name>.user / <name>.admin / .tmp of the directory map; the path the code computes (model of filepath.Clean / "
                   "Join, compared with the library and with the paths the real process hands to the kernel) is, for EVERY "
                   "base directory string and every valid name, the cleaned base directory plus the single component "
                   "<name><ext> (file_path_is_entry_of_base); List shows only valid names and an "
                   "invalid-named admin file never counts: Lean theorems. Against the code: all six operations on ~50 "
                   "invalid names in a sandbox with a sibling store and decoy files (whole-tree snapshots), and the same "
                   "under strace with the verified checkers `confined` / `untouchedStore` on the real path sets.",
        rule="Names: path separators, '..' segments, absolute, empty, leading - . _ @, control bytes, NUL, > NAME_MAX, "
             "aliases after cleaning, trailing newline, random strings over a separator-rich alphabet, plus valid names; "
             "x authenticate/exists/add/update/set-admin/remove; sandbox = store + sibling-store + decoys incl. "
             "<base>.admin (what the empty name would address); 4000 (60000) generated path strings through Clean / Join; "
             "traced operations on valid names with base directory strings that need cleaning (trailing and doubled "
             "slashes, x/.., ./).",
        trusted=[T_FS, "strace (ptrace) output as the record of the paths a process touched; the Go trace parser"],
        partial=["frontends are covered by C04's harness",
                 "symbolic links in the base directory path are outside the lexical path model (the kernel resolves them)"],
        assumptions=["no symlinks inside the base directory"],
    ),
    "C06": dict(
        modules=["Whawty.Props.C06"],
        suites=[("overlay", "v06"), ("overlay4", "v06c"), ("overlay-race", "v06c"), ("overlay4", "vbin")],
        level_text="The eight handlers are modelled as authorize (gate logic) + perform (store call) over an abstract "
                   "store and the ideal-AEAD session factory; refused_changes_nothing, mgmt_requires_admin_session, "
                   "update_requires, token_only_after_auth and history_closure are Lean theorems. The real mux "
                   "(newWebHandler on a real agent and store directory) is driven in-process over the endpoint x "
                   "credential x target x body-shape matrix and random sequences; every response and post-state is "
                   "compared with the model.",
        rule="7 API endpoints x 13 credential kinds (none, garbage, not base64, no colon, short nonce, expired, future, "
             "bit-flipped, other instance, user session, admin session, admin-at-login-then-demoted, forged flag) x 8 "
             "targets (self, other user, admin, non-existent, invalid names, empty) + 19 raw body shapes per endpoint "
             "(not JSON, wrong types, extra / duplicate / case-variant keys, empty and missing fields, both credentials) "
             "+ 150 (1500) random requests; expired/future tokens are sealed with the factory's own AEAD; logins under "
             "variants of an account's name (realm suffix that is itself an account or not, case, white space, NUL) with "
             "the base account's password, and what a token so obtained can do; concurrent phase: an administrator "
             "lists while an ordinary user with a same-length session tries list / set-admin / update-other / add from "
             "four goroutines for 300 ms (3 s), also in a race-detector build; 13 management requests through the "
             "running binary. Round 5/6: odd scenarios run with local hash upgrades on and the target record kept upgradeable (update queue flushed around every request); concurrent right- and wrong-password checks each judged on their own.",
        trusted=["encoding/json and net/http are transports: the model receives the decoded request fields", T_CRYPTO,
                 "AES-GCM as ideal AEAD (C07)"],
        partial=["the running binary is exercised with a small request set only (suite vbin: 13 management requests over "
                 "its HTTP listener); the full matrix runs against the same handlers in-process"],
    ),
    "C07": dict(
        modules=["Whawty.Props.C07"],
        suites=[("overlay", "v07"), ("overlay-race", "v07c")],
        level_text="The factory is modelled over an IDEAL AEAD (Open succeeds exactly on pairs it sealed): "
                   "accept_iff_issued (accept <=> the decoded halves are exactly a sealed pair whose plaintext parses "
                   "strictly and whose age is within [0, lifetime]; the returned identity is the sealed one), "
                   "plaintext parse strictness, text-layer theorem, instance binding. The real webSessionFactory is "
                   "driven in-package: every single-bit mutation, character mutations, truncations, splices, another "
                   "instance's tokens, forged-but-authentic plaintexts (sealed with the factory's own AEAD) of all ages.",
        rule="3 (thorough: 10) factory pairs x 12 (60) issued tokens + 20 authentic tokens with chosen plaintexts (ages "
             "lifetime-+4 s, future, malformed flags/time stamps, colons in the user name); per token: as issued, every "
             "bit flip of nonce||ciphertext (sampled after the second token in quick), character mutations of the text, "
             "prefix/suffix truncations, extensions, nonce lengths 0/11/13, other-instance tokens and cross-instance "
             "splices; all pairwise nonce/ciphertext splices; garbage; 2000 (20000) further issuances for nonce "
             "distinctness, sequentially and from 8 goroutines; 16 goroutines checking the tokens of 8 identities "
             "concurrently for 250 ms (3 s) — every accepted check returns the identity its own token was issued "
             "for; the concurrent part again in a binary built with the Go race detector. Round 6: material appended / prepended to either FIELD of a valid token (base64, another token's field, padding, non-base64 text); accepted_only_if_issued on the decoded fields.",
        trusted=["AES-GCM behaves as an ideal AEAD (unforgeability) and crypto/rand never repeats a 96-bit nonce: "
                 "hypotheses of the theorems, observed only", T_GO + ": encoding/base64 (modelled), strconv (modelled)"],
        partial=["nonce distinctness is a probabilistic fact about crypto/rand: observed over the run"],
        assumptions=["token ages are generated at least 3 s away from the lifetime boundary (wall-clock granularity)"],
    ),
    "C08": dict(
        modules=["Whawty.Props.C08"],
        suites=[("hdrv", "c08"), ("hdrv", "c08k"), ("hdrv", "c08r")],
        level_text="Persistence machine (file data durable at fsync, directory operations at fsync of the directory, any "
                   "subset of pending directory operations may survive, un-synced data is torn). crashAtomic_sound: the "
                   "Boolean checker implies the statement for EVERY system-call boundary and EVERY subset; "
                   "model_update_atomic / model_add_atomic: the writeHashStr protocol satisfies it for all contents. The "
                   "driver evaluates the verified checker on the REAL strace trace of every traced add/update/init and "
                   "compares the mutation skeleton with the model's.",
        rule="add / update / init in a child process under strace (write payloads captured), stores with and without "
             "auxiliary data and with or without an existing .tmp; exhaustive over all prefixes x all subsets of pending "
             "directory operations of each trace; kill replays: the real operation is re-run once per file-system call and "
             "killed with SIGKILL on entry of that call — the directory left behind is judged directly (old / new / absent "
             "or empty reservation, others untouched, residue only in .tmp, check still passes, old password works) and "
             "compared with killView of the killed run's own trace. Round 7: suite c08r — readers with their own Dir beside a writer that alternates parameter sets.",
        trusted=["the standard abstract persistence model (not a model of ext4/xfs); 'torn' over-approximates partial writes",
                 "strace output and the Go trace parser (copy_file_range and read offsets are modelled)", T_GO],
        partial=["power-loss states (lost directory operations, torn data) are the persistence model's, computed by the "
                 "verified checker from the real trace; only process kills are replayed on the real file system"],
    ),
    "C09": dict(
        modules=["Whawty.Props.C09"],
        suites=[("hdrv", "c09"), ("hdrv", "c09f"), ("hdrv", "c09r"), ("overlay", "v09u")],
        level_text="durableAtAck_sound: the checker implies that from the acknowledgement on, under every subset of "
                   "pending directory operations, the name shows exactly the acknowledged content; model theorems for "
                   "add / update / set-admin / remove of the repaired code and the negation for the pinned code (D4). "
                   "Evaluated on the real strace trace of every traced mutating operation.",
        rule="init / add / update / set-admin / remove under strace on populated stores; exhaustive over all states from "
             "the return on x all subsets of pending directory operations; fault sweep: every injectable call of add / "
             "update / set-admin / init failed in turn (ENOSPC/EIO/EACCES/EMFILE) — whenever the operation still reports "
             "success, durableAtAck is evaluated on the faulted run's trace. Round 6: suite c09r — one Dir used for a warm-up change of every kind, the base directory replaced (or not) behind its back, one more operation under strace -y: the directory fsync must reach the directory that holds the entry. Round 7: suite v09u — the agent under strace -f -y: the rewrites of local hash upgrades are fsynced before the rename, the directory after it.",
        trusted=["the standard abstract persistence model", "strace output and the Go trace parser", T_GO],
        partial=["a base directory that is replaced under a running store and the agent's own rewrites (local hash "
                 "upgrades) are judged on the real system calls (suites c09r, v09u: strace -y), not through the Lean "
                 "persistence model, which has no event for a directory that changes its name"],
    ),
    "C14": dict(
        modules=["Whawty.Props.C14", "Whawty.Props.GenSalt", "Whawty.Props.GenFiles"],
        suites=[("hdrv", "c14")],
        level_text="add/update_written_record: the installed file is exactly the schema line for the default set, now, "
                   "salt and digest (plus the old auxiliary lines); it parses back to those fields (proved codec round "
                   "trips); the bytes depend on the password only through the digest; the YAML-to-parameter mapping is "
                   "a Lean function whose result is compared with the effective parameters OBSERVED from written digests "
                   "(candidate search with x/crypto). Stores are built with store.NewDirFromConfig from generated YAML.",
        rule="Generated YAML configurations (scrypt cost 1-6 (thorough: up to 12), r absent/0/1/8/16, p absent/0/1/2, "
             "argon2id time 1-3, memory 8..1024, threads 1-4 / 17 / 32 / 255 (more than the processors the harness shard runs on: GOMAXPROCS 1, 2, 3 or all), length 4..64; 1-4 sets, any default, default switched "
             "between writes); 4-9 writes each with high-entropy passwords, a third of the updates replacing a record whose "
             "time stamp was skewed behind the store's back (+2 s .. +400 d, past, epoch, +-2^62); per write: shape, default id, time window, "
             "salt size, salt freshness, digest vs x/crypto oracle from the YAML values, observed effective parameters, "
             "search for passwords and HMAC keys (raw, base64 std/url/raw, hex) in every file of the directory.",
        trusted=[T_CRYPTO, "yaml.v3", T_FS],
        partial=["freshness / unpredictability of salts (crypto/rand) is observed (pairwise distinct within a run), not proved"],
    ),
    "C17": dict(
        modules=["Whawty.Props.C17", "Whawty.Props.GenPolicyCond"],
        suites=[("overlay", "v17")],
        level_text="The policy gate in front of init/add/update is modelled with the zxcvbn estimate as a parameter: "
                   "store_change_implies_policy, refusal_changes_nothing, policy_ok_not_refused; condition_parser_exact "
                   "characterises newZXCVBNPolicy over a model of strings.Fields that is exact for every Go string (Unicode white "
                   "space, invalid UTF-8; fields_are_words, fields_fuel_irrelevant, parsed_condition_has_three_words) and is "
                   "PROVED to be strings.FieldsFunc(s, unicode.IsSpace) over Go's rune decoding "
                   "(fields_is_strings_Fields; Model/Utf8.lean: decodeRune, isSpaceRune, fieldsRune); "
                   "bad_policy_stops_agent. Against the code: strings.Fields, utf8.DecodeRuneInString and "
                   "unicode.IsSpace themselves vs the model (6000 (120000) byte strings, every rune up to U+3100 and a "
                   "stride above); the real parser and "
                   "NewStore on ~500 condition strings x 5 policy types; all write paths (agent interface, HTTP add, "
                   "HTTP update by admin / by the user's session / by old password, CLI binary add/update/init) on real "
                   "agents with thresholds placed around the observed estimate, compared with zxcvbn-go called directly.",
        rule="Condition strings from a grammar mutator (kinds, operators, thresholds incl. 2^64-1/2^64/negative/float, "
             "ASCII and Unicode white-space variants incl. every white-space rune, near misses, truncated and overlong "
             "spellings, extra fields); 6 (40) agents x 60 (300) writes of 51 passwords (dictionary "
             "words, user-name derived, strong, 257..400-byte weak runs, and transformation-sensitive ones: a weak body with a dictionary word "
             "straddling byte 8..128, a weak run followed by a strong tail, white-space / case / NUL variants) through "
             "10 write paths. Round 5/6: a sweep of agents over every transformation-sensitive password x kind x borderline threshold; the CLI takes the policy from flags, from the environment, or from both (lax environment); condition_accepted_iff_wellformed on the real constructor.",
        trusted=["zxcvbn-go's estimate (score, entropy, crack time) is a parameter of the model", T_CRYPTO],
    ),
    "C18": dict(
        modules=["Whawty.Props.C18", "Whawty.Props.C18Reload", "Whawty.Props.GenArgon"],
        suites=[("hdrv", "c18"), ("overlay", "v18")],
        level_text="loader_exact: the model of fromConfig accepts exactly the well-formed decoded configurations; accepted "
                   "argon2id / scrypt sets lie inside the primitives' domains (repaired constructor). Generated YAML "
                   "documents (mutations of valid ones) are loaded with store.NewDirFromConfig and compared with the "
                   "model on the harness's own strict decoding; accepted sets are exercised (hash + verify) under recover. Reload: "
                   "store.reload is modelled on top of the dispatcher's transition system (all-or-nothing over whole runs, "
                   "queues and waiting clients untouched) and every real SIGHUP scenario is compared with the model.",
        rule="Documents derived from valid ones by 0-3 mutations: field deletion, duplication, type change, unknown keys at "
             "three levels, numeric edge values (0,1,31,32,255,256,2^32-1,2^32,2^64-1,2^64,-1,1.5,strings,lists,maps), "
             "both/no algorithm, HMAC key variants, duplicate ids and top-level keys, default 0/missing/undefined. Round 4/6: reload scenarios without a hooks directory and with up to seven signals; numeric edges for narrow fields (multiples of 256 for threads), mostly one fault per generated document.",
        trusted=["yaml.v3 (KnownFields) decides decodability: modelled as an interface", T_CRYPTO],
        partial=["the reload step is a model of its own (Model/Reload.lean: the live configuration is replaced as a whole, only "
                 "when the file loaded and its directory passed the check; reload_all_or_nothing, reload_no_mixture, "
                 "live_is_initial_or_offered over whole runs, reload_preserves_requests, agent_component_reachable); that the "
                 "real reload is this step is decided by the run (real SIGHUPs to a real agent in upgrade modes off / local / "
                 "remote, 12 kinds of new configuration, free-running clients in flight, and a staged phase in which the "
                 "dispatcher is held while an update, a login, a list and a failing update are queued and the signal arrives): the swap is a single pointer assignment in the code, which the model "
                 "does not add anything to",
                 "memory exhaustion for huge cost/memory values is a run-time fact outside the model"],
    ),
    "C15": dict(
        modules=["Whawty.Props.C15", "Whawty.Props.GenFiles"],
        suites=[("hdrv", "c15ro"), ("hdrv", "c15f"), ("hdrv", "c15i"), ("hdrv", "c01")],
        level_text="Frame theorems (update preserves auxiliary data and every other entry byte for byte, set-admin moves "
                   "the node), protocol-level fault analysis of writeHashStr (every stop before the rename + deferred "
                   "cleanup leaves every name as it was, for all contents; pinned add leaves the reservation: D7). "
                   "Against the code: snapshots around every call of generated histories, EVERY single system-call "
                   "failure (strace fault injection) in every mutating operation, read-only calls under strace.",
        rule="(a) histories of C01 with auxiliary data of all shapes; (b) per mutating operation the baseline trace, "
             "then one re-run per (injectable call, errno in ENOSPC/EIO/EACCES/EMFILE) with strace -e inject; (c) "
             "authenticate/exists/list/list-full/check under strace: no mutating event; (d) operations that fail because "
             "another process completed an add / remove / set-admin / update of the same user between the existence "
             "probe and the first mutating call (interfering hasher), or because the name is occupied by a dangling "
             "symbolic link: the directory must be exactly as it was at that moment. Round 7: a parameter set that cannot hash (Generate fails).",
        trusted=[T_FS, "strace fault injection lands on the intended call (verified per run by the INJECTED tag)", T_CRYPTO],
        partial=["failed_op_changes_nothing holds only up to the commit point: see known finding D10 (error-after-commit)"],
    ),
    "C04": dict(
        modules=["Whawty.Props.C04"],
        suites=[("overlay", "v04"), ("overlay4", "vbin")],
        level_text="Each frontend is transport decoding composed with the store verdict: sasl_front, basic_front (split "
                   "at the first colon), ldap_front (bind name up to the first '@'), api_front; error_is_denial. Lean "
                   "theorems over the WebApi model. The real callback, a real saslauthd socket served by the agent, the "
                   "real mux (basic-auth, /api/authenticate), ldapHandler.Bind, simple binds over a real LDAP listener served by "
                   "runLDAPListener (BER over TCP) and the built binary's authenticate "
                   "command are compared with store.Dir.Authenticate on the same directory.",
        rule="Two (six) agents: upgrades off, and local upgrades + zxcvbn policy with every record under the non-default set "
             "(logins trigger internal upgrades that succeed for some users and are refused by the policy for others); "
             "realm-suffixed forms of existing names with the BASE user's password; 700 (6000) credential pairs over 32 names (existing users incl. names with '@', 255/256/257-byte passwords, "
             "case/space variants, path aliases, bind-name forms) x right password / near misses (case, trim, truncation, "
             "NUL, up to the first colon) / another user's password / empty / random bytes; 12 users with passwords "
             "special in one transport (':' , non-BMP, JSON escapes, whitespace, NUL, invalid UTF-8). Round 5/6: a user's administrator flag toggled while four workers log her in through every frontend; every request method, unrelated headers, the full CORS-preflight shape and other Authorization schemes on /basic-auth.",
        trusted=["encoding/json, net/http (BasicAuth parsing), glauth/ldap BER decoding, urfave/cli are transports "
                 "trusted to be identity on their domains (tested, not proved)", T_CRYPTO],
        partial=["listener combinations (TLS, socket activation) of the running binary are not enumerated"],
    ),
    "C05": dict(
        modules=["Whawty.Props.C05", "Whawty.Props.GenCodec", "Whawty.Props.GenScan", "Whawty.Props.GenCodecFn"],
        suites=[("hdrv+pam", "c05"), ("overlay4", "v10fd")],
        level_text="handleConnection is modelled as decode (the C13 scanner model) -> callback at most once -> one "
                   "clipped reply -> close; callback-at-most-once with exactly the decoded fields, positive-only-if, "
                   "exactly one decodable reply (Go client model and PAM model both read the verdict) and fragmentation "
                   "irrelevance are theorems for every byte stream, fragmentation, callback outcome and message; the "
                   "real sasl.Server is driven over a unix socket (raw client, concurrent batches of 64) and every "
                   "reply is also fed to the compiled PAM module.",
        rule="Connections to a real sasl.NewServer: encoder output, truncations, trailing bytes, over-long length "
             "fields, garbage, empty login/password, bit flips, doubled requests; random fragmentations with pauses, "
             "half-close or full close; callback outcomes ok/deny/error with message lengths 0..3, 252..257, "
             "65530..65540 and arbitrary bytes; 64 concurrent connections with distinct logins. Round 5: callbacks that take 7 s (35 s) and clients that pause that long inside a request run beside the batches; clients carry a write deadline.",
        trusted=[T_GO + ": net (unix sockets), bufio.Scanner (modelled)", "Linux-PAM itself is replaced by stub headers"],
        partial=["a client that stalls without closing keeps its handler blocked (no deadline in the code): streams are "
                 "taken to be finite", "non-interference between connections is observed (distinct logins, concurrent "
                 "batches), not proved about the Go scheduler"],
        assumptions=["client streams are finite"],
    ),
    "C19": dict(
        modules=["Whawty.Props.C19"],
        suites=[("overlay4", "v19")],
        level_text="HooksCaller.run is a timed transition system: the timer is armed exactly while notifications are "
                   "pending (invariant over all event sequences), no_change_unnotified, burst_coalesced (no round before "
                   "the armed deadline, then exactly one trailing round), race_both_orders, eligibility_exact, "
                   "notify_only_on_success (dispatcher model), hookLogOk_sound. Real HooksCaller instances with a 400 ms "
                   "rate limit run real hook scripts that log time stamp, argv and WHAWTY_AUTH_STORE; the verified "
                   "checker judges the real log, the model predicts the number of rounds, and every file-type x "
                   "permission class is tried; notifications through a real agent for successful and failed operations.",
        rule="Timing patterns 0/1/2/many notifications per interval, bursts, two intervals, notifications within +-20 ms of "
             "the timer, random gaps; hooks directories 0755/0700/0775/0777/0757/0752 x 16 entries (regular 0755..0000, "
             "single execute bits, hidden, setuid, symlinks to executable / non-executable / missing targets, hidden "
             "symlink, sub-directory); agent operations add/update/set-admin/remove succeeding and failing; three hanging "
             "hooks (the agent's own environment carries another WHAWTY_AUTH_STORE); hooks (a sleeper, a shell ignoring TERM/HUP/INT/QUIT, a shell blocking them and waiting for a child) "
             "started through a real agent: answered at once, alive after 10 s, gone after the one-minute limit.",
        trusted=["real time, process start latency (tolerance 150 ms), /bin/sh and date in the hook scripts"],
        partial=["the one-minute kill and 'never delays the agent' are run-time facts: observed on every run (the check "
                 "therefore takes ~70 s), not proved"],
    ),
    "C20": dict(
        modules=["Whawty.Props.C20", "Whawty.Props.GenCodec"],
        suites=[("hdrv+pam", "c20")],
        level_text="Hand model of _whawty_get_password / _whawty_send_request / _whawty_read_data / "
                   "_whawty_recv_response / _whawty_check_password over a script of what select()/read() observe; "
                   "success-iff-reply-begins-with-OK (complete functional spec of the reply handling), request "
                   "well-formedness (= Go encoder on clipped C strings), non-success for every other behaviour and a "
                   "bound on select/read rounds are theorems; pam_whawty.c is compiled unmodified with ASan+UBSan and "
                   "run against a scripted unix-socket server.",
        rule="pam_sm_authenticate conversations: users/passwords of length 0,1,2,8,255,256,257,300,4096 and random "
             "short ones (bytes 1..255, sometimes an embedded NUL), option sets, server scripts: whole replies "
             "(OK/NO with messages, near misses of OK, wrong announced lengths, over-long), replies cut at a random "
             "byte then close/reset, 1-byte dribble, header/body split, trailing bytes, silence and late answers "
             "beyond the 1 s timeout, early close, reset, unreachable socket, no password available; NUL-free replies of "
             "252..4000 bytes (announced length = body, 256, 257, 258, 65535) under the option sets that log the reply; a "
             "signal interrupting the wait for the reply (before any byte / between header and body, then answer, "
             "silence, close or reset), signals every 150 ms for 6 s during silence (the call must still end: law on the "
             "elapsed time, bound 5 s for a 1 s timeout); a fifth of all cases entered with a stale EINTR in the caller's errno. Round 5/6: printf directives in every logged datum (reply, user name, module argument); values of the timeout option that must be ignored or are small.",
        trusted=["C compiler and libc; Linux-PAM replaced by stub headers (pam_get_user/pam_get_item/pam_prompt)",
                 "ASan/UBSan as the memory-error oracle"],
        partial=["memory safety and wall-clock bounds are run-time facts: observed with ASan/UBSan and the harness "
                 "watchdog (8 s), not proved", "select() with descriptors >= FD_SETSIZE and select() errors other than "
                 "EINTR are outside the model"],
        assumptions=["the module timeout is 1 s in the harness; delays are chosen away from it (<= 400 ms or >= 1.7 s)"],
    ),
    "C10": dict(
        modules=["Whawty.Props.C10"],
        suites=[("overlay", "v10"), ("overlay", "v10adv"), ("overlay", "v10ab"), ("overlay4", "v10fd"), ("overlay", "v10h")],
        level_text="The dispatcher, its request channels, the upgrade queue and the hooks notification channel are a "
                   "labelled transition system with one executable successor function; dispatcher_never_stuck (no "
                   "reachable dispatcher deadlock for modes off / remote / local-with-non-blocking-enqueue, ALL "
                   "capacities, client counts and interleavings), FIFO progress, responses to own client; and for the "
                   "pinned blocking enqueue: deadlock_reached + stuck_forever (D5). The real agent is single-stepped "
                   "through a gate Hasher: the observed execution order is replayed as a path of the transition system.",
        rule="Schedules: the dispatcher is held inside a login, then a batch (0/3/9/10/11/14 updates x 1-4 logins with "
             "upgradeable or current hashes, wrong passwords, adds) is launched and the dispatcher released one hasher "
             "call at a time; modes off / local / remote with an unreachable and with a stalled (never answering) master; "
             "watchdog 1.5 s (thorough 5 s) per step with a goroutine dump of the dispatcher; afterwards a probe request; "
             "log-point adversary and stress runs; abandoned clients: 1-6 complete requests on /api/authenticate, "
             "/basic-auth and the saslauthd socket whose clients disconnect while the dispatcher is held, then probes "
             "on the agent interface and the socket; descriptor exhaustion: RLIMIT_NOFILE lowered, the table filled, clients "
             "connect with exactly one free descriptor (accept fails with EMFILE), then everything is released and both "
             "the saslauthd socket and the HTTP listener must answer. Round 7: suite v10h — the hooks rate limiter through bursts, quiet periods and more changes than the notification channel holds.",
        trusted=[T_GO + ": channel semantics (FIFO, blocking send on a full channel, select/default) are what the "
                 "transition system encodes", T_CRYPTO],
        partial=["'eventually' needs fairness of Go's select and the OS scheduler: runtime hypotheses; the run observes "
                 "completion under a watchdog", "hooks that hang are covered by C19's harness"],
    ),
    "C11": dict(
        modules=["Whawty.Props.C11"],
        suites=[("overlay", "v11"), ("overlay", "v11g"), ("overlay", "v11s"), ("overlay", "v11i"), ("overlay-race", "v11")],
        level_text="linCheckFinal (memoised Wing-Gong search, re-validated by validLin and the final-state test) is sound: an accepted history has a "
                   "linearization that contains every operation, respects real time and reproduces every response "
                   "(validLin_spec) and ends in the observed idle store; a rejection by the exhaustive search is conclusive "
                   "(rejection_is_conclusive: no order at all is a linearization — completeness by induction over the "
                   "order, with a pigeonhole lemma); an internal upgrade of the repaired code leaves the abstract store unchanged "
                   "(upgrade_preserves_spec), the pinned one reverts passwords (D6). Real concurrent histories of the "
                   "agent (free-running clients with logical time stamps) are checked, and gated schedules whose exact "
                   "execution order is observed are replayed in that order; final directory = final abstract state.",
        rule="(a) 80 (2000) free-running histories: 2-6 client goroutines x 1-3 calls (authenticate / update / add / "
             "remove / set-admin / list) on 4 overlapping users, upgrades off and local (records re-hashed under a "
             "non-default set so that logins queue upgrades); (b) 48 (800) gated schedules of the D6 family (upgradeable "
             "logins and updates of the same users in flight together); (c) 192 (3200) staged schedules: the dispatcher is "
             "stepped into an upgradeable login while remove+add / update / remove / set-admin+update of the SAME user "
             "are already queued, so that the internal upgrade races with them under the dispatcher's random select. "
             "The linearization must also END in the observed idle state (linCheckFinal); (d) the free-running histories "
             "again in a binary built with the Go race detector (a reported race is a violation); (e) invariant stress: one "
             "client flips a user's admin flag, one adds / removes another user, five read (login, list, list-full) for "
             "150 ms (600 ms): every correct-password login succeeds and every listing shows the user. After quiescence the directory (users, admin "
             "flags, which known password authenticates) must equal the linearization's final state and pass Check.",
        trusted=[T_GO, T_CRYPTO, "logical clocks (one atomic counter) for invocation / response order"],
        partial=["histories longer than 10 operations that the memoised search rejects are reported as a correspondence "
                 "disagreement (the exhaustive, provably complete search `notLinearizable` confirms rejections up to 10 "
                 "operations: rejection_is_conclusive)", "cross-talk between SASL connections is covered by C05's concurrent batches"],
    ),
    "C12": dict(
        modules=["Whawty.Props.C12"],
        suites=[("overlay", "v12"), ("overlay", "v11s")],
        level_text="upgradeable_iff (reported upgradeable exactly when the record's parameter set differs from the "
                   "default), upgrade_same_password (the repaired upgrade step = re-authenticate, then update: the record is "
                   "untouched or rewritten under the default set with exactly the same accepted passwords, admin flag "
                   "and — with C15 — auxiliary lines; other users untouched), converges, failed logins and mode off "
                   "never write: Lean theorems over the store model and the dispatcher model. Real agents in modes off / "
                   "local / remote (second in-process agent as master) are driven through logins; every observed "
                   "rewrite is compared with the model's update.",
        rule="24 (300) agents: default set 1 or 2 (scrypt / argon2id), records of four users re-hashed under the other "
             "set at random, auxiliary data of three shapes attached, optional zxcvbn policy that one user's password "
             "fails; 8 logins each with right / wrong passwords; the directory is polled on the otherwise idle agent; in "
             "half of the local-mode agents a saturation prelude first serves upgradeable logins while the update queue "
             "is full (their upgrade requests are dropped) and the idle logins afterwards must still upgrade; in half of the "
             "remote-mode agents the master's front end answers 503 to fourteen upgrade requests first and the idle "
             "logins afterwards must get the master's records upgraded; "
             "digests recomputed with x/crypto. Round 4/5/6: work area on another file system, staged schedules (v11s), a parameter set with the same numbers under another id.",
        trusted=[T_CRYPTO, T_GO, "zxcvbn-go"],
        partial=["'on an otherwise idle agent the rewrite does happen' is observed with a 400 ms wait (scheduling), not proved"],
    ),
    "C13": dict(
        modules=["Whawty.Props.C13", "Whawty.Props.GenCodec", "Whawty.Props.GenScan", "Whawty.Props.GenCodecFn", "Whawty.Props.GenCodecRoundTrip"],
        level_text="Wire format, round trip, over-limit refusal, re-encode = consumed prefix, fragment "
                   "independence of the bufio.Scanner loop and PAM/Go encoder agreement are Lean theorems for all "
                   "byte strings and all fragmentations a reader that makes progress produces (induction over the scanner "
                   "loop; bufio's guard against 101 zero-length reads in a row is part of the model: decodeScan, "
                   "stalled_reader_is_refused, chunked_result_is_stream_result — the guard can only turn a result "
                   "into an error); the model is compared with sasl.Request/Response Encode/Decode/Marshal/Unmarshal on every run.",
        suites=[("hdrv", "c13"), ("hdrv+pam", "c13pam")],
        rule="Requests over the exhaustive grid {0,1,2,255,256,257}^4 of field lengths plus the 65535/65536 "
             "boundary, responses over message lengths around every limit, decoder inputs (encoder output, "
             "truncations, bit flips, insertions, raw boundary-length parts, random bytes, fuzz-corpus shapes), "
             "each decoded under several fragmentations (whole, 1-byte reads, random cuts with zero-length "
             "reads, runs of 99/100/101/150 zero-length reads at the start, inside a length prefix, inside a field, "
             "at the end, EOF with the last data or separate); a sixth of the encodes are preceded by an encode of another "
             "message into a writer that breaks after 0-5 bytes (the output may not depend on it). Round 5: the wire format stated on the encoders' own bytes (wire_format_request / wire_format_response).",
        trusted=[T_GO + ": bufio.Scanner (modelled explicitly in Model/Sasl.lean: decodeScan)"],
        assumptions=["streams are finite and end in EOF"],
    ),
}


class HarnessError(Exception):
    pass


def build_hdrv(workdir):
    """Rebuild the Go harness against /repo's working tree."""
    src = os.path.join(REPO, "go.sum")
    dst = os.path.join(HARN, "go.sum")
    tmp = dst + ".%d" % os.getpid()
    shutil.copyfile(src, tmp)
    os.replace(tmp, dst)
    out = os.path.join(workdir, "hdrv")
    r = subprocess.run(["go", "build", "-o", out, "./cmd/hdrv"], cwd=HARN, env=GOENV,
                       stdout=subprocess.PIPE, stderr=subprocess.STDOUT, text=True)
    if r.returncode != 0:
        raise HarnessError("go build of the harness against /repo failed:\n" + r.stdout[-3000:])
    return out


def drive(lines_path, out_path):
    with open(lines_path, "rb") as fi, open(out_path, "wb") as fo:
        r = subprocess.run([DRIVER], stdin=fi, stdout=fo, stderr=subprocess.PIPE)
    if r.returncode != 0:
        raise HarnessError("lean driver failed: " + r.stderr.decode()[-500:])


def zip_results(lines_path, out_path):
    with open(lines_path, "r", errors="replace") as fi, open(out_path, "r", errors="replace") as fo:
        for line in fi:
            line = line.rstrip("\n")
            if not line.strip():
                continue
            v = fo.readline().rstrip("\n")
            yield line, (v if v else "E driver produced no answer")


def build_pamdrv(workdir):
    """pam_whawty.c of the working tree, unmodified, against stub PAM headers, ASan + UBSan."""
    out = os.path.join(workdir, "pamdrv")
    pamdir = os.path.join(HARN, "pam")
    r = subprocess.run(["clang", "-g", "-O1", "-fsanitize=address,undefined", "-fno-sanitize-recover=undefined",
                        "-fno-omit-frame-pointer", "-I" + os.path.join(pamdir, "stub"), "-o", out,
                        os.path.join(pamdir, "pamdrv.c"), os.path.join(REPO, "pam", "pam_whawty.c"), "-lpthread"],
                       stdout=subprocess.PIPE, stderr=subprocess.STDOUT, text=True)
    if r.returncode != 0:
        raise HarnessError("clang build of pam_whawty.c + harness failed:\n" + r.stdout[-3000:])
    return out


def script_begins_ok(case):
    script = case.split()[4]
    data = b""
    for a in script.split(";"):
        if a.startswith("W"):
            data += bytes.fromhex(a[1:])
        elif a.startswith("S") and int(a[1:]) >= 1000 or a in ("C", "X", "N"):
            break
    return len(data) >= 4 and data[2:4] == b"OK" and min(data[0] * 256 + data[1], 256) >= 2


def run_pam_lines(pamdrv, plines, sw):
    """plines: '@pam <case> [expect=..] [expectsent=..] [law=..]'. Returns protocol lines."""
    cases, metas = [], []
    for l in plines:
        toks = l.split()[1:]
        meta = {t.split("=", 1)[0]: t.split("=", 1)[1] for t in toks[5:] if "=" in t}
        cases.append(" ".join(toks[:5]))
        metas.append(meta)
    out = []
    env = dict(os.environ, ASAN_OPTIONS="detect_leaks=1:abort_on_error=0:exitcode=77", UBSAN_OPTIONS="print_stacktrace=1")
    idx = 0
    while idx < len(cases):
        r = subprocess.run([pamdrv, sw], input="\n".join(cases[idx:]) + "\n", stdout=subprocess.PIPE,
                           stderr=subprocess.PIPE, text=True, env=env, timeout=1800)
        got = [x for x in r.stdout.split("\n") if " => " in x]
        for g in got:
            meta = metas[idx]
            real = g.split(" => ", 1)[1].split()
            if real and real[0] == "hang":
                # the harness watchdog: pam_sm_authenticate did not return within 8 s (module timeout: 1 s)
                out.append("law.C20.returns_within_bounded_time %s => f" % cases[idx])
                idx += 1
                continue
            # the elapsed time of the call (module timeout 1 s; the scripts never legitimately need more than
            # two waits): strip it from the protocol line, judge it here
            ms = None
            if real and real[-1].startswith("ms="):
                ms = int(real[-1][3:])
                g = g.rsplit(" ms=", 1)[0]
                real = real[:-1]
            out.append(g)
            if ms is not None and ms > 5000:
                out.append("law.C20.returns_within_bounded_time took=%dms %s => f" % (ms, cases[idx]))
            if "expect" in meta:
                out.append("law.%s %s => %s" % (meta.get("law", "C05.pam_reads_verdict"), cases[idx],
                                                 "t" if real and real[0] == meta["expect"] else "f"))
            if "expectsent" in meta:
                out.append("law.%s %s => %s" % (meta.get("sentlaw", "C13.pam_encoder_agrees"), cases[idx],
                           "t" if len(real) > 1 and real[1] == meta["expectsent"] else "f"))
            # C20, statement of success_only_on_ok on the real module: PAM_SUCCESS only if the bytes the
            # scripted server delivered (before any silence > timeout / close) begin with <len>"OK", len >= 2
            if real and real[0] == "0":
                out.append("law.C20.success_only_on_ok %s => %s" % (cases[idx], "t" if script_begins_ok(cases[idx]) else "f"))
            idx += 1
        if r.returncode == 78:
            continue  # watchdog exit: reported above, go on with the remaining cases
        if r.returncode != 0 or idx < len(cases) and not got:
            # sanitizer report or crash while running case idx
            if idx < len(cases):
                why = (r.stderr or "")[-600:].replace("\n", " | ")
                out.append("law.C20.no_memory_error_or_crash %s exit=%d %s => f" % (cases[idx], r.returncode, why))
                idx += 1
            elif r.returncode != 0:
                why = (r.stderr or "")[-600:].replace("\n", " | ")
                out.append("law.C20.no_memory_error_or_crash at-exit exit=%d %s => f" % (r.returncode, why))
    return out


def run_hdrv(suite, tier, seed, workdir, filt, pam=False):
    exe = build_hdrv(workdir)
    pamdrv = build_pamdrv(workdir) if pam else None
    n = NPROC

    def shard(i):
        sw = os.path.join(workdir, "%s-shard%d" % (suite, i))
        os.makedirs(sw, exist_ok=True)
        lp = os.path.join(workdir, "%s-%d.lines" % (suite, i))
        op = os.path.join(workdir, "%s-%d.out" % (suite, i))
        with open(lp, "wb") as f:
            # the processor count the Go runtime sees differs between shards (1, 2, 3, all): nothing the
            # store writes or decides may depend on it
            env = dict(GOENV)
            if i % 4:
                env["GOMAXPROCS"] = str(i % 4)
            r = subprocess.run([exe, suite, str(seed), tier, str(i), str(n), sw], stdout=f,
                               stderr=subprocess.PIPE, env=env)
        if r.returncode != 0:
            raise HarnessError("harness %s shard %d exited %d: %s" % (suite, i, r.returncode, r.stderr.decode()[-2000:]))
        # stream (thorough runs produce gigabytes): @pam lines are collected, everything else is copied
        plines = []
        lp2 = lp + ".2"
        with open(lp, errors="replace") as fi, open(lp2, "w") as fo:
            for l in fi:
                l = l.rstrip("\n")
                if not l.strip():
                    continue
                if l.startswith("@pam "):
                    plines.append(l)
                elif filt is None or l in filt_set:
                    fo.write(l + "\n")
            if plines:
                if not pamdrv:
                    raise HarnessError("suite %s emitted @pam lines but was not configured with the PAM harness" % suite)
                for l in run_pam_lines(pamdrv, plines, sw):
                    if l.strip() and (filt is None or l in filt_set):
                        fo.write(l + "\n")
        os.replace(lp2, lp)
        drive(lp, op)
        shutil.rmtree(sw, ignore_errors=True)
        return lp, op

    filt_set = set(filt or [])
    with cf.ThreadPoolExecutor(max_workers=n) as ex:
        res = list(ex.map(shard, range(n)))
    for lp, op in res:
        yield from zip_results(lp, op)
        os.remove(lp)
        os.remove(op)


def run_hdrv_pam(suite, tier, seed, workdir, filt):
    yield from run_hdrv(suite, tier, seed, workdir, filt, pam=True)


def build_agent_test(workdir, race=False):
    """`go test -c -overlay`: the test files of harness/overlay are compiled INTO package main of
    /repo/cmd/whawty-auth (working tree) without touching /repo. race=True: with the Go race detector."""
    import json, glob
    ov = {"Replace": {}}
    for f in sorted(glob.glob(os.path.join(HARN, "overlay", "*_test.go"))):
        ov["Replace"][os.path.join(REPO, "cmd", "whawty-auth", os.path.basename(f))] = f
    ovf = os.path.join(workdir, "overlay.json")
    json.dump(ov, open(ovf, "w"))
    out = os.path.join(workdir, "agent.race.test" if race else "agent.test")
    r = subprocess.run(["go", "test", "-c", "-vet=off"] + (["-race"] if race else []) + ["-overlay", ovf, "-o", out, "./cmd/whawty-auth"], cwd=REPO, env=GOENV,
                       stdout=subprocess.PIPE, stderr=subprocess.STDOUT, text=True)
    if r.returncode != 0 or not os.path.exists(out):
        raise HarnessError("go test -c -overlay of cmd/whawty-auth failed:\n" + r.stdout[-3000:])
    return out


def build_agent_bin(workdir):
    out = os.path.join(workdir, "whawty-auth")
    r = subprocess.run(["go", "build", "-o", out, "./cmd/whawty-auth"], cwd=REPO, env=GOENV,
                       stdout=subprocess.PIPE, stderr=subprocess.STDOUT, text=True)
    if r.returncode != 0:
        raise HarnessError("go build of cmd/whawty-auth failed:\n" + r.stdout[-3000:])
    return out


def run_overlay(suite, tier, seed, workdir, filt, nshards=None, race=False):
    exe = build_agent_test(workdir, race)
    agent_bin = build_agent_bin(workdir)
    n = nshards or NPROC

    def shard(i):
        sw = os.path.join(workdir, "%s-shard%d" % (suite, i))
        os.makedirs(sw, exist_ok=True)
        lp = os.path.join(workdir, "%s-%d.lines" % (suite, i))
        op = os.path.join(workdir, "%s-%d.out" % (suite, i))
        env = dict(GOENV, VERIF_SUITE=suite, VERIF_SEED=str(seed), VERIF_TIER=tier, VERIF_SHARD=str(i),
                   VERIF_NSHARDS=str(n), VERIF_WORK=sw, VERIF_OUT=lp, VERIF_BIN=agent_bin)
        env.pop("WHAWTY_AUTH_DEBUG", None)
        if race:
            env["GORACE"] = "halt_on_error=1 exitcode=66"
        r = subprocess.run([exe, "-test.run", "^TestVerif$", "-test.count=1", "-test.timeout=%s" % ("40m" if tier == "thorough" else "12m")], cwd=sw, env=env,
                           stdout=subprocess.PIPE, stderr=subprocess.STDOUT, text=True)
        extra = []
        if not os.path.exists(lp):
            open(lp, "w").close()
        if r.returncode != 0:
            lines = extra
            # a panic / deadlock / test failure in the real code under the harness is an observation
            tail = " | ".join(r.stdout.strip().split("\n")[-12:])[:1500].replace(" => ", " -> ")
            if race and r.returncode == 66:
                tail = " | ".join([l for l in r.stdout.split("\n") if l.strip()][:40])[:2500].replace(" => ", " -> ")
                lines.append("law.%s.no_data_race shard=%d %s => f" % (suite, i, tail))
            else:
                lines.append("law.%s.agent_harness_completes shard=%d exit=%d %s => f" % (suite, i, r.returncode, tail))
        if filt is not None or extra:
            lp2 = lp + ".2"
            with open(lp, errors="replace") as fi, open(lp2, "w") as fo:
                for l in fi:
                    if l.strip() and (filt is None or l.rstrip("\n") in filt_set):
                        fo.write(l if l.endswith("\n") else l + "\n")
                for l in extra:
                    if filt is None or l in filt_set:
                        fo.write(l + "\n")
            os.replace(lp2, lp)
        drive(lp, op)
        shutil.rmtree(sw, ignore_errors=True)
        return lp, op

    filt_set = set(filt or [])
    with cf.ThreadPoolExecutor(max_workers=n) as ex:
        res = list(ex.map(shard, range(n)))
    for lp, op in res:
        yield from zip_results(lp, op)
        os.remove(lp)
        os.remove(op)


def run_overlay4(suite, tier, seed, workdir, filt):
    yield from run_overlay(suite, tier, seed, workdir, filt, nshards=4)


def run_overlay_race(suite, tier, seed, workdir, filt):
    """The same suite in a binary built with the Go race detector (4 shards): a reported data race in
    the agent's code is an observation (`law.<suite>.no_data_race ... => f`)."""
    yield from run_overlay(suite, tier, seed + 7919, workdir, filt, nshards=4, race=True)


RUNNERS = {"hdrv": run_hdrv, "hdrv+pam": run_hdrv_pam, "overlay": run_overlay, "overlay4": run_overlay4,
           "overlay-race": run_overlay_race}


def run_suite(prop, tier, seed, workdir, filt=None):
    for kind, name in PROPS[prop]["suites"]:
        yield from RUNNERS[kind](name, tier, seed, workdir, filt)
