package main

import (
	"bytes"
	"fmt"
	"strings"

	"github.com/whawty/auth/sasl"
	"whawty-verif/harness/internal/rng"
)

// C string: bytes without NUL (mostly); the model clips at the first NUL itself.
func cBytes(r *rng.R, n int, allowNul bool) []byte {
	b := make([]byte, n)
	for i := range b {
		switch r.Intn(3) {
		case 0:
			b[i] = byte(33 + r.Intn(94))
		default:
			b[i] = byte(1 + r.Intn(255))
		}
	}
	if allowNul && n > 0 && r.Intn(12) == 0 {
		b[r.Intn(n)] = 0
	}
	return b
}

func cLen(b []byte) int {
	if i := bytes.IndexByte(b, 0); i >= 0 {
		return i
	}
	return len(b)
}

func reqLen(u, p []byte) int { return 8 + min(cLen(u), 256) + min(cLen(p), 256) }

func (c *ctx) pam(u, p []byte, opts, script, extra string) {
	fmt.Fprintf(c.w, "@pam pam.auth %s %s %s %s %s\n", xb(u), xb(p), opts, script, extra)
	c.n++
}

func replyBytes(r *rng.R) []byte {
	var t []byte
	switch r.Intn(10) {
	case 0:
		t = []byte("OK")
	case 1:
		t = []byte("NO")
	case 2:
		t = append([]byte("OK "), fieldBytes(r, r.Intn(20))...)
	case 3:
		t = append([]byte("NO "), fieldBytes(r, r.Intn(20))...)
	case 4: // near misses of OK
		t = []byte([]string{"ok", "Ok", "oK", "O", "K", "KO", " OK", "\x00OK", "O\x00K", "OK\x00", "NOK", "OKNO", "0K", "OL"}[r.Intn(14)])
	case 5:
		t = fieldBytes(r, r.Intn(6))
	case 6: // long texts around the clip
		t = append([]byte([]string{"OK ", "NO "}[r.Intn(2)]), fieldBytes(r, r.Pick(250, 252, 253, 254, 255, 256, 300, 600))...)
	case 7: // OK appearing later (strstr-style confusion)
		t = append(fieldBytes(r, 1+r.Intn(5)), []byte("OK")...)
	case 8:
		t = []byte{}
	default:
		t = append([]byte("OK"), fieldBytes(r, r.Intn(4))...)
	}
	n := len(t)
	if r.Intn(8) == 0 { // announced length differs from the body
		n = r.Pick(0, 1, 2, 3, len(t)+1, len(t)+5, 256, 257, 1000, 65535)
	}
	return append([]byte{byte(n >> 8), byte(n)}, t...)
}

func suiteC20(c *ctx) {
	r := c.r
	n := 1600
	if c.thorough() {
		n = 30000
	}
	n /= c.nshards
	lens := []int{0, 1, 2, 8, 255, 256, 257, 300, 4096}
	optsets := []string{"-", "debug", "try_first_pass", "not_set_pass", "debug,not_set_pass", "stackpw,use_first_pass", "stackpw,try_first_pass", "stackpw,try_first_pass,debug"}
	slow := 0
	for i := 0; i < n; i++ {
		u := cBytes(r, 1+r.Intn(12), true)
		p := cBytes(r, r.Intn(14), true)
		if r.Intn(4) == 0 {
			u = cBytes(r, lens[r.Intn(len(lens))], false)
		}
		if r.Intn(4) == 0 {
			p = cBytes(r, lens[r.Intn(len(lens))], false)
		}
		opts := optsets[r.Intn(len(optsets))]
		rl := reqLen(u, p)
		rep := replyBytes(r)
		var script string
		switch k := r.Intn(18); {
		case k == 17:
			// values of the timeout option that must be ignored (out of the range of an int, not positive)
			// or are small: the call stays bounded whatever the server does
			tv := []string{"timeout=2147483648", "timeout=3000000000", "timeout=4294967295", "timeout=4294967297", "timeout=9223372036854775807",
				"timeout=-5", "timeout=0", "timeout=2x", "timeout=1.5", "timeout=", "timeout=00000000000000000000001"}[r.Intn(11)]
			opts = tv
			if r.Bool() {
				opts = "debug," + tv
			}
			switch r.Intn(3) {
			case 0:
				script = fmt.Sprintf("R%d;S1500;C", rl) // silence, then close
			case 1:
				script = fmt.Sprintf("R%d;W%x;C", rl, rep)
			default:
				script = "S1500;C"
			}
		case k == 16:
			// printf directives in every datum the module may log (the reply text with `debug`, the user
			// name on success, an unknown module argument): logged data is data, never a format
			dir := []string{"%s%s%s%s%s%s%s%s%s%s%s%s%s%s%s%s", "%n%n%n%n%n%n%n%n%n%n%n%n", "100%x.%x.%x.%x.%x.%x.%x.%x.%x.%x.%s.%s.%s.%s",
				"%1$s%2$s%3$s%4$s%5$s%6$s%7$s%8$s", "%*d%*d%*d%s%s%s", "%%%s%%%n", "%99999999d%s%s%s%s"}[r.Intn(7)]
			switch r.Intn(3) {
			case 0:
				body := []byte([]string{"NO ", "NO", "OK ", "xx "}[r.Intn(4)] + dir)
				rep = append([]byte{byte(len(body) >> 8), byte(len(body))}, body...)
				opts = []string{"debug", "debug,not_set_pass", "stackpw,try_first_pass,debug"}[r.Intn(3)]
			case 1:
				u = []byte("u" + dir)
				rl = reqLen(u, p)
				body := []byte("OK")
				rep = append([]byte{0, 2}, body...)
				opts = []string{"-", "debug"}[r.Intn(2)]
			default:
				opts = []string{"retries=" + dir, "debug," + dir, dir + ",try_first_pass"}[r.Intn(3)]
			}
			script = fmt.Sprintf("R%d;W%x;C", rl, rep)
		case k < 6: // whole reply, close
			script = fmt.Sprintf("R%d;W%x;C", rl, rep)
		case k == 6: // reply cut at a random byte (every prefix over time), then close or reset
			cut := r.Intn(len(rep) + 1)
			script = fmt.Sprintf("R%d;W%x;%s", rl, rep[:cut], []string{"C", "X"}[r.Intn(2)])
			if cut == 0 {
				script = fmt.Sprintf("R%d;%s", rl, []string{"C", "X"}[r.Intn(2)])
			}
		case k == 7: // dribble: one byte per write with short pauses
			var sb strings.Builder
			fmt.Fprintf(&sb, "R%d", rl)
			for _, b := range rep[:min(len(rep), 24)] {
				fmt.Fprintf(&sb, ";W%02x;S3", b)
			}
			if len(rep) > 24 {
				fmt.Fprintf(&sb, ";W%x", rep[24:])
			}
			sb.WriteString(";C")
			script = sb.String()
		case k == 8: // split between header and body, short delay (well inside the timeout)
			script = fmt.Sprintf("R%d;W%x;S%d;W%x;C", rl, rep[:2], 50+r.Intn(200), rep[2:])
			if len(rep) == 2 {
				script = fmt.Sprintf("R%d;W%x;C", rl, rep)
			}
		case k == 9: // trailing bytes after the reply
			script = fmt.Sprintf("R%d;W%x;W%x;C", rl, rep, r.Bytes(1+r.Intn(8)))
		case k == 10: // server never answers / answers too late (beyond the 1 s timeout)
			if slow >= 2 && !c.thorough() || slow >= 6 {
				script = fmt.Sprintf("R%d;C", rl)
			} else {
				slow++
				switch r.Intn(3) {
				case 0:
					script = fmt.Sprintf("R%d;S1700;W%x;C", rl, rep)
				case 1:
					if len(rep) > 2 {
						script = fmt.Sprintf("R%d;W%x;S1700;W%x;C", rl, rep[:2], rep[2:])
					} else {
						script = fmt.Sprintf("R%d;S1700;C", rl)
					}
				default:
					script = fmt.Sprintf("R%d;S1700;C", rl)
				}
			}
		case k == 11: // early close / reset before reading, unreachable socket
			script = []string{"C", "X", "N", "N"}[r.Intn(4)]
		case k == 12: // no password available
			opts = []string{"nopw", "use_first_pass", "nopw,try_first_pass", "use_first_pass,debug"}[r.Intn(4)]
			script = "N"
		case k == 14:
			// replies at and beyond the 256-byte clip without any NUL byte, with the option sets that
			// log the reply text (debug): the module's buffer must stay terminated for %s
			body := append([]byte([]string{"NO ", "NO", "no", "OK ", "xx", ""}[r.Intn(6)]), bytes.Repeat([]byte{byte(0x41 + r.Intn(26))}, r.Pick(252, 253, 254, 255, 256, 257, 258, 300, 1000, 4000))...)
			ann := r.Pick(len(body), len(body), 256, 257, 258, 65535)
			ann = min(ann, 65535)
			rep = append([]byte{byte(ann >> 8), byte(ann)}, body[:min(len(body), ann)]...)
			opts = []string{"debug", "debug,not_set_pass", "stackpw,try_first_pass,debug", "-"}[r.Intn(4)]
			script = fmt.Sprintf("R%d;W%x;C", rl, rep)
		case k == 15:
			// a signal interrupts the module while it waits for the reply (before any byte, or between
			// header and body); afterwards the server answers, stays silent or closes
			switch r.Intn(5) {
			case 0:
				script = fmt.Sprintf("R%d;S30;I;W%x;C", rl, rep)
			case 1:
				script = fmt.Sprintf("R%d;S30;I;C", rl)
			case 2:
				if len(rep) > 2 {
					script = fmt.Sprintf("R%d;W%x;S30;I;W%x;C", rl, rep[:2], rep[2:])
				} else {
					script = fmt.Sprintf("R%d;S30;I;S30;I;C", rl)
				}
			case 3:
				script = fmt.Sprintf("R%d;S30;I;X", rl)
			default:
				// signals keep arriving (every 150 ms for 6 s) while the server stays silent: the time limit
				// must hold all the same — the module may not restart its full timeout at every signal
				script = fmt.Sprintf("R%d;S30;P6000;C", rl)
			}
		case k == 13: // delay inside the timeout before the reply
			script = fmt.Sprintf("R%d;S%d;W%x;C", rl, 100+r.Intn(300), rep)
		default:
			script = fmt.Sprintf("R%d;W%x;C", rl, rep)
		}
		if len(script) > 60000 {
			continue
		}
		// the calling application's errno is a stale EINTR when it enters the module (an earlier,
		// unrelated system call of the application was interrupted): nothing may depend on it
		if r.Intn(5) == 0 {
			if opts == "-" {
				opts = "eintr"
			} else {
				opts += ",eintr"
			}
		}
		extra := ""
		if strings.HasPrefix(script, "R") {
			// request_wellformed on the real module: the bytes on the wire are the Go encoder's
			// bytes for the C strings clipped to 256 bytes, empty service and realm
			pw := p
			q := &sasl.Request{Login: string(u[:min(cLen(u), 256)]), Password: string(pw[:min(cLen(pw), 256)])}
			if enc, err := q.Marshal(); err == nil {
				extra = "sentlaw=C20.request_wellformed expectsent=" + xb(enc)
			}
		}
		c.pam(u, p, opts, script, extra)
	}
}

// C13: the C encoder against the Go encoder for the same (clipped) fields.
func suiteC13pam(c *ctx) {
	r := c.r
	lens := []int{1, 2, 255, 256, 257, 300, 4096}
	idx := 0
	for _, a := range lens {
		for _, b := range append([]int{0}, lens...) {
			idx++
			if !c.mine(idx) {
				continue
			}
			u, p := cBytes(r, a, false), cBytes(r, b, false)
			q := &sasl.Request{Login: string(u[:min(len(u), 256)]), Password: string(p[:min(len(p), 256)])}
			enc, err := q.Marshal()
			if err != nil {
				c.emit("law.C13.go_encoder_accepts_clipped "+xb(u), "f")
				continue
			}
			c.pam(u, p, "-", fmt.Sprintf("R%d;W00024f4b;C", len(enc)), "expectsent="+xb(enc))
		}
	}
}

func init() { suites["c20"] = suiteC20; suites["c13pam"] = suiteC13pam }
