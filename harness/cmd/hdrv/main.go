// hdrv: correspondence harness over the public store/sasl API of /repo (rebuilt from the
// working tree on every run). Usage: hdrv <suite> <seed> <tier> [shard nshards]
// Writes protocol lines (see lean/Driver/Proto.lean) to stdout.
package main

import (
	"bufio"
	"encoding/hex"
	"fmt"
	"os"
	"sort"
	"strconv"
	"strings"

	"whawty-verif/harness/internal/rng"
)

type ctx struct {
	w       *bufio.Writer
	r       *rng.R
	seed    uint64
	tier    string
	shard   int
	nshards int
	work    string // scratch directory for this shard (exists, emptied by the caller)
	n       int
}

func (c *ctx) thorough() bool { return c.tier == "thorough" }

// mine tells whether the i-th deterministic case belongs to this shard.
func (c *ctx) mine(i int) bool { return i%c.nshards == c.shard }

func (c *ctx) emit(cmd string, real string) {
	fmt.Fprintf(c.w, "%s => %s\n", cmd, real)
	c.n++
}

func xb(b []byte) string  { return "x" + hex.EncodeToString(b) }
func xs(s string) string  { return "x" + hex.EncodeToString([]byte(s)) }
func tf(b bool) string {
	if b {
		return "t"
	}
	return "f"
}
func xl(l [][]byte) string {
	if len(l) == 0 {
		return "[]"
	}
	p := make([]string, len(l))
	for i, b := range l {
		p[i] = xb(b)
	}
	return "[" + strings.Join(p, ",") + "]"
}

var suites = map[string]func(*ctx){}

func main() {
	if len(os.Args) == 3 && os.Args[1] == "storeop" {
		childStoreOp(os.Args[2])
		return
	}
	if len(os.Args) == 3 && os.Args[1] == "storeop2" {
		childStoreOp2(os.Args[2])
		return
	}
	if len(os.Args) < 4 {
		fmt.Fprintln(os.Stderr, "usage: hdrv <suite> <seed> <tier> [shard nshards] [workdir]")
		os.Exit(2)
	}
	seed, _ := strconv.ParseUint(os.Args[2], 10, 64)
	c := &ctx{seed: seed, tier: os.Args[3], nshards: 1}
	if len(os.Args) >= 6 {
		c.shard, _ = strconv.Atoi(os.Args[4])
		c.nshards, _ = strconv.Atoi(os.Args[5])
	}
	if len(os.Args) >= 7 {
		c.work = os.Args[6]
	}
	c.r = rng.New(seed*1000003 + uint64(c.shard))
	c.w = bufio.NewWriterSize(os.Stdout, 1<<20)
	defer c.w.Flush()
	f, ok := suites[os.Args[1]]
	if !ok {
		fmt.Fprintln(os.Stderr, "unknown suite", os.Args[1])
		os.Exit(2)
	}
	f(c)
}

func sortStrings(p []string) { sort.Strings(p) }
