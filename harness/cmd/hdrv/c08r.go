package main

// C08, concurrent readers: while one writer keeps replacing a record (the same password, alternating
// parameter sets — what a hash upgrade and a downgrade of the default do), readers with their own Dir
// objects (other processes, as far as the file system is concerned) log in all the time. Each reader
// sees the old record or the new one, never a mixture: every login succeeds, the wrong password never.

import (
	"fmt"
	"os"
	"path/filepath"
	"sync"
	"sync/atomic"
	"time"
)

func suiteC08r(c *ctx) {
	if c.shard >= 4 && !c.thorough() {
		return
	}
	r := c.r
	var cfg *scfg
	for k := 0; k < 50; k++ {
		cfg = genCfg(r)
		if len(cfg.sets) >= 2 {
			break
		}
	}
	if len(cfg.sets) < 2 {
		return
	}
	base := filepath.Join(c.work, "rdr")
	pws := populate(r, cfg, base, true)
	pw := string(pws["alice"])
	dur := 1200 * time.Millisecond
	if c.thorough() {
		dur = 8 * time.Second
	}
	stop := time.Now().Add(dur)
	var refused, wrongAccepted, logins, updates int64
	var wg sync.WaitGroup
	wg.Add(1)
	go func() { // the writer
		defer wg.Done()
		d := cfg.dir(base)
		for k := 0; time.Now().Before(stop); k++ {
			d.Default = cfg.sets[k%len(cfg.sets)].id
			if d.UpdateUser("alice", pw) == nil {
				atomic.AddInt64(&updates, 1)
			}
		}
	}()
	for w := 0; w < 4; w++ {
		wg.Add(1)
		go func() {
			defer wg.Done()
			d := cfg.dir(base)
			for k := 0; time.Now().Before(stop); k++ {
				if k%5 == 4 {
					if ok, _, _, _, _ := d.Authenticate("alice", "Wrong-"+pw); ok {
						atomic.AddInt64(&wrongAccepted, 1)
					}
					continue
				}
				ok, _, _, _, _ := d.Authenticate("alice", pw)
				atomic.AddInt64(&logins, 1)
				if !ok {
					atomic.AddInt64(&refused, 1)
				}
			}
		}()
	}
	wg.Wait()
	c.emit(fmt.Sprintf("law.C08.concurrent_reader_sees_old_or_new updates>0=%s logins>0=%s refused=%d wrong-accepted=%d", tf(updates > 0), tf(logins > 0), refused, wrongAccepted),
		tf(refused == 0 && wrongAccepted == 0 && updates > 0 && logins > 0))
	os.RemoveAll(base)
}

func init() { suites["c08r"] = suiteC08r }
