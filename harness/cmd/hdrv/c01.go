package main

import (
	"bytes"
	"crypto/sha256"
	"fmt"
	"os"
	"path/filepath"
	"runtime"
	"sort"
	"strings"
	"time"
	"unicode"

	"github.com/whawty/auth/store"
	"whawty-verif/harness/internal/rng"
)

// shadow: the harness's own sequential specification of the store (Name -> record).
type srec struct {
	pw    []byte
	admin bool
	aux   []byte
	setID uint
}

func hmacKeyBlock(pw []byte) []byte {
	k := pw
	if len(k) > 64 {
		h := sha256.Sum256(k)
		k = h[:]
	}
	out := make([]byte, 64)
	copy(out, k)
	return out
}

// keyEquiv: the only passwords the schema's algorithm does not tell apart.
func keyEquiv(s *pset, a, b []byte) bool {
	if s.argon {
		return bytes.Equal(a, b)
	}
	return bytes.Equal(hmacKeyBlock(a), hmacKeyBlock(b))
}

var pwLens = []int{0, 1, 2, 7, 8, 9, 16, 31, 32, 55, 56, 63, 64, 65, 72, 100, 128, 255, 256, 257, 1000, 4096}

func genPw(r *rng.R) []byte {
	n := 1 + r.Intn(20)
	if r.Intn(3) == 0 {
		n = pwLens[r.Intn(len(pwLens))]
	}
	switch r.Intn(5) {
	case 0:
		b := make([]byte, n)
		for i := range b {
			b[i] = byte(33 + r.Intn(94))
		}
		return b
	case 1: // bytes special to the record format and to C strings
		al := []byte{':', '\n', 0, '\r', ' ', 'a', 'A', 0xff, 0xc3, '='}
		b := make([]byte, n)
		for i := range b {
			b[i] = al[r.Intn(len(al))]
		}
		return b
	case 2: // letters (so that case flips are meaningful)
		b := make([]byte, n)
		for i := range b {
			b[i] = byte('a' + r.Intn(26))
			if r.Bool() {
				b[i] = byte(unicode.ToUpper(rune(b[i])))
			}
		}
		return b
	default:
		return r.Bytes(n)
	}
}

// nearMisses of a stored password.
func nearMisses(r *rng.R, p []byte, other []byte, thorough bool) [][]byte {
	var out [][]byte
	add := func(b []byte) { out = append(out, append([]byte(nil), b...)) }
	add(p)
	if len(p) > 0 {
		add(p[:len(p)-1])
		add(p[:len(p)/2])
		add(p[1:])
		add(p[:r.Intn(len(p))])
		q := append([]byte(nil), p...)
		i := r.Intn(len(q))
		if unicode.IsLetter(rune(q[i])) && q[i] < 128 {
			q[i] ^= 0x20
		} else {
			q[i] ^= 1 << uint(r.Intn(8))
		}
		add(q)
	}
	add([]byte{})
	add(append(append([]byte(nil), p...), r.Bytes(1+r.Intn(3))...))
	add(append(append([]byte(nil), p...), 0))
	add(append(append([]byte(nil), p...), 0, 0, 0))
	add(append(append([]byte(nil), p...), ' '))
	add(append([]byte{' '}, p...))
	add(append(append([]byte(nil), p...), '\n'))
	for _, t := range []int{8, 16, 32, 55, 56, 64, 72, 128, 255, 256} {
		if len(p) > t && (thorough || r.Intn(3) == 0) {
			add(p[:t])
		}
	}
	if len(p) > 64 {
		h := sha256.Sum256(p)
		add(h[:])
		add(h[:31])
	}
	if len(p) <= 64 && len(p) > 0 {
		pad := make([]byte, 64)
		copy(pad, p)
		add(pad)
		add(append(pad, 0))
	}
	if other != nil {
		add(other)
	}
	if thorough {
		for i := 0; i < len(p) && i < 40; i++ {
			add(p[:i])
		}
	}
	return out
}

var namePool = []string{"alice", "bob", "a", "Z9", "A.b-c_d@e", "0", "carol.example", "x@y", "u-1", "root"}

func longName(n int) string { return strings.Repeat("n", n) }

type hist struct {
	c         *ctx
	cfg       *scfg
	base      string
	d         *store.Dir
	shadow    map[string]*srec
	users     []string
	noSpec    bool // the directory was not built through the store API: no sequential specification
	tmpBroken bool // the work area is currently unusable: every write must fail and change nothing
	tmpSeq    int
	shm       string // directory on another file system the work area currently links to
}

// breakTmp / mendTmp: the work area .tmp is replaced by a regular file (and restored): temporary
// files cannot be created, so add / update fail after they have opened (add: reserved) the target.
func (h *hist) toggleTmp() {
	p := filepath.Join(h.base, ".tmp")
	os.RemoveAll(p)
	if h.shm != "" {
		os.RemoveAll(h.shm)
		h.shm = ""
	}
	if h.tmpBroken {
		os.Mkdir(p, 0700)
	} else {
		h.tmpSeq++
		if h.tmpSeq%2 == 0 {
			// the work area on another file system: temporary files can be created and written, the
			// rename into the base directory fails (EXDEV) — the failure comes AFTER the data was written
			h.shm = tmpOnOtherFs(h.base, h.c.work, 5000+h.tmpSeq)
		}
		if h.shm == "" {
			os.WriteFile(p, []byte("x"), 0600)
		}
	}
	h.tmpBroken = !h.tmpBroken
}

// forModel: while the work area is unusable the model is shown `.tmp` as a regular file (its way
// of saying "temporary files cannot be moved into place"), whatever the real reason is.
func (h *hist) forModel(s []sent) []sent {
	if !h.tmpBroken {
		return s
	}
	out := append([]sent(nil), s...)
	for i := range out {
		if out[i].name == ".tmp" {
			out[i] = sent{name: ".tmp", data: []byte("x")}
		}
	}
	return out
}

func (h *hist) pre() []sent { return snapshot(h.base) }

func eqModTmp(a, b []sent) bool {
	f := func(s []sent) string {
		var t []sent
		for _, e := range s {
			if e.name == ".tmp" && e.dir && e.bad == "" {
				continue
			}
			t = append(t, e)
		}
		return snapTok(t, true)
	}
	return f(a) == f(b)
}

func tmpEmpty(s []sent) bool {
	e := snapGet(s, ".tmp")
	return e == nil || (e.dir && e.bad == "")
}

// othersUntouched: every file except the user's own is byte-identical.
func othersUntouched(pre, post []sent, user string) bool {
	strip := func(s []sent) string {
		var t []sent
		for _, e := range s {
			if e.name == user+".user" || e.name == user+".admin" || e.name == ".tmp" {
				continue
			}
			t = append(t, e)
		}
		return snapTok(t, true)
	}
	return strip(pre) == strip(post)
}

func auxOf(b []byte) []byte {
	if i := bytes.IndexByte(b, '\n'); i >= 0 {
		return b[i+1:]
	}
	return nil
}

// skew rewrites the time stamp of the user's current record behind the store's back (a record
// synced from a host with another clock, restored from a backup, written after a clock step).
func (h *hist) skew(r *rng.R, user string) {
	f := userFile(h.pre(), user)
	if f == nil {
		return
	}
	line, rest := f.data, []byte{}
	if i := bytes.IndexByte(line, '\n'); i >= 0 {
		line, rest = f.data[:i], f.data[i:]
	}
	parts := strings.Split(string(line), ":")
	if len(parts) != 5 {
		return
	}
	now := time.Now().Unix()
	d := []int64{2, 61, 3600, 86400 * 400, -2, -86400 * 365, -now, (1 << 62) - now, -(1 << 62) - now}[r.Intn(9)]
	parts[1] = fmt.Sprint(now + d)
	os.WriteFile(filepath.Join(h.base, f.name), append([]byte(strings.Join(parts, ":")), rest...), 0600)
}

func (h *hist) supported(rec *srec) bool { return h.d.Params[rec.setID] != nil }

func (h *hist) write(op string, user string, pw []byte, admin bool) {
	c := h.c
	pre := h.pre()
	var err error
	clk0 := time.Now().Unix()
	switch op {
	case "add":
		err = h.d.AddUser(user, string(pw), admin)
	case "update":
		err = h.d.UpdateUser(user, string(pw))
	case "init":
		err = h.d.Init(user, string(pw))
	}
	clk1 := time.Now().Unix()
	post := snapshot(h.base)
	var o oracle
	salt, ts := []byte{}, int64(0)
	if err == nil {
		if f := userFile(post, user); f != nil {
			if pid, sl, t, ok := parseHead(f.data); ok {
				salt, ts = sl, t
				o.add(h.cfg.get(pid), sl, pw)
				// the time stamp handed to the model below is the OBSERVED one: that it is the current
				// time (whatever the replaced record said) is checked here against the harness's own clock
				oldts := "none"
				if of := userFile(pre, user); of != nil {
					if _, _, ot, ok2 := parseHead(of.data); ok2 {
						oldts = fmt.Sprint(ot - clk0)
					}
				}
				c.emit(fmt.Sprintf("law.C14.time_is_now %s %s old-minus-now=%s written-minus-now=%d", op, xs(user), oldts, t-clk0), tf(t >= clk0 && t <= clk1))
			}
		}
	}
	res := "ok"
	if err != nil {
		res = "err"
	}
	switch op {
	case "add":
		c.emit(fmt.Sprintf("st.add %s %s %s %s %s %s %d %s", h.cfg.tokenOf(h.d), snapTok(h.forModel(pre), false), o.token(), xs(user), xb(pw), tf(admin), ts, xb(salt)), res+" "+snapTok(h.forModel(post), true))
	case "init":
		c.emit(fmt.Sprintf("st.init %s %s %s %s %s %d %s", h.cfg.tokenOf(h.d), snapTok(h.forModel(pre), false), o.token(), xs(user), xb(pw), ts, xb(salt)), res+" "+snapTok(h.forModel(post), true))
	case "update":
		c.emit(fmt.Sprintf("st.update %s %s %s %s %s %d %s", h.cfg.tokenOf(h.d), snapTok(h.forModel(pre), false), o.token(), xs(user), xb(pw), ts, xb(salt)), res+" "+snapTok(h.forModel(post), true))
	}
	id := fmt.Sprintf("%s %s %s", op, xs(user), snapTok(pre, true))
	if len(id) > 3000 {
		id = id[:3000]
	}
	// laws on the real store, against the harness's own sequential specification
	rec := h.shadow[user]
	var expectOK bool
	switch op {
	case "add", "init":
		expectOK = rec == nil && store_validName(user) && len(user)+6 <= 255
		if op == "init" {
			expectOK = expectOK && len(h.shadow) == 0
		}
	case "update":
		expectOK = rec != nil && h.supported(rec)
	}
	expectOK = expectOK && !h.tmpBroken
	if !h.noSpec {
		c.emit("law.C01.write_succeeds_iff_spec "+id, tf((err == nil) == expectOK))
	}
	if err != nil {
		c.emit("law.C15.failed_op_changes_nothing "+id, tf(eqModTmp(pre, post)))
	} else {
		c.emit("law.C15.write_touches_only_target "+id, tf(othersUntouched(pre, post, user)))
		if op == "update" {
			old, nw := userFile(pre, user), userFile(post, user)
			c.emit("law.C15.update_preserves_aux "+id, tf(old != nil && nw != nil && bytes.Equal(auxOf(old.data), auxOf(nw.data)) && old.name == nw.name))
		}
		if rec == nil {
			rec = &srec{admin: admin || op == "init"}
			h.shadow[user] = rec
		}
		rec.pw = pw
		rec.setID = h.d.Default
	}
	if !h.tmpBroken {
		c.emit("law.C16.work_area_empty_after_op "+id, tf(tmpEmpty(post)))
	}
}

func store_validName(u string) bool {
	if len(u) == 0 {
		return false
	}
	for i := 0; i < len(u); i++ {
		ch := u[i]
		al := ch >= '0' && ch <= '9' || ch >= 'a' && ch <= 'z' || ch >= 'A' && ch <= 'Z'
		if i == 0 && !al {
			return false
		}
		if !al && ch != '-' && ch != '_' && ch != '.' && ch != '@' {
			return false
		}
	}
	return true
}

func (h *hist) setAdmin(user string, st bool) {
	c := h.c
	pre := h.pre()
	err := h.d.SetAdmin(user, st)
	post := snapshot(h.base)
	res := "ok"
	if err != nil {
		res = "err"
	}
	c.emit(fmt.Sprintf("st.setadmin %s %s %s", snapTok(pre, false), xs(user), tf(st)), res+" "+snapTok(post, true))
	id := fmt.Sprintf("setadmin %s %s %s", xs(user), tf(st), snapTok(pre, true))
	if len(id) > 3000 {
		id = id[:3000]
	}
	rec := h.shadow[user]
	if !h.noSpec {
		c.emit("law.C01.write_succeeds_iff_spec "+id, tf((err == nil) == (rec != nil)))
	}
	if err != nil {
		c.emit("law.C15.failed_op_changes_nothing "+id, tf(eqModTmp(pre, post)))
	} else {
		old, nw := userFile(pre, user), userFile(post, user)
		c.emit("law.C15.setadmin_preserves_record "+id, tf(old != nil && nw != nil && bytes.Equal(old.data, nw.data) && othersUntouched(pre, post, user)))
		if rec != nil {
			rec.admin = st
		}
	}
}

func (h *hist) remove(user string) {
	c := h.c
	pre := h.pre()
	h.d.RemoveUser(user)
	post := snapshot(h.base)
	c.emit(fmt.Sprintf("st.remove %s %s", snapTok(pre, false), xs(user)), "ok "+snapTok(post, true))
	id := fmt.Sprintf("remove %s %s", xs(user), snapTok(pre, true))
	if len(id) > 3000 {
		id = id[:3000]
	}
	c.emit("law.C15.write_touches_only_target "+id, tf(othersUntouched(pre, post, user)))
	delete(h.shadow, user)
}

func (h *hist) probe(user string, pw []byte, snap []sent) {
	c := h.c
	ok, isAdmin, upg, lc, _ := h.d.Authenticate(user, string(pw))
	var o oracle
	var fts int64
	var fpid uint
	if f := userFile(snap, user); f != nil {
		if pid, sl, t, good := parseHead(f.data); good {
			o.add(h.cfg.get(pid), sl, pw)
			fts, fpid = t, pid
		}
	}
	res := "fail"
	if ok {
		res = fmt.Sprintf("ok %s %s %d", tf(isAdmin), tf(upg), lc.Unix())
	}
	c.emit(fmt.Sprintf("st.auth %s %s %s %s %s", h.cfg.tokenOf(h.d), snapTok(snap, false), o.token(), xs(user), xb(pw)), res)
	rec := h.shadow[user]
	exp := rec != nil && h.supported(rec) && keyEquiv(h.cfg.get(rec.setID), pw, rec.pw)
	id := fmt.Sprintf("%s %s", xs(user), xb(pw))
	if len(id) > 600 {
		id = id[:600]
	}
	c.emit("law.C01.verdict_tracks_last_write "+id, tf(ok == exp))
	if ok && rec != nil {
		c.emit("law.C01.admin_time_upgradeable_of_current_record "+id, tf(isAdmin == rec.admin && lc.Unix() == fts && upg == (h.d.Default != fpid)))
	}
}

// tokenOf: the configuration as the store currently has it (default and sets may have been
// switched during the history).
func (c *scfg) tokenOf(d *store.Dir) string {
	var p []string
	for _, s := range c.sets {
		if d.Params[s.id] != nil {
			p = append(p, fmt.Sprintf("%d:%s", s.id, xs(s.formatID())))
		}
	}
	return fmt.Sprintf("%d;%s", d.Default, strings.Join(p, ","))
}

func (h *hist) readers() {
	c := h.c
	snap := h.pre()
	cfgTok := h.cfg.tokenOf(h.d)
	l, err := h.d.List()
	if err != nil {
		c.emit(fmt.Sprintf("st.list %s %s", cfgTok, snapTok(snap, false)), "err")
	} else {
		var p []string
		for u, e := range l {
			p = append(p, fmt.Sprintf("%s:%s:%d", xs(u), tf(e.IsAdmin), e.LastChanged.Unix()))
		}
		c.emit(fmt.Sprintf("st.list %s %s", cfgTok, snapTok(snap, false)), "ok "+sortedList(p))
		good := true
		n := 0
		if h.noSpec {
			n = len(l)
		}
		for u, rec := range h.shadow {
			if h.supported(rec) {
				n++
				e, ok := l[u]
				good = good && ok && e.IsAdmin == rec.admin
			}
		}
		c.emit("law.C01.list_agrees_with_history "+snapTok(snap, true), tf(good && n == len(l)))
	}
	lf, err := h.d.ListFull()
	if err != nil {
		c.emit(fmt.Sprintf("st.listfull %s %s", cfgTok, snapTok(snap, false)), "err")
	} else {
		var p []string
		for u, e := range lf {
			p = append(p, fmt.Sprintf("%s:%s:%d:%s:%s:%s:%d", xs(u), tf(e.IsAdmin), e.LastChanged.Unix(), tf(e.IsValid), tf(e.IsSupported), xs(e.FormatID), e.ParamID))
		}
		c.emit(fmt.Sprintf("st.listfull %s %s", cfgTok, snapTok(snap, false)), "ok "+sortedList(p))
	}
	for _, u := range h.users {
		ex, adm, err := h.d.Exists(u)
		res := "err"
		if err == nil {
			res = fmt.Sprintf("ok %s %s", tf(ex), tf(adm))
		}
		c.emit(fmt.Sprintf("st.exists %s %s", snapTok(snap, false), xs(u)), res)
		rec := h.shadow[u]
		if err == nil && !h.noSpec {
			c.emit("law.C01.exists_agrees_with_history "+xs(u), tf(ex == (rec != nil) && (!ex || adm == rec.admin)))
		}
	}
	c.emit(fmt.Sprintf("st.check %s %s", cfgTok, snapTok(snap, false)), tf(h.d.Check() == nil))
	post := snapshot(h.base)
	c.emit("law.C15.readonly_calls_change_nothing "+snapTok(snap, true)[:min(len(snapTok(snap, true)), 1500)], tf(snapTok(snap, true) == snapTok(post, true)))
}

func sortedList(p []string) string {
	if len(p) == 0 {
		return "[]"
	}
	// entries are "<x-hex user>:..."; order by the raw user-name bytes ("x61" before "x6162")
	sort.Slice(p, func(i, j int) bool {
		return p[i][:strings.IndexByte(p[i], ':')] < p[j][:strings.IndexByte(p[j], ':')]
	})
	return "[" + strings.Join(p, ",") + "]"
}

func genAux(r *rng.R, big bool) []byte {
	switch r.Intn(7) {
	case 0:
		return nil
	case 1:
		return []byte("totp: QUJDREVGRw==\nu2f: AAAA\n")
	case 2:
		return []byte("totp: QUJD") // no trailing newline
	case 3:
		return []byte("u2f: AAEC\r\ntotp: BB==\r\n")
	case 4:
		return r.Bytes(1 + r.Intn(60)) // binary
	case 5:
		if big {
			return append(bytes.Repeat([]byte("L"), 70000), '\n') // longer than any buffer
		}
		return append(bytes.Repeat([]byte("l"), 5000), []byte("\nend")...)
	default:
		return []byte("\n\n:\n")
	}
}

func suiteC01(c *ctx) {
	nh := 160
	if c.thorough() {
		nh = 2400
	}
	nh /= c.nshards
	for hi := 0; hi < nh; hi++ {
		r := c.r
		h := &hist{c: c, cfg: genCfg(r), base: filepath.Join(c.work, fmt.Sprintf("h%d", hi)), shadow: map[string]*srec{}}
		resetDir(h.base)
		h.d = h.cfg.dir(h.base)
		nu := 1 + r.Intn(4)
		perm := r.Intn(len(namePool))
		if r.Intn(3) == 0 {
			// a family of related names: each is another one extended by a dot, a realm, an extension
			p := namePool[perm]
			fam := []string{p, p + ".doe", p + ".user", p + ".admin", p + ".doe.x", p + "@m", p + "-x", p + "."}
			nu = 2 + r.Intn(4)
			off := r.Intn(len(fam))
			h.users = append(h.users, p)
			for i := 0; i < nu; i++ {
				h.users = append(h.users, fam[1+(off+i)%(len(fam)-1)])
			}
		} else {
			for i := 0; i < nu; i++ {
				h.users = append(h.users, namePool[(perm+i)%len(namePool)])
			}
		}
		if r.Intn(12) == 0 {
			h.users = append(h.users, longName(r.Pick(248, 249, 250, 251)))
		}
		big := nu == 1 && r.Intn(4) == 0
		nops := 10 + r.Intn(25)
		if c.thorough() {
			nops = 20 + r.Intn(120)
		}
		if r.Bool() {
			h.write("init", h.users[0], genPw(r), true)
		}
		for k := 0; k < nops; k++ {
			u := h.users[r.Intn(len(h.users))]
			if r.Intn(18) == 0 || (h.tmpBroken && r.Intn(4) == 0) {
				h.toggleTmp()
			}
			if r.Intn(6) == 0 {
				// the processors available to the process change in the middle of a history (a CPU quota is
				// adjusted, the agent restarts on another host): records and verdicts must not depend on it
				runtime.GOMAXPROCS([]int{1, 2, 3, 5, runtime.NumCPU()}[r.Intn(5)])
			}
			switch x := r.Intn(20); {
			case x < 5:
				h.write("add", u, genPw(r), r.Intn(3) == 0)
				if rec := h.shadow[u]; rec != nil && r.Intn(3) == 0 {
					// another agent attaches auxiliary data to the record
					if f := userFile(h.pre(), u); f != nil {
						aux := genAux(r, big)
						line := f.data
						if i := bytes.IndexByte(line, '\n'); i >= 0 {
							line = line[:i+1]
						} else {
							line = append(append([]byte(nil), line...), '\n') // (an unterminated hash line is terminated first)
						}
						rec := append(append([]byte(nil), line...), aux...)
						if r.Intn(4) == 0 {
							// … or the record was provisioned by a tool that leaves the hash line unterminated
							// (printf '%s', an editor that strips the final newline), or terminates it with CR LF
							rec = bytes.TrimRight(line, "\n")
							if r.Intn(3) == 0 {
								rec = append(rec, '\r', '\n')
							}
						}
						os.WriteFile(filepath.Join(h.base, f.name), rec, 0600)
					}
				}
			case x < 10:
				if h.shadow[u] != nil && r.Intn(3) == 0 {
					h.skew(r, u)
				}
				h.write("update", u, genPw(r), false)
			case x < 12:
				h.setAdmin(u, r.Bool())
			case x < 14:
				h.remove(u)
			case x == 14: // configuration change: another default / a set withdrawn or restored
				if r.Bool() {
					h.d.Default = h.cfg.sets[r.Intn(len(h.cfg.sets))].id
					if h.d.Params[h.d.Default] == nil {
						h.d.Params[h.d.Default] = h.cfg.get(h.d.Default).hasher()
					}
				} else {
					s := h.cfg.sets[r.Intn(len(h.cfg.sets))]
					if s.id != h.d.Default {
						if h.d.Params[s.id] != nil {
							delete(h.d.Params, s.id)
						} else {
							h.d.Params[s.id] = s.hasher()
						}
					}
				}
			case x == 15:
				h.readers()
			default: // probes: every user, near-miss family of the last acknowledged password
				snap := h.pre()
				for _, pu := range h.users {
					rec := h.shadow[pu]
					var base []byte
					if rec != nil {
						base = rec.pw
					} else {
						base = genPw(r)
					}
					var other []byte
					for _, ou := range h.users { // (not the map: iteration order must come from the PRNG only)
						if orec := h.shadow[ou]; orec != nil && ou != pu {
							other = orec.pw
							break
						}
					}
					ms := nearMisses(r, base, other, c.thorough())
					if !c.thorough() && len(ms) > 12 {
						// keep the exact password and a random dozen
						keep := [][]byte{ms[0]}
						for len(keep) < 12 {
							keep = append(keep, ms[1+r.Intn(len(ms)-1)])
						}
						ms = keep
					}
					for _, pw := range ms {
						if len(snapTok(snap, false)) > 20000 && r.Intn(4) != 0 {
							continue
						}
						h.probe(pu, pw, snap)
					}
				}
			}
		}
		h.readers()
		if h.shm != "" {
			os.RemoveAll(h.shm)
		}
		os.RemoveAll(h.base)
	}
}

func init() { suites["c01"] = suiteC01 }
