package main

import (
	"bytes"
	"crypto/hmac"
	"crypto/sha256"
	"encoding/base64"
	"fmt"
	"os"
	"path/filepath"
	"reflect"
	"sort"
	"strconv"
	"strings"

	"github.com/whawty/auth/store"
	"golang.org/x/crypto/argon2"
	"golang.org/x/crypto/scrypt"
	"whawty-verif/harness/internal/rng"
)

// pset is the harness's own description of one parameter set; digests are computed from it
// with x/crypto directly (never through the store package): the independent oracle.
type pset struct {
	id      uint
	argon   bool
	time    uint32
	memory  uint32
	threads uint8
	length  uint32
	cost    uint
	r, p    int // as configured (0 = defaulted to 8 / 1)
	hmackey []byte
}

func (s *pset) formatID() string {
	if s.argon {
		return "argon2id"
	}
	return "hmac_sha256_scrypt"
}

func (s *pset) saltLen() int {
	if s.argon {
		return 16
	}
	return 32
}

func (s *pset) digest(salt, pw []byte) []byte {
	if s.argon {
		return argon2.IDKey(pw, salt, s.time, s.memory, s.threads, s.length)
	}
	r, p := s.r, s.p
	if r <= 0 {
		r = 8
	}
	if p <= 0 {
		p = 1
	}
	k, err := scrypt.Key(pw, salt, 1<<s.cost, r, p, 32)
	if err != nil {
		return []byte("scrypt-error:" + err.Error())
	}
	m := hmac.New(sha256.New, s.hmackey)
	m.Write(k)
	return m.Sum(nil)
}

func (s *pset) hasher() store.Hasher {
	if s.argon {
		// (fields are set by name through reflection: the harness keeps building when a numeric field of the
		// parameter struct changes its width)
		ap := &store.Argon2IDParams{}
		pv := reflect.ValueOf(ap).Elem()
		for name, x := range map[string]uint64{"Time": uint64(s.time), "Memory": uint64(s.memory), "Threads": uint64(s.threads), "Length": uint64(s.length)} {
			if f := pv.FieldByName(name); f.IsValid() && f.CanSet() && f.CanUint() {
				f.SetUint(x)
			}
		}
		h, err := store.NewArgon2IDHasher(ap)
		if err != nil {
			panic(err)
		}
		return h
	}
	h, err := store.NewScryptAuthHasher(&store.ScryptAuthParams{HmacKeyBase64: base64.StdEncoding.EncodeToString(s.hmackey), Cost: s.cost, R: s.r, P: s.p})
	if err != nil {
		panic(err)
	}
	return h
}

type scfg struct {
	def  uint
	sets []*pset
}

func (c *scfg) get(id uint) *pset {
	for _, s := range c.sets {
		if s.id == id {
			return s
		}
	}
	return nil
}

func (c *scfg) token() string {
	var p []string
	for _, s := range c.sets {
		p = append(p, fmt.Sprintf("%d:%s", s.id, xs(s.formatID())))
	}
	return fmt.Sprintf("%d;%s", c.def, strings.Join(p, ","))
}

func (c *scfg) dir(base string) *store.Dir {
	d := store.NewDir(base)
	d.Default = c.def
	for _, s := range c.sets {
		d.Params[s.id] = s.hasher()
	}
	return d
}

// genCfg: 2-4 cheap parameter sets mixing both algorithms, any default.
func genCfg(r *rng.R) *scfg {
	n := 2 + r.Intn(3)
	c := &scfg{}
	ids := []uint{1, 2, 3, 4, 7, 42, 1000000}
	r2 := r.Intn(len(ids))
	for i := 0; i < n; i++ {
		s := &pset{id: ids[(r2+i)%len(ids)]}
		if r.Bool() {
			s.argon = true
			s.time = uint32(1 + r.Intn(2))
			s.memory = uint32(8 * (1 + r.Intn(3)))
			s.threads = uint8(r.Pick(1, 2, 2, 20))
			s.length = uint32(r.Pick(4, 8, 15, 16, 24, 32, 32, 3100)) // 3100: a legal tag length that makes the record line longer than a 4 KiB reader buffer
		} else {
			s.cost = uint(1 + r.Intn(3))
			s.r = r.Pick(0, 1, 2)
			s.p = r.Pick(0, 1)
			s.hmackey = r.Bytes(32)
		}
		c.sets = append(c.sets, s)
	}
	c.def = c.sets[r.Intn(n)].id
	return c
}

type oracle struct {
	ents []string
	seen map[string]bool
}

func (o *oracle) add(s *pset, salt, pw []byte) {
	if s == nil {
		return
	}
	k := fmt.Sprintf("%d:%s:%s", s.id, xb(salt), xb(pw))
	if o.seen == nil {
		o.seen = map[string]bool{}
	}
	if o.seen[k] {
		return
	}
	o.seen[k] = true
	o.ents = append(o.ents, k+":"+xb(s.digest(salt, pw)))
}

func (o *oracle) token() string {
	if len(o.ents) == 0 {
		return "[]"
	}
	return "[" + strings.Join(o.ents, ",") + "]"
}

// snapshot of the base directory in readdir order (raw getdents order, like the store
// sees it). A non-empty .tmp is shown as a file entry "D+<n>" so that it can never agree
// with the model (the work area must be empty after each completed operation).
type sent struct {
	name string
	dir  bool
	data []byte
	bad  string
}

func snapshot(base string) []sent {
	f, err := os.Open(base)
	if err != nil {
		return []sent{{name: "!open-error", bad: err.Error()}}
	}
	names, _ := f.Readdirnames(0)
	f.Close()
	var out []sent
	for _, n := range names {
		p := filepath.Join(base, n)
		st, err := os.Lstat(p)
		if err != nil {
			out = append(out, sent{name: n, bad: "lstat"})
			continue
		}
		if st.Mode()&os.ModeSymlink != 0 && n == ".tmp" {
			if st2, err2 := os.Stat(p); err2 == nil && st2.IsDir() {
				st = st2 // the work area may be a link to a directory elsewhere (another mount, a volume)
			}
		}
		if st.IsDir() {
			sub, _ := os.ReadDir(p)
			e := sent{name: n, dir: true}
			if len(sub) > 0 {
				e.bad = fmt.Sprintf("nonempty-dir+%d", len(sub))
			}
			out = append(out, e)
			continue
		}
		b, err := os.ReadFile(p)
		if err != nil {
			out = append(out, sent{name: n, bad: "read"})
			continue
		}
		out = append(out, sent{name: n, data: b})
	}
	return out
}

func snapTok(s []sent, sorted bool) string {
	if sorted {
		s = append([]sent(nil), s...)
		sort.Slice(s, func(i, j int) bool { return s[i].name < s[j].name })
	}
	if len(s) == 0 {
		return "[]"
	}
	var p []string
	for _, e := range s {
		switch {
		case e.bad != "":
			p = append(p, xs(e.name)+":BAD-"+e.bad)
		case e.dir:
			p = append(p, xs(e.name)+":D")
		default:
			p = append(p, xs(e.name)+":"+xb(e.data))
		}
	}
	return "[" + strings.Join(p, ",") + "]"
}

func snapGet(s []sent, name string) *sent {
	for i := range s {
		if s[i].name == name {
			return &s[i]
		}
	}
	return nil
}

// parseHead reads (paramID, salt, ts) of a record the harness's own way (for the oracle).
func parseHead(b []byte) (pid uint, salt []byte, ts int64, ok bool) {
	line := b
	if i := bytes.IndexByte(b, '\n'); i >= 0 {
		line = b[:i]
	}
	parts := strings.Split(string(line), ":")
	if len(parts) != 5 {
		return
	}
	t, err := strconv.ParseInt(parts[1], 10, 64)
	if err != nil {
		return
	}
	id, err := strconv.ParseUint(parts[2], 10, 64)
	if err != nil {
		return
	}
	sl, err := base64.URLEncoding.DecodeString(parts[3])
	if err != nil {
		return
	}
	return uint(id), sl, t, true
}

// userFile returns the content of the user's preferred file (.admin first) in a snapshot.
func userFile(s []sent, user string) *sent {
	if e := snapGet(s, user+".admin"); e != nil {
		return e
	}
	return snapGet(s, user+".user")
}

func resetDir(base string) {
	os.RemoveAll(base)
	os.MkdirAll(base, 0700)
}

func b64dec(s string) ([]byte, error) { return base64.URLEncoding.DecodeString(s) }
