package main

import (
	"bytes"
	"fmt"
	"os"
	"path/filepath"
	"strings"
)

// suiteC08kill: the real code is killed (SIGKILL delivered by strace on entry of the call, so
// the call itself never executes) at EVERY file-system call of add / update / init, one re-run
// per call. What a restarted agent or a concurrent reader then finds is judged (a) directly:
// the target is absent / an empty reservation (add, init), the complete previous record, or
// the complete new record with all auxiliary lines; every other file untouched; a store that
// passed the check still passes it; the only residue is a file in the work area — and (b)
// against the persistence model: `killView` of the trace of the killed run predicts the
// content of the user's two names byte for byte.
var killable = map[string]bool{"openat": true, "mkdirat": true, "mkdir": true, "write": true, "fsync": true, "renameat": true,
	"renameat2": true, "rename": true, "unlinkat": true, "unlink": true, "copy_file_range": true, "close": true, "read": true, "newfstatat": true}

func suiteC08kill(c *ctx) {
	r := c.r
	self, _ := os.Executable()
	nops := 8
	if c.thorough() {
		nops = 96
	}
	nops = max(nops/c.nshards, 1)
	for i := 0; i < nops; i++ {
		cfg := genCfg(r)
		op := []string{"update", "add", "update", "init", "add"}[(i+c.shard)%5]
		user := map[string]string{"add": "newuser", "update": "alice", "init": "root"}[op]
		admin := r.Bool() || op == "init"
		pw := genPw(r)
		withAux := r.Intn(3) != 0
		noTmp := r.Intn(3) == 0
		seedState := r.Fork()
		otherFs := op == "update" && r.Intn(3) == 0 // the work area on another file system
		shm := ""
		var oldpw []byte
		setup := func(base string) {
			rr := *seedState
			if op == "init" {
				resetDir(base)
				return
			}
			pws := populate(&rr, cfg, base, withAux)
			oldpw = pws[user]
			if noTmp {
				os.RemoveAll(filepath.Join(base, ".tmp"))
			}
			if otherFs {
				if shm != "" {
					os.RemoveAll(shm)
				}
				shm = tmpOnOtherFs(base, c.work, 1000+i)
			}
		}
		base := filepath.Join(c.work, fmt.Sprintf("kb%d", i))
		setup(base)
		cf := filepath.Join(c.work, "kcase.json")
		tr := filepath.Join(c.work, "ktrace.txt")
		writeCase(cf, cfg, base, op, user, pw, admin)
		evs, out, _, err := runTraced(self, cf, tr, "")
		if err != nil || !(strings.HasPrefix(out, "ok") || otherFs && shm != "") {
			// (with the work area on another file system the operation may legitimately fail: EXDEV)
			c.emit("law.harness.baseline_operation_succeeds "+op, tf(false))
			continue
		}
		ref := cfg.dir(base)
		for j, e := range evs {
			if !killable[e.name] {
				continue
			}
			if !c.thorough() && (e.name == "read" || e.name == "newfstatat" || e.name == "close") && (j+i)%3 != 0 {
				continue
			}
			setup(base)
			pre := snapshot(base)
			checkBefore := ref.Check() == nil
			inj := fmt.Sprintf("%s:signal=SIGKILL:when=%d", e.name, e.ordinal)
			fevs, fout, killed, ferr := runTraced(self, cf, tr, inj)
			if ferr != nil || !killed || fout != "" {
				continue // the signal did not land inside the operation
			}
			post := snapshot(base)
			desc := fmt.Sprintf("%s kill-at=%s#%d aux=%s", op, e.name, j, tf(withAux))
			// (a) the property, judged on the directory the dead process left behind
			oldf, newf := userFile(pre, user), userFile(post, user)
			state := "other"
			switch {
			case newf == nil:
				state = "absent"
			case len(newf.data) == 0:
				state = "empty"
			case oldf != nil && bytes.Equal(oldf.data, newf.data) && oldf.name == newf.name:
				state = "old"
			default:
				// complete new record: parses, authenticates with exactly the new password, keeps the aux lines
				okNew, _, _, _, _ := ref.Authenticate(user, string(pw))
				auxKept := oldf == nil || bytes.Equal(auxOf(oldf.data), auxOf(newf.data))
				if okNew && auxKept && (oldf == nil || oldf.name == newf.name) {
					state = "new"
				}
			}
			allowed := state == "old" || state == "new" || (op != "update" && (state == "absent" || state == "empty"))
			c.emit(fmt.Sprintf("law.C08.kill_leaves_old_or_new %s state=%s", desc, state), tf(allowed))
			if state == "old" && oldpw != nil {
				okOld, _, _, _, _ := ref.Authenticate(user, string(oldpw))
				okNew, _, _, _, _ := ref.Authenticate(user, string(pw))
				c.emit("law.C08.old_password_works_until_new_one_does "+desc, tf(okOld && (!okNew || bytes.Equal(oldpw, pw))))
			}
			c.emit("law.C08.kill_leaves_others_untouched "+desc, tf(othersUntouched(pre, post, user)))
			// residue: nothing new outside the user's names and the work area
			extra := ""
			for _, pe := range post {
				if snapGet(pre, pe.name) == nil && pe.name != ".tmp" && pe.name != user+".user" && pe.name != user+".admin" {
					extra += pe.name + ","
				}
			}
			c.emit(fmt.Sprintf("law.C08.kill_residue_only_in_work_area %s extra=%s", desc, xs(extra)), tf(extra == ""))
			if checkBefore && op != "init" {
				c.emit("law.C08.store_that_passed_check_still_passes "+desc, tf(ref.Check() == nil))
			}
			// (b) the persistence model predicts exactly this
			cl := &classifier{base: base, user: user}
			var done []sysEv
			for _, fe := range fevs {
				if fe.ret != "?" {
					done = append(done, fe)
				}
			}
			ev := "-"
			if a := abstractEvents(done, cl); len(a) > 0 {
				ev = strings.Join(a, ";")
			}
			c.emit(fmt.Sprintf("tr.kill %s %s %s %s", op, entTok(pre, user+".user"), entTok(pre, user+".admin"), ev),
				"kv "+entTok(post, user+".user")+" "+entTok(post, user+".admin"))
		}
		if shm != "" {
			os.RemoveAll(shm)
		}
		os.RemoveAll(base)
	}
}

func init() { suites["c08k"] = suiteC08kill }
