package main

import (
	"fmt"
	"io/fs"
	"os"
	"path/filepath"
	"sort"
	"strings"
)

// treeSnap: every object below root with its bytes (files) or kind.
func treeSnap(root string) map[string]string {
	out := map[string]string{}
	filepath.WalkDir(root, func(p string, d fs.DirEntry, err error) error {
		if err != nil {
			out[p] = "ERR"
			return nil
		}
		rel, _ := filepath.Rel(root, p)
		if d.IsDir() {
			out[rel] = "D"
			return nil
		}
		b, _ := os.ReadFile(p)
		out[rel] = "F" + string(b)
		return nil
	})
	return out
}

// treeDiff lists the paths that differ.
func treeDiff(a, b map[string]string) []string {
	var d []string
	for k, v := range a {
		if b[k] != v {
			d = append(d, k)
		}
	}
	for k := range b {
		if _, ok := a[k]; !ok {
			d = append(d, k)
		}
	}
	sort.Strings(d)
	return d
}

var invalidNames = []string{
	"", "/", "a/b", "../sibling-store/bob", "..", ".", "/etc/passwd", "-dash", ".dot", "_under", "@at",
	"./alice", "alice/", "x/../alice", "alice/.", "alice\n", "alice\x00", "al\x00ice", "ali ce", "ü", "alice\t",
	"\x01", "a\x7f", "../store/alice", "../../store/alice", "alice/../root", "store/alice", "*", "a:b", "a,b", "a=b",
	"../sibling-store/../store/root", "decoys/x", "../decoys/x", "alice.user", "root.admin/../alice",
	// non-ASCII characters that case-fold or normalise to ASCII name characters, digits and letters of other scripts
	"bo\u017fs", "\u212aarl", "\u017f", "\u212a", "alic\u00e9", "\u0661\u0662", "\uff41lice", "\u0130", "\u0131d", "al\u0131ce",
	"\u00c5", "a\u0301", "\u03b1", "alice\u200b", "\u00e4lice", "\u24d0", "a\u00adb", "\u2160",
}

// the model of filepath.Clean / filepath.Join (lean/Whawty/Model/Path.lean) against the library
func pathModelCases(c *ctx) {
	r := c.r
	n := 4000
	if c.thorough() {
		n = 60000
	}
	n /= c.nshards
	comps := []string{"", ".", "..", "a", "b.c", "...", "..a", "a..", "/", "//", "store", ".tmp", "x y", "a\\b", "\x01", ".user"}
	gen := func() string {
		var b strings.Builder
		if r.Intn(3) == 0 {
			b.WriteString("/")
		}
		k := r.Intn(6)
		for i := 0; i < k; i++ {
			if i > 0 {
				b.WriteString("/")
			}
			b.WriteString(comps[r.Intn(len(comps))])
		}
		if r.Intn(5) == 0 {
			b.WriteString("/")
		}
		return b.String()
	}
	for i := 0; i < n; i++ {
		a, b := gen(), gen()
		c.emit("path.clean "+xs(a), xs(filepath.Clean(a)))
		c.emit(fmt.Sprintf("path.join %s %s", xs(a), xs(b)), xs(filepath.Join(a, b)))
	}
}

func suiteC03(c *ctx) {
	pathModelCases(c)
	rounds := 2
	if c.thorough() {
		rounds = 20
	}
	idx := 0
	for round := 0; round < rounds; round++ {
		r := c.r
		cfg := genCfg(r)
		names := append([]string(nil), invalidNames...)
		names = append(names, strings.Repeat("n", 250), strings.Repeat("n", 256), strings.Repeat("n", 300), strings.Repeat("n", 5000))
		// random names over an alphabet rich in separators and dots
		for i := 0; i < 12; i++ {
			al := []byte("ab./\\-_@ \x00\n~")
			n := 1 + r.Intn(8)
			b := make([]byte, n)
			for j := range b {
				b[j] = al[r.Intn(len(al))]
			}
			names = append(names, string(b))
		}
		for _, name := range names {
			for _, op := range []string{"auth", "exists", "add", "update", "setadmin", "remove"} {
				idx++
				if !c.mine(idx) {
					continue
				}
				sandbox := filepath.Join(c.work, fmt.Sprintf("sb%d", idx))
				os.RemoveAll(sandbox)
				base := filepath.Join(sandbox, "store")
				sib := filepath.Join(sandbox, "sibling-store")
				dec := filepath.Join(sandbox, "decoys")
				for _, p := range []string{base, sib, dec} {
					os.MkdirAll(p, 0700)
				}
				set := cfg.get(cfg.def)
				pw := []byte("Known-Passw0rd")
				recOf := func() []byte { return formatRecord(set, 1700000000, r.Bytes(set.saltLen()), pw) }
				os.WriteFile(filepath.Join(base, "alice.user"), recOf(), 0600)
				os.WriteFile(filepath.Join(base, "root.admin"), recOf(), 0600)
				os.WriteFile(filepath.Join(sib, "bob.user"), recOf(), 0600)
				os.WriteFile(filepath.Join(sib, "root.admin"), recOf(), 0600)
				os.WriteFile(filepath.Join(dec, "x.user"), recOf(), 0600)
				os.WriteFile(filepath.Join(sandbox, "store.admin"), recOf(), 0600) // what the empty name would address
				os.WriteFile(filepath.Join(sandbox, "store.user"), recOf(), 0600)
				d := cfg.dir(base)
				h := &hist{c: c, cfg: cfg, base: base, d: d, shadow: map[string]*srec{}, noSpec: true, users: []string{name}}
				// the same Dir object has already served the valid users (whatever it remembers about
				// them must not make an aliasing name usable afterwards)
				if idx%2 == 0 {
					d.Exists("alice")
					d.Authenticate("alice", string(pw))
					d.Authenticate("root", string(pw))
					d.List()
				}
				valid := store_validName(name)
				before := treeSnap(sandbox)
				failed := true
				authed := false
				switch op {
				case "auth":
					snap := snapshot(base)
					ok, isAdmin, upg, lc, err := d.Authenticate(name, string(pw))
					authed = ok
					failed = err != nil || !ok
					res := "fail"
					if ok {
						res = fmt.Sprintf("ok %s %s %d", tf(isAdmin), tf(upg), lc.Unix())
					}
					var o oracle
					c.emit(fmt.Sprintf("st.auth %s %s %s %s %s", cfg.tokenOf(d), snapTok(snap, false), o.token(), xs(name), xb(pw)), res)
				case "exists":
					snap := snapshot(base)
					ex, adm, err := d.Exists(name)
					failed = err != nil || !ex
					res := "err"
					if err == nil {
						res = fmt.Sprintf("ok %s %s", tf(ex), tf(adm))
					}
					c.emit(fmt.Sprintf("st.exists %s %s", snapTok(snap, false), xs(name)), res)
				case "add":
					err := d.AddUser(name, "New-Passw0rd", false)
					failed = err != nil
					post := snapshot(base)
					pre := snapshot(base)
					_ = pre
					res := "ok"
					if err != nil {
						res = "err"
					}
					if err != nil { // the model comparison for successful adds is C01's
						c.emit(fmt.Sprintf("st.add %s %s [] %s %s f 0 x", cfg.tokenOf(d), snapTok(post, false), xs(name), xs("New-Passw0rd")), res+" "+snapTok(post, true))
					}
				case "update":
					pre := snapshot(base)
					err := d.UpdateUser(name, "New-Passw0rd")
					failed = err != nil
					post := snapshot(base)
					if err != nil {
						c.emit(fmt.Sprintf("st.update %s %s [] %s %s 0 x", cfg.tokenOf(d), snapTok(pre, false), xs(name), xs("New-Passw0rd")), "err "+snapTok(post, true))
					}
				case "setadmin":
					pre := snapshot(base)
					err := d.SetAdmin(name, true)
					failed = err != nil
					post := snapshot(base)
					res := "ok"
					if err != nil {
						res = "err"
					}
					c.emit(fmt.Sprintf("st.setadmin %s %s t", snapTok(pre, false), xs(name)), res+" "+snapTok(post, true))
				case "remove":
					h.remove(name)
					failed = true // remove reports nothing; its effect is judged from the tree
				}
				after := treeSnap(sandbox)
				diff := treeDiff(before, after)
				id := fmt.Sprintf("%s %s", op, xs(name[:min(len(name), 300)]))
				if !valid {
					c.emit("law.C03.invalid_name_fails_or_noop "+id, tf(failed && len(diff) == 0 && !authed))
				} else {
					// effects of a valid name stay within <base>/<name>.user|.admin and <base>/.tmp
					okc := true
					for _, p := range diff {
						if p != "store/"+name+".user" && p != "store/"+name+".admin" && p != "store/.tmp" && !strings.HasPrefix(p, "store/.tmp/") {
							okc = false
						}
					}
					c.emit("law.C03.valid_name_confined "+id, tf(okc))
				}
				os.RemoveAll(sandbox)
			}
		}
		// valid names, same sandbox discipline
		_ = round
	}
}

func init() { suites["c03"] = suiteC03 }
