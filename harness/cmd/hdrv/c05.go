package main

import (
	"bytes"
	"errors"
	"fmt"
	"io"
	"net"
	"path/filepath"
	"os"
	"sync"
	"syscall"
	"time"

	"github.com/whawty/auth/sasl"
)

type cbOutcome struct {
	ok  bool
	msg []byte
	err []byte // nil = no error
}

type cbCall struct{ l, p, s, r string }

type c05case struct {
	id        int
	chunks    [][]byte
	pauses    bool
	reg       string // registered login
	out       cbOutcome
	fullClose bool // abandon: close both directions without reading
	delayCb   time.Duration // the callback takes this long (a slow store / password hash)
	delayMid  time.Duration // the client pauses this long after its first chunk
	// observations
	calls  []cbCall
	reply  []byte
	closed bool
	ioerr  string
}

type c05srv struct {
	mu    sync.Mutex
	reg   map[string]*c05case
	calls map[string][]cbCall
}

func (s *c05srv) cb(login, password, service, realm string) (bool, string, error) {
	s.mu.Lock()
	cs := s.reg[login]
	s.calls[login] = append(s.calls[login], cbCall{login, password, service, realm})
	s.mu.Unlock()
	if cs == nil {
		return false, "unknown", nil
	}
	if cs.delayCb > 0 {
		time.Sleep(cs.delayCb)
	}
	if cs.out.err != nil {
		return cs.out.ok, string(cs.out.msg), errors.New(string(cs.out.err))
	}
	return cs.out.ok, string(cs.out.msg), nil
}

func (c *ctx) runConn(sock string, cs *c05case) {
	conn, err := net.Dial("unix", sock)
	if err != nil {
		cs.ioerr = "dial: " + err.Error()
		return
	}
	defer conn.Close()
	uc := conn.(*net.UnixConn)
	// (a server that never reads this connection must not block the harness once the socket buffer is full)
	uc.SetWriteDeadline(time.Now().Add(10*time.Second + cs.delayCb + cs.delayMid))
	for k, ch := range cs.chunks {
		if len(ch) == 0 {
			continue
		}
		if _, err := uc.Write(ch); err != nil {
			break // the server may already have answered and closed (over-long prefix, complete request)
		}
		if k == 0 && cs.delayMid > 0 {
			time.Sleep(cs.delayMid)
		}
		if cs.pauses {
			time.Sleep(time.Duration(200+c.r.Intn(1500)) * time.Microsecond)
		}
	}
	if cs.fullClose {
		uc.Close()
		time.Sleep(30 * time.Millisecond)
		return
	}
	uc.CloseWrite()
	uc.SetReadDeadline(time.Now().Add(5*time.Second + cs.delayCb + cs.delayMid))
	b, err := io.ReadAll(uc)
	cs.reply = b
	cs.closed = err == nil
	if err != nil && errors.Is(err, syscall.ECONNRESET) {
		// the server closed while bytes we sent were still unread (trailing data): the kernel
		// turns that close into a reset; data already queued (the reply) is delivered first
		cs.closed = true
	} else if err != nil {
		cs.ioerr = "read: " + err.Error()
	}
}

func canonReply(cs *c05case) string {
	if len(cs.reply) == 0 {
		return "none"
	}
	b := cs.reply
	if len(cs.calls) == 0 && len(b) >= 4 && int(b[0])<<8|int(b[1]) == len(b)-2 && len(b)-2 <= 256 && b[2] == 'N' && b[3] == 'O' {
		return "NO*" // decode-error reply: the message text is not part of the correspondence
	}
	return xb(b)
}

func suiteC05(c *ctx) {
	sock := filepath.Join(c.work, "s.sock")
	srv := &c05srv{reg: map[string]*c05case{}, calls: map[string][]cbCall{}}
	os.Remove(sock)
	s, err := sasl.NewServer(sock, srv.cb)
	if err != nil {
		panic(err)
	}
	go s.Run() //nolint:errcheck

	n := 1200
	if c.thorough() {
		n = 40000
	}
	n = n / c.nshards
	msgLens := []int{0, 1, 2, 3, 100, 252, 253, 254, 255, 256, 257, 300, 65530, 65531, 65532, 65533, 65534, 65536, 65540}
	var cases []*c05case
	for i := 0; i < n; i++ {
		r := c.r
		cs := &c05case{id: i}
		cs.reg = fmt.Sprintf("u%d.%d.%d", c.shard, i, r.Intn(1000))
		ml := r.Intn(40)
		if r.Intn(3) == 0 {
			ml = msgLens[r.Intn(len(msgLens))]
		}
		if ml > 300 && !c.thorough() && r.Intn(4) != 0 {
			ml = 250 + r.Intn(10)
		}
		cs.out = cbOutcome{ok: r.Intn(3) != 0, msg: fieldBytes(r, ml)}
		if r.Intn(5) == 0 {
			el := r.Intn(30)
			if r.Intn(4) == 0 {
				el = msgLens[r.Intn(12)]
			}
			cs.out.err = fieldBytes(r, el)
		}
		pwlen := 1 + r.Intn(12)
		if r.Intn(10) == 0 {
			pwlen = r.Pick(1, 255, 256)
		}
		q := &sasl.Request{Login: cs.reg, Password: string(fieldBytes(r, pwlen)), Service: string(fieldBytes(r, r.Intn(6))), Realm: string(fieldBytes(r, r.Intn(6)))}
		stream, _ := q.Marshal()
		switch r.Intn(12) {
		case 0: // truncated at any byte
			stream = stream[:r.Intn(len(stream)+1)]
		case 1: // trailing bytes
			stream = append(stream, r.Bytes(1+r.Intn(20))...)
		case 2: // over-long length field somewhere
			pos := []int{0, 2 + len(q.Login), 4 + len(q.Login) + len(q.Password), 6 + len(q.Login) + len(q.Password) + len(q.Service)}[r.Intn(4)]
			v := r.Pick(257, 258, 512, 4096, 65535)
			stream[pos], stream[pos+1] = byte(v>>8), byte(v)
		case 3: // random garbage
			stream = r.Bytes(r.Intn(30))
		case 4: // empty password / empty login
			if r.Bool() {
				q.Password = ""
			} else {
				q.Login = ""
			}
			stream, _ = q.Marshal()
		case 5: // bit flip
			stream[r.Intn(len(stream))] ^= byte(1 << r.Intn(8))
		case 6: // two requests back to back (second must be ignored)
			stream = append(stream, stream...)
		}
		fr := fragmentations(r, stream, false)
		cs.chunks = fr[r.Intn(len(fr))]
		if !stallFree(cs.chunks) {
			// these are WRITES on a socket: a zero-length write reaches nobody, so a long run of them is
			// not a run of zero-length reads (C13's scripted readers cover those); keep the data chunks
			var keep [][]byte
			for _, ch := range cs.chunks {
				if len(ch) > 0 {
					keep = append(keep, ch)
				}
			}
			cs.chunks = keep
		}
		cs.pauses = len(cs.chunks) > 1 && len(cs.chunks) < 40 && r.Intn(3) == 0
		cs.fullClose = r.Intn(25) == 0
		cases = append(cases, cs)
	}
	// write timings far apart: a callback that takes seconds (a slow password hash, a loaded store)
	// and a client that pauses for seconds inside its request still get their one reply. They run
	// beside the batches (quick: shards 0..3, 7 s; thorough: every shard, 35 s).
	var slow []*c05case
	if c.shard < 4 || c.thorough() {
		d := 7 * time.Second
		if c.thorough() {
			d = 35 * time.Second
		}
		q := &sasl.Request{Login: fmt.Sprintf("slow%d", c.shard), Password: "pw", Service: "imap", Realm: ""}
		stream, _ := q.Marshal()
		cs := &c05case{id: -1, reg: q.Login, out: cbOutcome{ok: c.shard%2 == 0, msg: []byte("slow but sure")}}
		cut := 1 + c.r.Intn(len(stream)-1)
		cs.chunks = [][]byte{stream[:cut], stream[cut:]}
		if c.shard%4 < 2 {
			cs.delayCb = d
		} else {
			cs.delayMid = d
		}
		slow = append(slow, cs)
		srv.mu.Lock()
		srv.reg[cs.reg] = cs
		srv.mu.Unlock()
	}
	var slowWg sync.WaitGroup
	for _, cs := range slow {
		slowWg.Add(1)
		go func(cs *c05case) { defer slowWg.Done(); c.runConn(sock, cs) }(cs)
	}
	// run in concurrent batches of up to 64 connections
	for start := 0; start < len(cases); start += 64 {
		end := min(start+64, len(cases))
		srv.mu.Lock()
		for _, cs := range cases[start:end] {
			srv.reg[cs.reg] = cs
		}
		srv.mu.Unlock()
		var wg sync.WaitGroup
		for _, cs := range cases[start:end] {
			wg.Add(1)
			go func(cs *c05case) { defer wg.Done(); c.runConn(sock, cs) }(cs)
		}
		wg.Wait()
	}
	slowWg.Wait()
	cases = append(cases, slow...)
	srv.mu.Lock()
	defer srv.mu.Unlock()
	// attribute callback invocations: by registered login; calls with other logins are
	// attributed to the case whose stream produced them (mutated login) if unambiguous
	attributed := map[string]bool{}
	for _, cs := range cases {
		cs.calls = srv.calls[cs.reg]
		attributed[cs.reg] = true
	}
	for _, cs := range cases {
		if len(cs.calls) > 0 {
			continue
		}
		// a mutated login: look the decoded login up
		var q sasl.Request
		if q.Unmarshal(bytes.Join(cs.chunks, nil)) == nil && !attributed[q.Login] {
			cs.calls = srv.calls[q.Login]
			attributed[q.Login] = true
		}
	}
	for _, cs := range cases {
		errs := "-"
		if cs.out.err != nil {
			errs = xb(cs.out.err)
		}
		cmd := fmt.Sprintf("sasl.srv %s %s %s %s %s", xl(cs.chunks), xs(cs.reg), tf(cs.out.ok), xb(cs.out.msg), errs)
		var flat [][]byte
		for _, k := range cs.calls {
			flat = append(flat, []byte(k.l), []byte(k.p), []byte(k.s), []byte(k.r))
		}
		if cs.fullClose {
			// abandoned connection: only the callback invocations are observable
			c.emit("sasl.srv.abandoned "+cmd[9:], "cb="+xl(flat))
			continue
		}
		if cs.ioerr != "" {
			c.emit("law.C05.harness_io "+cs.ioerr, "f")
			continue
		}
		c.emit(cmd, fmt.Sprintf("cb=%s %s %s", xl(flat), canonReply(cs), tf(cs.closed)))
		// laws evaluated on the real server with the real client-side decoder
		c.emit("law.C05.cb_at_most_once "+cmd[9:], tf(len(cs.calls) <= 1))
		var resp sasl.Response
		derr := resp.Decode(bytes.NewReader(cs.reply))
		approved := len(cs.calls) == 1 && cs.calls[0].l == cs.reg && cs.out.ok && cs.out.err == nil
		c.emit("law.C05.reply_decodable_and_verdict "+cmd[9:], tf(derr == nil && resp.Result == approved))
		if len(cs.reply) >= 2 {
			c.emit("law.C05.one_length_prefixed_reply_then_close "+cmd[9:], tf(int(cs.reply[0])<<8|int(cs.reply[1]) == len(cs.reply)-2 && cs.closed))
			// the PAM module must read the same verdict from this reply (diverted to pamdrv)
			exp := 7
			if approved {
				exp = 0
			}
			fmt.Fprintf(c.w, "@pam pam.auth x61 x62 - R10;W%x;C expect=%d\n", cs.reply, exp)
		} else {
			c.emit("law.C05.one_length_prefixed_reply_then_close "+cmd[9:], "f")
		}
	}
}

func init() { suites["c05"] = suiteC05 }
