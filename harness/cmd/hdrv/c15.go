package main

import (
	"fmt"
	"os"
	"path/filepath"
	"strings"
)

var injectable = map[string][]string{
	"openat":          {"EACCES", "EMFILE", "ENOSPC", "EIO"},
	"mkdirat":         {"ENOSPC", "EACCES"},
	"mkdir":           {"ENOSPC", "EACCES"},
	"write":           {"ENOSPC", "EIO"},
	"fsync":           {"EIO", "ENOSPC"},
	"renameat":        {"EIO", "ENOSPC", "EACCES"},
	"renameat2":       {"EIO", "ENOSPC", "EACCES"},
	"rename":          {"EIO", "ENOSPC", "EACCES"},
	"copy_file_range": {"EIO", "ENOSPC"},
	"read":            {"EIO"},
	"newfstatat":      {"EACCES", "EIO"},
	"unlinkat":        {"EIO", "EACCES"},
}

// suiteC15f: every single system-call failure in every mutating operation.
func suiteC15f(c *ctx) { faultSweep(c, true) }

// suiteC09f: the same sweep for C09 — an operation that reports SUCCESS although one of its calls
// failed must still be durable at the acknowledgement (the verified checker durableAtAck on the
// trace of the faulted run).
func suiteC09f(c *ctx) { faultSweep(c, false) }

func faultSweep(c *ctx, c15 bool) {
	r := c.r
	self, _ := os.Executable()
	nops := 10
	if c.thorough() {
		nops = 60
	}
	nops = max(nops/c.nshards, 1)
	seq := 0
	for i := 0; i < nops; i++ {
		cfg := genCfg(r)
		op := []string{"add", "update", "update", "setadmin", "remove", "init", "add"}[(i+c.shard)%7]
		user := map[string]string{"add": "newuser", "update": "alice", "setadmin": "alice", "remove": "bob", "init": "root"}[op]
		admin := r.Bool()
		if op == "setadmin" {
			admin = true
		}
		pw := genPw(r)
		withAux := r.Bool()
		noTmp := r.Intn(3) == 0
		seedState := r.Fork()
		setup := func(base string) {
			rr := *seedState // same store content for the baseline and every faulted run
			if op == "init" {
				resetDir(base)
				return
			}
			populate(&rr, cfg, base, withAux)
			if noTmp {
				os.RemoveAll(filepath.Join(base, ".tmp"))
			}
		}
		base := filepath.Join(c.work, fmt.Sprintf("fb%d", i))
		setup(base)
		cf := filepath.Join(c.work, "fcase.json")
		tr := filepath.Join(c.work, "ftrace.txt")
		writeCase(cf, cfg, base, op, user, pw, admin)
		evs, out, _, err := runTraced(self, cf, tr, "")
		if err != nil || !strings.HasPrefix(out, "ok") {
			if c15 {
				c.emit("law.harness.baseline_operation_succeeds "+op, tf(false))
			}
			continue
		}
		// index of the commit point (the rename, or the last unlink of remove) in the baseline
		commit := -1
		for j, e := range evs {
			if strings.HasPrefix(e.name, "rename") || (op == "remove" && strings.HasPrefix(e.name, "unlink")) {
				commit = j
			}
		}
		for j, e := range evs {
			errnos, ok := injectable[e.name]
			if !ok || strings.HasPrefix(e.ret, "-") {
				continue // not injectable, or a call that fails anyway (ENOENT probes)
			}
			// cleanup calls (closing and unlinking the temporary file) are not part of the operation's protocol
			for k, en := range errnos {
				seq++
				if !c.thorough() && (seq+int(c.seed))%3 != 0 && k > 0 {
					continue
				}
				setup(base)
				pre := snapshot(base)
				inj := fmt.Sprintf("%s:error=%s:when=%d", e.name, en, e.ordinal)
				fevs, fout, killed, ferr := runTraced(self, cf, tr, inj)
				if ferr != nil {
					continue
				}
				injected := false
				for _, fe := range fevs {
					if strings.Contains(fe.tail, "INJECTED") {
						injected = true
					}
				}
				if !injected {
					continue // the fault did not land inside the operation (different startup sequence)
				}
				post := snapshot(base)
				// class of the fault, from the faulted run's own trace: did a commit point (a successful
				// rename / unlink of a store entry) precede the injected failure?
				cls := "before-commit"
				for _, fe := range fevs {
					if strings.Contains(fe.tail, "INJECTED") {
						break
					}
					if (strings.HasPrefix(fe.name, "rename") || strings.HasPrefix(fe.name, "unlink")) && !strings.HasPrefix(fe.ret, "-") {
						sa := strArgs(fe.args)
						if len(sa) > 0 && !strings.Contains(string(sa[len(sa)-1]), "/.tmp/") {
							cls = "error-after-commit" // a store entry was renamed into place / unlinked
						}
					}
				}
				_ = commit
				if os.Getenv("VERIF_DEBUG") != "" {
					fmt.Fprintf(os.Stderr, "FAULT %s j=%d %s out=%q killed=%v\n", inj, j, e.args[:min(len(e.args), 80)], fout, killed)
					for _, fe := range fevs {
						fmt.Fprintf(os.Stderr, "   %s(%s) = %s%s\n", fe.name, unhexPath(fe.args)[:min(len(unhexPath(fe.args)), 100)], fe.ret, fe.tail)
					}
					fmt.Fprintf(os.Stderr, "   pre=%s\n   post=%s\n", snapTok(pre, true)[:min(200, len(snapTok(pre, true)))], snapTok(post, true)[:min(200, len(snapTok(post, true)))])
				}
				desc := fmt.Sprintf("%s call=%s#%d errno=%s aux=%s", op, e.name, j, en, tf(withAux))
				if fout == "" && !killed {
					continue // the child's own report was lost: nothing to judge
				}
				if !c15 {
					// C09: success was reported under a fault => the change must be durable at that point
					if strings.HasPrefix(fout, "ok") && op != "remove" {
						cl := &classifier{base: base, user: user}
						t := &traced{op: op, user: user, admin: admin, res: fout, pre: pre, post: post}
						t.events = abstractEvents(fevs, cl)
						c.emit("tr.c09f "+t.payload(), "ok")
					}
					continue
				}
				switch {
				case killed && fout == "":
					c.emit("law.C15.fault_no_crash "+desc, "f")
				case strings.HasPrefix(fout, "err"):
					if eqModTmpContent(pre, post) {
						c.emit("law.C15.failed_op_changes_nothing "+desc, "t")
					} else {
						c.emit(fmt.Sprintf("law.C15.failed_op_changes_nothing class=%s %s", cls, desc), "f")
					}
				default:
					// reported success: then the effect must be complete. (Remove has no error channel in
					// the store API: it reports nothing, so there is nothing to judge for it here.)
					if op != "remove" {
						c.emit("law.C15.fault_success_is_complete "+desc, tf(faultSuccessComplete(op, user, admin, pre, post)))
					}
				}
			}
		}
		os.RemoveAll(base)
	}
}

// eqModTmpContent: identical except for the work area (.tmp may have been created).
func eqModTmpContent(a, b []sent) bool {
	f := func(s []sent) string {
		var t []sent
		for _, e := range s {
			if e.name == ".tmp" {
				continue
			}
			t = append(t, e)
		}
		return snapTok(t, true)
	}
	return f(a) == f(b) && tmpEmpty(b)
}

func faultSuccessComplete(op, user string, admin bool, pre, post []sent) bool {
	switch op {
	case "remove":
		return userFile(post, user) == nil
	case "setadmin":
		f := userFile(post, user)
		return f != nil && strings.HasSuffix(f.name, ".admin") == admin && snapGet(post, user+".user") == nil != !admin
	default:
		f := userFile(post, user)
		if f == nil {
			return false
		}
		_, _, _, ok := parseHead(f.data)
		return ok && othersUntouched(pre, post, user)
	}
}

func init() { suites["c15f"] = suiteC15f; suites["c09f"] = suiteC09f }
