package main

import (
	"fmt"
	"os"
	"path/filepath"
	"strings"
	"syscall"

	"whawty-verif/harness/internal/rng"
)

type traced struct {
	op     string
	user   string
	admin  bool
	res    string
	pre    []sent
	post   []sent
	events []string
	killed bool
	rawN   int
	rawUA  [][2]string // (class U|A, the path string exactly as the process passed it to the kernel)
}

func entTok(s []sent, name string) string {
	e := snapGet(s, name)
	if e == nil {
		return "-"
	}
	if e.dir {
		return "D"
	}
	return xb(e.data)
}

// traceOp runs one store operation in a child process under strace.
func (c *ctx) traceOp(cfg *scfg, base, op, user string, pw []byte, admin bool, inject string, seq int) (*traced, error) {
	self, _ := os.Executable()
	cf := filepath.Join(c.work, fmt.Sprintf("case-%d.json", seq))
	tf_ := filepath.Join(c.work, fmt.Sprintf("trace-%d.txt", seq))
	writeCase(cf, cfg, base, op, user, pw, admin)
	t := &traced{op: op, user: user, admin: admin}
	t.pre = snapshot(base)
	evs, out, killed, err := runTraced(self, cf, tf_, inject)
	os.Remove(cf)
	os.Remove(tf_)
	if err != nil {
		return nil, err
	}
	t.post = snapshot(base)
	t.killed = killed
	t.res = out
	if killed && out == "" {
		t.res = "killed"
	}
	t.rawN = len(evs)
	cl := &classifier{base: filepath.Clean(base), user: user}
	t.events = abstractEvents(evs, cl)
	for _, e := range evs {
		for _, a := range strArgs(e.args) {
			if k := cl.class(string(a)); k == "U" || k == "A" {
				t.rawUA = append(t.rawUA, [2]string{k, string(a)})
			}
		}
	}
	return t, nil
}

func (t *traced) payload() string {
	ev := "-"
	if len(t.events) > 0 {
		ev = strings.Join(t.events, ";")
	}
	valid := "i"
	if store_validName(t.user) {
		valid = "v"
	}
	res := strings.Fields(t.res + " ?")[0]
	return fmt.Sprintf("%s %s %s %s %s %s %s %s %s", t.op, valid, tf(t.admin),
		entTok(t.pre, t.user+".user"), entTok(t.pre, t.user+".admin"),
		entTok(t.post, t.user+".user"), entTok(t.post, t.user+".admin"), res, ev)
}

// populate a store with a few users; returns their passwords.
func populate(r *rng.R, cfg *scfg, base string, withAux bool) map[string][]byte {
	resetDir(base)
	d := cfg.dir(base)
	pws := map[string][]byte{}
	pws["root"] = genPw(r)
	d.Init("root", string(pws["root"]))
	for _, u := range []string{"alice", "bob"} {
		pws[u] = genPw(r)
		d.AddUser(u, string(pws[u]), u == "bob" && r.Bool())
	}
	if withAux {
		for _, u := range []string{"alice", "root"} {
			s := snapshot(base)
			if f := userFile(s, u); f != nil {
				os.WriteFile(filepath.Join(base, f.name), append(append([]byte(nil), f.data...), genAux(r, false)...), 0600)
			}
		}
	}
	return pws
}

func (c *ctx) genTracedOps(kinds []string, n int, emitKinds []string) {
	r := c.r
	for i := 0; i < n; i++ {
		cfg := genCfg(r)
		base := filepath.Join(c.work, fmt.Sprintf("tb%d", i))
		populate(r, cfg, base, r.Intn(3) != 0)
		op := kinds[r.Intn(len(kinds))]
		user := []string{"alice", "bob", "root", "newuser", "carol"}[r.Intn(5)]
		if op == "init" {
			resetDir(base)
			if r.Intn(3) == 0 {
				os.Mkdir(filepath.Join(base, ".tmp"), 0700)
			}
			user = "root"
		}
		if op == "add" && r.Intn(4) != 0 {
			user = []string{"newuser", "carol"}[r.Intn(2)]
		}
		if r.Intn(5) == 0 {
			os.RemoveAll(filepath.Join(base, ".tmp")) // the work area does not exist yet
		}
		otherFs := ""
		if r.Intn(4) == 0 && op != "init" {
			otherFs = tmpOnOtherFs(base, c.work, i) // .tmp on another file system: rename(2) cannot cross it
		}
		t, err := c.traceOp(cfg, base, op, user, genPw(r), r.Bool(), "", i)
		if err != nil {
			c.emit("law.harness.strace_runs "+op, "f")
			continue
		}
		for _, k := range emitKinds {
			c.emit("tr."+k+" "+t.payload(), "ok")
		}
		if otherFs != "" {
			os.RemoveAll(otherFs)
		}
		os.RemoveAll(base)
	}
}

func suiteC08(c *ctx) {
	n := 48
	if c.thorough() {
		n = 640
	}
	c.genTracedOps([]string{"add", "update", "update", "init"}, max(n/c.nshards, 1), []string{"c08"})
}

func suiteC09(c *ctx) {
	n := 64
	if c.thorough() {
		n = 800
	}
	c.genTracedOps([]string{"add", "update", "init", "setadmin", "setadmin", "remove", "remove"}, max(n/c.nshards, 1), []string{"c09"})
}

func suiteC15ro(c *ctx) {
	n := 48
	if c.thorough() {
		n = 480
	}
	c.genTracedOps([]string{"auth", "exists", "list", "listfull", "check"}, max(n/c.nshards, 1), []string{"c15ro"})
}

// C03 under strace: the paths every operation touches, for valid and invalid names.
func suiteC03tr(c *ctx) {
	r := c.r
	names := append([]string(nil), invalidNames...)
	names = append(names, "alice", "bob", "root", "newuser", "A.b-c_d@e", strings.Repeat("n", 250), strings.Repeat("n", 300))
	ops := []string{"auth", "exists", "add", "update", "setadmin", "remove"}
	idx := 0
	for _, name := range names {
		if strings.ContainsRune(name, 0) {
			continue // cannot be passed through the JSON case file faithfully as a C path anyway; API-level suite covers NUL
		}
		for _, op := range ops {
			idx++
			if !c.mine(idx) {
				continue
			}
			if !c.thorough() && idx%3 != int(c.seed%3) && !store_validName(name) && !strings.Contains(name, "/") {
				continue // (sampled in quick; names that could leave the base directory are always run)
			}
			cfg := genCfg(r)
			sandbox := filepath.Join(c.work, fmt.Sprintf("sbt%d", idx))
			base := filepath.Join(sandbox, "store")
			os.MkdirAll(filepath.Join(sandbox, "sibling-store"), 0700)
			populate(r, cfg, base, false)
			// the base directory as the store is given it: sometimes a string that needs cleaning
			baseArg := base
			if store_validName(name) {
				os.MkdirAll(filepath.Join(sandbox, "x"), 0700)
				baseArg = []string{base, base + "/", sandbox + "//store", sandbox + "/x/../store", sandbox + "/./store/.", base + "//"}[r.Intn(6)]
			}
			set := cfg.get(cfg.def)
			os.WriteFile(filepath.Join(sandbox, "sibling-store", "bob.user"), formatRecord(set, 1700000000, r.Bytes(set.saltLen()), []byte("x")), 0600)
			os.WriteFile(filepath.Join(sandbox, "store.admin"), formatRecord(set, 1700000000, r.Bytes(set.saltLen()), []byte("x")), 0600)
			t, err := c.traceOp(cfg, baseArg, op, name, []byte("Some-Passw0rd"), true, "", idx)
			if err != nil {
				c.emit("law.harness.strace_runs "+op, "f")
				continue
			}
			c.emit("tr.c03 "+t.payload(), "ok")
			// the file-name computation: what the process handed to the kernel for the user's files
			// is the model's getFilename (filepath.Join(BaseDir, user) + ext) of the same strings
			seen := map[string]bool{}
			for _, ua := range t.rawUA {
				if seen[ua[0]+ua[1]] {
					continue
				}
				seen[ua[0]+ua[1]] = true
				c.emit(fmt.Sprintf("path.file %s %s %s", xs(baseArg), xs(name), tf(ua[0] == "A")), xs(ua[1]))
			}
			os.RemoveAll(sandbox)
		}
	}
}

func init() {
	suites["c08"] = suiteC08
	suites["c09"] = suiteC09
	suites["c15ro"] = suiteC15ro
	suites["c03tr"] = suiteC03tr
}

// tmpOnOtherFs replaces <base>/.tmp by a symbolic link to a fresh directory on another file system
// (tmpfs under /dev/shm), as happens when the work area is a separate mount or volume. Returns
// the directory to remove afterwards ("" if no other file system is available).
func tmpOnOtherFs(base, work string, seq int) string {
	var a, b syscall.Stat_t
	if syscall.Stat("/dev/shm", &a) != nil || syscall.Stat(work, &b) != nil || a.Dev == b.Dev {
		return ""
	}
	d := fmt.Sprintf("/dev/shm/whawty-verif-%d-%d", os.Getpid(), seq)
	if os.MkdirAll(d, 0700) != nil {
		return ""
	}
	os.RemoveAll(filepath.Join(base, ".tmp"))
	if os.Symlink(d, filepath.Join(base, ".tmp")) != nil {
		os.RemoveAll(d)
		return ""
	}
	return d
}
