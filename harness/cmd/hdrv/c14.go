package main

import (
	"bytes"
	"crypto/hmac"
	"crypto/sha256"
	"encoding/base64"
	"encoding/hex"
	"fmt"
	"os"
	"path/filepath"
	"strings"
	"time"

	"github.com/whawty/auth/store"
	"golang.org/x/crypto/argon2"
	"golang.org/x/crypto/scrypt"
	"whawty-verif/harness/internal/rng"
)

type ycfg struct {
	sets             []*pset
	rAbsent, pAbsent map[uint]bool
	def              uint
}

func (y *ycfg) yaml(base string) string {
	var b strings.Builder
	fmt.Fprintf(&b, "basedir: %q\ndefault: %d\nparams:\n", base, y.def)
	for _, s := range y.sets {
		fmt.Fprintf(&b, "  - id: %d\n", s.id)
		if s.argon {
			fmt.Fprintf(&b, "    argon2id:\n      time: %d\n      memory: %d\n      threads: %d\n      length: %d\n", s.time, s.memory, s.threads, s.length)
		} else {
			fmt.Fprintf(&b, "    scryptauth:\n      hmackey: %q\n      cost: %d\n", base64.StdEncoding.EncodeToString(s.hmackey), s.cost)
			if !y.rAbsent[s.id] {
				fmt.Fprintf(&b, "      r: %d\n", s.r)
			}
			if !y.pAbsent[s.id] {
				fmt.Fprintf(&b, "      p: %d\n", s.p)
			}
		}
	}
	return b.String()
}

func genYcfg(r *rng.R, thorough bool) *ycfg {
	y := &ycfg{rAbsent: map[uint]bool{}, pAbsent: map[uint]bool{}}
	n := 1 + r.Intn(4)
	ids := []uint{1, 2, 3, 5, 9, 77, 4294967295}
	off := r.Intn(len(ids))
	for i := 0; i < n; i++ {
		s := &pset{id: ids[(off+i)%len(ids)]}
		if r.Bool() {
			s.argon = true
			s.time = uint32(1 + r.Intn(3))
			s.memory = uint32(r.Pick(8, 9, 16, 64, 100, 1024))
			s.threads = uint8(r.Pick(1, 2, 3, 4, 4, 17, 32, 255))
			s.length = uint32(r.Pick(4, 16, 20, 32, 64, 3100))
		} else {
			s.cost = uint(1 + r.Intn(6))
			if thorough && r.Intn(20) == 0 {
				s.cost = 12
			}
			s.r = r.Pick(0, 0, 1, 8, 16)
			s.p = r.Pick(0, 0, 1, 2)
			if r.Intn(3) == 0 {
				y.rAbsent[s.id] = true
				s.r = 0
			}
			if r.Intn(3) == 0 {
				y.pAbsent[s.id] = true
				s.p = 0
			}
			s.hmackey = r.Bytes(32)
		}
		y.sets = append(y.sets, s)
	}
	y.def = y.sets[r.Intn(n)].id
	return y
}

// effective parameters observed from a written digest: which candidate reproduces it?
func observeScrypt(s *pset, salt, pw, digest []byte) string {
	mac := func(k []byte) []byte { m := hmac.New(sha256.New, s.hmackey); m.Write(k); return m.Sum(nil) }
	for _, N := range []int{1 << s.cost, int(s.cost), 1 << (s.cost + 1), 1 << 14} {
		for _, rr := range uniq(s.r, 8, 1) {
			for _, pp := range uniq(s.p, 1, 2) {
				if rr <= 0 || pp <= 0 || N < 2 || N&(N-1) != 0 {
					continue
				}
				k, err := scrypt.Key(pw, salt, N, rr, pp, 32)
				if err == nil && bytes.Equal(mac(k), digest) {
					return fmt.Sprintf("%d %d %d hmac", N, rr, pp)
				}
				if err == nil && bytes.Equal(k, digest) {
					return fmt.Sprintf("%d %d %d nohmac", N, rr, pp)
				}
			}
		}
	}
	return "none"
}

func uniq(xs ...int) []int {
	var out []int
	seen := map[int]bool{}
	for _, x := range xs {
		if !seen[x] {
			seen[x] = true
			out = append(out, x)
		}
	}
	return out
}

func observeArgon(s *pset, salt, pw, digest []byte) string {
	for _, t := range []uint32{s.time, s.time + 1, 1} {
		for _, m := range []uint32{s.memory, s.memory * 1024, s.memory / 1024, 64 * 1024} {
			for _, th := range []uint8{s.threads, 1} {
				for _, l := range []uint32{s.length, 32} {
					if t < 1 || th < 1 || l < 1 {
						continue
					}
					if m > 1<<16 {
						continue
					}
					if bytes.Equal(argon2.IDKey(pw, salt, t, m, th, l), digest) {
						return fmt.Sprintf("%d %d %d %d id", t, m, th, l)
					}
				}
			}
		}
	}
	if bytes.Equal(argon2.Key(pw, salt, s.time, s.memory, s.threads, s.length), digest) {
		return "argon2i"
	}
	return "none"
}

func highEntropyPw(r *rng.R) []byte {
	const al = "ABCDEFGHJKLMNPQRSTUVWXYZabcdefghijkmnopqrstuvwxyz23456789!#%+?"
	b := make([]byte, 18+r.Intn(10))
	for i := range b {
		b[i] = al[r.Intn(len(al))]
	}
	return b
}

func containsSecret(hay []byte, secret []byte) bool {
	if len(secret) < 8 {
		return false
	}
	forms := [][]byte{secret,
		[]byte(base64.StdEncoding.EncodeToString(secret)), []byte(base64.URLEncoding.EncodeToString(secret)),
		[]byte(base64.RawStdEncoding.EncodeToString(secret)), []byte(hex.EncodeToString(secret))}
	for _, f := range forms {
		if bytes.Contains(hay, f) {
			return true
		}
	}
	return false
}

func suiteC14(c *ctx) {
	n := 150
	if c.thorough() {
		n = 1500
	}
	n = max(n/c.nshards, 1)
	for i := 0; i < n; i++ {
		r := c.r
		y := genYcfg(r, c.thorough())
		base := filepath.Join(c.work, fmt.Sprintf("y%d", i))
		resetDir(base)
		cfgFile := filepath.Join(c.work, fmt.Sprintf("y%d.yaml", i))
		os.WriteFile(cfgFile, []byte(y.yaml(base)), 0600)
		d, err := store.NewDirFromConfig(cfgFile)
		if err != nil {
			c.emit("law.C14.generated_config_loads "+xs(y.yaml(base)), "f")
			continue
		}
		cfg := &scfg{def: y.def, sets: y.sets}
		h := &hist{c: c, cfg: cfg, base: base, d: d, shadow: map[string]*srec{}, users: []string{"root", "alice", "bob"}}
		salts := map[string]bool{}
		var secrets [][]byte
		for _, s := range y.sets {
			if !s.argon {
				secrets = append(secrets, s.hmackey)
			}
		}
		nw := 4 + r.Intn(6)
		for k := 0; k < nw; k++ {
			u := h.users[r.Intn(3)]
			pw := highEntropyPw(r)
			if r.Intn(4) == 0 {
				pw = genPw(r)
			} else {
				secrets = append(secrets, pw)
			}
			op := "update"
			if h.shadow[u] == nil {
				op = "add"
			}
			if r.Intn(5) == 0 { // switch the default: records name the set that is default at write time
				d.Default = y.sets[r.Intn(len(y.sets))].id
			}
			if op == "update" && r.Intn(3) == 0 {
				h.skew(r, u) // the replaced record carries a time from another clock
			}
			before := time.Now().Unix()
			h.write(op, u, pw, u == "root")
			after := time.Now().Unix()
			snap := snapshot(base)
			f := userFile(snap, u)
			if f == nil {
				c.emit("law.C14.written_record_shape no-file", "f")
				continue
			}
			// one line, five ':'-separated fields, URL-safe padded base64, then the old aux lines
			line := f.data
			if j := bytes.IndexByte(line, '\n'); j >= 0 {
				line = line[:j]
			}
			fields := strings.Split(string(line), ":")
			ok5 := len(fields) == 5
			var salt, dig []byte
			var pid uint
			var ts int64
			shape := false
			if ok5 {
				var e1, e2 error
				salt, e1 = base64.URLEncoding.Strict().DecodeString(fields[3])
				dig, e2 = base64.URLEncoding.Strict().DecodeString(fields[4])
				p, s2, t, good := parseHead(f.data)
				pid, ts = p, t
				_ = s2
				shape = e1 == nil && e2 == nil && good && bytes.HasSuffix(f.data[:min(len(f.data), len(line)+1)], []byte("\n"))
			}
			id := fmt.Sprintf("%s %s", op, xb(line[:min(len(line), 300)]))
			c.emit("law.C14.written_record_shape "+id, tf(shape))
			if !shape {
				continue
			}
			set := cfg.get(pid)
			c.emit("law.C14.names_default_set_and_algorithm "+id, tf(pid == d.Default && set != nil && fields[0] == set.formatID()))
			c.emit("law.C14.time_is_now "+id, tf(ts >= before && ts <= after))
			c.emit("law.C14.salt_size_of_schema "+id, tf(set != nil && len(salt) == set.saltLen()))
			c.emit("law.C14.salt_never_reused "+id, tf(!salts[string(salt)]))
			salts[string(salt)] = true
			if set != nil {
				c.emit("law.C14.digest_is_schema_function "+id, tf(bytes.Equal(dig, set.digest(salt, pw))))
				if set.argon {
					c.emit(fmt.Sprintf("cfg.argon %d %d %d %d", set.time, set.memory, set.threads, set.length), observeArgon(set, salt, pw, dig))
				} else {
					rs, ps := fmt.Sprint(set.r), fmt.Sprint(set.p)
					if y.rAbsent[set.id] {
						rs = "-"
					}
					if y.pAbsent[set.id] {
						ps = "-"
					}
					c.emit(fmt.Sprintf("cfg.scrypt %d %s %s", set.cost, rs, ps), observeScrypt(set, salt, pw, dig))
				}
			}
			leak := false
			for _, e := range snap {
				for _, s := range secrets {
					if containsSecret(e.data, s) || containsSecret([]byte(e.name), s) {
						leak = true
					}
				}
			}
			c.emit("law.C14.password_and_hmac_key_never_in_store "+id, tf(!leak))
		}
		os.RemoveAll(base)
		os.Remove(cfgFile)
	}
}

func init() { suites["c14"] = suiteC14 }
