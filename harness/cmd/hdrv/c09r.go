package main

// C09, directory replaced under a live store: a long-lived `Dir` has already written to the base
// directory when the directory is REPLACED behind its back (`mv store store.old; cp -a backup store`,
// a restore while the agent keeps running). Every later acknowledged change follows the path —
// and so must the directory fsync that makes it durable: it has to reach the directory that now
// holds the entry, not the detached one. Decided on the real system calls (`strace -y` prints, for
// every descriptor, the path it refers to at the time of the call).

import (
	"bufio"
	"encoding/json"
	"fmt"
	"os"
	"os/exec"
	"path/filepath"
	"regexp"
	"strings"
	"syscall"
)

// child: warm-up write, optional replacement of the base directory, then the operation between markers
func childStoreOp2(casefile string) {
	b, err := os.ReadFile(casefile)
	if err != nil {
		fmt.Println("harness-error", err)
		os.Exit(3)
	}
	var oc opCase
	if err := json.Unmarshal(b, &oc); err != nil {
		fmt.Println("harness-error", err)
		os.Exit(3)
	}
	cfg := &scfg{def: oc.Def}
	for _, s := range oc.Sets {
		cfg.sets = append(cfg.sets, &pset{id: s.ID, argon: s.Argon, time: s.Time, memory: s.Memory, threads: s.Threads, length: s.Length, cost: s.Cost, r: s.R, p: s.P, hmackey: s.Key})
	}
	d := cfg.dir(oc.Base)
	// the store has been in use: one successful change of every kind
	if err := d.AddUser("warm", "Warm-Passw0rd", false); err != nil {
		fmt.Println("harness-error warm-up add:", err)
		os.Exit(3)
	}
	d.SetAdmin("warm", true)
	d.UpdateUser("warm", "Warm-Passw0rd-2")
	d.AddUser("gone", "Gone-Passw0rd", false)
	d.RemoveUser("gone")
	if oc.Admin2 { // replace the directory: the old one is moved away, a copy takes its name
		old := oc.Base + ".old"
		os.RemoveAll(old)
		if err := os.Rename(oc.Base, old); err != nil {
			fmt.Println("harness-error rename:", err)
			os.Exit(3)
		}
		os.MkdirAll(oc.Base, 0700)
		ents, _ := os.ReadDir(old)
		for _, e := range ents {
			if e.IsDir() {
				os.MkdirAll(filepath.Join(oc.Base, e.Name()), 0700)
				continue
			}
			if data, err := os.ReadFile(filepath.Join(old, e.Name())); err == nil {
				os.WriteFile(filepath.Join(oc.Base, e.Name()), data, 0600)
			}
		}
	}
	syscall.Access(markBegin, 0)
	var operr error
	switch oc.Op {
	case "add":
		operr = d.AddUser(oc.User, string(oc.Pw), oc.Admin)
	case "update":
		operr = d.UpdateUser(oc.User, string(oc.Pw))
	case "setadmin":
		operr = d.SetAdmin(oc.User, oc.Admin)
	case "remove":
		d.RemoveUser(oc.User)
	}
	syscall.Access(markEnd, 0)
	if operr != nil {
		fmt.Println("err")
	} else {
		fmt.Println("ok")
	}
}

var quotedRe = regexp.MustCompile(`"((?:[^"\\]|\\.)*)"`)
var fsyncYRe = regexp.MustCompile(`^(?:\d+\s+)?f(?:data)?sync\((\d+)<([^>]*)>\)\s+=\s+0`)
var callYRe = regexp.MustCompile(`^(?:\d+\s+)?([a-z0-9_]+)\((.*)\)\s+=\s+(-?\d+)`)

func suiteC09r(c *ctx) {
	if c.shard >= 8 && !c.thorough() {
		return
	}
	self, _ := os.Executable()
	n := 2
	if c.thorough() {
		n = 12
	}
	for i := 0; i < n; i++ {
		r := c.r
		cfg := genCfg(r)
		base := filepath.Join(c.work, fmt.Sprintf("rb%d", i))
		populate(r, cfg, base, r.Bool())
		op := []string{"add", "update", "setadmin", "remove"}[(i+c.shard)%4]
		user := map[string]string{"add": "newcomer", "update": "alice", "setadmin": "alice", "remove": "bob"}[op]
		replaced := (i+c.shard/4)%2 == 0
		casefile := filepath.Join(c.work, fmt.Sprintf("rb%d.json", i))
		oc := opCase{Base: base, Def: cfg.def, Op: op, User: user, Pw: genPw(r), Admin: true, Admin2: replaced}
		for _, s := range cfg.sets {
			oc.Sets = append(oc.Sets, opSet{ID: s.id, Argon: s.argon, Time: s.time, Memory: s.memory, Threads: s.threads, Length: s.length, Cost: s.cost, R: s.r, P: s.p, Key: s.hmackey})
		}
		jb, _ := json.Marshal(oc)
		os.WriteFile(casefile, jb, 0600)
		tracefile := filepath.Join(c.work, fmt.Sprintf("rb%d.trace", i))
		cmd := exec.Command("strace", "-f", "-qq", "-y", "-s", "4096", "-o", tracefile,
			"-e", "trace=fsync,fdatasync,rename,renameat,renameat2,unlink,unlinkat,access,faccessat,faccessat2", self, "storeop2", casefile)
		cmd.Env = append(os.Environ(), "GOMAXPROCS=1", "GODEBUG=asyncpreemptoff=1")
		out, err := cmd.Output()
		desc := fmt.Sprintf("op=%s replaced=%s", op, tf(replaced))
		if err != nil || strings.Contains(string(out), "harness-error") {
			c.emit("law.harness.strace_runs c09r "+desc+" "+xs(strings.TrimSpace(string(out))), "f")
			continue
		}
		if strings.TrimSpace(string(out)) != "ok" {
			continue // the operation was refused: nothing was acknowledged
		}
		f, err := os.Open(tracefile)
		if err != nil {
			c.emit("law.harness.strace_runs c09r "+desc, "f")
			continue
		}
		sc := bufio.NewScanner(f)
		sc.Buffer(make([]byte, 1<<20), 1<<26)
		in := false
		lastMut, lastGoodSync, k := -1, -1, 0
		otherDirSynced := ""
		for sc.Scan() {
			line := sc.Text()
			if strings.Contains(line, markBegin) {
				in = true
				continue
			}
			if strings.Contains(line, markEnd) {
				break
			}
			if !in {
				continue
			}
			k++
			if m := fsyncYRe.FindStringSubmatch(line); m != nil {
				if filepath.Clean(m[2]) == filepath.Clean(base) {
					lastGoodSync = k
				} else if st, e := os.Stat(m[2]); e == nil && st.IsDir() {
					otherDirSynced = filepath.Base(m[2])
				}
				continue
			}
			if m := callYRe.FindStringSubmatch(line); m != nil && m[3] == "0" {
				q := quotedRe.FindAllStringSubmatch(m[2], -1)
				switch {
				case strings.HasPrefix(m[1], "rename") && len(q) >= 2:
					if filepath.Dir(q[1][1]) == base || filepath.Dir(q[0][1]) == base {
						lastMut = k
					}
				case strings.HasPrefix(m[1], "unlink") && len(q) >= 1:
					if filepath.Dir(q[0][1]) == base {
						lastMut = k
					}
				}
			}
		}
		f.Close()
		if lastMut < 0 {
			continue // nothing changed in the base directory (e.g. set-admin to the state it already had)
		}
		c.emit(fmt.Sprintf("law.C09.directory_fsync_reaches_the_directory_that_holds_the_entry %s other-dir-synced=%s", desc, xs(otherDirSynced)), tf(lastGoodSync > lastMut))
		os.RemoveAll(base + ".old")
	}
}

func init() { suites["c09r"] = suiteC09r }
