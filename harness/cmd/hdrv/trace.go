package main

import (
	"bufio"
	"encoding/json"
	"fmt"
	"os"
	"os/exec"
	"path/filepath"
	"regexp"
	"runtime"
	"strconv"
	"strings"
	"syscall"
)

// ---- child: one store operation in its own process, bracketed by marker system calls ----

type opCase struct {
	Base   string  `json:"base"`
	Def    uint    `json:"def"`
	Sets   []opSet `json:"sets"`
	Op     string  `json:"op"`
	User   string  `json:"user"`
	Pw     []byte  `json:"pw"`
	Admin  bool    `json:"admin"`
	Admin2 bool    `json:"admin2"` // c09r: replace the base directory before the operation
}

type opSet struct {
	ID      uint   `json:"id"`
	Argon   bool   `json:"argon"`
	Time    uint32 `json:"time"`
	Memory  uint32 `json:"memory"`
	Threads uint8  `json:"threads"`
	Length  uint32 `json:"length"`
	Cost    uint   `json:"cost"`
	R       int    `json:"r"`
	P       int    `json:"p"`
	Key     []byte `json:"key"`
}

const markBegin = "/__verif_mark_begin__"
const markEnd = "/__verif_mark_end__"

func init() {
	// keep the whole operation on the main OS thread: strace's fault injection counts system
	// calls per thread, and the traces stay free of cross-thread interleaving
	if len(os.Args) > 1 && os.Args[1] == "storeop" {
		runtime.LockOSThread()
	}
}

func childStoreOp(casefile string) {
	b, err := os.ReadFile(casefile)
	if err != nil {
		fmt.Println("harness-error", err)
		os.Exit(3)
	}
	var oc opCase
	if err := json.Unmarshal(b, &oc); err != nil {
		fmt.Println("harness-error", err)
		os.Exit(3)
	}
	cfg := &scfg{def: oc.Def}
	for _, s := range oc.Sets {
		cfg.sets = append(cfg.sets, &pset{id: s.ID, argon: s.Argon, time: s.Time, memory: s.Memory, threads: s.Threads, length: s.Length, cost: s.Cost, r: s.R, p: s.P, hmackey: s.Key})
	}
	d := cfg.dir(oc.Base)
	syscall.Access(markBegin, 0)
	var operr error
	res := ""
	switch oc.Op {
	case "add":
		operr = d.AddUser(oc.User, string(oc.Pw), oc.Admin)
	case "update":
		operr = d.UpdateUser(oc.User, string(oc.Pw))
	case "init":
		operr = d.Init(oc.User, string(oc.Pw))
	case "setadmin":
		operr = d.SetAdmin(oc.User, oc.Admin)
	case "remove":
		d.RemoveUser(oc.User)
	case "auth":
		ok, _, _, _, _ := d.Authenticate(oc.User, string(oc.Pw))
		res = " auth=" + tf(ok)
	case "exists":
		ex, _, err := d.Exists(oc.User)
		operr = err
		res = " exists=" + tf(ex)
	case "list":
		_, operr = d.List()
	case "listfull":
		_, operr = d.ListFull()
	case "check":
		operr = d.Check()
	}
	syscall.Access(markEnd, 0)
	if operr != nil {
		fmt.Println("err" + res)
	} else {
		fmt.Println("ok" + res)
	}
}

func writeCase(path string, cfg *scfg, base, op, user string, pw []byte, admin bool) {
	oc := opCase{Base: base, Def: cfg.def, Op: op, User: user, Pw: pw, Admin: admin}
	for _, s := range cfg.sets {
		oc.Sets = append(oc.Sets, opSet{ID: s.id, Argon: s.argon, Time: s.time, Memory: s.memory, Threads: s.threads, Length: s.length, Cost: s.cost, R: s.r, P: s.p, Key: s.hmackey})
	}
	b, _ := json.Marshal(oc)
	os.WriteFile(path, b, 0600)
}

// ---- parent: run the child under strace and turn the trace into abstract events ----

type sysEv struct {
	name    string
	args    string
	ret     string
	tail    string // errno text, "(INJECTED)"
	ordinal int    // this is the ordinal-th invocation of `name` in the whole process
}

// lastPre: per system call, how many invocations happened before the begin marker
var lastPreCounts map[string]int

var lineRe = regexp.MustCompile(`^(\d+)\s+(.*)$`)
var callRe = regexp.MustCompile(`^([a-z0-9_]+)\((.*)\)\s+=\s+(-?\d+|\?)(.*)$`)

// runTraced executes `hdrv storeop casefile` under strace (optionally with a fault/kill
// injection expression) and returns the system calls between the markers + the child's output.
func runTraced(self, casefile, tracefile string, inject string) (evs []sysEv, out string, killed bool, err error) {
	args := []string{"-f", "-qq", "-s", "2000000", "-xx", "-o", tracefile,
		"-e", "trace=openat,open,creat,mkdir,mkdirat,write,pwrite64,fsync,fdatasync,rename,renameat,renameat2,unlink,unlinkat,rmdir,close,access,faccessat,faccessat2,newfstatat,stat,lstat,statx,getdents64,read,link,linkat,symlink,symlinkat,truncate,ftruncate,chmod,fchmod,fchmodat,chown,fchown,fchownat,sync,syncfs,sync_file_range,readlink,readlinkat,copy_file_range,sendfile"}
	if inject != "" {
		args = append(args, "-e", "inject="+inject)
	}
	args = append(args, self, "storeop", casefile)
	cmd := exec.Command("strace", args...)
	cmd.Env = append(os.Environ(), "GOMAXPROCS=1", "GODEBUG=asyncpreemptoff=1")
	b, runErr := cmd.Output()
	out = strings.TrimSpace(string(b))
	if runErr != nil {
		if ee, ok := runErr.(*exec.ExitError); ok && !ee.Success() {
			killed = true
		} else {
			return nil, out, false, runErr
		}
	}
	f, e := os.Open(tracefile)
	if e != nil {
		return nil, out, killed, e
	}
	defer f.Close()
	sc := bufio.NewScanner(f)
	sc.Buffer(make([]byte, 1<<20), 1<<28)
	pending := map[string]string{}
	in := false
	counts := map[string]int{}
	for sc.Scan() {
		m := lineRe.FindStringSubmatch(sc.Text())
		if m == nil {
			continue
		}
		pid, rest := m[1], m[2]
		if strings.HasSuffix(rest, "<unfinished ...>") {
			pending[pid] = strings.TrimSuffix(rest, " <unfinished ...>")
			continue
		}
		if strings.HasPrefix(rest, "<... ") {
			i := strings.Index(rest, "resumed>")
			if i < 0 {
				continue
			}
			rest = pending[pid] + rest[i+len("resumed>"):]
			delete(pending, pid)
		}
		cm := callRe.FindStringSubmatch(rest)
		if cm == nil {
			continue
		}
		// strace counts `when=` per tracee (thread): the operation runs on the locked main thread
		counts[pid+":"+cm[1]]++
		ev := sysEv{name: cm[1], args: cm[2], ret: cm[3], tail: cm[4], ordinal: counts[pid+":"+cm[1]]}
		if (ev.name == "access" || ev.name == "faccessat" || ev.name == "faccessat2") && strings.Contains(unhexPath(ev.args), markBegin) {
			in = true
			evs = nil
			continue
		}
		if (ev.name == "access" || ev.name == "faccessat" || ev.name == "faccessat2") && strings.Contains(unhexPath(ev.args), markEnd) {
			in = false
			evs = append(evs, sysEv{name: "ACK"})
			continue
		}
		if in {
			evs = append(evs, ev)
		}
	}
	return evs, out, killed, nil
}

var strRe = regexp.MustCompile(`"((?:\\x[0-9a-f]{2})*)"`)

func unhexStr(s string) []byte {
	b := make([]byte, 0, len(s)/4)
	for i := 0; i+3 < len(s); i += 4 {
		v, _ := strconv.ParseUint(s[i+2:i+4], 16, 8)
		b = append(b, byte(v))
	}
	return b
}

// unhexPath decodes every "\x.." string in an argument list (for substring tests).
func unhexPath(args string) string {
	return strRe.ReplaceAllStringFunc(args, func(m string) string { return string(unhexStr(m[1 : len(m)-1])) })
}

func strArgs(args string) [][]byte {
	var out [][]byte
	for _, m := range strRe.FindAllStringSubmatch(args, -1) {
		out = append(out, unhexStr(m[1]))
	}
	return out
}

// classify a path relative to the base directory and the operation's user.
type classifier struct {
	base  string
	user  string
	temps map[string]int
}

func (c *classifier) class(p string) string {
	p = filepath.Clean(p)
	switch {
	case p == c.base:
		return "B"
	case p == filepath.Join(c.base, ".tmp"):
		return "W"
	case p == c.base+"/"+c.user+".user" && c.user != "":
		return "U"
	case p == c.base+"/"+c.user+".admin" && c.user != "":
		return "A"
	case filepath.Dir(p) == filepath.Join(c.base, ".tmp"):
		if c.temps == nil {
			c.temps = map[string]int{}
		}
		if _, ok := c.temps[p]; !ok {
			c.temps[p] = len(c.temps) + 1
		}
		return fmt.Sprintf("t%d", c.temps[p])
	case strings.HasPrefix(p, c.base+"/"):
		return "s:" + xs(strings.TrimPrefix(p, c.base+"/")) // another entry of the store
	}
	return "o:" + xs(p)
}

// abstractEvents: the vocabulary of lean/Whawty/Model/Persist.lean.
func abstractEvents(evs []sysEv, cl *classifier) []string {
	var out []string
	for _, e := range evs {
		if e.name == "ACK" {
			out = append(out, "ack")
			continue
		}
		fail := strings.HasPrefix(e.ret, "-") || e.ret == "?"
		sa := strArgs(e.args)
		path := func(i int) string {
			if i < len(sa) {
				return cl.class(string(sa[i]))
			}
			return "o:x"
		}
		switch e.name {
		case "openat", "open", "creat":
			if fail {
				out = append(out, "openfail:"+path(0))
				continue
			}
			fl := e.args
			switch {
			case strings.Contains(fl, "O_CREAT") && strings.Contains(fl, "O_EXCL"):
				out = append(out, fmt.Sprintf("creat:%s:%s", e.ret, path(0)))
			case strings.Contains(fl, "O_CREAT") || strings.Contains(fl, "O_TRUNC") || strings.Contains(fl, "O_WRONLY") || strings.Contains(fl, "O_RDWR") || strings.Contains(fl, "O_APPEND"):
				out = append(out, fmt.Sprintf("openw:%s:%s:%s", e.ret, path(0), tf(strings.Contains(fl, "O_TRUNC"))))
			default:
				out = append(out, fmt.Sprintf("open:%s:%s", e.ret, path(0)))
			}
		case "mkdir", "mkdirat":
			if !fail {
				out = append(out, "mkdir:"+path(0))
			} else {
				out = append(out, "stat:"+path(0))
			}
		case "write", "pwrite64":
			if fail {
				continue
			}
			fd := strings.SplitN(e.args, ",", 2)[0]
			n, _ := strconv.Atoi(e.ret)
			var data []byte
			if len(sa) > 0 {
				data = sa[0]
			}
			if n < len(data) {
				data = data[:n]
			}
			out = append(out, fmt.Sprintf("write:%s:%s", strings.TrimSpace(fd), xb(data)))
		case "fsync", "fdatasync":
			if !fail {
				out = append(out, "fsync:"+strings.TrimSpace(e.args))
			}
		case "rename", "renameat", "renameat2":
			if !fail {
				out = append(out, fmt.Sprintf("rename:%s:%s", path(0), path(1)))
			} else {
				out = append(out, "stat:"+path(0))
			}
		case "unlink", "unlinkat", "rmdir":
			if !fail {
				out = append(out, "unlink:"+path(0))
			} else {
				out = append(out, "stat:"+path(0))
			}
		case "close":
			out = append(out, "close:"+strings.TrimSpace(e.args))
		case "access", "faccessat", "faccessat2", "newfstatat", "stat", "lstat", "statx", "readlink", "readlinkat":
			if len(sa) > 0 && len(sa[0]) > 0 {
				out = append(out, "stat:"+path(0))
			}
		case "read":
			// advances the file offset (needed to know what a later copy_file_range copies)
			if n, err := strconv.Atoi(e.ret); err == nil && n > 0 {
				out = append(out, fmt.Sprintf("read:%s:%d", strings.TrimSpace(strings.SplitN(e.args, ",", 2)[0]), n))
			}
		case "getdents64":
		case "copy_file_range":
			// copy_file_range(fd_in, NULL, fd_out, NULL, len, 0) = n  (Go's ReadFrom fast path)
			a := strings.Split(e.args, ",")
			if fail || len(a) < 4 {
				continue
			}
			if strings.TrimSpace(a[1]) != "NULL" || strings.TrimSpace(a[3]) != "NULL" {
				out = append(out, "othermut:copy_file_range_with_offsets")
				continue
			}
			out = append(out, fmt.Sprintf("copy:%s:%s:%s", strings.TrimSpace(a[0]), strings.TrimSpace(a[2]), e.ret))
		case "link", "linkat", "symlink", "symlinkat", "truncate", "ftruncate", "chmod", "fchmod", "fchmodat", "chown", "fchown", "fchownat", "sendfile":
			if !fail {
				out = append(out, "othermut:"+e.name)
			}
		}
	}
	return out
}
