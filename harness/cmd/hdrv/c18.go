package main

import (
	"encoding/base64"
	"fmt"
	"os"
	"path/filepath"
	"regexp"
	"strings"

	"github.com/whawty/auth/store"
	"whawty-verif/harness/internal/rng"
)

// a configuration document as a tree the harness can mutate and print as YAML
type ySet struct {
	id        string // textual, so that type errors and edge values can be written
	hasID     bool
	scrypt    map[string]string // nil = absent
	argon     map[string]string
	scryptOrd []string
	argonOrd  []string
	extra     string // extra raw YAML lines inside the set
}

type yDoc struct {
	basedir   *string
	dflt      *string
	sets      []*ySet
	hasParams bool
	extraTop  string
	dupTop    string
}

func (d *yDoc) render() string {
	var b strings.Builder
	if d.basedir != nil {
		fmt.Fprintf(&b, "basedir: %s\n", *d.basedir)
	}
	if d.dflt != nil {
		fmt.Fprintf(&b, "default: %s\n", *d.dflt)
	}
	b.WriteString(d.extraTop)
	if d.hasParams {
		if len(d.sets) == 0 {
			b.WriteString("params: []\n")
		} else {
			b.WriteString("params:\n")
		}
		for _, s := range d.sets {
			first := true
			pre := func() string {
				if first {
					first = false
					return "  - "
				}
				return "    "
			}
			if s.hasID {
				fmt.Fprintf(&b, "%sid: %s\n", pre(), s.id)
			}
			if s.scrypt != nil {
				fmt.Fprintf(&b, "%sscryptauth:\n", pre())
				for _, k := range s.scryptOrd {
					fmt.Fprintf(&b, "      %s: %s\n", k, s.scrypt[k])
				}
				if len(s.scryptOrd) == 0 {
					b.WriteString("      {}\n")
				}
			}
			if s.argon != nil {
				fmt.Fprintf(&b, "%sargon2id:\n", pre())
				for _, k := range s.argonOrd {
					fmt.Fprintf(&b, "      %s: %s\n", k, s.argon[k])
				}
				if len(s.argonOrd) == 0 {
					b.WriteString("      {}\n")
				}
			}
			if s.extra != "" {
				fmt.Fprintf(&b, "%s%s\n", pre(), s.extra)
			}
			if first {
				b.WriteString("  - {}\n")
			}
		}
	}
	b.WriteString(d.dupTop)
	return b.String()
}

func sp(s string) *string { return &s }

func genDoc(r *rng.R, base string) *yDoc {
	d := &yDoc{basedir: sp(fmt.Sprintf("%q", base)), hasParams: true}
	n := 1 + r.Intn(3)
	ids := []string{"1", "2", "3", "7", "4294967295", "18446744073709551615"}
	for i := 0; i < n; i++ {
		s := &ySet{id: ids[(i+r.Intn(3))%len(ids)], hasID: true}
		if r.Bool() {
			s.argon = map[string]string{"time": fmt.Sprint(1 + r.Intn(2)), "memory": fmt.Sprint(r.Pick(8, 16, 64)), "threads": fmt.Sprint(1 + r.Intn(2)), "length": fmt.Sprint(r.Pick(16, 32))}
			s.argonOrd = []string{"time", "memory", "threads", "length"}
		} else {
			s.scrypt = map[string]string{"hmackey": base64.StdEncoding.EncodeToString(r.Bytes(32)), "cost": fmt.Sprint(1 + r.Intn(4)), "r": fmt.Sprint(r.Pick(0, 1, 8)), "p": fmt.Sprint(r.Pick(0, 1))}
			s.scryptOrd = []string{"hmackey", "cost", "r", "p"}
		}
		d.sets = append(d.sets, s)
	}
	d.dflt = sp(d.sets[r.Intn(n)].id)
	return d
}

var numEdges = []string{"0", "1", "2", "31", "32", "255", "256", "257", "512", "65535", "65536", "16776960", "16777215", "16777216", "4294967295", "4294967296", "18446744073709551615", "18446744073709551616", "-1", "1.5", "\"3\"", "abc", "0x10", "true", "~", "[1]", "{a: 1}"}

// mutate returns whether the document must fail to DECODE for a reason the harness knows
// (unknown key); other decode failures (type errors) are discovered by trying.
func mutate(r *rng.R, d *yDoc) (mustFailDecode bool) {
	k := r.Intn(22)
	if k >= 20 {
		k = 12 // numeric edge values get three shares
	}
	pickSet := func() *ySet {
		if len(d.sets) == 0 {
			return nil
		}
		return d.sets[r.Intn(len(d.sets))]
	}
	switch k {
	case 0:
		d.basedir = nil
	case 1:
		d.basedir = sp("\"\"")
	case 2:
		d.dflt = nil
	case 3:
		d.dflt = sp(numEdges[r.Intn(len(numEdges))])
	case 4:
		d.dflt = sp("99")
	case 5:
		d.sets = nil
	case 6:
		d.hasParams = false
		d.sets = nil
	case 7:
		if s := pickSet(); s != nil {
			s.hasID = false
		}
	case 8:
		if s := pickSet(); s != nil {
			s.id = numEdges[r.Intn(len(numEdges))]
		}
	case 9: // both algorithms
		if s := pickSet(); s != nil {
			if s.argon == nil {
				s.argon = map[string]string{"time": "1", "memory": "8", "threads": "1", "length": "16"}
				s.argonOrd = []string{"time", "memory", "threads", "length"}
			} else {
				s.scrypt = map[string]string{"hmackey": base64.StdEncoding.EncodeToString(r.Bytes(32)), "cost": "2"}
				s.scryptOrd = []string{"hmackey", "cost"}
			}
		}
	case 10: // no algorithm
		if s := pickSet(); s != nil {
			s.argon, s.scrypt = nil, nil
		}
	case 11: // unknown key at some level
		switch r.Intn(3) {
		case 0:
			d.extraTop = "unknown: 1\n"
		case 1:
			if s := pickSet(); s != nil {
				s.extra = "bcrypt: {cost: 10}"
			}
		default:
			if s := pickSet(); s != nil {
				if s.argon != nil {
					s.argon["lanes"] = "1"
					s.argonOrd = append(s.argonOrd, "lanes")
				} else if s.scrypt != nil {
					s.scrypt["n"] = "1024"
					s.scryptOrd = append(s.scryptOrd, "n")
				}
			}
		}
		return true
	case 12: // numeric edge value in an algorithm field
		if s := pickSet(); s != nil {
			if s.argon != nil {
				f := s.argonOrd[r.Intn(len(s.argonOrd))]
				s.argon[f] = numEdges[r.Intn(len(numEdges))]
				if _, has := s.argon["threads"]; has && r.Intn(3) == 0 {
					// the narrowest field: values around and beyond its width, multiples of it
					s.argon["threads"] = []string{"255", "256", "257", "512", "1024", "65536", "16776960", "4294967040"}[r.Intn(8)]
				}
			} else if s.scrypt != nil {
				f := []string{"cost", "r", "p"}[r.Intn(3)]
				s.scrypt[f] = numEdges[r.Intn(len(numEdges))]
			}
		}
	case 13: // field deletion inside an algorithm
		if s := pickSet(); s != nil {
			if s.argon != nil && len(s.argonOrd) > 0 {
				i := r.Intn(len(s.argonOrd))
				s.argonOrd = append(s.argonOrd[:i:i], s.argonOrd[i+1:]...)
			} else if s.scrypt != nil && len(s.scryptOrd) > 0 {
				i := r.Intn(len(s.scryptOrd))
				s.scryptOrd = append(s.scryptOrd[:i:i], s.scryptOrd[i+1:]...)
			}
		}
	case 14: // hmac key variants
		if s := pickSet(); s != nil && s.scrypt != nil {
			s.scrypt["hmackey"] = []string{"\"\"", base64.StdEncoding.EncodeToString(r.Bytes(31)), base64.StdEncoding.EncodeToString(r.Bytes(33)), base64.URLEncoding.EncodeToString([]byte{0xfb, 0xff, 0xfe, 1, 2, 3, 4, 5, 6, 7, 8, 9, 10, 11, 12, 13, 14, 15, 16, 17, 18, 19, 20, 21, 22, 23, 24, 25, 26, 27, 28, 29}), "not-base64!", base64.RawStdEncoding.EncodeToString(r.Bytes(32))}[r.Intn(6)]
		}
	case 15: // duplicated set id
		if s := pickSet(); s != nil {
			c := *s
			d.sets = append(d.sets, &c)
		}
	case 16: // duplicated top-level key
		d.dupTop = "default: 1\n"
	case 17: // zero id
		if s := pickSet(); s != nil {
			s.id = "0"
		}
	case 18: // default 0 with / without sets
		d.dflt = sp("0")
		if r.Bool() {
			d.sets = nil
		}
	default:
		// unmodified valid document
	}
	return false
}

var unknownKeyRe = regexp.MustCompile(`(?m)^(unknown: 1|\s+bcrypt: \{cost: 10\}|\s+lanes: |\s+n: )`)

func suiteC18(c *ctx) {
	n := 1500
	if c.thorough() {
		n = 30000
	}
	n = max(n/c.nshards, 1)
	for i := 0; i < n; i++ {
		r := c.r
		base := filepath.Join(c.work, "cfgbase")
		os.MkdirAll(base, 0700)
		d := genDoc(r, base)
		mustFail := false
		// mostly ONE fault per document (a second fault hides what the first would show), sometimes two or three
		for m := []int{0, 0, 0, 0, 0, 0, 1, 1, 1, 2}[r.Intn(10)]; m >= 0; m-- {
			if mutate(r, d) {
				mustFail = true
			}
		}
		text := d.render()
		// decided on the FINAL document: a later mutation may have removed the set that carried the
		// unknown key, or there was no set to put it into
		mustFail = unknownKeyRe.MatchString(text)
		cf := filepath.Join(c.work, "cfg.yaml")
		os.WriteFile(cf, []byte(text), 0600)
		dir, err := store.NewDirFromConfig(cf)
		accepted := err == nil
		// the harness's own decoding of the document into the structured form given to the model
		st, decOK := structured(text)
		id := xs(text[:min(len(text), 1500)])
		if mustFail {
			c.emit("law.C18.unknown_keys_rejected "+id, tf(!accepted))
		}
		if decOK {
			c.emit("cfg.load "+st, tf(accepted))
		} else {
			c.emit("law.C18.undecodable_document_rejected "+id, tf(!accepted))
		}
		if accepted {
			// every accepted parameter set hashes and verifies, or fails with an error — never crashes
			for pid, hsh := range dir.Params {
				_ = pid
				if !affordable(st, pid) {
					continue
				}
				p, hung := withTimeout(func() {
					hs, err := hsh.Generate("Passw0rd-" + fmt.Sprint(i))
					if err == nil {
						ok, _ := hsh.Check("Passw0rd-"+fmt.Sprint(i), hs)
						bad, _ := hsh.Check("wrong", hs)
						if !ok || bad {
							panic("generated hash does not verify")
						}
					}
				})
				c.emit("law.C18.accepted_set_hashes_or_errors "+id, tf(p == "" && !hung))
			}
		}
	}
}

func init() { suites["c18"] = suiteC18 }
