package main

import (
	"bytes"
	"encoding/base64"
	"fmt"
	"os"
	"path/filepath"
	"strconv"
	"strings"
	"time"

	"whawty-verif/harness/internal/rng"
)

// independentAuth: the property's right-hand side, evaluated by the harness's own reading of
// doc/SCHEMA.md (Go's base64 and strconv, x/crypto digests; nothing from the store package).
func independentAuth(cfg *scfg, active func(uint) bool, content, pw []byte) bool {
	line := content
	if i := bytes.IndexByte(content, '\n'); i >= 0 {
		line = content[:i+1]
	}
	parts := strings.SplitN(string(line), ":", 4)
	if len(parts) != 4 {
		return false
	}
	if _, err := strconv.ParseInt(parts[1], 10, 64); err != nil {
		return false
	}
	id, err := strconv.ParseUint(parts[2], 10, 64)
	if err != nil {
		return false
	}
	set := cfg.get(uint(id))
	if set == nil || !active(uint(id)) || set.formatID() != parts[0] {
		return false
	}
	sh := strings.Split(parts[3], ":")
	if len(sh) != 2 {
		return false
	}
	salt, err := base64.URLEncoding.DecodeString(sh[0])
	if err != nil {
		return false
	}
	hash, err := base64.URLEncoding.DecodeString(sh[1])
	if err != nil {
		return false
	}
	return bytes.Equal(set.digest(salt, pw), hash)
}

type c02case struct {
	content    []byte
	rightPw    []byte
	admin      bool
	wellformed bool // produced by the harness's own formatter for a configured set
}

func formatRecord(set *pset, ts int64, salt, pw []byte) []byte {
	return []byte(fmt.Sprintf("%s:%d:%d:%s:%s\n", set.formatID(), ts, set.id,
		base64.URLEncoding.EncodeToString(salt), base64.URLEncoding.EncodeToString(set.digest(salt, pw))))
}

func mutations(r *rng.R, cfg *scfg, thorough bool) []c02case {
	var out []c02case
	set := cfg.sets[r.Intn(len(cfg.sets))]
	pw := genPw(r)
	salt := r.Bytes(set.saltLen())
	ts := int64(1700000000 + r.Intn(100000000))
	good := formatRecord(set, ts, salt, pw)
	add := func(b []byte) {
		out = append(out, c02case{content: append([]byte(nil), b...), rightPw: pw, admin: r.Intn(4) == 0})
	}
	// (iii) independent implementation of the schema: must authenticate
	out = append(out, c02case{content: good, rightPw: pw, wellformed: true, admin: r.Bool()})
	out = append(out, c02case{content: append(append([]byte(nil), good...), genAux(r, false)...), rightPw: pw, wellformed: true})
	out = append(out, c02case{content: good[:len(good)-1], rightPw: pw, wellformed: true}) // no trailing newline
	fields := strings.Split(strings.TrimSuffix(string(good), "\n"), ":")
	join := func(f []string) []byte { return []byte(strings.Join(f, ":") + "\n") }
	// each field emptied / swapped pairwise
	for i := range fields {
		f := append([]string(nil), fields...)
		f[i] = ""
		add(join(f))
		for j := i + 1; j < len(fields); j++ {
			g := append([]string(nil), fields...)
			g[i], g[j] = g[j], g[i]
			add(join(g))
		}
	}
	// truncated at every length (sampled in quick)
	for k := 0; k <= len(good); k++ {
		if thorough || k < 4 || k > len(good)-4 || r.Intn(6) == 0 {
			add(good[:k])
		}
	}
	// separators: 3..7
	add([]byte(strings.Join(fields[:4], ":") + fields[4] + "\n"))
	add([]byte(strings.Join(fields, ":") + ":\n"))
	add([]byte(strings.Join(fields, ":") + ":x:y\n"))
	add([]byte(":" + strings.Join(fields, ":") + "\n"))
	add([]byte(strings.Join(fields, "::") + "\n"))
	// re-encodings of salt and digest
	rawSalt, rawHash := salt, set.digest(salt, pw)
	reenc := func(s, h string) { f := append([]string(nil), fields...); f[3], f[4] = s, h; add(join(f)) }
	reenc(base64.StdEncoding.EncodeToString(rawSalt), base64.StdEncoding.EncodeToString(rawHash))
	reenc(base64.RawURLEncoding.EncodeToString(rawSalt), base64.RawURLEncoding.EncodeToString(rawHash))
	reenc(fields[3], base64.RawURLEncoding.EncodeToString(rawHash))
	reenc(fields[3][:10]+"\r\n"+fields[3][10:], fields[4][:7]+"\r"+fields[4][7:]) // embedded CR/LF: first line ends early
	reenc(fields[3][:10]+"\r"+fields[3][10:], fields[4][:7]+"\r"+fields[4][7:])   // embedded CR only: skipped by the decoder
	reenc(fields[3], fields[4]+"\r")
	// fields that are non-empty TEXT but decode to nothing (the decoder skips CR and LF): a CRLF-terminated
	// record whose digest is missing, a lone CR for the salt, …
	for _, blank := range []string{"\r", "\r\r", "\r\r\r\r"} {
		reenc(fields[3], blank)
		reenc(blank, fields[4])
		reenc(blank, blank)
	}
	add([]byte(strings.Join(fields[:4], ":") + ":\r\n"))
	add([]byte(strings.Join(fields[:4], ":") + ":\r"))
	add([]byte(strings.Join(fields[:3], ":") + ":\r:" + fields[4] + "\r\n"))
	// non-canonical trailing bits (same decoded bytes)
	if strings.HasSuffix(fields[4], "=") && !strings.HasSuffix(fields[4], "==") {
		h := []byte(fields[4])
		h[len(h)-2]++
		reenc(fields[3], string(h))
	}
	// digest variants
	for _, n := range []int{0, 1, len(rawHash) / 2, len(rawHash) - 1} {
		reenc(fields[3], base64.URLEncoding.EncodeToString(rawHash[:n]))
	}
	reenc(fields[3], base64.URLEncoding.EncodeToString(append(append([]byte(nil), rawHash...), 0)))
	reenc(base64.URLEncoding.EncodeToString(nil), fields[4])
	flip := append([]byte(nil), rawHash...)
	flip[r.Intn(len(flip))] ^= 1 << uint(r.Intn(8))
	reenc(fields[3], base64.URLEncoding.EncodeToString(flip))
	// CR / LF / NUL inserted at position classes
	for _, ch := range []byte{'\r', '\n', 0} {
		for _, pos := range []int{0, len(fields[0]), len(fields[0]) + 1, len(good) / 2, len(good) - 1} {
			b := append(append(append([]byte(nil), good[:pos]...), ch), good[pos:]...)
			add(b)
		}
	}
	// other algorithm / parameter-set ids
	other := cfg.sets[r.Intn(len(cfg.sets))]
	for _, a := range []string{"argon2id", "hmac_sha256_scrypt", "argon2i", "", "ARGON2ID", "argon2id "} {
		f := append([]string(nil), fields...)
		f[0] = a
		add(join(f))
	}
	for _, p := range []string{"0", "99", fmt.Sprint(other.id), "+" + fields[2], "0" + fields[2], "18446744073709551615", "18446744073709551616", "-1", "0x1", " " + fields[2], fields[2] + " ", "1e0"} {
		f := append([]string(nil), fields...)
		f[2] = p
		add(join(f))
	}
	// time stamp edge cases
	for _, t := range []string{"+5", "-1", "9223372036854775807", "9223372036854775808", "-9223372036854775808", "-9223372036854775809", "", "1_0", "0x10", " 5", "5 ", "1.0", "05"} {
		f := append([]string(nil), fields...)
		f[1] = t
		add(join(f))
	}
	// huge lines
	if r.Intn(6) == 0 || thorough {
		n := 1 << 16
		if thorough && r.Intn(4) == 0 {
			n = 1 << 20
		}
		add(append(bytes.Repeat([]byte("A"), n), good...))
		add(append(append([]byte(nil), good[:len(good)-1]...), bytes.Repeat([]byte("A"), n)...))
		f := append([]string(nil), fields...)
		f[0] = strings.Repeat("z", n)
		add(join(f))
	}
	// reader-buffer boundaries: a first line stretched beyond 4096 / 8192 / 65536 bytes by characters the
	// base64 decoder skips (CR) — valid if nothing else follows, invalid with junk behind the boundary
	if r.Intn(3) == 0 || thorough {
		for _, n := range []int{4095, 4096, 4097, 8192, 65536} {
			head := strings.Join(fields, ":")
			if len(head) >= n {
				continue
			}
			padded := head + strings.Repeat("\r", n-len(head))
			out = append(out, c02case{content: []byte(padded + "\n"), rightPw: pw, wellformed: true})
			out = append(out, c02case{content: []byte(padded + "\r\r\n" + "totp: QUJD\n"), rightPw: pw, wellformed: true})
			for _, junk := range []string{":x", "AAAA", "\x00", "=", "!"} {
				add([]byte(padded + junk + "\n"))
				add([]byte(padded + "\r\r" + junk))
			}
			// the same with the stretch inside the salt field
			f := append([]string(nil), fields...)
			f[3] = f[3][:4] + strings.Repeat("\r", max(n-len(head), 1)) + f[3][4:]
			out = append(out, c02case{content: []byte(strings.Join(f, ":") + "\n"), rightPw: pw, wellformed: true})
			add([]byte(strings.Join(f, ":") + "x\n"))
		}
	}
	// arbitrary bytes
	for k := 0; k < 6; k++ {
		add(r.Bytes(r.Intn(120)))
	}
	add(nil)
	return out
}

func withTimeout(f func()) (panicked string, hung bool) {
	done := make(chan string, 1)
	go func() {
		defer func() {
			if e := recover(); e != nil {
				done <- fmt.Sprint("panic: ", e)
				return
			}
			done <- ""
		}()
		f()
	}()
	select {
	case p := <-done:
		return p, false
	case <-time.After(4 * time.Minute): // (an operation that does not END; a busy machine must not look like one)
		return "", true
	}
}

func suiteC02(c *ctx) {
	n := 64
	if c.thorough() {
		n = 640
	}
	n /= c.nshards
	for gi := 0; gi < max(n, 1); gi++ {
		r := c.r
		cfg := genCfg(r)
		for ci, cs := range mutations(r, cfg, c.thorough()) {
			base := filepath.Join(c.work, fmt.Sprintf("c02-%d-%d", gi, ci))
			resetDir(base)
			d := cfg.dir(base)
			// a regular administrator so that the directory is a store
			aset := cfg.get(cfg.def)
			asalt := r.Bytes(aset.saltLen())
			os.WriteFile(filepath.Join(base, "admin0.admin"), formatRecord(aset, 1700000000, asalt, []byte("adminpw")), 0600)
			user := "victim"
			ext := ".user"
			if cs.admin {
				ext = ".admin"
			}
			if ci%8 == 5 {
				// the record is published through a symbolic link (a secret volume, a `current -> release-N`
				// layout): for the schema it is the same record
				data := base + "-data"
				os.MkdirAll(data, 0700)
				os.WriteFile(filepath.Join(data, "victim-record"), cs.content, 0600)
				os.Symlink(filepath.Join("..", filepath.Base(data), "victim-record"), filepath.Join(base, user+ext))
			} else {
				os.WriteFile(filepath.Join(base, user+ext), cs.content, 0600)
			}
			h := &hist{c: c, cfg: cfg, base: base, d: d, shadow: map[string]*srec{}, users: []string{user, "admin0"}, noSpec: true}
			active := func(id uint) bool { return d.Params[id] != nil }
			p, hung := withTimeout(func() {
				snap := snapshot(base)
				for _, pw := range [][]byte{cs.rightPw, append(append([]byte(nil), cs.rightPw...), 'x'), {}} {
					ok, isAdmin, upg, lc, _ := d.Authenticate(user, string(pw))
					var o oracle
					// digest for whatever salt/set the model will read out of the file
					if pid, sl, _, good := parseHead(cs.content); good {
						o.add(cfg.get(pid), sl, pw)
					}
					addLenientOracle(&o, cfg, cs.content, pw)
					res := "fail"
					if ok {
						res = fmt.Sprintf("ok %s %s %d", tf(isAdmin), tf(upg), lc.Unix())
					}
					id := fmt.Sprintf("%s %s", xb(cs.content[:min(len(cs.content), 400)]), xb(pw[:min(len(pw), 100)]))
					if len(cs.content) < 70000 {
						c.emit(fmt.Sprintf("st.auth %s %s %s %s %s", cfg.tokenOf(d), snapTok(snap, false), o.token(), xs(user), xb(pw)), res)
					}
					ind := independentAuth(cfg, active, cs.content, pw)
					c.emit("law.C02.auth_only_if_record "+id, tf(!ok || ind))
					if cs.wellformed && bytes.Equal(pw, cs.rightPw) {
						c.emit("law.C02.foreign_record_accepted "+id, tf(ok))
					}
					c.emit("law.C02.auth_iff_independent_schema_reading "+id, tf(ok == ind))
				}
				if len(cs.content) < 5000 {
					h.readers()
				}
				// unsupported-file rules
				lf, _ := d.ListFull()
				supported := lf[user].IsSupported
				l, _ := d.List()
				_, listed := l[user]
				id := xb(cs.content[:min(len(cs.content), 400)])
				c.emit("law.C02.list_shows_exactly_supported "+id, tf(listed == supported))
				// … and "supported" is what an independent reading of the schema says about the bytes
				c.emit("law.C02.supported_iff_independent_schema_reading "+id, tf(supported == independentSupported(cfg, cs.content)))
				pre := snapshot(base)
				errAdd := d.AddUser(user, "NewPassw0rd", false)
				post := snapshot(base)
				c.emit("law.C02.add_on_existing_file_refused_unchanged "+id, tf(errAdd != nil && eqModTmp(pre, post)))
				if len(cs.content) < 5000 {
					h.write("update", user, []byte("NewPassw0rd"), false)
				} else {
					errUpd := d.UpdateUser(user, "NewPassw0rd")
					post2 := snapshot(base)
					if !supported {
						c.emit("law.C02.update_on_unsupported_refused_identical "+id, tf(errUpd != nil && eqModTmp(pre, post2)))
					}
				}
				if !supported {
					post2 := snapshot(base)
					c.emit("law.C02.update_on_unsupported_refused_identical "+id, tf(eqModTmp(pre, post2)))
				}
				h.remove(user)
				after := snapshot(base)
				c.emit("law.C02.remove_deletes_any_file "+id, tf(userFile(after, user) == nil))
			})
			if p != "" {
				c.emit("law.C02.no_crash "+xb(cs.content[:min(len(cs.content), 400)])+" "+strings.ReplaceAll(p, " ", "_"), "f")
			}
			if hung {
				// the abandoned goroutine may still be working on the directory and writing lines: this
				// shard ends here (everything emitted so far is kept)
				c.emit("law.C02.no_hang "+xb(cs.content[:min(len(cs.content), 400)]), "f")
				c.w.Flush()
				os.Exit(0)
			}
			os.RemoveAll(base)
			os.RemoveAll(base + "-data")
		}
	}
}

// addLenientOracle: the model may read a salt out of a mutated line that parseHead (strict
// five-field reading) rejects; supply the digest for the lenient reading as well.
func addLenientOracle(o *oracle, cfg *scfg, content, pw []byte) {
	line := content
	if i := bytes.IndexByte(content, '\n'); i >= 0 {
		line = content[:i+1]
	}
	parts := strings.SplitN(string(line), ":", 4)
	if len(parts) != 4 {
		return
	}
	id, err := strconv.ParseUint(parts[2], 10, 64)
	if err != nil {
		return
	}
	sh := strings.Split(parts[3], ":")
	if len(sh) != 2 {
		return
	}
	salt, err := base64.URLEncoding.DecodeString(sh[0])
	if err != nil {
		return
	}
	o.add(cfg.get(uint(id)), salt, pw)
}

func init() { suites["c02"] = suiteC02 }
