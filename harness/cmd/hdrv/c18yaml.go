package main

import (
	"encoding/base64"
	"fmt"
	"strings"

	"gopkg.in/yaml.v3"
)

// structured: the harness's own strict decoding (yaml.v3 + the field types of the documented
// configuration format) into the token the Lean model takes. ok=false: not decodable.
type hScrypt struct {
	HmacKey string `yaml:"hmackey"`
	Cost    uint   `yaml:"cost"`
	R       *int   `yaml:"r"`
	P       *int   `yaml:"p"`
}
type hArgon struct {
	Time    uint32 `yaml:"time"`
	Memory  uint32 `yaml:"memory"`
	Threads uint8  `yaml:"threads"`
	Length  uint32 `yaml:"length"`
}
type hSet struct {
	ID     uint     `yaml:"id"`
	Scrypt *hScrypt `yaml:"scryptauth"`
	Argon  *hArgon  `yaml:"argon2id"`
}
type hDoc struct {
	BaseDir string `yaml:"basedir"`
	Default uint   `yaml:"default"`
	Params  []hSet `yaml:"params"`
}

var lastDoc *hDoc

func structured(text string) (string, bool) {
	dec := yaml.NewDecoder(strings.NewReader(text))
	dec.KnownFields(true)
	var d hDoc
	if err := dec.Decode(&d); err != nil {
		return "", false
	}
	lastDoc = &d
	var sets []string
	for _, s := range d.Params {
		t := fmt.Sprint(s.ID)
		if s.Scrypt != nil {
			kl := "x"
			if k, err := base64.StdEncoding.DecodeString(s.Scrypt.HmacKey); err == nil {
				kl = fmt.Sprint(len(k))
			}
			r, p := "-", "-"
			if s.Scrypt.R != nil {
				r = fmt.Sprint(*s.Scrypt.R)
			}
			if s.Scrypt.P != nil {
				p = fmt.Sprint(*s.Scrypt.P)
			}
			t += fmt.Sprintf("/S:%s:%d:%s:%s", kl, s.Scrypt.Cost, r, p)
		}
		if s.Argon != nil {
			t += fmt.Sprintf("/A:%d:%d:%d:%d", s.Argon.Time, s.Argon.Memory, s.Argon.Threads, s.Argon.Length)
		}
		if s.Scrypt == nil && s.Argon == nil {
			t += "/none"
		}
		sets = append(sets, t)
	}
	st := "[]"
	if len(sets) > 0 {
		st = strings.Join(sets, ",")
	}
	return fmt.Sprintf("%s %d %s", tf(d.BaseDir == ""), d.Default, st), true
}

// affordable: hashing with this set costs little memory and time.
func affordable(_ string, pid uint) bool {
	if lastDoc == nil {
		return false
	}
	for _, s := range lastDoc.Params {
		if s.ID != pid {
			continue
		}
		if s.Scrypt != nil {
			r, p := 8, 1
			if s.Scrypt.R != nil && *s.Scrypt.R > 0 {
				r = *s.Scrypt.R
			}
			if s.Scrypt.P != nil && *s.Scrypt.P > 0 {
				p = *s.Scrypt.P
			}
			if s.Scrypt.Cost > 10 || r > 64 || p > 16 {
				return false
			}
		}
		if s.Argon != nil && (s.Argon.Memory > 65536 || s.Argon.Time > 8 || s.Argon.Length > 1<<16) {
			return false
		}
	}
	return true
}
