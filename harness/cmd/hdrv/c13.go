package main

import (
	"bytes"
	"fmt"
	"io"

	"github.com/whawty/auth/sasl"
	"whawty-verif/harness/internal/rng"
)

// scriptReader replays a fixed fragmentation: the i-th Read returns the i-th chunk (or as
// much of it as fits); after the last chunk it returns io.EOF, or, with eofWithLast, the
// last chunk is returned together with io.EOF.
type scriptReader struct {
	chunks      [][]byte
	i           int
	eofWithLast bool
}

func (s *scriptReader) Read(p []byte) (int, error) {
	if s.i >= len(s.chunks) {
		return 0, io.EOF
	}
	c := s.chunks[s.i]
	n := copy(p, c)
	if n < len(c) {
		s.chunks[s.i] = c[n:]
		return n, nil
	}
	s.i++
	if s.eofWithLast && s.i == len(s.chunks) {
		return n, io.EOF
	}
	return n, nil
}

func cloneChunks(cs [][]byte) [][]byte {
	out := make([][]byte, len(cs))
	for i, c := range cs {
		out[i] = append([]byte(nil), c...)
	}
	return out
}

// fragmentations of one stream: whole, 1-byte reads, random cuts, zero-length reads.
func fragmentations(r *rng.R, s []byte, thorough bool) [][][]byte {
	var out [][][]byte
	out = append(out, [][]byte{s})
	if len(s) <= 600 || thorough {
		one := make([][]byte, 0, len(s))
		for i := range s {
			one = append(one, s[i:i+1])
		}
		out = append(out, one)
	}
	nr := 2
	if thorough {
		nr = 5
	}
	for k := 0; k < nr; k++ {
		var cs [][]byte
		rest := s
		for len(rest) > 0 {
			n := 1 + r.Intn(len(rest))
			if r.Intn(3) == 0 {
				n = 1 + r.Intn(min(len(rest), 5))
			}
			cs = append(cs, rest[:n])
			rest = rest[n:]
			for z := r.Intn(4); z > 0 && r.Intn(3) == 0; z-- { // zero-length reads, up to 3 in a row
				cs = append(cs, []byte{})
			}
		}
		if r.Intn(4) == 0 {
			cs = append([][]byte{{}}, cs...)
		}
		out = append(out, cs)
	}
	// a reader that stops making progress: bufio's scanner tolerates 100 zero-length reads in a
	// row and gives up on the 101st (io.ErrNoProgress) — runs of 99/100/101/150 at the start,
	// inside a length prefix, inside a field, at the very end
	if len(s) > 0 && (r.Intn(3) == 0 || thorough) {
		run := []int{99, 100, 101, 150}[r.Intn(4)]
		at := []int{0, 1, min(3, len(s)), r.Intn(len(s) + 1), len(s)}[r.Intn(5)]
		var cs [][]byte
		if at > 0 {
			cs = append(cs, s[:at])
		}
		for z := 0; z < run; z++ {
			cs = append(cs, []byte{})
		}
		if at < len(s) {
			cs = append(cs, s[at:])
		}
		out = append(out, cs)
	}
	return out
}

// stallFree: no run of more than 100 zero-length reads (lean: Sasl.stallFree 0).
func stallFree(cs [][]byte) bool {
	run := 0
	for _, c := range cs {
		if len(c) == 0 {
			run++
			if run > 100 {
				return false
			}
		} else {
			run = 0
		}
	}
	return true
}

func reqDecObs(rd io.Reader) string {
	var q sasl.Request
	cr := &countReader{r: rd}
	if err := q.Decode(cr); err != nil {
		return "err"
	}
	// consumed bytes = what a re-encoding takes (the scanner reads ahead, so the reader's
	// count is not the consumed count)
	n := 8 + len(q.Login) + len(q.Password) + len(q.Service) + len(q.Realm)
	return fmt.Sprintf("ok %s %s %s %s %d", xs(q.Login), xs(q.Password), xs(q.Service), xs(q.Realm), n)
}

type countReader struct {
	r io.Reader
	n int
}

func (c *countReader) Read(p []byte) (int, error) { n, err := c.r.Read(p); c.n += n; return n, err }

func respDecObs(rd io.Reader) string {
	var q sasl.Response
	if err := q.Decode(rd); err != nil {
		return "err"
	}
	return fmt.Sprintf("ok %s %s", tf(q.Result), xs(q.Message))
}

func (c *ctx) decAll(kind string, s []byte) {
	obs := reqDecObs
	if kind == "sasl.respdec" {
		obs = respDecObs
	}
	first := ""
	for i, cs := range fragmentations(c.r, s, c.thorough()) {
		for _, ewl := range []bool{false, true} {
			if ewl && len(cs) == 0 {
				continue
			}
			o := obs(&scriptReader{chunks: cloneChunks(cs), eofWithLast: ewl})
			c.emit(kind+" "+xl(cs), o)
			if i == 0 && !ewl {
				first = o
			} else if stallFree(cs) {
				// law: the result does not depend on the fragmentation
				c.emit("law.C13.fragment_independent "+xl(cs), tf(o == first))
			} else {
				// law: a stalled reader can only turn the result into an error
				c.emit("law.C13.chunked_result_is_stream_result "+xl(cs), tf(o == first || o == "err"))
			}
		}
	}
	// Unmarshal = Decode on the whole stream
	if kind == "sasl.reqdec" {
		var q sasl.Request
		o := "err"
		if err := q.Unmarshal(s); err == nil {
			o = fmt.Sprintf("ok %s %s %s %s %d", xs(q.Login), xs(q.Password), xs(q.Service), xs(q.Realm),
				8+len(q.Login)+len(q.Password)+len(q.Service)+len(q.Realm))
			// law: re-encoding reproduces the consumed prefix
			var buf bytes.Buffer
			err := q.Encode(&buf)
			n := buf.Len()
			c.emit("law.C13.reencode_consumed "+xb(s), tf(err == nil && n <= len(s) && bytes.Equal(buf.Bytes(), s[:n])))
		}
		c.emit(kind+" "+xl([][]byte{s}), o)
	} else {
		var q sasl.Response
		o := "err"
		if err := q.Unmarshal(s); err == nil {
			o = fmt.Sprintf("ok %s %s", tf(q.Result), xs(q.Message))
		}
		c.emit(kind+" "+xl([][]byte{s}), o)
	}
}

func (c *ctx) reqEnc(l, p, s, r []byte) []byte {
	c.poison()
	q := &sasl.Request{Login: string(l), Password: string(p), Service: string(s), Realm: string(r)}
	cmd := fmt.Sprintf("sasl.reqenc %s %s %s %s", xb(l), xb(p), xb(s), xb(r))
	var buf bytes.Buffer
	err := q.Encode(&buf)
	var out []byte
	if err != nil {
		c.emit(cmd, "err")
	} else {
		out = buf.Bytes()
		c.emit(cmd, "ok "+xb(out))
	}
	m, merr := q.Marshal()
	if merr != nil {
		c.emit(cmd, "err")
	} else {
		c.emit(cmd, "ok "+xb(m))
	}
	// law (wire format on the real encoder's bytes): four parts, each a 16-bit big-endian length and
	// exactly that many bytes; refused exactly when a field exceeds 256 bytes
	{
		var want []byte
		over := false
		for _, f := range [][]byte{l, p, s, r} {
			over = over || len(f) > 256
			want = append(want, byte(len(f)>>8), byte(len(f)))
			want = append(want, f...)
		}
		for _, o := range []struct {
			b   []byte
			err error
		}{{out, err}, {m, merr}} {
			good := (o.err != nil) == over && (o.err != nil || bytes.Equal(o.b, want))
			c.emit(fmt.Sprintf("law.C13.wire_format_request lens=%d,%d,%d,%d", len(l), len(p), len(s), len(r)), tf(good))
		}
	}
	if err == nil {
		// law: round trip
		var d sasl.Request
		derr := d.Decode(bytes.NewReader(append(append([]byte(nil), out...), c.r.Bytes(c.r.Intn(4))...)))
		if len(l) > 0 && len(p) > 0 {
			c.emit("law.C13.decode_encode_request "+xb(out), tf(derr == nil && d == *q))
		} else {
			c.emit("law.C13.empty_login_or_password_refused "+xb(out), tf(derr != nil))
		}
	} else {
		over := len(l) > 256 || len(p) > 256 || len(s) > 256 || len(r) > 256
		c.emit("law.C13.overlimit_refused_encode "+fmt.Sprint(len(l), len(p), len(s), len(r)), tf(over))
	}
	return out
}

// failWriter accepts `n` bytes and then fails: a peer that hung up while the message was written.
type failWriter struct{ n int }

func (f *failWriter) Write(p []byte) (int, error) {
	if len(p) <= f.n {
		f.n -= len(p)
		return len(p), nil
	}
	k := f.n
	f.n = 0
	return k, io.ErrClosedPipe
}

// poison: encode some OTHER message into a writer that breaks after 0..5 bytes. What an encoder
// produces afterwards must not depend on that (the wire format is a function of the message).
func (c *ctx) poison() {
	if c.r.Intn(6) != 0 {
		return
	}
	k := c.r.Intn(6)
	if c.r.Bool() {
		(&sasl.Response{Result: true, Message: "leftover"}).Encode(&failWriter{n: k}) //nolint:errcheck
	} else {
		(&sasl.Request{Login: "stale", Password: "stale-pw", Service: "s", Realm: "r"}).Encode(&failWriter{n: k}) //nolint:errcheck
	}
}

func (c *ctx) respEnc(ok bool, msg []byte) []byte {
	c.poison()
	q := &sasl.Response{Result: ok, Message: string(msg)}
	cmd := fmt.Sprintf("sasl.respenc %s %s", tf(ok), xb(msg))
	var buf bytes.Buffer
	err := q.Encode(&buf)
	var out []byte
	if err != nil {
		c.emit(cmd, "err")
	} else {
		out = buf.Bytes()
		c.emit(cmd, "ok "+xb(out))
	}
	m, merr := q.Marshal()
	if merr != nil {
		c.emit(cmd, "err")
	} else {
		c.emit(cmd, "ok "+xb(m))
	}
	// law (wire format, stated on the real encoder's bytes): one part = a 16-bit big-endian length and
	// exactly that many bytes, the text "OK"/"NO" + optional " " + message; refused exactly when the
	// part does not fit a 16-bit length
	{
		text := "NO"
		if ok {
			text = "OK"
		}
		if len(msg) > 0 {
			text += " " + string(msg)
		}
		for _, o := range []struct {
			b   []byte
			err error
		}{{out, err}, {m, merr}} {
			good := false
			if o.err != nil {
				good = len(text) > 65535
			} else {
				good = len(text) <= 65535 && len(o.b) == 2+len(text) && int(o.b[0])<<8|int(o.b[1]) == len(text) && string(o.b[2:]) == text
			}
			c.emit(fmt.Sprintf("law.C13.wire_format_response ok=%s msglen=%d", tf(ok), len(msg)), tf(good))
		}
	}
	if err == nil && len(out)-2 <= 256 {
		var d sasl.Response
		derr := d.Decode(bytes.NewReader(out))
		c.emit("law.C13.decode_encode_response "+xb(out), tf(derr == nil && d == *q))
	}
	return out
}

func fieldBytes(r *rng.R, n int) []byte {
	switch r.Intn(4) {
	case 0: // printable
		b := make([]byte, n)
		for i := range b {
			b[i] = byte(33 + r.Intn(94))
		}
		return b
	case 1: // bytes that matter to the codec: 0x00 0x01 0xff, 'O','K','N',' '
		al := []byte{0, 1, 255, 'O', 'K', 'N', ' ', 2}
		b := make([]byte, n)
		for i := range b {
			b[i] = al[r.Intn(len(al))]
		}
		return b
	default:
		return r.Bytes(n)
	}
}

func suiteC13(c *ctx) {
	small := []int{0, 1, 2, 255, 256, 257}
	idx := 0
	// exhaustive grid over the boundary lengths of all four fields
	for _, a := range small {
		for _, b := range small {
			for _, s := range small {
				for _, r := range small {
					idx++
					if !c.mine(idx) {
						continue
					}
					enc := c.reqEnc(fieldBytes(c.r, a), fieldBytes(c.r, b), fieldBytes(c.r, s), fieldBytes(c.r, r))
					if enc != nil && (idx%7 == 0 || c.thorough()) {
						c.decAll("sasl.reqdec", enc)
					}
				}
			}
		}
	}
	// the 16-bit boundary, one field at a time and all at once
	big := []int{65535, 65536}
	for _, n := range big {
		for pos := 0; pos < 5; pos++ {
			idx++
			if !c.mine(idx) {
				continue
			}
			ls := []int{3, 4, 0, 0}
			if pos < 4 {
				ls[pos] = n
			} else {
				ls = []int{n, n, n, n}
			}
			c.reqEnc(fieldBytes(c.r, ls[0]), fieldBytes(c.r, ls[1]), fieldBytes(c.r, ls[2]), fieldBytes(c.r, ls[3]))
		}
	}
	// responses: both verdicts x message lengths around every limit
	for _, n := range []int{0, 1, 2, 3, 252, 253, 254, 255, 256, 257, 65531, 65532, 65533, 65535, 65536} {
		for _, ok := range []bool{true, false} {
			idx++
			if !c.mine(idx) {
				continue
			}
			enc := c.respEnc(ok, fieldBytes(c.r, n))
			if enc != nil && n <= 300 {
				c.decAll("sasl.respdec", enc)
			}
		}
	}
	// response texts that a lenient reader of the grammar gets wrong: every single byte as the first
	// byte of the message, blanks / tabs / NULs before and after, the verdict words inside the message
	var msgs [][]byte
	for b := 0; b < 256; b++ {
		msgs = append(msgs, []byte{byte(b)}, []byte{byte(b), 'x'})
	}
	for _, m := range []string{" ", "  ", " x", "  x", "x ", " x ", "\tx", "\nx", " OK", " NO", "OK", "NO x", "\x00x", "x\x00", "   ", " \t "} {
		msgs = append(msgs, []byte(m))
	}
	for _, m := range msgs {
		for _, ok := range []bool{true, false} {
			idx++
			if !c.mine(idx) {
				continue
			}
			if enc := c.respEnc(ok, m); enc != nil && idx%7 == 0 {
				c.decAll("sasl.respdec", enc)
			}
		}
	}
	// decoder inputs
	nrand := 1500
	if c.thorough() {
		nrand = 30000
	}
	for i := 0; i < nrand; i++ {
		idx++
		if !c.mine(idx) {
			continue
		}
		r := c.r
		var s []byte
		switch r.Intn(6) {
		case 0: // valid request with random small fields, then mutated
			q := &sasl.Request{Login: string(fieldBytes(r, 1+r.Intn(20))), Password: string(fieldBytes(r, 1+r.Intn(20))),
				Service: string(fieldBytes(r, r.Intn(8))), Realm: string(fieldBytes(r, r.Intn(8)))}
			s, _ = q.Marshal()
			switch r.Intn(5) {
			case 0:
				s = s[:r.Intn(len(s)+1)] // truncation at a random length
			case 1:
				s = append(s, r.Bytes(1+r.Intn(10))...) // trailing bytes
			case 2:
				s[r.Intn(len(s))] ^= byte(1 << r.Intn(8)) // bit flip
			case 3:
				p := r.Intn(len(s))
				s = append(s[:p:p], append(r.Bytes(1), s[p:]...)...) // insertion
			}
		case 1: // four parts with boundary lengths, raw
			for k := 0; k < 4; k++ {
				n := r.Pick(0, 1, 2, 255, 256, 257, 258, 300, 511, 512, 65535)
				s = append(s, byte(n>>8), byte(n))
				m := n
				if r.Intn(4) == 0 {
					m = r.Intn(n + 1)
				}
				if m > 600 {
					m = 600
				}
				s = append(s, fieldBytes(r, m)...)
			}
		case 2:
			s = r.Bytes(r.Intn(40))
		case 3: // go-fuzz corpus shapes: short strings of small bytes
			n := r.Intn(12)
			s = make([]byte, n)
			for k := range s {
				s[k] = byte(r.Intn(4))
			}
		case 4: // response-like
			t := []byte([]string{"OK", "NO", "ok", "O", "OKAY", "NOPE", "KO", ""}[r.Intn(8)])
			if r.Bool() {
				t = append(append([]byte(nil), t...), ' ')
				t = append(t, fieldBytes(r, r.Intn(6))...)
			}
			s = append([]byte{byte(len(t) >> 8), byte(len(t))}, t...)
			if r.Intn(5) == 0 {
				s = s[:r.Intn(len(s)+1)]
			}
			c.decAll("sasl.respdec", s)
			continue
		case 5: // every truncation of one valid request
			q := &sasl.Request{Login: "al", Password: string(fieldBytes(r, 3)), Service: "s", Realm: ""}
			full, _ := q.Marshal()
			for k := 0; k <= len(full); k++ {
				c.decAll("sasl.reqdec", full[:k])
			}
			continue
		}
		if r.Intn(6) == 0 {
			c.decAll("sasl.respdec", s)
		} else {
			c.decAll("sasl.reqdec", s)
		}
	}
}

func init() { suites["c13"] = suiteC13 }
