package main

import (
	"errors"
	"fmt"
	"os"
	"path/filepath"

	"github.com/whawty/auth/store"
)

// interferingHasher wraps the default parameter set's hasher: the first Generate call runs
// `fn` before hashing. Generate sits between the operation's existence probe and its first
// mutating system call, so `fn` is exactly what a second process (another `whawty-auth`
// command, a sync job) completing an operation on the same directory in that window does.
type interferingHasher struct {
	store.Hasher // the wrapped set: GetFormatID / IsValid / Check are its own, whatever their signatures
	fn           func()
	fired        bool
	fail         bool // Generate fails (a parameter set that loads but cannot hash: scrypt cost 0, r*p too large)
}

func (h *interferingHasher) Generate(p string) (string, error) {
	if !h.fired {
		h.fired = true
		h.fn()
	}
	if h.fail {
		return "", errors.New("scrypt: parameters are too large")
	}
	return h.Hasher.Generate(p)
}

// symlink-aware snapshot token: a symbolic link is shown with its target
func snapshotL(base string) []sent {
	s := snapshot(base)
	for i := range s {
		if t, err := os.Readlink(filepath.Join(base, s[i].name)); err == nil {
			s[i].bad = "symlink->" + t
		}
	}
	return s
}

// suiteC15i: operations that FAIL because the directory changed between their existence probe
// and their first mutating call (a concurrent operation of another process), or because the
// name is occupied by something the probe does not see (a dangling symbolic link). Whatever
// the reason for the failure: the store must be exactly as it was at that moment.
func suiteC15i(c *ctx) {
	r := c.r
	n := 48
	if c.thorough() {
		n = 600
	}
	n = max(n/c.nshards, 3)
	for i := 0; i < n; i++ {
		cfg := genCfg(r)
		base := filepath.Join(c.work, fmt.Sprintf("ib%d", i))
		resetDir(base)
		withAux := r.Bool()
		populate(r, cfg, base, withAux)
		if r.Intn(3) == 0 {
			os.RemoveAll(filepath.Join(base, ".tmp"))
		}
		other := cfg.dir(base) // the second process: its own Dir object, plain hashers
		d := cfg.dir(base)
		scen := []string{"add-vs-add", "update-vs-remove", "update-vs-setadmin", "add-over-dangling-symlink",
			"update-vs-update", "add-admin-over-dangling-user-symlink", "add-generate-fails", "update-generate-fails"}[(i+c.shard)%8]
		var pre []sent
		ih := &interferingHasher{Hasher: d.Params[d.Default]}
		d.Params[d.Default] = ih
		pw, pw2 := string(genPw(r)), "Other-"+string(highEntropyPw(r))
		adm := r.Bool()
		var err error
		expectFail := true
		user := "alice"
		switch scen {
		case "add-vs-add":
			user = "newuser"
			ih.fn = func() { other.AddUser(user, pw2, adm); pre = snapshotL(base) }
			err = d.AddUser(user, pw, adm)
		case "update-vs-remove":
			ih.fn = func() { other.RemoveUser(user); pre = snapshotL(base) }
			err = d.UpdateUser(user, pw)
		case "update-vs-setadmin":
			_, isAdm, _ := other.Exists(user)
			ih.fn = func() { other.SetAdmin(user, !isAdm); pre = snapshotL(base) }
			err = d.UpdateUser(user, pw)
		case "update-vs-update":
			expectFail = false
			ih.fn = func() { other.UpdateUser(user, pw2); pre = snapshotL(base) }
			err = d.UpdateUser(user, pw)
		case "add-generate-fails":
			// the hash cannot be computed: the add fails for a semantic reason and leaves nothing behind
			user = "newuser"
			ih.fail = true
			ih.fn = func() {}
			pre = snapshotL(base) // (before the call: whatever the operation did up to the failure counts)
			err = d.AddUser(user, pw, adm)
		case "update-generate-fails":
			ih.fail = true
			ih.fn = func() {}
			pre = snapshotL(base)
			err = d.UpdateUser(user, pw)
		case "add-over-dangling-symlink":
			user = "ghost"
			ext := map[bool]string{true: ".admin", false: ".user"}[adm]
			os.Symlink(filepath.Join(base, "no-such-target"), filepath.Join(base, user+ext))
			ih.fn = func() { pre = snapshotL(base) }
			err = d.AddUser(user, pw, adm)
		case "add-admin-over-dangling-user-symlink":
			// the other extension is occupied by a dangling link: the add succeeds under its own
			// name and must leave the link alone ("every other file byte for byte")
			user = "ghost"
			expectFail = false
			ext := map[bool]string{true: ".user", false: ".admin"}[adm]
			os.Symlink(filepath.Join(base, "no-such-target"), filepath.Join(base, user+ext))
			ih.fn = func() { pre = snapshotL(base) }
			err = d.AddUser(user, pw, adm)
		}
		post := snapshotL(base)
		desc := fmt.Sprintf("%s aux=%s admin=%s fired=%s", scen, tf(withAux), tf(adm), tf(ih.fired))
		if !ih.fired {
			// the operation was refused before it reached the hasher: nothing to judge here
			c.emit("law.C15.failed_op_changes_nothing class=interference-not-reached "+desc, tf(err != nil))
			os.RemoveAll(base)
			continue
		}
		switch {
		case err != nil:
			c.emit("law.C15.failed_op_changes_nothing class=interference "+desc, tf(eqModTmpContent(pre, post)))
		case expectFail:
			// success where the first mutating call should have failed: then at least the effect must be complete
			c.emit("law.C15.fault_success_is_complete class=interference "+desc, tf(userFile(post, user) != nil))
		default:
			ok := othersUntouchedL(pre, post, user)
			c.emit("law.C15.write_touches_only_target class=interference "+desc, tf(ok))
			if scen == "update-vs-update" {
				// the later writer wins completely: its password authenticates, the other's does not
				a1, _, _, _, _ := other.Authenticate(user, pw)
				a2, _, _, _, _ := other.Authenticate(user, pw2)
				c.emit("law.C11.later_write_wins_completely "+desc, tf(a1 && !a2))
			}
		}
		os.RemoveAll(base)
	}
}

// othersUntouchedL: every entry other than the user's own two names and .tmp is identical
// (symbolic links included).
func othersUntouchedL(pre, post []sent, user string) bool {
	f := func(s []sent, occupiedToo bool) string {
		var t []sent
		for _, e := range s {
			if e.name == ".tmp" {
				continue
			}
			if (e.name == user+".user" || e.name == user+".admin") && (e.bad == "" || !occupiedToo) {
				continue
			}
			t = append(t, e)
		}
		return snapTok(t, true)
	}
	return f(pre, true) == f(post, true)
}

func init() { suites["c15i"] = suiteC15i }
