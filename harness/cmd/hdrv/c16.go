package main

import (
	"fmt"
	"os"
	"path/filepath"
	"strings"

	"whawty-verif/harness/internal/rng"
)

// independent reading of "holds a supported hash" (schema + configured sets)
func independentSupported(cfg *scfg, content []byte) bool {
	pid, salt, _, ok := parseHead(content)
	if !ok {
		return false
	}
	set := cfg.get(pid)
	if set == nil || !strings.HasPrefix(string(content), set.formatID()+":") || len(salt) == 0 {
		return false
	}
	// digest field decodes and is not empty
	line := string(content)
	if i := strings.IndexByte(line, '\n'); i >= 0 {
		line = line[:i]
	}
	f := strings.Split(line, ":")
	h, err := b64dec(f[4])
	return err == nil && len(h) > 0
}

type dent struct {
	name    string
	dir     bool
	content []byte
}

func genDirEntries(r *rng.R, cfg *scfg) []dent {
	var out []dent
	used := map[string]bool{}
	n := r.Intn(7)
	rec := func(kind int) []byte {
		set := cfg.sets[r.Intn(len(cfg.sets))]
		switch kind {
		case 0:
			return formatRecord(set, 1700000000+int64(r.Intn(1000)), r.Bytes(set.saltLen()), genPw(r))
		case 1: // unknown parameter set
			b := formatRecord(set, 1700000000, r.Bytes(set.saltLen()), genPw(r))
			return []byte(strings.Replace(string(b), fmt.Sprintf(":%d:", set.id), ":999999:", 1))
		case 2:
			return nil
		case 3:
			return r.Bytes(r.Intn(40))
		default: // format id of the other algorithm
			b := formatRecord(set, 1700000000, r.Bytes(set.saltLen()), genPw(r))
			if set.argon {
				return []byte(strings.Replace(string(b), "argon2id", "hmac_sha256_scrypt", 1))
			}
			return []byte(strings.Replace(string(b), "hmac_sha256_scrypt", "argon2id", 1))
		}
	}
	// half of the directories use a family of RELATED names: one name is a dotted / suffixed
	// extension of another (and may itself end in ".user" / ".admin"), so that in any sorted
	// or hashed order other users' files fall between <P>.admin and <P>.user
	pool := namePool
	if r.Bool() {
		p := namePool[r.Intn(len(namePool))]
		pool = []string{p, p, p, p + ".doe", p + ".b", p + ".t", p + ".example.com", p + ".user", p + ".admin", p + "-x", p + "@m", p + "0", p + ".a", p + ".admin.x"}
		n = 2 + r.Intn(7)
	}
	for i := 0; i < n; i++ {
		u := pool[r.Intn(len(pool))]
		var e dent
		switch k := r.Intn(25); {
		case k < 7:
			e = dent{name: u + ".user", content: rec(r.Pick(0, 0, 0, 1, 2, 3, 4))}
		case k < 14:
			e = dent{name: u + ".admin", content: rec(r.Pick(0, 0, 0, 1, 2, 3, 4))}
		case k == 14:
			e = dent{name: u + []string{".txt", "", ".usr", ".admin.bak", ".user~", ".USER", ".Admin"}[r.Intn(7)], content: rec(0)}
		case k == 15:
			e = dent{name: u + []string{".user", ".admin"}[r.Intn(2)], dir: true}
		case k == 16:
			e = dent{name: ".tmp", dir: true}
		case k == 17:
			e = dent{name: ".tmp", content: rec(r.Pick(0, 2))}
		case k == 18 || k == 24: // invalid user names with valid extensions
			e = dent{name: []string{"_x", ".hidden", "-a", "@b", "", "a b", "a,b", "ü", "bo\u017fs", "\u212aarl", "\u0661", "\uff41b",
				"evil\nroot", "root\n", "\nroot", "a\r\nb", "a\tb", "root\nevil", "a\vb", "a\x7fb"}[r.Intn(20)] + []string{".user", ".admin"}[r.Intn(2)], content: rec(0)}
		case k == 19:
			e = dent{name: u + ".user.admin", content: rec(0)}
		case k == 20:
			e = dent{name: []string{"tmp", ".tmp2", "lost+found"}[r.Intn(3)], dir: r.Bool(), content: rec(2)}
		default:
			e = dent{name: u + []string{".user", ".admin"}[r.Intn(2)], content: rec(0)}
		}
		if used[e.name] {
			continue
		}
		used[e.name] = true
		out = append(out, e)
	}
	return out
}

func materialise(base string, ents []dent) {
	resetDir(base)
	for _, e := range ents {
		p := filepath.Join(base, e.name)
		if e.dir {
			os.Mkdir(p, 0700)
		} else {
			os.WriteFile(p, e.content, 0600)
		}
	}
}

func isValidExt(n string) (user string, admin bool, ok bool) {
	if strings.HasSuffix(n, ".admin") {
		return strings.TrimSuffix(n, ".admin"), true, true
	}
	if strings.HasSuffix(n, ".user") {
		return strings.TrimSuffix(n, ".user"), false, true
	}
	return "", false, false
}

// the property's statement of what the consistency check accepts
func independentCheck(cfg *scfg, ents []dent) bool {
	names := map[string]bool{}
	for _, e := range ents {
		names[e.name] = true
	}
	found := false
	for _, e := range ents {
		if e.name == ".tmp" {
			continue
		}
		u, adm, ok := isValidExt(e.name)
		if !ok {
			return false
		}
		if !store_validName(u) {
			continue // ignored: never counts (C03)
		}
		if adm && names[u+".user"] || !adm && names[u+".admin"] {
			return false
		}
		if adm && !e.dir && independentSupported(cfg, e.content) {
			found = true
		}
	}
	return found
}

func suiteC16(c *ctx) {
	nd := 2400
	nh := 100
	if c.thorough() {
		nd, nh = 60000, 1500
	}
	nd /= c.nshards
	nh /= c.nshards
	for i := 0; i < nd; i++ {
		r := c.r
		cfg := genCfg(r)
		ents := genDirEntries(r, cfg)
		base := filepath.Join(c.work, fmt.Sprintf("d%d", i))
		materialise(base, ents)
		d := cfg.dir(base)
		h := &hist{c: c, cfg: cfg, base: base, d: d, shadow: map[string]*srec{}, noSpec: true}
		snap := snapshot(base)
		id := snapTok(snap, true)
		if len(id) > 2500 {
			id = id[:2500]
		}
		got := d.Check() == nil
		c.emit("law.C16.check_exact "+id, tf(got == independentCheck(cfg, ents)))
		h.readers()
		// init only on an empty directory (ignoring a .tmp directory)
		emptyish := len(ents) == 0 || len(ents) == 1 && ents[0].name == ".tmp" && ents[0].dir
		pre := snapshot(base)
		err := d.Init("root", "Init-Passw0rd")
		post := snapshot(base)
		var o oracle
		salt, ts := []byte{}, int64(0)
		if err == nil {
			if f := userFile(post, "root"); f != nil {
				if pid, sl, t, ok := parseHead(f.data); ok {
					salt, ts = sl, t
					o.add(cfg.get(pid), sl, []byte("Init-Passw0rd"))
				}
			}
		}
		res := "ok"
		if err != nil {
			res = "err"
		}
		c.emit(fmt.Sprintf("st.init %s %s %s %s %s %d %s", cfg.tokenOf(d), snapTok(pre, false), o.token(), xs("root"), xs("Init-Passw0rd"), ts, xb(salt)), res+" "+snapTok(post, true))
		c.emit("law.C16.init_only_on_empty "+id, tf((err == nil) == emptyish && (err != nil || d.Check() == nil) && (err == nil || eqModTmp(pre, post))))
		// an add for a name that is already taken — by a record, an unsupported or EMPTY file (a stale
		// reservation), under the same or the OTHER role: refused, nothing changes, never two files
		if err != nil {
			var cands []dent
			for _, e := range ents {
				if _, _, ok := isValidExt(e.name); ok && !e.dir {
					cands = append(cands, e)
				}
			}
			if len(cands) > 0 {
				e := cands[r.Intn(len(cands))]
				u, wasAdmin, _ := isValidExt(e.name)
				role := !wasAdmin
				if r.Intn(3) == 0 {
					role = wasAdmin
				}
				pre2 := snapshot(base)
				errAdd := d.AddUser(u, "Add-Passw0rd-9x", role)
				post2 := snapshot(base)
				bothBefore := userFileExact(pre2, u+".user") && userFileExact(pre2, u+".admin")
				bothAfter := userFileExact(post2, u+".user") && userFileExact(post2, u+".admin")
				c.emit(fmt.Sprintf("law.C16.add_on_taken_name_refused_unchanged empty=%s other-role=%s %s", tf(len(e.content) == 0), tf(role != wasAdmin), id),
					tf(errAdd != nil && eqModTmp(pre2, post2) && (bothBefore || !bothAfter)))
			}
		}
		os.RemoveAll(base)
	}
	// histories from a valid store: validity is preserved
	for hi := 0; hi < max(nh, 1); hi++ {
		r := c.r
		cfg := genCfg(r)
		h := &hist{c: c, cfg: cfg, base: filepath.Join(c.work, fmt.Sprintf("v%d", hi)), shadow: map[string]*srec{}}
		resetDir(h.base)
		h.d = cfg.dir(h.base)
		for i := 0; i < 2+r.Intn(3); i++ {
			h.users = append(h.users, namePool[(hi+i)%len(namePool)])
		}
		h.write("init", h.users[0], genPw(r), true)
		nops := 15 + r.Intn(25)
		for k := 0; k < nops; k++ {
			u := h.users[r.Intn(len(h.users))]
			admins := 0
			for _, rec := range h.shadow {
				if rec.admin {
					admins++
				}
			}
			rec := h.shadow[u]
			lastAdmin := rec != nil && rec.admin && admins == 1
			if r.Intn(15) == 0 || (h.tmpBroken && r.Intn(3) == 0) {
				h.toggleTmp() // the work area is a regular file for a while: writes fail, the store stays valid
			}
			switch x := r.Intn(10); {
			case x < 3:
				h.write("add", u, genPw(r), r.Intn(3) == 0)
			case x < 6:
				h.write("update", u, genPw(r), false)
			case x < 8:
				st := r.Bool()
				if lastAdmin && !st {
					continue
				}
				h.setAdmin(u, st)
			default:
				if lastAdmin {
					continue
				}
				h.remove(u)
			}
			snap := snapshot(h.base)
			both := false
			for _, e := range snap {
				if uu, adm, ok := isValidExt(e.name); ok && adm && snapGet(snap, uu+".user") != nil {
					both = true
				}
			}
			id := snapTok(snap, true)
			if len(id) > 2500 {
				id = id[:2500]
			}
			c.emit("law.C16.history_keeps_store_valid "+id, tf(h.d.Check() == nil && !both && (h.tmpBroken || tmpEmpty(snap))))
		}
		h.readers()
		if h.shm != "" {
			os.RemoveAll(h.shm)
		}
		os.RemoveAll(h.base)
	}
}

func init() { suites["c16"] = suiteC16 }

// userFileExact: an entry of exactly this name exists in the snapshot.
func userFileExact(s []sent, name string) bool {
	for _, e := range s {
		if e.name == name {
			return true
		}
	}
	return false
}
