// A tiny translator from a first-order subset of Go to Lean 4 definitions.
//
// It turns a side-effect-free Go function whose body consists of `if` statements (with or
// without `else`), `switch` on a value with constant cases, short variable declarations and
// `return`s over ints, bools, strings / byte slices and errors into ONE Lean expression over
// Nat, Bool, Bytes (List UInt8) and Option. Everything outside the subset makes the
// translation fail; the generated definition is then `none` and the tie theorem of
// Whawty/Props/GenScan.lean cannot be proved any more (a broken proof obligation).
//
// Semantics assumed (trusted, reviewed with this file):
//
//	int arithmetic     only +, on non-negative values            -> Nat
//	len(x)             -> x.length
//	x[a:b], x[a:]      -> Gen.slice x a b, x.drop a              (Go panics when out of range: the
//	                       generated code is only meaningful where the Go code does not panic; the
//	                       tie theorem is stated for all inputs, and `slice` is total)
//	int(binary.BigEndian.Uint16(e))  -> Gen.be16of e
//	errors.New(..), fmt.Errorf(..)   -> an error (true); nil in an error position -> false
//	nil in a []byte position         -> none; a slice -> some
//	named constants of the package   -> their literal values
package main

import (
	"fmt"
	"go/ast"
	"go/token"
	"strings"
)

type trType int

const (
	tNat trType = iota
	tBool
	tBytes // []byte
	tErr
	tStr    // string (Bytes in Lean; never nil)
	tOpaque // a pointer to a struct in a result position: only nil / non-nil is tracked (Bool)
	tList   // []string produced by strings.Split: List Bytes
)

// structField: one field of a struct type declared in the translated file.
type structField struct {
	name string
	ty   trType
}

type translator struct {
	consts   map[string]int
	sconsts  map[string]string
	vars     map[string]trType
	results  []trType
	resNames []string        // named results ("" when unnamed)
	initVars map[string]bool // variables introduced by the init statement of an if / switch (dead after it)
	err      string
	// methods and struct parameters: `x.F` for a receiver / pointer parameter x is the variable x_F
	structs    map[string][]structField // struct types of the file (fields of the subset's types only)
	structVars map[string]string        // receiver / parameter name -> struct type name
	arrays     map[string]int           // `parts := make([]string, N)`: parts[k] is the variable parts_k
	outs       []string                 // receiver fields the body assigns: appended to every result tuple
	usesEnc    bool                     // the body calls encodeLengthEncodedStrings(writer, parts)
	usesDec    bool                     // the body calls decodeLengthEncodedStrings(reader, parts)
	flatBytes  bool                     // []byte values are plain Bytes (nil = empty): for functions whose callers only look at len()
	funcParams map[string]funcParam     // calls of other functions of the package: parameters of the translation
	usedFuncs  []string
	ifaces     map[string]bool // interface types of the file
}

// funcParam: a function of the package that the translated function calls; the translation takes it
// as a parameter (its own translation, or the model's counterpart, is supplied by the tie theorem).
type funcParam struct {
	lean string
	args []trType
	res  []trType
}

// lvalue: the variable an assignable expression of the subset denotes (identifier, field of the
// receiver or of a struct parameter, constant index into a `make`d string array).
func (t *translator) lvalue(e ast.Expr) (string, bool) {
	switch x := e.(type) {
	case *ast.ParenExpr:
		return t.lvalue(x.X)
	case *ast.Ident:
		if _, ok := t.vars[x.Name]; ok {
			return x.Name, true
		}
	case *ast.SelectorExpr:
		if id, ok := x.X.(*ast.Ident); ok {
			if _, ok := t.structVars[id.Name]; ok {
				n := id.Name + "_" + x.Sel.Name
				if _, ok := t.vars[n]; ok {
					return n, true
				}
			}
		}
	case *ast.IndexExpr:
		if id, ok := x.X.(*ast.Ident); ok {
			if size, ok := t.arrays[id.Name]; ok {
				if k, ok := litInt(x.Index); ok && k >= 0 && k < size {
					return fmt.Sprintf("%s_%d", id.Name, k), true
				}
			}
		}
	}
	return "", false
}

// partsList: the Lean list of the slots of a `make`d string array.
func (t *translator) partsList(e ast.Expr) (string, int, bool) {
	id, ok := e.(*ast.Ident)
	if !ok {
		return "", 0, false
	}
	size, ok := t.arrays[id.Name]
	if !ok {
		return "", 0, false
	}
	var el []string
	for k := 0; k < size; k++ {
		el = append(el, fmt.Sprintf("%s_%d", id.Name, k))
	}
	return "[" + strings.Join(el, ", ") + "]", size, true
}

var leanTy = map[trType]string{tNat: "Int", tBool: "Bool", tBytes: "Bytes", tErr: "Bool", tStr: "Bytes", tOpaque: "Bool", tList: "List Bytes"}

// library calls of the subset: package.selector -> (lean function of the prelude, argument types, result type)
var libCalls = map[string]struct {
	lean string
	args []trType
	res  trType
}{
	"filepath.Ext":           {"Gen.pathExt", []trType{tStr}, tStr},
	"strings.TrimSuffix":     {"Gen.trimSuffix", []trType{tStr, tStr}, tStr},
	"userNameRe.MatchString": {"Gen.userNameReMatch", []trType{tStr}, tBool},
	"strings.Split":          {"Gen.stringsSplit", []trType{tStr, tStr}, tList},
	"strings.Fields":         {"Gen.stringsFields", []trType{tStr}, tList},
}

// library calls with two results (used in `a, b := f(..)`): lean function returning a pair
var libCalls2 = map[string]struct {
	lean string
	args []trType
	res  [2]trType
}{
	"strings.CutSuffix": {"Gen.cutSuffix", []trType{tStr, tStr}, [2]trType{tStr, tBool}},
	// the data result on an error is not modelled (empty): the translated callers return before using it
	"base64.URLEncoding.DecodeString": {"Gen.b64urlDecode", []trType{tStr}, [2]trType{tBytes, tErr}},
	// (value on an error not modelled: the translated callers return before using it)
	"strconv.ParseUint": {"Gen.parseUint", []trType{tStr, tNat, tNat}, [2]trType{tNat, tErr}},
}

// typeOf: the type of an expression of the subset as far as comparisons and switch tags need it.
func (t *translator) typeOf(e ast.Expr) trType {
	switch x := e.(type) {
	case *ast.ParenExpr:
		return t.typeOf(x.X)
	case *ast.BasicLit:
		if x.Kind == token.STRING {
			return tStr
		}
	case *ast.Ident:
		if ty, ok := t.vars[x.Name]; ok {
			return ty
		}
		if _, ok := t.sconsts[x.Name]; ok {
			return tStr
		}
		if x.Name == "true" || x.Name == "false" {
			return tBool
		}
	case *ast.CallExpr:
		if sel, ok := x.Fun.(*ast.SelectorExpr); ok {
			if lc, ok := libCalls[exprString(sel)]; ok {
				return lc.res
			}
		}
	case *ast.SliceExpr:
		return t.typeOf(x.X)
	case *ast.SelectorExpr, *ast.IndexExpr:
		if n, ok := t.lvalue(e); ok {
			return t.vars[n]
		}
		if ix, ok := e.(*ast.IndexExpr); ok {
			if id, ok := ix.X.(*ast.Ident); ok && t.vars[id.Name] == tList {
				return tStr
			}
		}
	case *ast.UnaryExpr:
		if x.Op == token.NOT {
			return tBool
		}
		if _, ok := x.X.(*ast.CompositeLit); ok && x.Op == token.AND {
			return tOpaque
		}
	case *ast.BinaryExpr:
		if x.Op == token.ADD && (isBytesLike(t.typeOf(x.X)) || isBytesLike(t.typeOf(x.Y))) {
			return tStr
		}
		switch x.Op {
		case token.LAND, token.LOR, token.LSS, token.LEQ, token.GTR, token.GEQ, token.EQL, token.NEQ:
			return tBool
		}
	}
	return tNat
}

func (t *translator) fail(format string, a ...interface{}) string {
	if t.err == "" {
		t.err = fmt.Sprintf(format, a...)
	}
	return "sorryNotTranslated"
}

func goType(e ast.Expr) (trType, bool) {
	switch x := e.(type) {
	case *ast.Ident:
		switch x.Name {
		case "int", "uint", "uint8", "uint16", "uint32", "uint64":
			return tNat, true
		case "bool":
			return tBool, true
		case "string":
			return tStr, true
		case "error":
			return tErr, true
		}
	case *ast.ArrayType:
		if id, ok := x.Elt.(*ast.Ident); ok && x.Len == nil && id.Name == "byte" {
			return tBytes, true
		}
	}
	return 0, false
}

func isCall(e ast.Expr, pkg, name string) (*ast.CallExpr, bool) {
	c, ok := e.(*ast.CallExpr)
	if !ok {
		return nil, false
	}
	if pkg == "" {
		id, ok := c.Fun.(*ast.Ident)
		return c, ok && id.Name == name
	}
	sel, ok := c.Fun.(*ast.SelectorExpr)
	if !ok || sel.Sel.Name != name {
		return nil, false
	}
	return c, exprString(sel.X) == pkg
}

func exprString(e ast.Expr) string {
	switch x := e.(type) {
	case *ast.Ident:
		return x.Name
	case *ast.SelectorExpr:
		return exprString(x.X) + "." + x.Sel.Name
	}
	return "?"
}

// expr translates e, which must have type want.
func (t *translator) expr(e ast.Expr, want trType) string {
	switch x := e.(type) {
	case *ast.ParenExpr:
		return t.expr(x.X, want)
	case *ast.BasicLit:
		if x.Kind == token.INT && want == tNat {
			return "(" + x.Value + " : Int)"
		}
		if x.Kind == token.STRING && (want == tBytes || want == tStr) {
			s, _ := litString(x)
			return leanBytes(s)
		}
	case *ast.Ident:
		if x.Name == "nil" && (want == tErr || want == tOpaque) {
			return "false"
		}
		if x.Name == "true" || x.Name == "false" {
			if want == tBool {
				return x.Name
			}
			break
		}
		if ty, ok := t.vars[x.Name]; ok {
			if ty != want && !(isBytesLike(ty) && isBytesLike(want)) {
				return t.fail("variable %s used at another type", x.Name)
			}
			return leanIdent(x.Name)
		}
		if v, ok := t.sconsts[x.Name]; ok && isBytesLike(want) {
			return leanBytes(v)
		}
		if v, ok := t.consts[x.Name]; ok && want == tNat {
			return fmt.Sprintf("(%d : Int)", v)
		}
	case *ast.SelectorExpr, *ast.IndexExpr:
		if n, ok := t.lvalue(e); ok {
			ty := t.vars[n]
			if ty != want && !(isBytesLike(ty) && isBytesLike(want)) {
				return t.fail("%s used at another type", n)
			}
			return leanIdent(n)
		}
		if ix, ok := e.(*ast.IndexExpr); ok && isBytesLike(want) {
			// parts[k] for the result of strings.Split (Go panics when out of range; total here)
			if id, ok := ix.X.(*ast.Ident); ok && t.vars[id.Name] == tList {
				if k, ok := litInt(ix.Index); ok && k >= 0 {
					return fmt.Sprintf("(%s.getD %d [])", leanIdent(id.Name), k)
				}
			}
		}
	case *ast.CallExpr:
		if c, ok := isCall(e, "", "len"); ok && want == tNat && len(c.Args) == 1 {
			if id, ok := c.Args[0].(*ast.Ident); ok && t.vars[id.Name] == tList {
				return "((" + leanIdent(id.Name) + ").length : Int)"
			}
		}
		if c, ok := isCall(e, "", "encodeLengthEncodedStrings"); ok && want == tErr && len(c.Args) == 2 {
			// the loop over the parts is modelled (Sasl.encodeParts), not translated: the call is the
			// parameter `enc` applied to the parts
			if l, _, ok := t.partsList(c.Args[1]); ok {
				t.usesEnc = true
				return "(enc " + l + ")"
			}
		}
		if c, ok := isCall(e, "", "len"); ok && want == tNat && len(c.Args) == 1 {
			return "((" + t.expr(c.Args[0], tBytes) + ").length : Int)"
		}
		if sel, ok := x.Fun.(*ast.SelectorExpr); ok {
			if lc, ok := libCalls[exprString(sel)]; ok && len(x.Args) == len(lc.args) && (lc.res == want || (isBytesLike(lc.res) && isBytesLike(want))) {
				out := "(" + lc.lean
				for i, a := range x.Args {
					out += " " + paren(t.expr(a, lc.args[i]))
				}
				return out + ")"
			}
		}
		if c, ok := isCall(e, "", "int"); ok && want == tNat && len(c.Args) == 1 {
			return t.expr(c.Args[0], tNat)
		}
		if c, ok := isCall(e, "binary.BigEndian", "Uint16"); ok && want == tNat && len(c.Args) == 1 {
			return "((Gen.be16of " + t.expr(c.Args[0], tBytes) + " : Nat) : Int)"
		}
		if _, ok := isCall(e, "errors", "New"); ok && want == tErr {
			return "true"
		}
		if _, ok := isCall(e, "fmt", "Errorf"); ok && want == tErr {
			return "true"
		}
	case *ast.SliceExpr:
		if isBytesLike(want) && x.Max == nil {
			base := t.expr(x.X, tBytes)
			lo := "(0 : Int)"
			if x.Low != nil {
				lo = t.expr(x.Low, tNat)
			}
			if x.High == nil {
				return fmt.Sprintf("(%s.drop (%s).toNat)", base, lo)
			}
			return fmt.Sprintf("(Gen.slice %s (%s).toNat (%s).toNat)", base, lo, t.expr(x.High, tNat))
		}
	case *ast.UnaryExpr:
		if x.Op == token.NOT && want == tBool {
			return "(!" + t.expr(x.X, tBool) + ")"
		}
		if _, ok := x.X.(*ast.CompositeLit); ok && x.Op == token.AND && want == tOpaque {
			return "true" // &T{…}: a non-nil pointer
		}
	case *ast.CompositeLit:
		if id, ok := x.Type.(*ast.Ident); ok && want == tOpaque {
			if _, isStruct := t.structs[id.Name]; isStruct {
				return "true" // T{…} stored in an interface: non-nil
			}
		}
	case *ast.BinaryExpr:
		switch x.Op {
		case token.ADD, token.SUB:
			if x.Op == token.ADD && isBytesLike(want) {
				return "(" + t.expr(x.X, tStr) + " ++ " + t.expr(x.Y, tStr) + ")"
			}
			if want == tNat {
				op := map[token.Token]string{token.ADD: "+", token.SUB: "-"}[x.Op]
				return "(" + t.expr(x.X, tNat) + " " + op + " " + t.expr(x.Y, tNat) + ")"
			}
		case token.LAND, token.LOR:
			if want == tBool {
				op := map[token.Token]string{token.LAND: "&&", token.LOR: "||"}[x.Op]
				return "(" + t.expr(x.X, tBool) + " " + op + " " + t.expr(x.Y, tBool) + ")"
			}
		case token.LSS, token.LEQ, token.GTR, token.GEQ, token.EQL, token.NEQ:
			if id, ok := x.Y.(*ast.Ident); ok && id.Name == "nil" && want == tBool && t.typeOf(x.X) == tErr && (x.Op == token.EQL || x.Op == token.NEQ) {
				if x.Op == token.NEQ {
					return t.expr(x.X, tErr)
				}
				return "(!" + t.expr(x.X, tErr) + ")"
			}
			if want == tBool {
				op := map[token.Token]string{token.LSS: "<", token.LEQ: "≤", token.GTR: ">", token.GEQ: "≥", token.EQL: "=", token.NEQ: "≠"}[x.Op]
				// operands: ints, or strings for == and !=
				ot := tNat
				if (x.Op == token.EQL || x.Op == token.NEQ) && (isBytesLike(t.typeOf(x.X)) || isBytesLike(t.typeOf(x.Y))) {
					ot = tStr
				}
				return "(decide (" + t.expr(x.X, ot) + " " + op + " " + t.expr(x.Y, ot) + "))"
			}
		}
	}
	return t.fail("expression outside the subset at type %d: %T", want, e)
}

func isBytesLike(t trType) bool { return t == tBytes || t == tStr }

var leanKeywords = map[string]bool{}

func init() {
	for _, k := range strings.Fields("end from at do fun let have show then else if match with in by where open def theorem instance structure class namespace section variable universe import export private protected mutual deriving macro syntax notation attribute using calc obtain suffices return for unless local scoped abbrev example axiom inductive extends this nomatch nofun") {
		leanKeywords[k] = true
	}
}

// leanIdent: a Go identifier as a Lean identifier (escaped when it is a Lean keyword).
func leanIdent(n string) string {
	if leanKeywords[n] {
		return "«" + n + "»"
	}
	return n
}

func copyVars(m map[string]trType) map[string]trType {
	out := map[string]trType{}
	for k, v := range m {
		out[k] = v
	}
	return out
}

func paren(s string) string {
	if strings.ContainsAny(s, " ") && !strings.HasPrefix(s, "(") {
		return "(" + s + ")"
	}
	return s
}

func leanBytes(s string) string {
	var parts []string
	for _, b := range []byte(s) {
		parts = append(parts, fmt.Sprint(b))
	}
	return "([" + strings.Join(parts, ", ") + "] : Bytes)"
}

// terminates: every path through the statement list ends in a return.
func terminates(stmts []ast.Stmt) bool {
	if len(stmts) == 0 {
		return false
	}
	switch x := stmts[len(stmts)-1].(type) {
	case *ast.ReturnStmt:
		return true
	case *ast.IfStmt:
		if x.Else == nil {
			return false
		}
		eb, ok := x.Else.(*ast.BlockStmt)
		if !ok {
			return terminates([]ast.Stmt{x.Else})
		}
		return terminates(x.Body.List) && terminates(eb.List)
	case *ast.SwitchStmt:
		hasDefault := false
		for _, c := range x.Body.List {
			cc := c.(*ast.CaseClause)
			if cc.List == nil {
				hasDefault = true
			}
			if !terminates(cc.Body) {
				return false
			}
		}
		return hasDefault
	}
	return false
}

// stmts translates a statement list followed by `rest` (the continuation for paths that fall through).
func (t *translator) stmts(list []ast.Stmt, ind string) string {
	if len(list) == 0 {
		return t.fail("a path ends without return")
	}
	head, rest := list[0], list[1:]
	// `if v := e; cond {…}` and `switch v := e; v {…}`: the declaration, then the statement without it
	// (the variable's scope ends with the statement: it must not clash with a later name, which the
	// redeclaration test below enforces)
	markInit := func(as *ast.AssignStmt) bool {
		for _, l := range as.Lhs {
			id, ok := l.(*ast.Ident)
			if !ok {
				return false
			}
			if _, exists := t.vars[id.Name]; exists && !t.initVars[id.Name] {
				t.fail("init statement shadows %s", id.Name)
				return false
			}
			if t.initVars == nil {
				t.initVars = map[string]bool{}
			}
			t.initVars[id.Name] = true
			delete(t.vars, id.Name)
		}
		return true
	}
	// `if err := decodeLengthEncodedStrings(reader, parts); err != nil { … }`: the scanner loop is
	// modelled (Sasl.decodeScan), not translated; the call is the parameter `dec` applied to the
	// number of parts: `none` = it returned an error, `some ps` = it filled the slots with ps.
	if x, ok := head.(*ast.IfStmt); ok && x.Else == nil {
		if as, ok := x.Init.(*ast.AssignStmt); ok && as.Tok == token.DEFINE && len(as.Lhs) == 1 && len(as.Rhs) == 1 {
			if c, ok := isCall(as.Rhs[0], "", "decodeLengthEncodedStrings"); ok && len(c.Args) == 2 {
				errId, okId := as.Lhs[0].(*ast.Ident)
				arr, okArr := c.Args[1].(*ast.Ident)
				cond, okCond := x.Cond.(*ast.BinaryExpr)
				size := 0
				if okArr {
					size, okArr = t.arrays[arr.Name]
				}
				if !okId || !okArr || !okCond || cond.Op != token.NEQ || exprString(cond.X) != errId.Name || exprString(cond.Y) != "nil" || !terminates(x.Body.List) {
					return t.fail("decodeLengthEncodedStrings call outside the subset")
				}
				t.usesDec = true
				saved := copyVars(t.vars)
				t.vars[errId.Name] = tErr
				bad := fmt.Sprintf("let %s : Bool := true\n%s  %s", leanIdent(errId.Name), ind, t.stmts(x.Body.List, ind+"  "))
				t.vars = saved
				good := ""
				for k := 0; k < size; k++ {
					good += fmt.Sprintf("let %s_%d : Bytes := ps.getD %d []\n%s  ", arr.Name, k, k, ind)
				}
				good += t.stmts(rest, ind+"  ")
				return fmt.Sprintf("(match dec %d with\n%s| none =>\n%s  %s\n%s| some ps =>\n%s  %s)", size, ind, ind, bad, ind, ind, good)
			}
		}
	}
	// `err = decodeLengthEncodedStrings(reader, parts)` / `err := …` as a statement of its own: both
	// outcomes continue with the rest of the path
	if as, ok := head.(*ast.AssignStmt); ok && (as.Tok == token.ASSIGN || as.Tok == token.DEFINE) && len(as.Lhs) == 1 && len(as.Rhs) == 1 {
		if c, ok := isCall(as.Rhs[0], "", "decodeLengthEncodedStrings"); ok && len(c.Args) == 2 {
			errId, okId := as.Lhs[0].(*ast.Ident)
			arr, okArr := c.Args[1].(*ast.Ident)
			size := 0
			if okArr {
				size, okArr = t.arrays[arr.Name]
			}
			if okId && okArr {
				if _, okSlot := t.vars[fmt.Sprintf("%s_0", arr.Name)]; !okSlot {
					okArr = false
				}
			}
			if !okId || !okArr {
				return t.fail("decodeLengthEncodedStrings call outside the subset")
			}
			if old, exists := t.vars[errId.Name]; as.Tok == token.ASSIGN && (!exists || old != tErr) {
				return t.fail("decodeLengthEncodedStrings result assigned to something that is not an error variable")
			} else if as.Tok == token.DEFINE && exists {
				return t.fail("redeclaration of %s", errId.Name)
			}
			t.usesDec = true
			t.vars[errId.Name] = tErr
			saved := copyVars(t.vars)
			bad := fmt.Sprintf("let %s : Bool := true\n%s  %s", leanIdent(errId.Name), ind, t.stmts(rest, ind+"  "))
			t.vars = copyVars(saved)
			good := fmt.Sprintf("let %s : Bool := false\n%s  ", leanIdent(errId.Name), ind)
			for k := 0; k < size; k++ {
				good += fmt.Sprintf("let %s_%d : Bytes := ps.getD %d []\n%s  ", arr.Name, k, k, ind)
			}
			good += t.stmts(rest, ind+"  ")
			t.vars = saved
			return fmt.Sprintf("(match dec %d with\n%s| none =>\n%s  %s\n%s| some ps =>\n%s  %s)", size, ind, ind, bad, ind, ind, good)
		}
	}
	if x, ok := head.(*ast.IfStmt); ok {
		if as, ok := x.Init.(*ast.AssignStmt); ok && as.Tok == token.ASSIGN {
			// `if a, b = f(..); cond {…}`: no new names, so this is the assignment followed by the if
			y := *x
			y.Init = nil
			return t.stmts(append([]ast.Stmt{as, &y}, rest...), ind)
		}
	}
	switch x := head.(type) {
	case *ast.IfStmt:
		if as, ok := x.Init.(*ast.AssignStmt); ok && as.Tok == token.DEFINE && markInit(as) {
			y := *x
			y.Init = nil
			return t.stmts(append([]ast.Stmt{as, &y}, rest...), ind)
		}
	case *ast.SwitchStmt:
		if as, ok := x.Init.(*ast.AssignStmt); ok && as.Tok == token.DEFINE && markInit(as) {
			y := *x
			y.Init = nil
			return t.stmts(append([]ast.Stmt{as, &y}, rest...), ind)
		}
	}
	switch x := head.(type) {
	case *ast.ReturnStmt:
		var parts []string
		if len(x.Results) == 0 && len(t.resNames) == len(t.results) && len(t.results) > 0 && t.resNames[0] != "" {
			for i, n := range t.resNames {
				if t.results[i] == tBytes && !t.flatBytes {
					return t.fail("bare return of a []byte result")
				}
				parts = append(parts, leanIdent(n))
			}
			parts = append(parts, t.outs...)
			return "(" + strings.Join(parts, ", ") + ")"
		}
		if len(x.Results) == 1 && len(t.results) > 1 && len(t.outs) == 0 {
			// return f(args): the results of a function of the package (a parameter of the translation)
			if call, ok := x.Results[0].(*ast.CallExpr); ok {
				if id, ok := call.Fun.(*ast.Ident); ok {
					if fp, ok := t.funcParams[id.Name]; ok && len(fp.res) == len(t.results) && len(call.Args) == len(fp.args) {
						same := true
						for i := range fp.res {
							same = same && fp.res[i] == t.results[i]
						}
						if same {
							seen := false
							for _, u := range t.usedFuncs {
								seen = seen || u == id.Name
							}
							if !seen {
								t.usedFuncs = append(t.usedFuncs, id.Name)
							}
							callS := "(" + fp.lean
							for i, a := range call.Args {
								callS += " " + paren(t.expr(a, fp.args[i]))
							}
							return callS + ")"
						}
					}
				}
			}
		}
		if len(x.Results) != len(t.results) {
			return t.fail("short return")
		}
		for i, r := range x.Results {
			switch t.results[i] {
			case tBytes:
				if id, ok := r.(*ast.Ident); ok && id.Name == "nil" {
					if t.flatBytes {
						parts = append(parts, "([] : Bytes)")
					} else {
						parts = append(parts, "none")
					}
				} else if t.flatBytes {
					parts = append(parts, t.expr(r, tBytes))
				} else {
					parts = append(parts, "some "+t.expr(r, tBytes))
				}
			default:
				parts = append(parts, t.expr(r, t.results[i]))
			}
		}
		parts = append(parts, t.outs...)
		return "(" + strings.Join(parts, ", ") + ")"
	case *ast.AssignStmt:
		if x.Tok == token.ASSIGN && len(x.Lhs) == 1 && len(x.Rhs) == 1 {
			// h.F = e for a local pointer h of which only nil / non-nil is tracked: no effect on anything
			// the translation observes (h was created by &T{…} in this function, so it is not nil)
			if sel, ok := x.Lhs[0].(*ast.SelectorExpr); ok {
				if id, ok := sel.X.(*ast.Ident); ok && t.vars[id.Name] == tOpaque {
					if _, isVar := t.vars[id.Name]; isVar {
						return t.stmts(rest, ind)
					}
				}
			}
		}
		if (x.Tok == token.ASSIGN || x.Tok == token.ADD_ASSIGN) && len(x.Lhs) == 1 && len(x.Rhs) == 1 {
			// assignment to a local, a named result, a receiver field or an array slot: the rest of
			// the path sees the new value
			if n, ok := t.lvalue(x.Lhs[0]); ok {
				if ty := t.vars[n]; ty != tBytes || t.flatBytes {
					v := t.expr(x.Rhs[0], ty)
					if x.Tok == token.ADD_ASSIGN {
						switch {
						case isBytesLike(ty):
							v = "(" + leanIdent(n) + " ++ " + v + ")"
						case ty == tNat:
							v = "(" + leanIdent(n) + " + " + v + ")"
						default:
							return t.fail("+= at a type outside the subset")
						}
					}
					return fmt.Sprintf("let %s : %s := %s\n%s%s", leanIdent(n), leanTy[ty], v, ind, t.stmts(rest, ind))
				}
			}
		}
		if x.Tok == token.DEFINE && len(x.Lhs) == 1 && len(x.Rhs) == 1 {
			// parts := make([]string, N): N string slots, empty
			if c, ok := isCall(x.Rhs[0], "", "make"); ok && len(c.Args) == 2 {
				id, okId := x.Lhs[0].(*ast.Ident)
				at, okAt := c.Args[0].(*ast.ArrayType)
				n, okN := litInt(c.Args[1])
				if okId && okAt && okN && at.Len == nil && exprString(at.Elt) == "string" && n > 0 && n <= 16 {
					// (t.vars is per path, t.arrays is not: the slots decide whether this path has the array already)
					_, dupSlot := t.vars[fmt.Sprintf("%s_0", id.Name)]
					if _, dup := t.vars[id.Name]; dup || dupSlot {
						return t.fail("redeclaration of %s", id.Name)
					}
					if t.arrays == nil {
						t.arrays = map[string]int{}
					}
					t.arrays[id.Name] = n
					out := ""
					for k := 0; k < n; k++ {
						slot := fmt.Sprintf("%s_%d", id.Name, k)
						t.vars[slot] = tStr
						out += fmt.Sprintf("let %s : Bytes := []\n%s", slot, ind)
					}
					return out + t.stmts(rest, ind)
				}
				return t.fail("make outside the subset")
			}
		}
		if (x.Tok == token.DEFINE || x.Tok == token.ASSIGN) && len(x.Lhs) >= 2 && len(x.Rhs) == 1 {
			// a, b := f(..) / a, b = f(..) for a library function with two results or for a function of
			// the package that is a parameter of the translation
			if call, ok := x.Rhs[0].(*ast.CallExpr); ok {
				var lean string
				var args, res []trType
				found := false
				if sel, ok := call.Fun.(*ast.SelectorExpr); ok {
					if lc, ok := libCalls2[exprString(sel)]; ok {
						lean, args, res, found = lc.lean, lc.args, lc.res[:], true
					}
				}
				if id, ok := call.Fun.(*ast.Ident); ok {
					if fp, ok := t.funcParams[id.Name]; ok {
						lean, args, res, found = fp.lean, fp.args, fp.res, true
						seen := false
						for _, u := range t.usedFuncs {
							seen = seen || u == id.Name
						}
						if !seen {
							t.usedFuncs = append(t.usedFuncs, id.Name)
						}
					}
				}
				if found && len(call.Args) == len(args) && len(x.Lhs) == len(res) {
					callS := "(" + lean
					for i, a := range call.Args {
						callS += " " + paren(t.expr(a, args[i]))
					}
					callS += ")"
					// every target first (a DEFINE must introduce at least the names that are new)
					var names []string
					for i, l := range x.Lhs {
						id, isId := l.(*ast.Ident)
						if isId && id.Name == "_" {
							names = append(names, "")
							continue
						}
						if x.Tok == token.DEFINE {
							if !isId {
								return t.fail("multi-value definition outside the subset")
							}
							if old, dup := t.vars[id.Name]; dup && old != res[i] {
								return t.fail("redeclaration of %s at another type", id.Name)
							}
							if res[i] == tBytes && !t.flatBytes {
								return t.fail("local []byte variable")
							}
							t.vars[id.Name] = res[i]
							names = append(names, id.Name)
							continue
						}
						n, ok := t.lvalue(l)
						if !ok || !(t.vars[n] == res[i] || (isBytesLike(t.vars[n]) && isBytesLike(res[i]))) || (t.vars[n] == tBytes && !t.flatBytes) {
							return t.fail("multi-value assignment outside the subset")
						}
						names = append(names, n)
					}
					out := ""
					tmp := callS
					for i, n := range names {
						if n == "" {
							continue
						}
						proj := tmp + strings.Repeat(".2", i)
						if i < len(names)-1 {
							proj += ".1"
						}
						out += fmt.Sprintf("let %s : %s := %s\n%s", leanIdent(n), leanTy[t.vars[n]], proj, ind)
					}
					return out + t.stmts(rest, ind)
				}
			}
		}
		if x.Tok == token.ASSIGN && len(x.Lhs) == len(x.Rhs) && len(x.Lhs) > 1 {
			// parallel assignment a, b = e1, e2: all right-hand sides first (under fresh names), then the targets
			out := ""
			var names []string
			for i := range x.Lhs {
				id, ok := x.Lhs[i].(*ast.Ident)
				ty, known := trType(0), false
				if ok {
					ty, known = t.vars[id.Name]
				}
				if !ok || !known || ty == tBytes {
					return t.fail("parallel assignment outside the subset")
				}
				tmp := fmt.Sprintf("tmp%d_%s", i, id.Name)
				names = append(names, tmp)
				out += fmt.Sprintf("let %s : %s := %s\n%s", tmp, leanTy[ty], t.expr(x.Rhs[i], ty), ind)
			}
			for i := range x.Lhs {
				id := x.Lhs[i].(*ast.Ident)
				out += fmt.Sprintf("let %s : %s := %s\n%s", leanIdent(id.Name), leanTy[t.vars[id.Name]], names[i], ind)
			}
			return out + t.stmts(rest, ind)
		}
		if x.Tok == token.DEFINE && len(x.Lhs) == 1 && len(x.Rhs) == 1 {
			id, ok := x.Lhs[0].(*ast.Ident)
			if !ok {
				break
			}
			if _, dup := t.vars[id.Name]; dup {
				return t.fail("redeclaration of %s", id.Name)
			}
			// locals: ints, strings, bools (by the type of the right-hand side)
			ty := t.typeOf(x.Rhs[0])
			if ty == tBytes && !t.flatBytes {
				return t.fail("local []byte variable")
			}
			v := t.expr(x.Rhs[0], ty)
			t.vars[id.Name] = ty
			return fmt.Sprintf("let %s : %s := %s\n%s%s", leanIdent(id.Name), leanTy[ty], v, ind, t.stmts(rest, ind))
		}
	case *ast.SwitchStmt:
		if x.Init != nil || x.Tag == nil {
			break
		}
		tagTy := t.typeOf(x.Tag)
		tag := t.expr(x.Tag, tagTy)
		saved := map[string]trType{}
		for k, v := range t.vars {
			saved[k] = v
		}
		var def *ast.CaseClause
		out := ""
		closing := ""
		for _, c := range x.Body.List {
			cc := c.(*ast.CaseClause)
			if cc.List == nil {
				def = cc
				continue
			}
			for _, st := range cc.Body {
				if b, ok := st.(*ast.BranchStmt); ok && b.Tok == token.FALLTHROUGH {
					return t.fail("fallthrough")
				}
			}
			var conds []string
			for _, ce := range cc.List {
				conds = append(conds, "(decide ("+tag+" = "+t.expr(ce, tagTy)+"))")
			}
			body := cc.Body
			if !terminates(body) {
				body = append(append([]ast.Stmt{}, body...), rest...)
			}
			t.vars = copyVars(saved)
			out += fmt.Sprintf("if (%s) = true then\n%s  %s\n%selse ", strings.Join(conds, " || "), ind, t.stmts(body, ind+"  "), ind)
		}
		var body []ast.Stmt
		if def != nil {
			body = def.Body
		}
		if !terminates(body) {
			body = append(append([]ast.Stmt{}, body...), rest...)
		}
		t.vars = copyVars(saved)
		out += "\n" + ind + "  " + t.stmts(body, ind+"  ") + closing
		t.vars = saved
		return out
	case *ast.IfStmt:
		if x.Init != nil {
			break
		}
		cond := t.expr(x.Cond, tBool)
		thenList := x.Body.List
		var elseList []ast.Stmt
		if x.Else != nil {
			if eb, ok := x.Else.(*ast.BlockStmt); ok {
				elseList = eb.List
			} else {
				elseList = []ast.Stmt{x.Else}
			}
		}
		if !terminates(thenList) {
			thenList = append(append([]ast.Stmt{}, thenList...), rest...)
		}
		if !terminates(elseList) {
			elseList = append(append([]ast.Stmt{}, elseList...), rest...)
		}
		saved := map[string]trType{}
		for k, v := range t.vars {
			saved[k] = v
		}
		a := t.stmts(thenList, ind+"  ")
		t.vars = map[string]trType{}
		for k, v := range saved {
			t.vars[k] = v
		}
		b := t.stmts(elseList, ind+"  ")
		t.vars = saved
		return fmt.Sprintf("if %s = true then\n%s  %s\n%selse\n%s  %s", cond, ind, a, ind, ind, b)
	}
	return t.fail("statement outside the subset: %T", head)
}

// translateFunc finds the function and produces a Lean definition `name` of type
// Option (params → results as a tuple).
// fileStructs: the struct types of the file, with the fields whose types are in the subset.
func fileStructs(f *ast.File) map[string][]structField {
	out := map[string][]structField{}
	for _, d := range f.Decls {
		gd, ok := d.(*ast.GenDecl)
		if !ok || gd.Tok != token.TYPE {
			continue
		}
		for _, sp := range gd.Specs {
			ts := sp.(*ast.TypeSpec)
			st, ok := ts.Type.(*ast.StructType)
			if !ok {
				continue
			}
			var fs []structField
			for _, fl := range st.Fields.List {
				ty, ok := goType(fl.Type)
				if _, isFunc := fl.Type.(*ast.FuncType); isFunc {
					// a field holding one of a few named functions: which one (an enumeration given by the
					// constants of the translation; 0 = nil)
					ty, ok = tNat, true
				}
				if !ok {
					continue
				}
				for _, n := range fl.Names {
					fs = append(fs, structField{n.Name, ty})
				}
			}
			out[ts.Name.Name] = fs
		}
	}
	return out
}

// fileInterfaces: the interface types declared in the file (values of such a type: nil / non-nil only).
func fileInterfaces(f *ast.File) map[string]bool {
	out := map[string]bool{}
	for _, d := range f.Decls {
		if gd, ok := d.(*ast.GenDecl); ok && gd.Tok == token.TYPE {
			for _, sp := range gd.Specs {
				ts := sp.(*ast.TypeSpec)
				if _, ok := ts.Type.(*ast.InterfaceType); ok {
					out[ts.Name.Name] = true
				}
			}
		}
	}
	return out
}

// pointerTo: `*T` for a struct type T of the file, or an interface type of the file.
func (t *translator) pointerTo(e ast.Expr) (string, bool) {
	if id, ok := e.(*ast.Ident); ok && t.ifaces[id.Name] {
		return id.Name, true
	}
	st, ok := e.(*ast.StarExpr)
	if !ok {
		return "", false
	}
	id, ok := st.X.(*ast.Ident)
	if !ok {
		return "", false
	}
	_, ok = t.structs[id.Name]
	return id.Name, ok
}

// translateFunc finds the function (or, with recv != "", the method of *recv) and produces a Lean
// definition `leanName` of type Option (params → results as a tuple). Parameter order: `enc` / `dec`
// (when the body calls the part encoder / decoder), the fields of the receiver, the parameters
// (a pointer to a struct of the file contributes its fields; io.Reader / io.Writer contribute
// nothing). Results: the declared ones, then the receiver fields the body assigns.
func translateFunc(f *ast.File, fset *token.FileSet, name, leanName, failType string, consts map[string]int, sconsts map[string]string) string {
	return translateMethod(f, fset, "", name, leanName, failType, consts, sconsts)
}

func translateMethod(f *ast.File, fset *token.FileSet, recv, name, leanName, failType string, consts map[string]int, sconsts map[string]string) string {
	return translateWith(f, fset, recv, name, leanName, failType, consts, sconsts, false, nil)
}

// translateWith: as translateMethod; flat = []byte values are plain Bytes (nil = empty); funcs = the
// functions of the package the body may call, taken as parameters (in the order of first use, after
// enc / dec and before the receiver's fields).
func translateWith(f *ast.File, fset *token.FileSet, recv, name, leanName, failType string, consts map[string]int, sconsts map[string]string, flat bool, funcs map[string]funcParam) string {
	var fd *ast.FuncDecl
	for _, d := range f.Decls {
		x, ok := d.(*ast.FuncDecl)
		if !ok || x.Name.Name != name {
			continue
		}
		if recv == "" && x.Recv == nil {
			fd = x
		}
		if recv != "" && x.Recv != nil && len(x.Recv.List) == 1 {
			if st, ok := x.Recv.List[0].Type.(*ast.StarExpr); ok && exprString(st.X) == recv {
				fd = x
			}
		}
	}
	t := &translator{consts: consts, sconsts: sconsts, vars: map[string]trType{}, structs: fileStructs(f), structVars: map[string]string{}, flatBytes: flat, funcParams: funcs, ifaces: fileInterfaces(f)}
	var params, ptypes, rtypes []string
	var structResults []string
	addStruct := func(v, ty string) {
		t.structVars[v] = ty
		for _, fl := range t.structs[ty] {
			n := v + "_" + fl.name
			t.vars[n] = fl.ty
			params = append(params, leanIdent(n))
			ptypes = append(ptypes, leanTy[fl.ty])
		}
	}
	if fd == nil {
		t.fail("function %s not found", name)
	} else {
		if recv != "" {
			if len(fd.Recv.List[0].Names) != 1 {
				t.fail("unnamed receiver")
			} else {
				rv := fd.Recv.List[0].Names[0].Name
				addStruct(rv, recv)
				// receiver fields the body assigns are results as well
				assigned := map[string]bool{}
				ast.Inspect(fd.Body, func(n ast.Node) bool {
					if as, ok := n.(*ast.AssignStmt); ok {
						for _, l := range as.Lhs {
							if sel, ok := l.(*ast.SelectorExpr); ok && exprString(sel.X) == rv {
								assigned[sel.Sel.Name] = true
							}
						}
					}
					return true
				})
				for _, fl := range t.structs[recv] {
					if assigned[fl.name] {
						t.outs = append(t.outs, leanIdent(rv+"_"+fl.name))
					}
				}
			}
		}
		for _, p := range fd.Type.Params.List {
			if sn, ok := t.pointerTo(p.Type); ok {
				for _, n := range p.Names {
					addStruct(n.Name, sn)
				}
				continue
			}
			if s := exprString(p.Type); s == "io.Reader" || s == "io.Writer" {
				continue // reached only through the part decoder / encoder (`dec` / `enc`)
			}
			ty, ok := goType(p.Type)
			if !ok {
				t.fail("parameter type outside the subset")
			}
			for _, n := range p.Names {
				t.vars[n.Name] = ty
				params = append(params, leanIdent(n.Name))
				ptypes = append(ptypes, leanTy[ty])
			}
		}
		if fd.Type.Results != nil {
			for _, r := range fd.Type.Results.List {
				if id, isId := r.Type.(*ast.Ident); isId && len(r.Names) == 1 {
					if fs, isStruct := t.structs[id.Name]; isStruct {
						// a named result of a struct type of the file: its fields are variables (zero at
						// the start) and are appended to every result tuple, after the other results
						rv := r.Names[0].Name
						t.structVars[rv] = id.Name
						for _, fl := range fs {
							n := rv + "_" + fl.name
							t.vars[n] = fl.ty
							structResults = append(structResults, n)
						}
						continue
					}
				}
				ty, ok := goType(r.Type)
				if _, isPtr := t.pointerTo(r.Type); isPtr {
					ty, ok = tOpaque, true
				}
				if !ok {
					t.fail("result type outside the subset")
				}
				k := max(len(r.Names), 1)
				for i := 0; i < k; i++ {
					t.results = append(t.results, ty)
					if i < len(r.Names) {
						t.resNames = append(t.resNames, r.Names[i].Name)
					} else {
						t.resNames = append(t.resNames, "")
					}
					if ty == tBytes && !t.flatBytes {
						rtypes = append(rtypes, "Option Bytes")
					} else {
						rtypes = append(rtypes, leanTy[ty])
					}
				}
			}
		}
		for _, n := range structResults {
			t.outs = append(t.outs, leanIdent(n))
		}
		for _, o := range t.outs {
			rtypes = append(rtypes, leanTy[t.vars[strings.Trim(o, "«»")]])
		}
	}
	body := ""
	if t.err == "" {
		// named results start at their zero values
		prefix := ""
		for _, n := range structResults {
			zero := map[trType]string{tNat: "(0 : Int)", tBool: "false", tErr: "false", tStr: "[]", tOpaque: "false", tBytes: "[]"}[t.vars[n]]
			prefix += fmt.Sprintf("let %s : %s := %s\n    ", leanIdent(n), leanTy[t.vars[n]], zero)
		}
		for i, n := range t.resNames {
			if n == "" {
				continue
			}
			zero := map[trType]string{tNat: "(0 : Int)", tBool: "false", tErr: "false", tStr: "[]", tOpaque: "false"}[t.results[i]]
			if t.results[i] == tBytes && !t.flatBytes {
				continue // usable in explicit returns only (nil vs slice is not tracked through variables)
			}
			if t.results[i] == tBytes {
				zero = "[]"
			}
			t.vars[n] = t.results[i]
			prefix += fmt.Sprintf("let %s : %s := %s\n    ", leanIdent(n), leanTy[t.results[i]], zero)
		}
		body = prefix + t.stmts(fd.Body.List, "    ")
	}
	var w strings.Builder
	if t.err != "" {
		// the shape is kept so that the tie theorem is stated, and fails
		fmt.Fprintf(&w, "/-- NOT TRANSLATED: %s -/\n", strings.ReplaceAll(t.err, "-/", "- /"))
		fmt.Fprintf(&w, "def %s : Option (%s) := none\n", leanName, failType)
		return w.String()
	}
	for i := len(t.usedFuncs) - 1; i >= 0; i-- {
		fp := t.funcParams[t.usedFuncs[i]]
		var at []string
		for _, a := range fp.args {
			at = append(at, leanTy[a])
		}
		var rt []string
		for _, r := range fp.res {
			rt = append(rt, leanTy[r])
		}
		params = append([]string{fp.lean}, params...)
		ptypes = append([]string{"(" + strings.Join(at, " → ") + " → " + strings.Join(rt, " × ") + ")"}, ptypes...)
	}
	if t.usesDec {
		params = append([]string{"dec"}, params...)
		ptypes = append([]string{"(Nat → Option (List Bytes))"}, ptypes...)
	}
	if t.usesEnc {
		params = append([]string{"enc"}, params...)
		ptypes = append([]string{"(List Bytes → Bool)"}, ptypes...)
	}
	pos := fset.Position(fd.Pos())
	if recv != "" {
		name = "(*" + recv + ")." + name
	}
	fmt.Fprintf(&w, "/-- Translation of `%s` (%s:%d), statement by statement. -/\n", name, shortPath(pos.Filename), pos.Line)
	fmt.Fprintf(&w, "def %s : Option (%s → %s) := some fun %s =>\n    %s\n", leanName,
		strings.Join(ptypes, " → "), strings.Join(rtypes, " × "), strings.Join(params, " "), body)
	return w.String()
}

func shortPath(p string) string {
	parts := strings.Split(p, "/")
	if len(parts) >= 2 {
		return strings.Join(parts[len(parts)-2:], "/")
	}
	return p
}
