// factgen: a small translator from /repo's SOURCE to Lean. It parses the Go files with go/ast
// (and pam_whawty.c with a regular expression) and writes lean/Whawty/Gen/Facts.lean: the
// user-name grammar as character-class tables, the file-name constants, the codec limits,
// the queue capacities and the time constants — as the code states them NOW. The theorems of
// Whawty/Props/Gen.lean tie each of them to the constant the hand-written model uses, so a
// source edit that changes one of them breaks a proof obligation on the next run.
//
//	factgen <repo> <out.lean>
package main

import (
	"fmt"
	"go/ast"
	"go/parser"
	"go/token"
	"os"
	"path/filepath"
	"regexp"
	"strconv"
	"strings"
)

type facts struct {
	str  map[string]string
	nat  map[string]int
	note []string
}

func parse(path string) (*token.FileSet, *ast.File) {
	fs := token.NewFileSet()
	f, err := parser.ParseFile(fs, path, nil, 0)
	if err != nil {
		return fs, nil
	}
	return fs, f
}

func litString(e ast.Expr) (string, bool) {
	if b, ok := e.(*ast.BasicLit); ok && b.Kind == token.STRING {
		s, err := strconv.Unquote(b.Value)
		return s, err == nil
	}
	return "", false
}

func litInt(e ast.Expr) (int, bool) {
	if b, ok := e.(*ast.BasicLit); ok && b.Kind == token.INT {
		n, err := strconv.Atoi(b.Value)
		return n, err == nil
	}
	return 0, false
}

// duration in seconds of `N * time.Second`, `time.Minute`, `N * time.Minute`
func durSeconds(e ast.Expr) (int, bool) {
	unit := func(x ast.Expr) (int, bool) {
		if s, ok := x.(*ast.SelectorExpr); ok {
			if id, ok := s.X.(*ast.Ident); ok && id.Name == "time" {
				switch s.Sel.Name {
				case "Second":
					return 1, true
				case "Minute":
					return 60, true
				case "Hour":
					return 3600, true
				}
			}
		}
		return 0, false
	}
	if u, ok := unit(e); ok {
		return u, true
	}
	if b, ok := e.(*ast.BinaryExpr); ok && b.Op == token.MUL {
		if n, ok := litInt(b.X); ok {
			if u, ok := unit(b.Y); ok {
				return n * u, true
			}
		}
		if n, ok := litInt(b.Y); ok {
			if u, ok := unit(b.X); ok {
				return n * u, true
			}
		}
	}
	return 0, false
}

func main() {
	repo, out := os.Args[1], os.Args[2]
	fc := &facts{str: map[string]string{}, nat: map[string]int{}}

	// ---- store/store.go: the grammar and the file-name constants
	if _, f := parse(filepath.Join(repo, "store", "store.go")); f != nil {
		ast.Inspect(f, func(n ast.Node) bool {
			vs, ok := n.(*ast.ValueSpec)
			if !ok {
				return true
			}
			for i, name := range vs.Names {
				if i >= len(vs.Values) {
					continue
				}
				switch name.Name {
				case "userNameRe":
					if call, ok := vs.Values[i].(*ast.CallExpr); ok && len(call.Args) == 1 {
						if s, ok := litString(call.Args[0]); ok {
							fc.str["userNameRe"] = s
						}
					}
				case "adminExt", "userExt", "tmpDir":
					if s, ok := litString(vs.Values[i]); ok {
						fc.str[name.Name] = s
					}
				}
			}
			return true
		})
	}
	// ---- sasl/sasl_encoding.go
	if _, f := parse(filepath.Join(repo, "sasl", "sasl_encoding.go")); f != nil {
		ast.Inspect(f, func(n ast.Node) bool {
			if vs, ok := n.(*ast.ValueSpec); ok {
				for i, name := range vs.Names {
					if name.Name == "MaxRequestLength" && i < len(vs.Values) {
						if v, ok := litInt(vs.Values[i]); ok {
							fc.nat["saslMaxRequestLength"] = v
						}
					}
				}
			}
			return true
		})
	}
	// ---- cmd/whawty-auth/store.go: capacities of the request channels (s.<name>Chan = make(chan T, N))
	if _, f := parse(filepath.Join(repo, "cmd", "whawty-auth", "store.go")); f != nil {
		ast.Inspect(f, func(n ast.Node) bool {
			as, ok := n.(*ast.AssignStmt)
			if !ok || len(as.Lhs) != 1 || len(as.Rhs) != 1 {
				return true
			}
			call, ok := as.Rhs[0].(*ast.CallExpr)
			if !ok {
				return true
			}
			if id, ok := call.Fun.(*ast.Ident); !ok || id.Name != "make" || len(call.Args) < 1 {
				return true
			}
			if _, isChan := call.Args[0].(*ast.ChanType); !isChan {
				return true
			}
			capacity := 0
			if len(call.Args) == 2 {
				if v, ok := litInt(call.Args[1]); ok {
					capacity = v
				} else {
					return true
				}
			}
			name := ""
			switch l := as.Lhs[0].(type) {
			case *ast.SelectorExpr:
				name = l.Sel.Name
			case *ast.Ident:
				name = l.Name
			}
			if strings.HasSuffix(name, "Chan") {
				fc.nat["cap_"+name] = capacity
			}
			return true
		})
	}
	// ---- cmd/whawty-auth/hooks.go: notification buffer, rate limit, kill timer
	if _, f := parse(filepath.Join(repo, "cmd", "whawty-auth", "hooks.go")); f != nil {
		ast.Inspect(f, func(n ast.Node) bool {
			switch x := n.(type) {
			case *ast.AssignStmt:
				if len(x.Lhs) == 1 && len(x.Rhs) == 1 {
					if sel, ok := x.Lhs[0].(*ast.SelectorExpr); ok {
						if sel.Sel.Name == "Notify" {
							if call, ok := x.Rhs[0].(*ast.CallExpr); ok && len(call.Args) == 2 {
								if v, ok := litInt(call.Args[1]); ok {
									fc.nat["cap_hooksNotify"] = v
								}
							}
						}
						if sel.Sel.Name == "rateLimit" {
							if v, ok := durSeconds(x.Rhs[0]); ok {
								fc.nat["hooksRateLimitSeconds"] = v
							}
						}
					}
				}
			case *ast.CallExpr:
				if sel, ok := x.Fun.(*ast.SelectorExpr); ok && sel.Sel.Name == "NewTimer" && len(x.Args) == 1 {
					if v, ok := durSeconds(x.Args[0]); ok && v >= 30 {
						fc.nat["hookKillSeconds"] = v
					}
				}
			}
			return true
		})
	}
	// ---- cmd/whawty-auth/web_api.go: session lifetime
	if _, f := parse(filepath.Join(repo, "cmd", "whawty-auth", "web_api.go")); f != nil {
		ast.Inspect(f, func(n ast.Node) bool {
			if call, ok := n.(*ast.CallExpr); ok {
				if id, ok := call.Fun.(*ast.Ident); ok && id.Name == "NewWebSessionFactory" && len(call.Args) == 1 {
					if v, ok := durSeconds(call.Args[0]); ok {
						fc.nat["sessionLifetimeSeconds"] = v
					}
				}
			}
			return true
		})
	}
	// ---- store/userhash_argon2id.go: salt size (make([]byte, N) in Generate)
	if _, f := parse(filepath.Join(repo, "store", "userhash_argon2id.go")); f != nil {
		for _, d := range f.Decls {
			fd, ok := d.(*ast.FuncDecl)
			if !ok || fd.Name.Name != "Generate" {
				continue
			}
			ast.Inspect(fd, func(n ast.Node) bool {
				if call, ok := n.(*ast.CallExpr); ok {
					if id, ok := call.Fun.(*ast.Ident); ok && id.Name == "make" && len(call.Args) == 2 {
						if v, ok := litInt(call.Args[1]); ok {
							fc.nat["argon2SaltLen"] = v
						}
					}
				}
				return true
			})
		}
	}
	// ---- pam/pam_whawty.c
	if b, err := os.ReadFile(filepath.Join(repo, "pam", "pam_whawty.c")); err == nil {
		if m := regexp.MustCompile(`(?m)^#define\s+WHAWTY_REQUEST_MAX_PARTLEN\s+(\d+)`).FindSubmatch(b); m != nil {
			fc.nat["pamMaxPartLen"], _ = strconv.Atoi(string(m[1]))
		}
		if m := regexp.MustCompile(`char\s+response\[\s*WHAWTY_REQUEST_MAX_PARTLEN\s*\+\s*(\d+)\s*\]`).FindSubmatch(b); m != nil {
			fc.nat["pamResponseSlack"], _ = strconv.Atoi(string(m[1]))
		}
	}

	// ---- the grammar: ^[C1][C2]*$ -> two 256-entry tables
	first, rest, shape := translateRe(fc.str["userNameRe"])
	var w strings.Builder
	w.WriteString("/- GENERATED by harness/cmd/factgen from /repo's source on every run. Do not edit. -/\n")
	w.WriteString("import Whawty.Model.Basic\nnamespace Whawty.Gen\nopen Whawty\n\n")
	lb := func(s string) string {
		p := make([]string, len(s))
		for i := 0; i < len(s); i++ {
			p[i] = strconv.Itoa(int(s[i]))
		}
		return "[" + strings.Join(p, ", ") + "]"
	}
	for _, k := range []string{"userNameRe", "adminExt", "userExt", "tmpDir"} {
		v, ok := fc.str[k]
		if !ok {
			fmt.Fprintf(&w, "/-- NOT FOUND in the source. -/\ndef %s : Option Bytes := none\n", k)
			continue
		}
		fmt.Fprintf(&w, "/-- %s -/\ndef %s : Option Bytes := some %s\n", strconv.Quote(v), k, lb(v))
	}
	for _, k := range []string{"saslMaxRequestLength", "pamMaxPartLen", "pamResponseSlack", "cap_initChan", "cap_checkChan", "cap_addChan", "cap_removeChan", "cap_updateChan",
		"cap_setAdminChan", "cap_listChan", "cap_listFullChan", "cap_authenticateChan", "cap_upgradeChan", "cap_hooksNotify",
		"hooksRateLimitSeconds", "hookKillSeconds", "sessionLifetimeSeconds", "argon2SaltLen"} {
		if v, ok := fc.nat[k]; ok {
			fmt.Fprintf(&w, "def %s : Option Nat := some %d\n", k, v)
		} else {
			fmt.Fprintf(&w, "def %s : Option Nat := none\n", k)
		}
	}
	fmt.Fprintf(&w, "\n/-- Shape of the user-name regular expression as the translator understood it. -/\ndef nameReShape : String := %s\n", strconv.Quote(shape))
	tbl := func(name string, t *[256]bool) {
		var on []string
		for i := 0; i < 256; i++ {
			if t[i] {
				on = append(on, strconv.Itoa(i))
			}
		}
		fmt.Fprintf(&w, "def %s : List Nat := [%s]\n", name, strings.Join(on, ", "))
	}
	tbl("nameFirstClass", first)
	tbl("nameRestClass", rest)
	w.WriteString("\nend Whawty.Gen\n")
	os.MkdirAll(filepath.Dir(out), 0755)
	old, _ := os.ReadFile(out)
	if string(old) != w.String() {
		os.WriteFile(out, []byte(w.String()), 0644)
	}

	// ---- functions translated statement by statement (translate.go): Gen/Scan.lean
	var sw strings.Builder
	sw.WriteString("/- GENERATED by harness/cmd/factgen (translate.go) from /repo's source on every run. Do not edit. -/\n")
	sw.WriteString("import Whawty.Gen.Prelude\nnamespace Whawty.Gen\nopen Whawty\n\n")
	if fset, f := parse(filepath.Join(repo, "sasl", "sasl_encoding.go")); f != nil {
		consts := fileIntConsts(f)
		sw.WriteString(translateFunc(f, fset, "scanLengthEncodedString", "scanLengthEncodedString", "Bytes → Bool → Int × Option Bytes × Bool", consts, nil))
	} else {
		sw.WriteString("def scanLengthEncodedString : Option (Bytes → Bool → Nat × Option Bytes × Bool) := none\n")
	}
	sw.WriteString("\nend Whawty.Gen\n")
	scanOut := filepath.Join(filepath.Dir(out), "Scan.lean")
	old, _ = os.ReadFile(scanOut)
	if string(old) != sw.String() {
		os.WriteFile(scanOut, []byte(sw.String()), 0644)
	}

	// ---- sasl/sasl_encoding.go: the four codec methods -> Gen/Codec.lean (the loops over the parts
	// are the parameters enc / dec: modelled, not translated)
	{
		var w strings.Builder
		w.WriteString("/- GENERATED by harness/cmd/factgen (translate.go) from /repo's source on every run. Do not edit. -/\n")
		w.WriteString("import Whawty.Gen.Prelude\nnamespace Whawty.Gen\nopen Whawty\n\n")
		type m struct{ recv, name, lean, ty string }
		ms := []m{
			{"Request", "Encode", "requestEncode", "(List Bytes → Bool) → Bytes → Bytes → Bytes → Bytes → Bool"},
			{"Request", "Decode", "requestDecode", "(Nat → Option (List Bytes)) → Bytes → Bytes → Bytes → Bytes → Bool × Bytes × Bytes × Bytes × Bytes"},
			{"Response", "Encode", "responseEncode", "(List Bytes → Bool) → Bool → Bytes → Bool"},
			{"Response", "Decode", "responseDecode", "(Nat → Option (List Bytes)) → Bool → Bytes → Bool × Bool × Bytes"},
		}
		fset, f := parse(filepath.Join(repo, "sasl", "sasl_encoding.go"))
		for _, x := range ms {
			if f != nil {
				w.WriteString(translateMethod(f, fset, x.recv, x.name, x.lean, x.ty, fileIntConsts(f), nil))
			} else {
				w.WriteString("def " + x.lean + " : Option (" + x.ty + ") := none\n")
			}
			w.WriteString("\n")
		}
		w.WriteString("end Whawty.Gen\n")
		o := filepath.Join(filepath.Dir(out), "Codec.lean")
		old, _ := os.ReadFile(o)
		if string(old) != w.String() {
			os.WriteFile(o, []byte(w.String()), 0644)
		}
	}

	// ---- store/userhash_argon2id.go: NewArgon2IDHasher -> Gen/Argon.lean
	{
		var w strings.Builder
		w.WriteString("/- GENERATED by harness/cmd/factgen (translate.go) from /repo's source on every run. Do not edit. -/\n")
		w.WriteString("import Whawty.Gen.Prelude\nnamespace Whawty.Gen\nopen Whawty\n\n")
		ty := "Int → Int → Int → Int → Bool × Bool"
		if fset, f := parse(filepath.Join(repo, "store", "userhash_argon2id.go")); f != nil {
			w.WriteString(translateFunc(f, fset, "NewArgon2IDHasher", "newArgon2IDHasher", ty, fileIntConsts(f), nil))
		} else {
			w.WriteString("def newArgon2IDHasher : Option (" + ty + ") := none\n")
		}
		w.WriteString("\nend Whawty.Gen\n")
		o := filepath.Join(filepath.Dir(out), "Argon.lean")
		old, _ := os.ReadFile(o)
		if string(old) != w.String() {
			os.WriteFile(o, []byte(w.String()), 0644)
		}
	}

	// ---- store/userhash_{argon2id,scryptauth}.go: salt / digest decoding and IsValid -> Gen/HashStr.lean
	{
		var w strings.Builder
		w.WriteString("/- GENERATED by harness/cmd/factgen (translate.go) from /repo's source on every run. Do not edit. -/\n")
		w.WriteString("import Whawty.Gen.PreludeRecord\nnamespace Whawty.Gen\nopen Whawty\n\n")
		decTy := "Bytes → Bytes × Bytes × Bool"
		validTy := "(Bytes → Bytes × Bytes × Bool) → Bytes → Bool × Bool"
		for _, x := range []struct{ file, dec, recv, pre string }{
			{"userhash_argon2id.go", "argon2IDDecodeBase64", "Argon2IDHasher", "argon"},
			{"userhash_scryptauth.go", "scryptAuthDecodeBase64", "ScryptAuthHasher", "scrypt"},
		} {
			fset, f := parse(filepath.Join(repo, "store", x.file))
			if f != nil {
				w.WriteString(translateWith(f, fset, "", x.dec, x.pre+"DecodeBase64", decTy, fileIntConsts(f), nil, true, nil))
				w.WriteString("\n")
				w.WriteString(translateWith(f, fset, x.recv, "IsValid", x.pre+"IsValid", validTy, fileIntConsts(f), nil, true,
					map[string]funcParam{x.dec: {"decodeB64", []trType{tStr}, []trType{tBytes, tBytes, tErr}}}))
				w.WriteString("\n")
			} else {
				w.WriteString("def " + x.pre + "DecodeBase64 : Option (" + decTy + ") := none\n")
				w.WriteString("def " + x.pre + "IsValid : Option (" + validTy + ") := none\n")
			}
		}
		w.WriteString("end Whawty.Gen\n")
		o := filepath.Join(filepath.Dir(out), "HashStr.lean")
		old, _ := os.ReadFile(o)
		if string(old) != w.String() {
			os.WriteFile(o, []byte(w.String()), 0644)
		}
	}

	// ---- cmd/whawty-auth/policy.go: newZXCVBNPolicy -> Gen/PolicyCond.lean
	{
		var w strings.Builder
		w.WriteString("/- GENERATED by harness/cmd/factgen (translate.go) from /repo's source on every run. Do not edit. -/\n")
		w.WriteString("import Whawty.Gen.PreludePolicy\nnamespace Whawty.Gen\nopen Whawty\n\n")
		ty := "Bytes → Bool × Int × Int"
		if fset, f := parse(filepath.Join(repo, "cmd", "whawty-auth", "policy.go")); f != nil {
			consts := fileIntConsts(f)
			// the three condition functions as an enumeration (0 = no function)
			consts["zxcvbnConditionScore"], consts["zxcvbnConditionEntropy"], consts["zxcvbnConditionTime"] = 1, 2, 3
			w.WriteString(translateFunc(f, fset, "newZXCVBNPolicy", "newZXCVBNPolicy", ty, consts, nil))
			w.WriteString("\n")
			// NewPasswordPolicy: the zxcvbn branch hands over to newZXCVBNPolicy (a parameter: non-nil?, error)
			w.WriteString(translateWith(f, fset, "", "NewPasswordPolicy", "newPasswordPolicy", "(Bytes → Bool × Bool) → Bytes → Bytes → Bool × Bool", consts, nil, false,
				map[string]funcParam{"newZXCVBNPolicy": {"zxcvbn", []trType{tStr}, []trType{tOpaque, tErr}}}))
		} else {
			w.WriteString("def newZXCVBNPolicy : Option (" + ty + ") := none\n")
			w.WriteString("def newPasswordPolicy : Option ((Bytes → Bool × Bool) → Bytes → Bytes → Bool × Bool) := none\n")
		}
		w.WriteString("\nend Whawty.Gen\n")
		o := filepath.Join(filepath.Dir(out), "PolicyCond.lean")
		old, _ := os.ReadFile(o)
		if string(old) != w.String() {
			os.WriteFile(o, []byte(w.String()), 0644)
		}
	}

	// ---- store/store.go: checkUserFile -> Gen/CheckFile.lean
	var cw strings.Builder
	cw.WriteString("/- GENERATED by harness/cmd/factgen (translate.go) from /repo's source on every run. Do not edit. -/\n")
	cw.WriteString("import Whawty.Gen.PreludeStore\nnamespace Whawty.Gen\nopen Whawty\n\n")
	cfType := "Bytes → Bool × Bytes × Bool × Bool"
	if fset, f := parse(filepath.Join(repo, "store", "store.go")); f != nil {
		sconsts := map[string]string{}
		for _, k := range []string{"adminExt", "userExt", "tmpDir"} {
			if v, ok := fc.str[k]; ok {
				sconsts[k] = v
			}
		}
		cw.WriteString(translateFunc(f, fset, "checkUserFile", "checkUserFile", cfType, nil, sconsts))
	} else {
		cw.WriteString("def checkUserFile : Option (" + cfType + ") := none\n")
	}
	cw.WriteString("\nend Whawty.Gen\n")
	cfOut := filepath.Join(filepath.Dir(out), "CheckFile.lean")
	old, _ = os.ReadFile(cfOut)
	if string(old) != cw.String() {
		os.WriteFile(cfOut, []byte(cw.String()), 0644)
	}
}

// fileIntConsts: the package-level constants of the file that are integer literals.
func fileIntConsts(f *ast.File) map[string]int {
	out := map[string]int{}
	for _, d := range f.Decls {
		gd, ok := d.(*ast.GenDecl)
		if !ok || gd.Tok != token.CONST {
			continue
		}
		for _, sp := range gd.Specs {
			vs := sp.(*ast.ValueSpec)
			for i, name := range vs.Names {
				if i < len(vs.Values) {
					if v, ok := litInt(vs.Values[i]); ok {
						out[name.Name] = v
					}
				}
			}
		}
	}
	return out
}

// translateRe understands exactly the shape ^[class][class]*$ with literal characters and a-b
// ranges inside the classes (no flags, no escapes other than \\- \\. \\\\, no negation). Anything
// else is reported through `shape` and yields empty tables: the proof obligation then fails.
func translateRe(re string) (first, rest *[256]bool, shape string) {
	first, rest = new([256]bool), new([256]bool)
	class := func(s string, t *[256]bool) (string, bool) {
		if !strings.HasPrefix(s, "[") || strings.HasPrefix(s, "[^") {
			return s, false
		}
		i := 1
		var items []byte
		for i < len(s) && s[i] != ']' {
			c := s[i]
			if c == '\\' && i+1 < len(s) {
				i++
				c = s[i]
				if !strings.ContainsRune(`-.\]_@`, rune(c)) {
					return s, false
				}
			} else if c == '[' || c >= 0x80 {
				return s, false
			}
			items = append(items, c)
			i++
		}
		if i >= len(s) {
			return s, false
		}
		for k := 0; k < len(items); k++ {
			if k+2 < len(items) && items[k+1] == '-' {
				for c := int(items[k]); c <= int(items[k+2]); c++ {
					t[c] = true
				}
				k += 2
			} else {
				t[items[k]] = true
			}
		}
		return s[i+1:], true
	}
	if !strings.HasPrefix(re, "^") || !strings.HasSuffix(re, "$") {
		return first, rest, "unsupported: not anchored: " + re
	}
	body := re[1 : len(re)-1]
	var ok bool
	if body, ok = class(body, first); !ok {
		return new([256]bool), new([256]bool), "unsupported: first class: " + re
	}
	if body, ok = class(body, rest); !ok || body != "*" {
		return new([256]bool), new([256]bool), "unsupported: rest: " + re
	}
	return first, rest, "^[first][rest]*$"
}
