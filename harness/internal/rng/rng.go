// Package rng is the single source of randomness of the harness: one splitmix64 state
// derived from VERIF_SEED (and the shard number), so that every run replays exactly.
package rng

type R struct{ s uint64 }

func New(seed uint64) *R { return &R{s: seed*0x9E3779B97F4A7C15 + 0x1234567} }

func (r *R) U64() uint64 {
	r.s += 0x9E3779B97F4A7C15
	z := r.s
	z = (z ^ (z >> 30)) * 0xBF58476D1CE4E5B9
	z = (z ^ (z >> 27)) * 0x94D049BB133111EB
	return z ^ (z >> 31)
}

// Intn returns a number in [0, n).
func (r *R) Intn(n int) int {
	if n <= 0 {
		return 0
	}
	return int(r.U64() % uint64(n))
}

func (r *R) Bool() bool { return r.U64()&1 == 1 }

// Bytes returns n random bytes.
func (r *R) Bytes(n int) []byte {
	b := make([]byte, n)
	for i := range b {
		b[i] = byte(r.U64())
	}
	return b
}

// Pick returns one of the given ints.
func (r *R) Pick(xs ...int) int { return xs[r.Intn(len(xs))] }

// Fork derives an independent generator.
func (r *R) Fork() *R { return New(r.U64()) }
