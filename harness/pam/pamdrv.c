/* pamdrv: runs pam_sm_authenticate of /repo/pam/pam_whawty.c (compiled unmodified, ASan+UBSan)
   against a scripted unix-socket server living in a thread of this process.

   stdin, one case per line:
       pam.auth <user x-hex> <pw x-hex> <opts: comma list or -> <script>
   script = ';'-separated server actions executed after accept():
       R<n>     read until n request bytes have arrived (or 1.5 s / EOF)
       W<hex>   write bytes
       S<ms>    sleep
       C        close (FIN)      X   close with RST      N  (first action) do not listen at all
   stdout: the same line + " => <rc> <received request bytes x-hex>".
   opts: debug, try_first_pass, use_first_pass, not_set_pass, nopw (conversation returns no
   password), stackpw (password already on the PAM stack), timeout=<s>.                      */
#define _GNU_SOURCE
#include <stdio.h>
#include <stdlib.h>
#include <string.h>
#include <unistd.h>
#include <errno.h>
#include <pthread.h>
#include <signal.h>
#include <poll.h>
#include <time.h>
#include <sys/socket.h>
#include <sys/un.h>
#include <security/pam_modules.h>
#include <security/pam_ext.h>

struct pam_handle { const char *user; char *authtok; const char *convpw; int prompts; };

int pam_get_user(pam_handle_t *h, const char **user, const char *prompt) { (void)prompt; *user = h->user; return PAM_SUCCESS; }
int pam_get_item(const pam_handle_t *h, int t, const void **item) { if (t != PAM_AUTHTOK) return 29; *item = h->authtok; return PAM_SUCCESS; }
int pam_set_item(pam_handle_t *h, int t, const void *item) { if (t != PAM_AUTHTOK) return 29; char *n = item ? strdup(item) : NULL; free(h->authtok); h->authtok = n; return PAM_SUCCESS; }
const char *pam_strerror(pam_handle_t *h, int e) { (void)h; (void)e; return "pam error"; }
void pam_vsyslog(const pam_handle_t *h, int prio, const char *fmt, va_list ap) {
  (void)h; (void)prio; char buf[2048]; vsnprintf(buf, sizeof buf, fmt, ap); /* formatted (exercises the format strings), discarded */ }
int pam_prompt(pam_handle_t *h, int style, char **resp, const char *fmt, ...) {
  (void)style; (void)fmt; h->prompts++; *resp = h->convpw ? strdup(h->convpw) : NULL; return PAM_SUCCESS; }

int pam_sm_authenticate(pam_handle_t *pamh, int flags, int argc, const char **argv);

static unsigned char *unhex(const char *s, size_t *n) {
  if (*s == 'x') s++;
  size_t l = strlen(s) / 2; unsigned char *b = malloc(l + 1);
  for (size_t i = 0; i < l; i++) { unsigned v; sscanf(s + 2 * i, "%2x", &v); b[i] = (unsigned char)v; }
  b[l] = 0; *n = l; return b;
}

static pthread_t main_thread;
static volatile int wd_armed;   /* 1 while pam_sm_authenticate is running */
struct srv { int lfd; char *script; unsigned char *rcv; size_t nrcv, cap; };

static void msleep(long ms) { struct timespec t = { ms / 1000, (ms % 1000) * 1000000L }; nanosleep(&t, NULL); }

static void srv_read(struct srv *s, int fd, size_t want, int ms) {
  while (s->nrcv < want) {
    struct pollfd p = { fd, POLLIN, 0 };
    if (poll(&p, 1, ms) <= 0) return;
    if (s->nrcv + 4096 > s->cap) { s->cap = s->cap * 2 + 8192; s->rcv = realloc(s->rcv, s->cap); }
    ssize_t n = read(fd, s->rcv + s->nrcv, 4096);
    if (n <= 0) return;
    s->nrcv += n;
  }
}

static void *srv_main(void *arg) {
  struct srv *s = arg;
  struct pollfd p = { s->lfd, POLLIN, 0 };
  if (poll(&p, 1, 3000) <= 0) return NULL;
  int fd = accept(s->lfd, NULL, NULL);
  if (fd < 0) return NULL;
  char *save = NULL;
  for (char *a = strtok_r(s->script, ";", &save); a; a = strtok_r(NULL, ";", &save)) {
    switch (a[0]) {
    case 'R': srv_read(s, fd, strtoul(a + 1, NULL, 10), 1500); break;
    case 'W': { size_t n; unsigned char *b = unhex(a + 1, &n); size_t off = 0;
                while (off < n) { ssize_t w = send(fd, b + off, n - off, MSG_NOSIGNAL); if (w <= 0) break; off += w; }
                free(b); break; }
    case 'S': msleep(strtol(a + 1, NULL, 10)); break;
    case 'I': if (wd_armed) pthread_kill(main_thread, SIGUSR1); msleep(20); break;
    case 'P': { /* P<ms>: for <ms> milliseconds a signal every 150 ms (a host application with a busy timer / SIGCHLD traffic) */
                long total = strtol(a + 1, NULL, 10);
                for (long t = 0; t < total && wd_armed; t += 150) { pthread_kill(main_thread, SIGUSR1); msleep(150); }  /* only while the module call is in progress */
                break; }
    case 'C': srv_read(s, fd, s->nrcv, 0); close(fd); fd = -1; break;
    case 'X': { struct linger l = { 1, 0 }; setsockopt(fd, SOL_SOCKET, SO_LINGER, &l, sizeof l); close(fd); fd = -1; break; }
    }
    if (fd < 0) break;
  }
  if (fd >= 0) { srv_read(s, fd, (size_t)-1, 50); close(fd); }
  return NULL;
}

/* watchdog: a module call that does not return within 8 s is reported and the process ends */
static volatile long wd_case; static const char *volatile wd_line;
static void *wd_main(void *arg) {
  (void)arg; long seen = -1; int ticks = 0;
  for (;;) {
    msleep(100);
    if (!wd_armed) { ticks = 0; continue; }
    if (wd_case != seen) { seen = wd_case; ticks = 0; continue; }
    if (++ticks >= 80) { printf("%s => hang\n", wd_line ? wd_line : "?"); fflush(stdout); _exit(78); }
  }
  return NULL;
}
static void on_usr1(int sig) { (void)sig; }

int main(int argc, char **argv) {
  signal(SIGPIPE, SIG_IGN);
  { struct sigaction sa; memset(&sa, 0, sizeof sa); sa.sa_handler = on_usr1; sigaction(SIGUSR1, &sa, NULL); } /* no SA_RESTART */
  { pthread_t wd; pthread_create(&wd, NULL, wd_main, NULL); }
  const char *dir = argc > 1 ? argv[1] : ".";
  char *line = NULL; size_t cap = 0; ssize_t len; long id = 0;
  while ((len = getline(&line, &cap, stdin)) > 0) {
    while (len > 0 && (line[len - 1] == '\n' || line[len - 1] == '\r')) line[--len] = 0;
    if (!len) continue;
    char *copy = strdup(line);
    char *save = NULL;
    char *kind = strtok_r(copy, " ", &save), *ux = strtok_r(NULL, " ", &save), *px = strtok_r(NULL, " ", &save),
         *opts = strtok_r(NULL, " ", &save), *script = strtok_r(NULL, " ", &save);
    if (!kind || !ux || !px || !opts || !script) { printf("%s => malformed\n", line); free(copy); continue; }
    size_t ul, pl; unsigned char *user = unhex(ux, &ul), *pw = unhex(px, &pl);
    char path[108]; snprintf(path, sizeof path, "%s/p%ld-%d.sock", dir, id++, (int)getpid());
    unlink(path);
    struct srv s = { -1, strdup(script), NULL, 0, 0 };
    pthread_t th; int have_thread = 0;
    if (script[0] != 'N') {
      s.lfd = socket(AF_UNIX, SOCK_STREAM, 0);
      struct sockaddr_un a; memset(&a, 0, sizeof a); a.sun_family = AF_UNIX; snprintf(a.sun_path, sizeof a.sun_path, "%s", path);
      if (bind(s.lfd, (struct sockaddr *)&a, sizeof a) || listen(s.lfd, 4)) { printf("%s => harness-bind-failed\n", line); exit(3); }
      pthread_create(&th, NULL, srv_main, &s); have_thread = 1;
    }
    struct pam_handle h = { (const char *)user, NULL, (const char *)pw, 0 };
    int stale_eintr = 0;
    const char *av[16]; int ac = 0; char sockopt[140]; snprintf(sockopt, sizeof sockopt, "sock=%s", path);
    av[ac++] = sockopt; av[ac++] = "timeout=1";
    char *osave = NULL; char *ocopy = strdup(opts);
    for (char *o = strtok_r(ocopy, ",", &osave); o && ac < 15; o = strtok_r(NULL, ",", &osave)) {
      if (!strcmp(o, "-")) continue;
      if (!strcmp(o, "nopw")) { h.convpw = NULL; continue; }
      if (!strcmp(o, "stackpw")) { h.authtok = strdup((const char *)pw); h.convpw = "wrong-conversation-password"; continue; }
      if (!strcmp(o, "eintr")) { stale_eintr = 1; continue; }   /* harness option: the caller's errno is a stale EINTR */
      av[ac++] = o;
    }
    wd_line = line; wd_case = id; wd_armed = 1;
    main_thread = pthread_self();
    if (stale_eintr) errno = EINTR;
    struct timespec t0, t1; clock_gettime(CLOCK_MONOTONIC, &t0);
    int rc = pam_sm_authenticate(&h, 0, ac, av);
    clock_gettime(CLOCK_MONOTONIC, &t1);
    long took_ms = (t1.tv_sec - t0.tv_sec) * 1000 + (t1.tv_nsec - t0.tv_nsec) / 1000000;
    wd_armed = 0;
    if (have_thread) { pthread_join(th, NULL); close(s.lfd); }
    unlink(path);
    printf("%s => %d x", line, rc);
    for (size_t i = 0; i < s.nrcv; i++) printf("%02x", s.rcv[i]);
    printf(" ms=%ld\n", took_ms); fflush(stdout);
    free(s.rcv); free(s.script); free(user); free(pw); free(h.authtok); free(ocopy); free(copy);
  }
  free(line);
  return 0;
}
