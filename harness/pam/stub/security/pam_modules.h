/* Minimal stand-in for <security/pam_modules.h> (Linux-PAM is not installed in the sandbox).
   Only what pam_whawty.c uses; constants carry Linux-PAM's values. The functions are
   implemented by the harness (pamdrv.c). */
#ifndef STUB_PAM_MODULES_H
#define STUB_PAM_MODULES_H
#include <stdarg.h>
typedef struct pam_handle pam_handle_t;
#define PAM_SUCCESS 0
#define PAM_OPEN_ERR 1
#define PAM_SYMBOL_ERR 2
#define PAM_SERVICE_ERR 3
#define PAM_SYSTEM_ERR 4
#define PAM_BUF_ERR 5
#define PAM_PERM_DENIED 6
#define PAM_CRED_INSUFFICIENT 8
#define PAM_USER_UNKNOWN 10
#define PAM_MAXTRIES 11
#define PAM_IGNORE 25
#define PAM_ABORT 26
#define PAM_AUTH_ERR 7
#define PAM_AUTHINFO_UNAVAIL 9
#define PAM_CRED_ERR 17
#define PAM_CONV_ERR 19
#define PAM_AUTHTOK_RECOVERY_ERR 21
#define PAM_CONV_AGAIN 30
#define PAM_INCOMPLETE 31
#define PAM_SILENT 0x8000U
#define PAM_AUTHTOK 6
#define PAM_PROMPT_ECHO_OFF 1
#define PAM_EXTERN extern
#define PAM_FORMAT(params) __attribute__((__format__ params))
int pam_get_user(pam_handle_t *pamh, const char **user, const char *prompt);
int pam_get_item(const pam_handle_t *pamh, int item_type, const void **item);
int pam_set_item(pam_handle_t *pamh, int item_type, const void *item);
const char *pam_strerror(pam_handle_t *pamh, int errnum);
#endif
