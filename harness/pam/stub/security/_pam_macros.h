#ifndef STUB_PAM_MACROS_H
#define STUB_PAM_MACROS_H
#include <stdlib.h>
#include <string.h>
/* as in Linux-PAM's _pam_macros.h */
#define _pam_overwrite(x)        \
do {                             \
     register char *__xx__;      \
     if ((__xx__=(x)))           \
          while (*__xx__)        \
               *__xx__++ = '\0'; \
} while (0)
#define _pam_overwrite_n(x,n)   \
do {                             \
     register char *__xx__;      \
     register unsigned int __i__ = 0;    \
     if ((__xx__=(x)))           \
        for (;__i__<n; __i__++) \
            __xx__[__i__] = 0; \
} while (0)
#define _pam_delete(xx)         \
{                               \
    _pam_overwrite(xx);         \
    _pam_drop(xx);              \
}
#define x_strdup(s)  ( (s) ? strdup(s):NULL )
#define _pam_drop(X) \
do {                 \
    if (X) {         \
        free(X);     \
        X=NULL;      \
    }                \
} while (0)
#endif
