package main

import (
	"bytes"
	"fmt"
	"os"
	"path/filepath"
)

// suiteV02: the schema's rules for unsupported / invalid hash files THROUGH THE AGENT (request
// interface and web API), not only through the library: hidden from list, shown as unsupported by
// list-full, 'already exists' on add, refused and byte-identical on update, deleted on remove,
// never authenticating.
func suiteV02(c *vctx) {
	r := c.r
	n := 4
	if c.thorough() {
		n = 40
	}
	n = max(n/c.nshards, 1)
	for i := 0; i < n; i++ {
		mode := []string{"", "local"}[r.Intn(2)]
		a, err := newVAgent(c, fmt.Sprintf("uns%d", i), 1, mode, "", "", "")
		if err != nil {
			continue
		}
		a.iface.Init("root", "Root-Passw0rd")
		a.iface.Add("good", "Good-Passw0rd", false)
		good, _ := os.ReadFile(filepath.Join(a.dirPath, "good.user"))
		contents := map[string][]byte{
			"empty":          {},
			"garbage":        r.Bytes(40),
			"unknown-alg":    []byte("bcrypt:1700000000:1:c2FsdA==:aGFzaA==\n"),
			"unknown-set":    bytes.Replace(good, []byte(":1:"), []byte(":99:"), 1),
			"alg-mismatch":   bytes.Replace(good, []byte("hmac_sha256_scrypt"), []byte("argon2id"), 1),
			"empty-digest":   append(bytes.Join(bytes.SplitN(good, []byte(":"), 5)[:4], []byte(":")), []byte(":\n")...),
			"four-fields":    bytes.Join(bytes.SplitN(good, []byte(":"), 5)[:4], []byte(":")),
			"bad-base64":     bytes.Replace(good, []byte("="), []byte("!"), 1),
			"only-newline":   []byte("\n"),
			"supported-copy": good,
		}
		for _, kind := range []string{"empty", "garbage", "unknown-alg", "unknown-set", "alg-mismatch", "empty-digest", "four-fields", "bad-base64", "only-newline", "supported-copy"} {
			for _, ext := range []string{".user", ".admin"} {
				if r.Intn(2) == 0 && !c.thorough() {
					continue
				}
				user := "victim"
				fn := filepath.Join(a.dirPath, user+ext)
				os.WriteFile(fn, contents[kind], 0600)
				supportedRef := func() bool {
					lf, _ := a.ref.ListFull()
					return lf[user].IsSupported
				}()
				desc := fmt.Sprintf("kind=%s ext=%s mode=%s supported=%s", kind, ext, vxs(mode), vtf(supportedRef))
				l, lerr := a.iface.List()
				_, listed := l[user]
				c.emit("law.C02.agent_list_shows_iff_supported "+desc, vtf(lerr == nil && listed == supportedRef))
				lf, lferr := a.iface.ListFull()
				e, inFull := lf[user]
				c.emit("law.C02.agent_list_full_reports_support "+desc, vtf(lferr == nil && inFull && e.IsSupported == supportedRef))
				c.emit("law.C02.agent_add_says_exists "+desc, vtf(a.iface.Add(user, "Another-Passw0rd", false) != nil && sameFile(fn, contents[kind])))
				if !supportedRef {
					ok, _, _, _ := a.iface.Authenticate(user, "Good-Passw0rd")
					ok2, _, _, _ := a.iface.Authenticate(user, "")
					c.emit("law.C02.agent_unsupported_never_authenticates "+desc, vtf(!ok && !ok2))
					uerr := a.iface.Update(user, "Updated-Passw0rd")
					c.emit("law.C02.agent_update_refused_and_identical "+desc, vtf(uerr != nil && sameFile(fn, contents[kind])))
				}
				rerr := a.iface.Remove(user)
				_, statErr := os.Stat(fn)
				c.emit("law.C02.agent_remove_deletes "+desc, vtf(rerr == nil && os.IsNotExist(statErr)))
				os.Remove(fn)
			}
		}
		c.emit("law.C02.agent_store_still_valid mode="+vxs(mode), vtf(a.ref.Check() == nil))
		os.RemoveAll(a.dirPath)
	}
}

func sameFile(path string, want []byte) bool {
	b, err := os.ReadFile(path)
	return err == nil && bytes.Equal(b, want)
}

func init() { vsuites["v02"] = suiteV02 }
