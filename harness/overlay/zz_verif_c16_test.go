package main

import (
	"fmt"
	"os"
	"os/exec"
	"path/filepath"
	"time"
)

// suiteV16cli: the built whawty-auth binary on valid and invalid store directories, every
// command, with the check enabled (default) and disabled (flag / environment variable).
// Observed: exit status, whether the directory changed, whether the command's own effect is
// there — compared with the gate model (lean/Whawty/Model/Cli.lean).
func suiteV16cli(c *vctx) {
	bin := os.Getenv("VERIF_BIN")
	if bin == "" {
		c.emit("law.C16.cli_binary_available", "f")
		return
	}
	r := c.r
	n := 12
	if c.thorough() {
		n = 96
	}
	n = max(n/c.nshards, 1)
	for i := 0; i < n; i++ {
		a, err := newVAgent(c, fmt.Sprintf("cli%d", i), 1, "", "", "", "")
		if err != nil {
			continue
		}
		rootpw := "Root-Passw0rd"
		a.ref.Init("root", rootpw)
		a.ref.AddUser("u1", "Init-u1", false)
		kind := []string{"valid", "duplicate-pair", "no-admin", "stray-file", "empty", "valid"}[(i+c.shard)%6]
		switch kind {
		case "duplicate-pair":
			b, _ := os.ReadFile(filepath.Join(a.dirPath, "u1.user"))
			os.WriteFile(filepath.Join(a.dirPath, "u1.admin"), b, 0600)
		case "no-admin":
			os.Rename(filepath.Join(a.dirPath, "root.admin"), filepath.Join(a.dirPath, "root.user"))
		case "stray-file":
			os.WriteFile(filepath.Join(a.dirPath, "README.txt"), []byte("x"), 0600)
		case "empty":
			os.RemoveAll(a.dirPath)
			os.MkdirAll(a.dirPath, 0700)
		}
		valid := a.ref.Check() == nil
		empty := kind == "empty"
		for _, cmd := range []string{"add", "remove", "update", "set-admin", "list", "authenticate", "check", "init", "run", "runsa"} {
			for _, dc := range []string{"default", "flag-false", "env-false", "flag-true"} {
				if (cmd == "run" || cmd == "runsa") && (valid || dc == "flag-false" || dc == "env-false") {
					continue // would start serving: only the refusal is observed for these two
				}
				if r.Intn(3) == 0 && !c.thorough() {
					continue
				}
				// fresh copy of the directory for every invocation
				work := filepath.Join(c.work, fmt.Sprintf("clicopy%d", i))
				os.RemoveAll(work)
				exec.Command("cp", "-a", a.dirPath, work).Run()
				cfg := filepath.Join(c.work, fmt.Sprintf("clicopy%d.yaml", i))
				b, _ := os.ReadFile(a.cfgPath)
				os.WriteFile(cfg, []byte(replaceAll(string(b), a.dirPath, work)), 0600)
				args := []string{"--store", cfg}
				env := append(os.Environ(), "WHAWTY_AUTH_DO_UPGRADES=", "WHAWTY_AUTH_POLICY_TYPE=", "WHAWTY_AUTH_HOOKS_DIR=")
				doCheck := true
				switch dc {
				case "flag-false":
					args, doCheck = append(args, "--do-check=false"), false
				case "env-false":
					env, doCheck = append(env, "WHAWTY_AUTH_DO_CHECK=false"), false
				case "flag-true":
					args = append(args, "--do-check=true")
				}
				switch cmd {
				case "add":
					args = append(args, "add", "newuser", "New-Passw0rd")
				case "remove":
					args = append(args, "remove", "u1")
				case "update":
					args = append(args, "update", "u1", "Upd-Passw0rd")
				case "set-admin":
					args = append(args, "set-admin", "u1", "true")
				case "list":
					args = append(args, "list")
				case "authenticate":
					args = append(args, "authenticate", "u1", "Init-u1")
				case "check":
					args = append(args, "check")
				case "init":
					args = append(args, "init", "root", rootpw)
				case "run", "runsa":
					args = append(args, cmd, "--listener", filepath.Join(c.work, "no-such-listener.yaml"))
				}
				pre := dirDigest(work)
				ex := exec.Command(bin, args...)
				ex.Env = env
				done := make(chan error, 1)
				ex.Start()
				go func() { done <- ex.Wait() }()
				code := -2
				select {
				case err := <-done:
					code = 0
					if ee, ok := err.(*exec.ExitError); ok {
						code = ee.ExitCode()
					} else if err != nil {
						code = -1
					}
				case <-time.After(5 * time.Second):
					ex.Process.Kill()
				}
				changed := dirDigest(work) != pre
				obs := "proceeds"
				switch {
				case cmd == "check" && code == 0:
					obs = "exit0"
				case code == 3 && !changed:
					obs = "exit3"
				}
				line := fmt.Sprintf("cli.gate %s t %s %s %s", cmd, vtf(valid), vtf(empty), vtf(doCheck))
				// a command that is let through may still fail for its own reasons with status 3 and no
				// change (remove of a missing user never fails; authenticate on the no-admin store works):
				// only for the directory kinds where the command itself succeeds is "proceeds" observable
				ownOk := kind == "valid" || kind == "duplicate-pair" || kind == "no-admin"
				if cmd == "list" || cmd == "authenticate" || cmd == "add" || cmd == "update" || cmd == "set-admin" || cmd == "remove" {
					if !ownOk && (!doCheck || valid) {
						continue
					}
				}
				if cmd == "init" && !empty {
					// refused by Init itself (directory not empty): status 3, nothing changed
					c.emit(fmt.Sprintf("law.C16.init_only_on_empty_cli kind=%s do-check=%s exit=%d", kind, dc, code), vtf(code == 3 && !changed))
					continue
				}
				c.emit(line, obs)
				if cmd != "check" && cmd != "init" && doCheck && !valid {
					// the property, directly: refused with status 3, nothing done
					c.emit(fmt.Sprintf("law.C16.command_refused_on_invalid_directory cmd=%s kind=%s do-check=%s exit=%d changed=%s", cmd, kind, dc, code, vtf(changed)), vtf(obs == "exit3"))
				}
				if obs == "exit3" {
					c.emit(fmt.Sprintf("law.C16.refused_command_changes_nothing cmd=%s kind=%s do-check=%s", cmd, kind, dc), vtf(!changed))
				}
			}
		}
		os.RemoveAll(a.dirPath)
	}
}

func replaceAll(s, old, nw string) string {
	out := ""
	for {
		i := indexOf(s, old)
		if i < 0 {
			return out + s
		}
		out += s[:i] + nw
		s = s[i+len(old):]
	}
}

func indexOf(s, sub string) int {
	for i := 0; i+len(sub) <= len(s); i++ {
		if s[i:i+len(sub)] == sub {
			return i
		}
	}
	return -1
}

func init() { vsuites["v16cli"] = suiteV16cli }
