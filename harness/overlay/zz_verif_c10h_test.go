package main

// v10h — the agent keeps answering whatever the update hooks' rate limiter goes through: bursts of
// changes inside one rate-limit interval (a deferred hook round at its end), quiet periods, then
// more changes than the notification channel holds. Every request is answered.

import (
	"fmt"
	"os"
	"path/filepath"
	"time"
)

func suiteV10hooks(c *vctx) {
	if c.shard >= 4 && !c.thorough() {
		return
	}
	r := c.r
	hooksDir := filepath.Join(c.work, fmt.Sprintf("h10hooks%d", c.shard))
	os.RemoveAll(hooksDir)
	os.MkdirAll(hooksDir, 0755)
	if r.Bool() {
		os.WriteFile(filepath.Join(hooksDir, "ok.sh"), []byte("#!/bin/sh\nexit 0\n"), 0755)
	}
	a, err := newVAgent(c, fmt.Sprintf("h10_%d", c.shard), 1, "", "", "", hooksDir)
	if err != nil {
		c.emit("law.C10.agent_starts "+vxs(err.Error()), "f")
		return
	}
	a.st.hooks.rateLimit = 60 * time.Millisecond // (5 s in the code: the harness does not wait that long per interval)
	a.iface.Init("root", "Root-Passw0rd")
	n, unanswered := 0, ""
	do := func(what string, f func()) bool {
		n++
		if !bounded(20*time.Second, f) {
			unanswered = fmt.Sprintf("%s#%d", what, n)
			return false
		}
		return true
	}
	ok := true
	rounds := 3
	if c.thorough() {
		rounds = 10
	}
	for round := 0; round < rounds && ok; round++ {
		// a burst inside one interval (0, 1, 2 or many changes), then the interval runs out
		for k := r.Intn(5); k > 0 && ok; k-- {
			u := fmt.Sprintf("b%d_%d", round, k)
			ok = do("add", func() { a.iface.Add(u, "Burst-Passw0rd", false) })
		}
		time.Sleep(time.Duration(20+r.Intn(120)) * time.Millisecond)
		// more changes than the notification channel has slots, with logins and listings in between
		for k := 0; k < 45 && ok; k++ {
			u := fmt.Sprintf("m%d_%d", round, k)
			ok = do("add", func() { a.iface.Add(u, "Many-Passw0rd", false) })
			if ok && k%7 == 0 {
				ok = do("auth", func() { a.iface.Authenticate("root", "Root-Passw0rd") })
			}
			if ok && k%11 == 0 {
				ok = do("remove", func() { a.iface.Remove(u) })
			}
		}
		if ok {
			ok = do("list", func() { a.iface.List() })
		}
	}
	c.emit(fmt.Sprintf("law.C10.every_request_is_answered hooks-rate-limiter requests=%d unanswered=%s", n, vxs(unanswered)), vtf(ok))
	if ok {
		os.RemoveAll(a.dirPath)
	}
	os.RemoveAll(hooksDir)
}

func init() { vsuites["v10h"] = suiteV10hooks }
