package main

import (
	"fmt"
	"os"
	"path/filepath"
	"strconv"
	"strings"
	"sync"
	"time"

	lib "github.com/whawty/auth/store"
)

// gateHasher wraps a real hasher: every Check / Generate announces itself to the harness and
// waits to be released. The dispatcher calls hashers synchronously, so the harness can hold it
// inside any request, observe the exact execution order, and single-step it.
type gateEv struct {
	kind string // "check" | "gen"
	pw   string
	set  uint
}

type gate struct {
	ev      chan gateEv
	release chan bool
	free    bool // true: do not block (free-running mode), only log
	mu      sync.Mutex
	log     []gateEv
}

type gateHasher struct {
	lib.Hasher // the wrapped set: GetFormatID / IsValid are its own, whatever their signatures
	set        uint
	g          *gate
}

func (h *gateHasher) Generate(password string) (string, error) {
	h.g.pass(gateEv{"gen", password, h.set})
	return h.Hasher.Generate(password)
}
func (h *gateHasher) Check(password, hashStr string) (bool, error) {
	h.g.pass(gateEv{"check", password, h.set})
	return h.Hasher.Check(password, hashStr)
}

func (g *gate) pass(e gateEv) {
	g.mu.Lock()
	g.log = append(g.log, e)
	free := g.free
	g.mu.Unlock()
	if free {
		return
	}
	g.ev <- e
	<-g.release
}

// install wraps every parameter set of the agent's live store directory.
func (a *vAgent) installGate() *gate {
	g := &gate{ev: make(chan gateEv), release: make(chan bool)}
	for id, h := range a.st.dir.Params {
		a.st.dir.Params[id] = &gateHasher{Hasher: h, set: id, g: g}
	}
	return g
}

// a client request issued from its own goroutine
type creq struct {
	id      int
	kind    string // auth | update | add | remove | setadmin | list | check
	user    string
	pw      string
	admin   bool
	done    chan bool
	ok      bool // result: authenticated / no error
	isAdmin bool
	errs    string
	fin     bool
	invT    time.Time
	resT    time.Time
}

func (a *vAgent) launch(q *creq) {
	q.done = make(chan bool, 1)
	q.invT = time.Now()
	go func() {
		switch q.kind {
		case "auth":
			ok, adm, _, err := a.iface.Authenticate(q.user, q.pw)
			q.ok, q.isAdmin = ok && err == nil, adm
		case "update":
			q.ok = a.iface.Update(q.user, q.pw) == nil
		case "add":
			q.ok = a.iface.Add(q.user, q.pw, q.admin) == nil
		case "remove":
			q.ok = a.iface.Remove(q.user) == nil
		case "setadmin":
			q.ok = a.iface.SetAdmin(q.user, q.admin) == nil
		case "list":
			_, err := a.iface.List()
			q.ok = err == nil
		case "check":
			q.ok = a.iface.Check() == nil
		}
		q.resT = time.Now()
		q.done <- true
	}()
}

func collect(reqs []*creq) (newly []*creq) {
	for _, q := range reqs {
		if q.fin {
			continue
		}
		select {
		case <-q.done:
			q.fin = true
			newly = append(newly, q)
		default:
		}
	}
	return
}

// readRec: (param set id, first line) of the user's current hash file, "" if none.
func readRec(dir, user string) (pid uint, line string, admin bool) {
	for _, ext := range []string{".admin", ".user"} {
		b, err := os.ReadFile(filepath.Join(dir, user+ext))
		if err != nil {
			continue
		}
		line = string(b)
		if i := strings.IndexByte(line, '\n'); i >= 0 {
			line = line[:i]
		}
		f := strings.Split(line, ":")
		if len(f) >= 3 {
			v, _ := strconv.ParseUint(f[2], 10, 64)
			pid = uint(v)
		}
		return pid, line, ext == ".admin"
	}
	return 0, "", false
}

var _ = fmt.Sprint
