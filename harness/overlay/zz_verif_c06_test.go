package main

import (
	"encoding/json"
	"fmt"
	"net/http/httptest"
	"os"
	"strings"
	"sync"
	"sync/atomic"
	"time"
)

type vReq struct {
	ep                                        string
	session, username, password, oldpw, newpw string
	admin                                     bool
	raw                                       string // non-empty: send this body verbatim
}

var vEndpoints = []string{"authenticate", "add", "remove", "update", "set-admin", "list", "list-full"}

func (q *vReq) body() string {
	if q.raw != "" {
		return q.raw
	}
	m := map[string]interface{}{}
	put := func(k, v string) {
		if v != "" {
			m[k] = v
		}
	}
	put("session", q.session)
	put("username", q.username)
	switch q.ep {
	case "authenticate", "add":
		put("password", q.password)
	case "update":
		put("oldpassword", q.oldpw)
		put("newpassword", q.newpw)
	}
	if q.ep == "add" || q.ep == "set-admin" {
		m["admin"] = q.admin
	}
	b, _ := json.Marshal(m)
	return string(b)
}

// decodeAs: what encoding/json (the transport) makes of the body for this endpoint's request type.
func decodeAs(ep, body string) (ok bool, q vReq) {
	q.ep = ep
	dec := json.NewDecoder(strings.NewReader(body))
	var err error
	switch ep {
	case "authenticate":
		var r webAuthenticateRequest
		err = dec.Decode(&r)
		q.username, q.password = r.Username, r.Password
	case "add":
		var r webAddRequest
		err = dec.Decode(&r)
		q.session, q.username, q.password, q.admin = r.Session, r.Username, r.Password, r.IsAdmin
	case "remove":
		var r webRemoveRequest
		err = dec.Decode(&r)
		q.session, q.username = r.Session, r.Username
	case "update":
		var r webUpdateRequest
		err = dec.Decode(&r)
		q.session, q.username, q.oldpw, q.newpw = r.Session, r.Username, r.OldPassword, r.NewPassword
	case "set-admin":
		var r webSetAdminRequest
		err = dec.Decode(&r)
		q.session, q.username, q.admin = r.Session, r.Username, r.IsAdmin
	case "list":
		var r webListRequest
		err = dec.Decode(&r)
		q.session = r.Session
	case "list-full":
		var r webListFullRequest
		err = dec.Decode(&r)
		q.session = r.Session
	}
	return err == nil, q
}

type vScenario struct {
	c      *vctx
	a      *vAgent
	other  *webSessionFactory
	sealed []vIssued
	toks   map[string]string // label -> session text
	// local hash upgrades are on: before a request that presents a password which is the user's,
	// her record is put under the non-default parameter set again (same password), so that the
	// password check of THIS request is one that queues a rewrite
	upgrades bool
}

func (s *vScenario) do(q vReq) (ok2xx, changed, listShown bool) {
	c := s.c
	body := q.body()
	bodyOk, d := decodeAs(q.ep, body)
	pre := s.a.users()
	if s.a.cand == nil {
		s.a.cand = map[string][]string{}
	}
	for _, p := range []string{d.password, d.oldpw, d.newpw} {
		if p != "" && !s.a.pws[p] {
			s.a.cand[d.username] = append(s.a.cand[d.username], p)
			if len(s.a.cand[d.username]) > 6 {
				s.a.cand[d.username] = s.a.cand[d.username][len(s.a.cand[d.username])-6:]
			}
		}
	}
	// (with local hash upgrades a login's rewrite is queued behind the request that caused it: the
	// update queue is flushed — a request for a user that does not exist is served after everything
	// queued before it — so that each request is judged with exactly its own effects)
	s.flush()
	if s.upgrades {
		for _, p := range []string{d.password, d.oldpw} {
			if p == "" {
				continue
			}
			if ok, _, _, _, _ := s.a.ref.Authenticate(d.username, p); ok {
				keep := s.a.ref.Default
				s.a.ref.Default = 3 - keep
				s.a.ref.UpdateUser(d.username, p)
				s.a.ref.Default = keep
			}
		}
	}
	pre = s.a.users()
	before := dirDigest(s.a.dirPath)
	now := time.Now().Unix()
	rec := httptest.NewRecorder()
	req := httptest.NewRequest("POST", "/api/"+q.ep, strings.NewReader(body))
	panicked := ""
	func() {
		defer func() {
			if e := recover(); e != nil {
				panicked = fmt.Sprint(e)
			}
		}()
		s.a.mux.ServeHTTP(rec, req)
	}()
	s.flush()
	after := dirDigest(s.a.dirPath)
	post := s.a.users()
	changed = before != after
	ok2xx = panicked == "" && rec.Code >= 200 && rec.Code < 300
	var resp map[string]interface{}
	json.Unmarshal(rec.Body.Bytes(), &resp)
	listShown = false
	if l, present := resp["list"]; present && l != nil {
		if m, isMap := l.(map[string]interface{}); isMap && len(m) > 0 {
			listShown = true
		}
	}
	nonce, cipher := []byte{}, []byte{}
	tokenIssued := false
	if t, present := resp["session"]; present {
		if ts, isStr := t.(string); isStr && ts != "" {
			tokenIssued = true
			nonce, cipher = splitTok(ts)
		}
	}
	lifetimeS := int64(600)
	if s.a.sessions != nil {
		lifetimeS = int64(s.a.sessions.lifetime / time.Second) // the live value (the model is parametric in it)
	}
	cmd := fmt.Sprintf("api %s %s %s %s %s %s %s %s %s %s "+fmt.Sprint(lifetimeS)+" %d %s %s", q.ep, vtf(bodyOk), vxs(d.session), vxs(d.username), vxs(d.password),
		vxs(d.oldpw), vxs(d.newpw), vtf(d.admin), vUsersTok(pre), vIssuedTok(s.sealed), now, vxb(nonce), vxb(cipher))
	c.emit(cmd, fmt.Sprintf("%s %s %s %s", vtf(ok2xx), vtf(listShown), vtf(tokenIssued), vUsersTok(post)))
	if tokenIssued {
		adm := false
		if v, present := resp["admin"]; present {
			adm, _ = v.(bool)
		}
		s.sealed = append(s.sealed, vIssued{nonce, cipher, fmt.Sprintf("%s:%t:%d", d.username, adm, now)})
		s.toks["fresh:"+d.username] = resp["session"].(string)
	}
	id := fmt.Sprintf("%s %s", q.ep, vxs(body[:min(len(body), 400)]))
	// laws on the real handler
	if panicked != "" {
		c.emit("law.C06.handler_does_not_panic "+id, "f")
	}
	if !ok2xx {
		c.emit("law.C06.refused_changes_nothing_and_discloses_nothing "+id, vtf(before == after && !listShown && !tokenIssued))
	}
	if tokenIssued {
		// only in response to a successful password authentication, naming that user and their current admin status
		okAuth, isAdm, _, _, _ := s.a.ref.Authenticate(d.username, d.password)
		adm, _ := resp["admin"].(bool)
		c.emit("law.C06.token_only_after_password_auth "+id, vtf(q.ep == "authenticate" && okAuth && adm == isAdm))
	}
	return
}

func (s *vScenario) flush() {
	if s.upgrades {
		s.a.iface.Update("no-such-user-flush", "x")
	}
}

func suiteV06(c *vctx) {
	r := c.r
	nsc := 2
	if c.thorough() {
		nsc = 12
	}
	for sc := 0; sc < nsc; sc++ {
		// odd scenarios: local hash upgrades are on and the records are under the other parameter set,
		// so that every accepted password check queues a rewrite — a refused request must still leave
		// the store byte-for-byte unchanged
		dflt, upg := 1+r.Intn(2), ""
		if sc%2 == 1 {
			upg = "local"
		}
		a, err := newVAgent(c, fmt.Sprintf("api%d", sc), dflt, upg, "", "", "")
		if err != nil {
			c.emit("law.C06.agent_starts "+vxs(err.Error()), "f")
			continue
		}
		s := &vScenario{c: c, a: a, toks: map[string]string{}, upgrades: upg != ""}
		s.other, _ = NewWebSessionFactory(600 * time.Second)
		pw := map[string]string{"root": "Root-Passw0rd", "alice": "Alice-Passw0rd", "bob": "Bob-Passw0rd", "carol": "Carol-Passw0rd",
			"Alice": "UpperAlice-Passw0rd", "ALICE": "AllCaps-Passw0rd", "Root": "UpperRoot-Passw0rd"}
		for u, p := range pw {
			a.pws[p] = true
			_ = u
		}
		a.iface.Init("root", pw["root"])
		a.iface.Add("alice", pw["alice"], false)
		a.iface.Add("bob", pw["bob"], false)
		a.iface.Add("carol", pw["carol"], true)
		// names that differ from others only in letter case are distinct accounts
		a.iface.Add("Alice", pw["Alice"], false)
		a.iface.Add("ALICE", pw["ALICE"], true)
		a.iface.Add("Root", pw["Root"], false)
		// accounts whose names extend another account's name by a realm
		pw["bob@example.org"], pw["alice@corp"] = "BobAtOrg-Passw0rd", "AliceAtCorp-Passw0rd"
		a.pws[pw["bob@example.org"]], a.pws[pw["alice@corp"]] = true, true
		a.iface.Add("bob@example.org", pw["bob@example.org"], true)
		a.iface.Add("alice@corp", pw["alice@corp"], false)
		// logins through the API itself
		for _, u := range []string{"root", "alice", "carol"} {
			s.do(vReq{ep: "authenticate", username: u, password: pw[u]})
		}
		// a login names exactly the account whose password was presented: variants of a name
		// (realm suffix, case, white space, NUL) with the BASE account's password get no token
		for _, v := range []struct{ name, base string }{{"bob@example.org", "bob"}, {"alice@corp", "alice"}, {"alice@nowhere", "alice"},
			{"bob@", "bob"}, {"root@localhost", "root"}, {"bob ", "bob"}, {" bob", "bob"}, {"bob\x00", "bob"}, {"BOB", "bob"}, {"bob", "bob@example.org"},
			{"alice", "alice@corp"}, {"bob@example.org@x", "bob@example.org"}} {
			s.do(vReq{ep: "authenticate", username: v.name, password: pw[v.base]})
			if t := s.toks["fresh:"+v.name]; t != "" && v.name != v.base {
				// a token was issued for a name whose password was not presented: what can it do?
				s.do(vReq{ep: "update", session: t, username: v.name, newpw: "Taken-Over-Passw0rd"})
				s.do(vReq{ep: "list", session: t})
			}
		}
		adminTok, userTok, carolTok := s.toks["fresh:root"], s.toks["fresh:alice"], s.toks["fresh:carol"]
		// carol is demoted after her login: her token still says admin (administrator AT LOGIN)
		s.do(vReq{ep: "set-admin", session: adminTok, username: "carol", admin: false})
		now := time.Now().Unix()
		forged := func(plain string) string {
			is, text := forge(a.sessions, plain)
			s.sealed = append(s.sealed, is)
			return text
		}
		n, ct := splitTok(adminTok)
		flip := append([]byte(nil), ct...)
		flip[r.Intn(len(flip))] ^= 1 << uint(r.Intn(8))
		_, _, otherTok := s.other.Generate("root", true)
		creds := map[string]string{
			"none":           "",
			"garbage":        "Zm9v:YmFy",
			"not-base64":     "!!!:???",
			"no-colon":       "Zm9vYmFy",
			"short-nonce":    encTok(n[:5], ct),
			"expired":        forged(fmt.Sprintf("root:true:%d", now-int64(a.sessions.lifetime/time.Second)-100)),
			"future":         forged(fmt.Sprintf("root:true:%d", now+60)),
			"bit-flipped":    encTok(n, flip),
			"other-instance": otherTok,
			"user":           userTok,
			"admin":          adminTok,
			"admin-at-login": carolTok,
			"forged-flag":    forged(fmt.Sprintf("alice:TRUE:%d", now)),
		}
		credNames := []string{"none", "garbage", "not-base64", "no-colon", "short-nonce", "expired", "future", "bit-flipped", "other-instance", "user", "admin", "admin-at-login", "forged-flag"}
		targets := []string{"alice", "bob", "root", "nobody", "../x", "", "new1", "alice\n", "Alice", "ALICE", "Root", "aLICE"}
		idx := 0
		for _, ep := range vEndpoints {
			for _, cn := range credNames {
				for _, tg := range targets {
					idx++
					if !c.mine(idx) && !(cn == "admin" || cn == "user") {
						continue
					}
					if !c.thorough() && (idx+int(c.seed))%2 == 0 && cn != "admin" && cn != "user" && cn != "none" {
						continue
					}
					q := vReq{ep: ep, session: creds[cn], username: tg, password: "Fresh-Passw0rd-" + fmt.Sprint(idx), newpw: "Next-Passw0rd-" + fmt.Sprint(idx), admin: r.Bool()}
					if ep == "authenticate" {
						q.password = pw[tg]
						if r.Intn(3) == 0 {
							q.password = "wrong"
						}
					}
					if ep == "update" {
						switch r.Intn(4) {
						case 0: // old password instead of a session
							q.session = ""
							q.oldpw = pw[tg]
							if r.Bool() {
								q.oldpw = "wrong-old"
							}
						case 1: // both
							q.oldpw = pw[tg]
						case 2: // upgrade-only
							q.session = ""
							q.oldpw = pw[tg]
							q.newpw = ""
						}
					}
					oldRight := q.oldpw != "" && func() bool { ok, _, _, _, _ := a.ref.Authenticate(tg, q.oldpw); return ok }()
					_, changed, listed := s.do(q)
					// the property, stated on the credential kind the harness knows it presented
					adminCred := cn == "admin" || cn == "admin-at-login"
					id := fmt.Sprintf("ep=%s cred=%s target=%s", ep, cn, vxs(tg))
					switch ep {
					case "add", "remove", "set-admin":
						c.emit("law.C06.management_effect_requires_admin_session "+id, vtf(!changed || adminCred))
					case "list", "list-full":
						c.emit("law.C06.list_disclosed_only_to_admin_session "+id, vtf(!listed || adminCred))
					case "update":
						sessOnly := q.session != "" && q.oldpw == ""
						pwOnly := q.session == "" && q.oldpw != ""
						allowed := sessOnly && (adminCred || (cn == "user" && tg == "alice")) || pwOnly && oldRight
						c.emit("law.C06.update_effect_requires_admin_own_session_or_current_password "+id, vtf(!changed || allowed))
					}
					// never lose the last administrator: restore what the matrix needs
					if tg == "root" && (ep == "remove" || ep == "set-admin" || ep == "update") {
						a.iface.Add("root", pw["root"], true)
						a.iface.SetAdmin("root", true)
						a.iface.Update("root", pw["root"])
					}
					if (tg == "alice" || tg == "bob" || tg == "Alice" || tg == "ALICE" || tg == "Root") && (ep == "remove" || ep == "update" || ep == "set-admin") {
						a.iface.Add(tg, pw[tg], tg == "ALICE")
						a.iface.Update(tg, pw[tg])
						a.iface.SetAdmin(tg, tg == "ALICE")
					}
					if (tg == "alice" || tg == "bob") && (ep == "remove" || ep == "update") {
						a.iface.Add(tg, pw[tg], false)
						a.iface.Update(tg, pw[tg])
					}
				}
			}
			// request-body shapes with the strongest credential
			for _, raw := range []string{
				`{}`, `[]`, `null`, `"x"`, `{`, ``, `not json`, `{"session":5,"username":"alice"}`, `{"username":["alice"]}`,
				fmt.Sprintf(`{"session":%q,"username":"bob","password":"P-%d","admin":"yes"}`, adminTok, idx),
				fmt.Sprintf(`{"session":%q,"username":"zed","password":"Zed-Passw0rd","admin":false,"extra":1}`, adminTok),
				fmt.Sprintf(`{"session":"junk","session":%q,"username":"dup1","password":"Dup-Passw0rd"}`, adminTok),
				fmt.Sprintf(`{"session":%q,"session":"junk","username":"dup2","password":"Dup-Passw0rd"}`, adminTok),
				fmt.Sprintf(`{"SESSION":%q,"UserName":"caseuser","Password":"Case-Passw0rd"}`, adminTok),
				fmt.Sprintf(`{"session":%q,"username":"","password":""}`, adminTok),
				fmt.Sprintf(`{"session":%q}`, adminTok),
				fmt.Sprintf(`{"session":%q,"username":"alice","newpassword":""}`, adminTok),
				fmt.Sprintf(`{"session":%q,"username":"alice","oldpassword":"x","newpassword":"Y-Passw0rd"}`, adminTok),
				fmt.Sprintf(`{"username":"alice","newpassword":"Y-Passw0rd"}`),
			} {
				s.do(vReq{ep: ep, raw: raw})
			}
		}
		// random sequences on top
		nseq := 150
		if c.thorough() {
			nseq = 1500
		}
		for k := 0; k < nseq; k++ {
			ep := vEndpoints[r.Intn(len(vEndpoints))]
			cn := credNames[r.Intn(len(credNames))]
			if r.Intn(3) == 0 {
				cn = "admin"
			}
			tg := []string{"alice", "bob", "root", "nobody", "new1", "new2", "carol", "Alice", "ALICE"}[r.Intn(9)]
			q := vReq{ep: ep, session: creds[cn], username: tg, password: fmt.Sprintf("Seq-Passw0rd-%d", k), newpw: fmt.Sprintf("SeqNew-Passw0rd-%d", k), admin: r.Bool()}
			if ep == "authenticate" {
				q.password = pw[tg]
			}
			if tg == "root" && (ep == "remove" || ep == "set-admin") && cn == "admin" {
				continue
			}
			s.do(q)
		}
		// no two tokens this instance issued share an encryption nonce (a repeated nonce gives the key
		// stream and the authentication key away: the gate above would then be forgeable)
		{
			seen := map[string]bool{}
			dup := 0
			for _, is := range s.sealed {
				if seen[string(is.nonce)] {
					dup++
				}
				seen[string(is.nonce)] = true
			}
			c.emit(fmt.Sprintf("law.C07.issued_nonces_distinct tokens=%d duplicates=%d", len(s.sealed), dup), vtf(dup == 0))
		}
	}
}

// suiteV06conc: the gates under CONCURRENT requests (every handler goroutine of a mux shares the
// session factory and the store interface): an administrator keeps listing while an ordinary
// user — with her own, valid, non-admin session of the same length — tries every management
// action. None of her requests may succeed, disclose the list or change the store.
func suiteV06conc(c *vctx) {
	if c.shard > 1 {
		return
	}
	a, err := newVAgent(c, fmt.Sprintf("conc%d", c.shard), 1, "", "", "", "")
	if err != nil {
		return
	}
	a.iface.Init("admin", "Admin-Passw0rd")
	a.iface.Add("anna", "Anna-Passw0rd", false) // "admin:true:<ts>" and "anna:false:<ts>" have the same length
	a.iface.Add("carol", "Carol-Passw0rd", false)
	call := func(ep string, m map[string]interface{}) (int, string) {
		b, _ := json.Marshal(m)
		rec := httptest.NewRecorder()
		a.mux.ServeHTTP(rec, httptest.NewRequest("POST", "/api/"+ep, strings.NewReader(string(b))))
		return rec.Code, rec.Body.String()
	}
	tok := func(u, p string) string {
		_, body := call("authenticate", map[string]interface{}{"username": u, "password": p})
		var m map[string]interface{}
		json.Unmarshal([]byte(body), &m)
		s, _ := m["session"].(string)
		return s
	}
	adminTok, annaTok := tok("admin", "Admin-Passw0rd"), tok("anna", "Anna-Passw0rd")
	pre := dirDigest(a.dirPath)
	dur := 300 * time.Millisecond
	if c.thorough() {
		dur = 3 * time.Second
	}
	stopAt := time.Now().Add(dur)
	var wg sync.WaitGroup
	var bad, total, adminRefused int64
	var first atomic.Value
	for w := 0; w < 4; w++ {
		wg.Add(2)
		go func() {
			defer wg.Done()
			for time.Now().Before(stopAt) {
				if code, _ := call("list", map[string]interface{}{"session": adminTok}); code != 200 {
					atomic.AddInt64(&adminRefused, 1)
				}
			}
		}()
		go func(w int) {
			defer wg.Done()
			for k := 0; time.Now().Before(stopAt); k++ {
				var code int
				var body, what string
				switch (k + w) % 4 {
				case 0:
					what = "list"
					code, body = call("list", map[string]interface{}{"session": annaTok})
				case 1:
					what = "set-admin"
					code, body = call("set-admin", map[string]interface{}{"session": annaTok, "username": "anna", "admin": true})
				case 2:
					what = "update-other"
					code, body = call("update", map[string]interface{}{"session": annaTok, "username": "carol", "newpassword": "Stolen-Passw0rd"})
				default:
					what = "add"
					code, body = call("add", map[string]interface{}{"session": annaTok, "username": "mallory", "password": "Mallory-Passw0rd", "admin": true})
				}
				atomic.AddInt64(&total, 1)
				if code == 200 || strings.Contains(body, "carol") {
					if atomic.AddInt64(&bad, 1) == 1 {
						first.Store(fmt.Sprintf("%s status=%d", what, code))
					}
				}
			}
		}(w)
	}
	wg.Wait()
	// password checks in flight at the same time: correct logins of one user beside logins of the
	// administrator with a WRONG password and updates of a user with a wrong OLD password — each request
	// gets its OWN verdict (no token, no change for the wrong ones; a token for every right one)
	{
		pre2 := dirDigest(a.dirPath)
		stop2 := time.Now().Add(dur)
		var wg2 sync.WaitGroup
		var wrongAccepted, rightRefused, n2 int64
		for w := 0; w < 8; w++ {
			wg2.Add(3)
			go func() {
				defer wg2.Done()
				for time.Now().Before(stop2) {
					code, body := call("authenticate", map[string]interface{}{"username": "carol", "password": "Carol-Passw0rd"})
					atomic.AddInt64(&n2, 1)
					if code != 200 || !strings.Contains(body, "\"carol\"") {
						atomic.AddInt64(&rightRefused, 1)
					}
				}
			}()
			go func() {
				defer wg2.Done()
				for time.Now().Before(stop2) {
					code, body := call("authenticate", map[string]interface{}{"username": "admin", "password": "Wrong-Passw0rd"})
					atomic.AddInt64(&n2, 1)
					if code == 200 || strings.Contains(body, "session") {
						atomic.AddInt64(&wrongAccepted, 1)
					}
				}
			}()
			go func() {
				defer wg2.Done()
				for time.Now().Before(stop2) {
					code, _ := call("update", map[string]interface{}{"username": "anna", "oldpassword": "Wrong-Old-Passw0rd", "newpassword": "Taken-Over-Passw0rd"})
					atomic.AddInt64(&n2, 1)
					if code == 200 {
						atomic.AddInt64(&wrongAccepted, 1)
					}
				}
			}()
		}
		wg2.Wait()
		c.emit(fmt.Sprintf("law.C06.token_only_after_password_auth concurrent requests=%d wrong-accepted=%d", n2, wrongAccepted), vtf(wrongAccepted == 0))
		c.emit(fmt.Sprintf("law.C06.right_password_accepted_under_concurrency refused=%d", rightRefused), vtf(rightRefused == 0))
		c.emit("law.C06.refused_requests_leave_store_unchanged concurrent-passwords", vtf(dirDigest(a.dirPath) == pre2))
	}
	why, _ := first.Load().(string)
	c.emit(fmt.Sprintf("law.C06.management_effect_requires_admin_session concurrent requests=%d accepted=%d %s", total, bad, vxs(why)), vtf(bad == 0))
	c.emit("law.C06.refused_requests_leave_store_unchanged concurrent", vtf(dirDigest(a.dirPath) == pre))
	c.emit(fmt.Sprintf("law.C06.admin_session_accepted_under_concurrency refused=%d", adminRefused), vtf(adminRefused == 0))
	os.RemoveAll(a.dirPath)
}

func encTok(n, c []byte) string { return b64u(n) + ":" + b64u(c) }

func init() { vsuites["v06"] = suiteV06; vsuites["v06c"] = suiteV06conc }
