package main

import (
	"encoding/base64"
	"fmt"
	"math/big"
	"net/http"
	"strings"
	"sync"
	"sync/atomic"
	"time"
)

type vIssued struct {
	nonce, cipher []byte
	plain         string
}

func vIssuedTok(l []vIssued) string {
	if len(l) == 0 {
		return "[]"
	}
	p := make([]string, len(l))
	for i, t := range l {
		p[i] = fmt.Sprintf("%s:%s:%s", vxb(t.nonce), vxb(t.cipher), vxs(t.plain))
	}
	return "[" + strings.Join(p, ",") + "]"
}

// forge seals a chosen plaintext with the factory's own AEAD (in-package access): the only way
// to obtain expired, future-dated or oddly formatted but authentic tokens.
func forge(f *webSessionFactory, plain string) (vIssued, string) {
	_, _, nonce, enc := f.sealToken(plain)
	text := base64.URLEncoding.EncodeToString(nonce) + ":" + base64.URLEncoding.EncodeToString(enc)
	return vIssued{nonce, enc, plain}, text
}

func splitTok(text string) (nonce, cipher []byte) {
	p := strings.SplitN(text, ":", 2)
	nonce, _ = base64.URLEncoding.DecodeString(p[0])
	cipher, _ = base64.URLEncoding.DecodeString(p[1])
	return
}

func suiteV07(c *vctx) {
	r := c.r
	nf := 3
	ntok := 12
	if c.thorough() {
		nf, ntok = 8, 20 // (every protocol line carries the factory's sealed set: the volume grows with ntok squared)
	}
	allNonces := map[string]bool{}
	distinct := true
	for fi := 0; fi < nf; fi++ {
		lifetime := time.Duration(r.Pick(20, 60, 600)) * time.Second
		f, err := NewWebSessionFactory(lifetime)
		f2, err2 := NewWebSessionFactory(lifetime) // another instance / the agent after a restart
		if err != nil || err2 != nil {
			c.emit("law.C07.factory_constructs", "f")
			continue
		}
		var issued []vIssued
		var texts []string
		users := []string{"alice", "root", "a", "A.b-c_d@e", "bob:smith", "", "x:true:1", "ü"}
		for k := 0; k < ntok; k++ {
			u := users[r.Intn(len(users))]
			adm := r.Bool()
			st, _, text := f.Generate(u, adm)
			if st != http.StatusOK {
				c.emit("law.C07.generate_succeeds", "f")
				continue
			}
			n, ct := splitTok(text)
			now := time.Now().Unix()
			// the plaintext of an issued token is what the model opens it to; its time stamp is the issue time
			issued = append(issued, vIssued{n, ct, fmt.Sprintf("%s:%t:%d", u, adm, now)})
			texts = append(texts, text)
			if allNonces[string(n)] {
				distinct = false
			}
			allNonces[string(n)] = true
		}
		// authentic tokens with chosen plaintexts: ages on both sides of the lifetime, future, odd formats
		now := time.Now().Unix()
		lt := int64(lifetime / time.Second)
		plains := []string{
			fmt.Sprintf("alice:true:%d", now-lt+4), fmt.Sprintf("alice:true:%d", now-lt-4), fmt.Sprintf("alice:false:%d", now+5),
			fmt.Sprintf("alice:true:%d", now-3*lt), fmt.Sprintf("alice:TRUE:%d", now), fmt.Sprintf("alice:1:%d", now),
			fmt.Sprintf("alice:t:%d", now), fmt.Sprintf("alice: true:%d", now), fmt.Sprintf("alice:true"), "alice", "",
			fmt.Sprintf("alice:true:%d:extra", now), fmt.Sprintf("alice:true:+%d", now), fmt.Sprintf("alice:true:%d ", now),
			fmt.Sprintf("alice:true:0x10"), fmt.Sprintf(":true:%d", now), fmt.Sprintf("bob:smith:true:%d", now),
			fmt.Sprintf("alice:false:%d", now-1), fmt.Sprintf("root:true:-5"), fmt.Sprintf("root:true:99999999999999999999"),
			// issue times at the ends of the integer range (age arithmetic must not wrap)
			"root:true:-9223372036854775808", "root:true:-9223372036854775807", fmt.Sprintf("root:true:%d", int64(-1<<63)+now-1000),
			fmt.Sprintf("root:true:%d", int64(-1<<63)+now+lt), "root:true:9223372036854775807", "root:true:9223372036854775806",
			"root:true:-4611686018427387904", "root:true:4611686018427387904", "root:true:0", "root:true:-1", "root:true:-0",
			"root:true:2147483647", "root:true:2147483648", "root:true:4294967296", fmt.Sprintf("root:true:%d", now+(1<<32)), fmt.Sprintf("root:true:%d", now-(1<<32)),
			"root:true:-9223372036854775809", "root:true:9223372036854775808"}
		// issue times a whole number of wrap-arounds of a 64-bit (and 63-, 32-bit) counter of nano-, micro-
		// and milliseconds away from a fresh one: age arithmetic done in a narrower unit than the
		// library's saturating one maps them back into the lifetime (seeded change S-C07-8)
		var wraps []string
		for _, unit := range []int64{1000000000, 1000000, 1000} {
			for _, bits := range []uint{64, 63, 32} {
				var wrap int64 // 2^bits units, in seconds (rounded down and up: the wrap is not a whole number of seconds)
				if bits == 64 {
					wrap = int64((uint64(1<<63) / uint64(unit)) * 2)
				} else {
					wrap = int64(uint64(1<<bits) / uint64(unit))
				}
				for k := int64(1); k <= 2; k++ {
					for _, d := range []int64{0, 1, lt / 2, lt - 1, lt, lt + 1} {
						for _, adj := range []int64{0, 1, -1} {
							if back := now - k*(wrap+adj) - d; back < now && back > now-(1<<62) {
								wraps = append(wraps, fmt.Sprintf("root:true:%d", back))
							}
							if fwd := now + k*(wrap+adj) - d; fwd > now+lt && fwd < now+(1<<62) {
								wraps = append(wraps, fmt.Sprintf("root:true:%d", fwd))
							}
						}
					}
				}
			}
		}
		nBase := len(plains)
		plains = append(plains, wraps...)
		for pi, plain := range plains {
			is, text := forge(f, plain)
			if pi < nBase { // the wrap family is judged by the law below only (the mutation pools grow quadratically)
				issued = append(issued, is)
				texts = append(texts, text)
			}
			// the property, directly, on the authentic token with this plaintext: accepted only if the
			// issue time is a decimal integer with 0 <= now - t <= lifetime (arbitrary precision here)
			st, _, _, _ := f.Check(text)
			parts := strings.Split(plain, ":")
			fresh := false
			if len(parts) == 3 {
				if t, ok := new(big.Int).SetString(parts[2], 10); ok {
					age := new(big.Int).Sub(big.NewInt(time.Now().Unix()), t)
					fresh = age.Sign() >= 0 && age.Cmp(big.NewInt(lt+2)) <= 0
				}
			}
			c.emit("law.C07.expired_or_future_token_rejected "+vxs(plain), vtf(st != 200 || fresh))
		}
		itok := vIssuedTok(issued)
		issuedText := map[string]bool{} // decoded nonce | decoded sealed text of every token this instance sealed
		for _, is := range issued {
			issuedText[string(is.nonce)+"|"+string(is.cipher)] = true
		}
		present := func(kind, text string) {
			nowS := time.Now().Unix()
			st, _, u, adm := f.Check(text)
			res := "rej"
			if st == http.StatusOK {
				res = fmt.Sprintf("ok %s %s", vxs(u), vtf(adm))
				// unforgeable, stated directly: whatever is accepted consists of two fields that DECODE (as a whole,
				// with the standard decoder: several spellings of one byte string exist) to the nonce and the
				// sealed text of one token this instance sealed
				key := "?"
				if i := strings.IndexByte(text, ':'); i >= 0 && strings.Count(text, ":") == 1 {
					dn, e1 := base64.URLEncoding.DecodeString(text[:i])
					dc, e2 := base64.URLEncoding.DecodeString(text[i+1:])
					if e1 == nil && e2 == nil {
						key = string(dn) + "|" + string(dc)
					}
				}
				if !issuedText[key] {
					c.emit(fmt.Sprintf("law.C07.accepted_only_if_issued kind=%s %s", kind, vxs(text)), "f")
				}
			}
			c.emit(fmt.Sprintf("sess.check %d %d %s %s", lt, nowS, itok, vxs(text)), res)
		}
		for ti, text := range texts {
			present("as-issued", text)
			n, ct := splitTok(text)
			raw := append(append([]byte(nil), n...), ct...)
			enc := func(b []byte, nl int) string {
				if nl > len(b) {
					nl = len(b)
				}
				return base64.URLEncoding.EncodeToString(b[:nl]) + ":" + base64.URLEncoding.EncodeToString(b[nl:])
			}
			// every single-bit mutation of the decoded content (sampled per token in quick)
			for bit := 0; bit < len(raw)*8; bit++ {
				if (!c.thorough() && ti >= 2 || ti >= 4) && r.Intn(8) != 0 {
					continue
				}
				m := append([]byte(nil), raw...)
				m[bit/8] ^= 1 << uint(bit%8)
				present("bitflip", enc(m, len(n)))
			}
			// every single-character mutation of the text (to a neighbouring alphabet character)
			for pos := 0; pos < len(text); pos++ {
				if (!c.thorough() && ti >= 2 || ti >= 4) && r.Intn(6) != 0 {
					continue
				}
				al := "ABCDEFGHIJKLMNOPQRSTUVWXYZabcdefghijklmnopqrstuvwxyz0123456789-_=:+/ \n"
				m := []byte(text)
				m[pos] = al[r.Intn(len(al))]
				present("charmut", string(m))
			}
			// every prefix / suffix truncation (sampled)
			for k := 0; k < len(text); k++ {
				if c.thorough() && ti < 4 || r.Intn(5) == 0 {
					present("prefix", text[:k])
					present("suffix", text[k:])
				}
			}
			// extension, wrong-length nonces
			present("ext", text+"AAAA")
			present("ext", "AAAA"+text)
			present("nonce-len", enc(raw, 11))
			present("nonce-len", enc(raw, 13))
			present("nonce-len", enc(raw, 0))
			present("nonce-len", ":"+base64.URLEncoding.EncodeToString(ct))
			// material inserted at the end / start of EITHER field (not only of the whole text): more base64,
			// another valid token's field, padding, text that is not base64 at all
			{
				ntext, cttext := text[:strings.IndexByte(text, ':')], text[strings.IndexByte(text, ':')+1:]
				otherN := ""
				if len(texts) > 1 {
					o := texts[(ti+1)%len(texts)]
					otherN = o[:strings.IndexByte(o, ':')]
				}
				for _, x := range []string{"A", "AA", "AAAA", "AAAAAAAA", "AA==", "=", "====", otherN, ntext, "!!", "%41", " ", "\n", "\r\n", "\x00"} {
					if x == "" {
						continue
					}
					present("field-ext", ntext+x+":"+cttext)
					present("field-ext", x+ntext+":"+cttext)
					present("field-ext", ntext+":"+cttext+x)
					present("field-ext", ntext+":"+x+cttext)
				}
				for extra := 1; extra <= 24; extra += 1 + r.Intn(4) {
					present("field-ext", base64.URLEncoding.EncodeToString(append(append([]byte(nil), n...), r.Bytes(extra)...))+":"+cttext)
				}
			}
			// another instance / before a restart
			_, _, other := f2.Generate("alice", true)
			present("other-instance", other)
			on, oc := splitTok(other)
			present("splice-other", base64.URLEncoding.EncodeToString(on)+":"+base64.URLEncoding.EncodeToString(ct))
			present("splice-other", base64.URLEncoding.EncodeToString(n)+":"+base64.URLEncoding.EncodeToString(oc))
		}
		// all nonce/ciphertext splices between pairs of valid tokens
		lim := len(texts)
		if !c.thorough() && lim > 8 {
			lim = 8
		}
		for i := 0; i < lim; i++ {
			for j := 0; j < lim; j++ {
				if i == j {
					continue
				}
				ni, _ := splitTok(texts[i])
				_, cj := splitTok(texts[j])
				present("splice", base64.URLEncoding.EncodeToString(ni)+":"+base64.URLEncoding.EncodeToString(cj))
			}
		}
		for k := 0; k < 40; k++ {
			present("garbage", string(r.Bytes(r.Intn(40))))
			present("garbage", base64.URLEncoding.EncodeToString(r.Bytes(12))+":"+base64.URLEncoding.EncodeToString(r.Bytes(16+r.Intn(30))))
		}
		present("garbage", "")
		present("garbage", ":")
		present("garbage", "::")
	}
	// issuance count: nonces never repeat (within and across factories)
	f, _ := NewWebSessionFactory(time.Minute)
	n := 2000
	if c.thorough() {
		n = 20000
	}
	for i := 0; i < n; i++ {
		_, _, text := f.Generate("u", false)
		nn, _ := splitTok(text)
		if allNonces[string(nn)] {
			distinct = false
		}
		allNonces[string(nn)] = true
	}
	c.emit(fmt.Sprintf("law.C07.no_two_tokens_share_a_nonce %d", len(allNonces)), vtf(distinct))
	suiteV07conc(c)
}

// suiteV07conc: the factory under concurrency (also run in a binary built with the race detector).
func suiteV07conc(c *vctx) {
	// … also when tokens are issued concurrently (every HTTP handler goroutine shares the factory)
	{
		fc, _ := NewWebSessionFactory(time.Minute)
		workers, per := 8, 1500
		if c.thorough() {
			workers, per = 16, 10000
		}
		res := make([][]string, workers)
		var wg sync.WaitGroup
		for w := 0; w < workers; w++ {
			wg.Add(1)
			go func(w int) {
				defer wg.Done()
				for i := 0; i < per; i++ {
					_, _, text := fc.Generate("u", false)
					nn, _ := splitTok(text)
					res[w] = append(res[w], string(nn))
				}
			}(w)
		}
		wg.Wait()
		seen := map[string]bool{}
		ok := true
		for _, l := range res {
			for _, nn := range l {
				if seen[nn] {
					ok = false
				}
				seen[nn] = true
			}
		}
		c.emit(fmt.Sprintf("law.C07.no_two_concurrently_issued_tokens_share_a_nonce %d", len(seen)), vtf(ok))
	}
	// … and checked concurrently: the handlers of one mux share one factory and run in their own
	// goroutines. Every accepted check returns exactly the identity ITS token was issued for.
	{
		fc, _ := NewWebSessionFactory(time.Minute)
		ids := []struct {
			u   string
			adm bool
		}{{"bob", false}, {"root", true}, {"alice", false}, {"carol", true}, {"al", true}, {"x", false}, {"bob@example.org", false}, {"rooty", false}}
		toks := make([]string, len(ids))
		for i, id := range ids {
			_, _, toks[i] = fc.Generate(id.u, id.adm)
		}
		dur := 250 * time.Millisecond
		if c.thorough() {
			dur = 3 * time.Second
		}
		var wg sync.WaitGroup
		var wrong, refused, total int64
		var first atomic.Value
		stopAt := time.Now().Add(dur)
		for w := 0; w < 16; w++ {
			wg.Add(1)
			go func(w int) {
				defer wg.Done()
				i := w % len(ids)
				for n := 0; time.Now().Before(stopAt); n++ {
					st, _, u, adm := fc.Check(toks[i])
					atomic.AddInt64(&total, 1)
					if st != 200 {
						atomic.AddInt64(&refused, 1)
					} else if u != ids[i].u || adm != ids[i].adm {
						if atomic.AddInt64(&wrong, 1) == 1 {
							first.Store(fmt.Sprintf("issued=(%s,%v) accepted-as=(%s,%v)", ids[i].u, ids[i].adm, u, adm))
						}
					}
				}
			}(w)
		}
		wg.Wait()
		why, _ := first.Load().(string)
		c.emit(fmt.Sprintf("law.C07.concurrent_checks_return_the_issued_identity checks=%d %s", total, vxs(why)), vtf(wrong == 0))
		c.emit(fmt.Sprintf("law.C07.concurrent_checks_accept_valid_tokens refused=%d", refused), vtf(refused == 0))
	}
}

func init() { vsuites["v07"] = suiteV07; vsuites["v07c"] = suiteV07conc }
