package main

import (
	"encoding/json"
	"fmt"
	"math"
	"math/big"
	"net/http/httptest"
	"os"
	"os/exec"
	"strings"
	"unicode"
	"unicode/utf8"

	"github.com/nbutton23/zxcvbn-go"
)

func floorTok(x float64) string {
	if math.IsNaN(x) || x < 0 {
		return "0"
	}
	if math.IsInf(x, 1) {
		return "340282366920938463463374607431768211456"
	}
	f := new(big.Float).SetFloat64(math.Floor(x))
	i, _ := f.Int(nil)
	return i.String()
}

var vPasswords = []string{"a", "password", "password1", "Passw0rd", "qwerty123", "letmein", "whawty", "alice", "alice1", "alicealice",
	"Tr0ub4dor&3", "correct horse battery staple", "Correct-Horse-Battery-9", "zxcvbn", "1234567890", "aaaaaaaaaaaa", "2019-05-05",
	"ñandú-über-straße", "x", "Quiet-Anchor-Velvet-77", "qjzx", "P@ssw0rd!", "iloveyou2", "monkey", "G7$kq!v9Zp#2mL", "abcdefghijklmnop"}

// passwords whose verdict changes when the string is cut, trimmed or case-folded before it is
// scored: a weak repeated body with a dictionary word straddling byte N (the head alone looks
// strong), a weak run of N bytes followed by a strong tail (the head alone is weak), and
// white-space / case variants of weak and strong passwords.
func init() {
	for _, n := range []int{8, 16, 20, 32, 50, 64, 72, 100, 128} {
		body := strings.Repeat("password", n/8+1)[:max(n-2, 0)]
		vPasswords = append(vPasswords, body+"unrecognizable", strings.Repeat("a", n)+"Xk9#mQ2$vL7&pR4")
	}
	// long AND weak (beyond any "too long to rate" shortcut), long and strong
	vPasswords = append(vPasswords, strings.Repeat("a", 257), strings.Repeat("a", 300), strings.Repeat("1", 400), strings.Repeat("Xk9#mQ2$vL7&pR4-", 17))
	vPasswords = append(vPasswords, "Alice.Wonderland", "ALICE-2024-x", "aLiCe", "Root.Toor.Root", "ROOT", "Whawty-Whawty", "Newuser-Newuser9", "NEWUSER")
	vPasswords = append(vPasswords, "  password  ", "PASSWORD", "password\n", " G7$kq!v9Zp#2mL", "G7$KQ!V9ZP#2ML", "\tletmein", "monkey\x00G7$kq!v9Zp#2mL")
}

// genPassword: half of the draws come from the fixed list, the other half are composed along the
// families zxcvbn's matchers know — dictionary words and names, l33t spellings of them (from one
// substitution to every letter, with every alternative of the table), reversed and re-cased words,
// keyboard walks, repeats, sequences, dates and years, glued together with separators.
func genPassword(r *vrng) string {
	if r.Bool() {
		return vPasswords[r.Intn(len(vPasswords))]
	}
	words := []string{"password", "baseball", "computer", "dragon", "monkey", "letmein", "iloveyou", "jennifer", "michael", "football",
		"sunshine", "princess", "welcome", "shadow", "master", "superman", "trustno", "whatever", "alice", "whawty", "abigail", "elizabeth",
		"scoobydoo", "blessing", "qazwsx", "testing", "tigger", "zealots", "exotic"}
	leet := map[byte]string{'a': "4@", 'b': "8", 'c': "({[<", 'e': "3", 'g': "69", 'i': "1!|", 'l': "1|7", 'o': "0", 's': "$5", 't': "+7", 'x': "%", 'z': "2"}
	walks := []string{"qwertyuiop", "asdfghjkl", "zxcvbnm,./", "1qaz2wsx3edc", "qazwsxedc", "!@#$%^&*()", "poiuytrewq", "6yhn7ujm"}
	var parts []string
	for n := 1 + r.Intn(3); n > 0; n-- {
		switch r.Intn(8) {
		case 0, 1, 2, 3:
			w := []byte(words[r.Intn(len(words))])
			prob := []int{0, 3, 10, 10}[r.Intn(4)] // out of 10
			for i := range w {
				if alt, ok := leet[w[i]]; ok && r.Intn(10) < prob {
					w[i] = alt[r.Intn(len(alt))]
				}
			}
			switch r.Intn(5) {
			case 0:
				w[0] = strings.ToUpper(string(w[:1]))[0]
			case 1:
				w = []byte(strings.ToUpper(string(w)))
			case 2:
				for i, j := 0, len(w)-1; i < j; i, j = i+1, j-1 {
					w[i], w[j] = w[j], w[i]
				}
			}
			parts = append(parts, string(w))
		case 4:
			wk := walks[r.Intn(len(walks))]
			parts = append(parts, wk[:3+r.Intn(len(wk)-2)])
		case 5:
			parts = append(parts, strings.Repeat(string(rune('a'+r.Intn(26))), 2+r.Intn(8)))
		case 6:
			parts = append(parts, []string{"abcdefgh", "98765432", "13579", "hijklmn", "ZYXWV"}[r.Intn(5)])
		default:
			parts = append(parts, []string{"1989", "2024", "31.12.1989", "7/4/76", "19991231", "0101", "2001-09-11"}[r.Intn(7)])
		}
	}
	return strings.Join(parts, []string{"", "", "-", " ", "!", "_"}[r.Intn(6)])
}

// vSensitive: passwords whose estimate is known to change under the transformations a "hardening" of
// the policy call might apply (cut at N bytes, trimmed, case-folded, NUL-terminated, a matcher left out).
var vSensitive []string

func init() {
	for _, n := range []int{8, 16, 20, 32, 50, 64, 72, 100, 128} {
		body := strings.Repeat("password", n/8+1)[:max(n-2, 0)]
		vSensitive = append(vSensitive, body+"unrecognizable", strings.Repeat("a", n)+"Xk9#mQ2$vL7&pR4")
	}
	vSensitive = append(vSensitive, strings.Repeat("a", 257), strings.Repeat("1", 300), strings.Repeat("Xk9#mQ2$vL7&pR4-", 17),
		"  password  ", "password\n", " G7$kq!v9Zp#2mL", "G7$KQ!V9ZP#2ML", "PASSWORD", "monkey\x00G7$kq!v9Zp#2mL",
		"8@$3b4|1", "8@$3b4|1c0mpu73r", "p4$$w0rd", "1l0v3y0u-m0nk3y", "drowssap-llabesab", "qwertyuiop-asdfghjkl", "19891231-2024")
}

// bord: which side of the anchor's own estimate the threshold goes (0 = at it, 1 = just above).
type sweepPlan struct {
	pw   string
	kind string
	b    int
}

func bord(sp *sweepPlan, r *vrng) int {
	if sp != nil {
		return sp.b
	}
	return r.Intn(2)
}

func suiteV17(c *vctx) {
	r := c.r
	// (1) the condition parser and the constructor
	conds := []string{"score >= 3", "score >= 0", "score >= 4", "score >= 5", "entropy >= 40", "time >= 1000000", "score > 3", "score => 3",
		"score >=3", "score>= 3", "score >= 3 extra", "", "score", "score >=", ">= 3", "SCORE >= 3", "Score >= 3", "entropy >= -1",
		"entropy >= 1.5", "entropy >= 18446744073709551615", "entropy >= 18446744073709551616", "time >= 0", "  score   >=   2  ",
		"score\t>=\t2", "score\n>=\n1", "score >= 03", "score >= +3", "score >= 0x3", "time >= 1e6", "strength >= 3", "score >= three",
		"score >= 3 ", "entropy >= 00", "time >= 1_000", "score >= 4294967296", "score ≥ 3", "score\u00a0>=\u20003", "\u3000entropy\u2028>=\u202940\u0085", "score\u200b>= 3", "score >=\xa03"}
	kinds := []string{"score", "entropy", "time", "Score", "scor", "strength", ""}
	ops := []string{">=", ">", "=>", "==", "<=", "", "> ="}
	for k := 0; k < 460; k++ {
		parts := []string{kinds[r.Intn(len(kinds))], ops[r.Intn(len(ops))], []string{"0", "1", "3", "4", "5", "17", "40", "-1", "x", "", "1.0", "18446744073709551615", "99999999999999999999"}[r.Intn(13)]}
		seps := []string{" ", "  ", "\t", "", " \n ", "\r\n"}
		if r.Intn(3) == 0 {
			// strings.Fields splits at Unicode white space too (and decodes invalid UTF-8 byte by byte):
			// every white-space rune, their neighbours that are not, truncated and overlong spellings
			seps = []string{"\u0085", "\u00a0", "\u1680", "\u2000", "\u2005", "\u200a", "\u2028", "\u2029", "\u202f", "\u205f", "\u3000",
				"\u200b", "\u00a1", "\u0084", "\u180e", "\u2027", "\u202e", "\u2060", "\u3001", "\ufeff", "\xc2", "\xe2\x80", "\xe3\x80", "\xa0",
				"\x85", "\xc0\xa0", "\xe0\x80\xa0", "\xe2\x80\x80\x80", "\xc2\xc2\xa0", "\xe2\xe2\x80\xa8", "\x1c", "\x1f", "\v", "\f", " \u3000 "}
		}
		s := strings.Repeat(" ", r.Intn(2)) + parts[0] + seps[r.Intn(len(seps))] + parts[1] + seps[r.Intn(len(seps))] + parts[2] + strings.Repeat(" ", r.Intn(2))
		if r.Intn(6) == 0 {
			s += " " + parts[r.Intn(3)]
		}
		conds = append(conds, s)
	}
	for i, cond := range conds {
		if !c.mine(i) {
			continue
		}
		for _, ty := range []string{"zxcvbn", "", "ZXCVBN", "none", "zxcvbn "} {
			p, err := NewPasswordPolicy(ty, cond)
			res := "err"
			if err == nil {
				switch pp := p.(type) {
				case nullPolicy:
					res = "ok none"
				case zxcvbnPolicy:
					kind := "?"
					// identify the condition function by its behaviour on a probe estimate
					probe := zxcvbn.PasswordStrength("zz", nil)
					probe.Score, probe.Entropy, probe.CrackTime = 2, 50, 7
					switch {
					case pp.condition(probe, 2) && !pp.condition(probe, 3):
						kind = "score"
					case pp.condition(probe, 50) && !pp.condition(probe, 51):
						kind = "entropy"
					case pp.condition(probe, 7) && !pp.condition(probe, 8):
						kind = "time"
					}
					res = fmt.Sprintf("ok %s %d", kind, pp.threshold)
				}
			}
			c.emit(fmt.Sprintf("pol.new %s %s", vxs(ty), vxs(cond)), res)
			if ty == "zxcvbn" {
				// the statement of condition_parser_exact, evaluated on the real constructor with the
				// harness's own reading of the grammar: three words separated by white space, the kind, ">=", and
				// a number written in decimal digits only that fits 64 bits (at most 4 for a score)
				well := false
				if f := strings.FieldsFunc(cond, unicode.IsSpace); len(f) == 3 && f[1] == ">=" && (f[0] == "score" || f[0] == "entropy" || f[0] == "time") && f[2] != "" {
					digits := true
					for _, ch := range []byte(f[2]) {
						digits = digits && ch >= '0' && ch <= '9'
					}
					if v, okv := new(big.Int).SetString(f[2], 10); digits && okv && v.IsUint64() {
						well = f[0] != "score" || v.Uint64() <= 4
					}
				}
				c.emit("law.C17.condition_accepted_iff_wellformed "+vxs(cond), vtf((err == nil) == well))
			}
			// an unparsable policy stops the agent from starting
			if ty != "" && err != nil && i%10 == 0 {
				_, serr := newVAgent(c, fmt.Sprintf("polbad%d", i), 1, "", ty, cond, "")
				c.emit("law.C17.bad_policy_stops_agent "+vxs(ty+"|"+cond), vtf(serr != nil))
			}
		}
	}
	// (1b) Go's own string functions against the model they are modelled by: strings.Fields (the
	// byte-level scan of Model/Policy.lean), utf8.DecodeRuneInString and unicode.IsSpace (the
	// rune-level definition of Model/Utf8.lean that the scan is PROVED to compute)
	{
		nf := 6000
		if c.thorough() {
			nf = 120000
		}
		spaces := []string{" ", "\t", "\n", "\v", "\f", "\r", "\u0085", "\u00a0", "\u1680", "\u2000", "\u2001", "\u2009", "\u200a", "\u2028", "\u2029", "\u202f", "\u205f", "\u3000"}
		near := []string{"\u200b", "\u00a1", "\u0084", "\u180e", "\u2027", "\u202e", "\u2060", "\u3001", "\ufeff", "\xc2", "\xe2\x80", "\xe3\x80", "\xa0", "\x85",
			"\xc0\xa0", "\xe0\x80\xa0", "\xed\xa0\x80", "\xf4\x90\x80\x80", "\xf0\x8f\xbf\xbf", "\xe1\x9a", "\xe2\x81", "\U0001F511", "\u20ac", "é", "\xff", "\xf5\x80\x80\x80", "\x1c", "\x1f", "\x00"}
		for i := 0; i < nf; i++ {
			if !c.mine(i) {
				continue
			}
			var sb []byte
			for k := r.Intn(7); k > 0; k-- {
				switch r.Intn(6) {
				case 0, 1:
					sb = append(sb, spaces[r.Intn(len(spaces))]...)
				case 2:
					sb = append(sb, near[r.Intn(len(near))]...)
				case 3:
					sb = append(sb, r.Bytes(1+r.Intn(4))...)
				default:
					sb = append(sb, []string{"a", "score", ">=", "3", "xy", "é"}[r.Intn(6)]...)
				}
			}
			var parts []string
			for _, f := range strings.Fields(string(sb)) {
				parts = append(parts, vxs(f))
			}
			c.emit("go.fields "+vxb(sb), "["+strings.Join(parts, ",")+"]")
			// every suffix start: the decoder at arbitrary (also non-boundary) positions
			for p := 0; p < len(sb) && p < 6; p++ {
				rn, w := utf8.DecodeRuneInString(string(sb[p:]))
				c.emit("go.decoderune "+vxb(sb[p:min(len(sb), p+5)]), fmt.Sprintf("%d %d", rn, w))
			}
		}
		// unicode.IsSpace over the whole code space (strided above U+3100, every white-space rune's neighbourhood in full)
		for rn := 0; rn <= 0x10FFFF; rn++ {
			if rn > 0x3100 && rn%257 != 0 {
				continue
			}
			if c.mine(rn) {
				c.emit(fmt.Sprintf("go.isspace %d", rn), vtf(unicode.IsSpace(rune(rn))))
			}
		}
	}
	// (2) every write path behind every kind of condition
	bin := os.Getenv("VERIF_BIN")
	nag := 6
	if c.thorough() {
		nag = 40
	}
	nag = max(nag/c.nshards, 1)
	// the sweep: every password of vSensitive x every kind of condition x the threshold exactly at and just
	// above its own estimate gets an agent of its own (a few writes of that password each), dealt out
	// over the shards — whatever a change to the policy call does to the estimate of one of them shows
	var sweep []sweepPlan
	{
		idx := 0
		for _, pw := range vSensitive {
			for _, kind := range []string{"score", "entropy", "time"} {
				for b := 0; b < 2; b++ {
					if c.mine(idx) {
						sweep = append(sweep, sweepPlan{pw, kind, b})
					}
					idx++
				}
			}
		}
	}
	for ai := 0; ai < nag+len(sweep); ai++ {
		kind := []string{"score", "entropy", "time"}[(ai+c.shard)%3]
		// thresholds around the values actually observed
		pwU := genPassword(r)
		var sp *sweepPlan
		if ai >= nag {
			sp = &sweep[ai-nag]
			kind = sp.kind
		}
		// a third of the agents get their threshold placed at the estimate of a password that contains
		// the user's name in some letter case: the same password is then written for her and for others
		nameFam := []string{"Alice.Wonderland", "ALICE-2024-x", "aLiCe", "Alice", "alice", "G7$kq-ALICE-zP", "4L1C3-alice", "ecila.Alice9"}
		planned := ""
		// the class of an agent is fixed by its position (every class x every kind occurs in every run):
		// 0 = name family, 1 = a password whose estimate changes when it is cut, trimmed, case-folded or
		// read without a matcher (the threshold is put exactly at / just above ITS estimate and it is
		// written again and again through every path), 2 = thresholds around a random password
		class := (ai + c.shard/3) % 3
		anchored := false
		if sp != nil {
			class = 3
			pwU, anchored = sp.pw, true
		}
		switch class {
		case 0:
			planned = nameFam[r.Intn(len(nameFam))]
			pwU = planned
		case 1:
			pwU = vSensitive[r.Intn(len(vSensitive))]
			anchored = true
		}
		z0 := zxcvbn.PasswordStrength(pwU, []string{"alice", "whawty"})
		var thr uint64
		switch kind {
		case "score":
			thr = uint64(r.Intn(5))
			if anchored {
				thr = uint64(min(4, z0.Score+bord(sp, r)))
			}
		case "entropy":
			thr = uint64(math.Max(0, math.Floor(z0.Entropy)+float64(r.Intn(3)-1)))
			if anchored {
				thr = uint64(math.Floor(z0.Entropy) + float64(bord(sp, r)))
			}
		default:
			thr = uint64(math.Max(0, math.Min(1e15, math.Floor(z0.CrackTime)+float64(r.Intn(3)-1))))
			if anchored {
				thr = uint64(math.Min(1e15, math.Floor(z0.CrackTime)+float64(bord(sp, r))))
			}
		}
		if planned != "" {
			// … strictly between her estimate and that of a user whose name is not in it, where they differ
			zo := zxcvbn.PasswordStrength(planned, []string{"m0", "whawty"})
			switch {
			case kind == "score" && zo.Score > z0.Score:
				thr = uint64(z0.Score + 1)
			case kind == "entropy" && math.Floor(zo.Entropy) > math.Floor(z0.Entropy):
				thr = uint64(math.Floor(z0.Entropy) + 1)
			case kind == "time" && math.Floor(zo.CrackTime) > math.Floor(z0.CrackTime):
				thr = uint64(math.Min(1e15, math.Floor(z0.CrackTime)+1))
			}
		}
		cond := fmt.Sprintf("%s >= %d", kind, thr)
		name := fmt.Sprintf("pol%d", ai)
		a, err := newVAgent(c, name, 1, "", "zxcvbn", cond, "")
		if err != nil {
			c.emit("law.C17.agent_starts "+vxs(cond), "f")
			continue
		}
		// bootstrap through the library (no policy there): an admin with a strong password
		a.ref.Init("root", "G7$kq!v9Zp#2mL-bootstrap")
		a.ref.AddUser("alice", "G7$kq!v9Zp#2mL-alice", false)
		adminTok, userTok := "", ""
		login := func(u, p string) string {
			body, _ := json.Marshal(map[string]string{"username": u, "password": p})
			rec := httptest.NewRecorder()
			a.mux.ServeHTTP(rec, httptest.NewRequest("POST", "/api/authenticate", strings.NewReader(string(body))))
			var resp map[string]interface{}
			json.Unmarshal(rec.Body.Bytes(), &resp)
			s, _ := resp["session"].(string)
			return s
		}
		adminTok = login("root", "G7$kq!v9Zp#2mL-bootstrap")
		userTok = login("alice", "G7$kq!v9Zp#2mL-alice")
		alicePw := "G7$kq!v9Zp#2mL-alice"
		post := func(ep string, m map[string]interface{}) int {
			b, _ := json.Marshal(m)
			rec := httptest.NewRecorder()
			a.mux.ServeHTTP(rec, httptest.NewRequest("POST", "/api/"+ep, strings.NewReader(string(b))))
			return rec.Code
		}
		nw := 60
		if c.thorough() {
			nw = 300
		}
		if sp != nil {
			nw = 3
		}
		cli := 0
		type forcedWrite struct{ path, user, pw string }
		var forced []forcedWrite
		for k := 0; k < nw; k++ {
			pw := genPassword(r)
			if r.Intn(4) == 0 {
				pw += fmt.Sprint(r.Intn(100))
			}
			if (anchored || planned != "") && (r.Intn(3) == 0 || sp != nil) {
				pw = pwU // the password the threshold was placed at
			}
			path := []string{"iface-add", "iface-update", "http-add", "http-update-admin", "http-update-self", "http-update-oldpw", "cli-add", "cli-update", "iface-init", "cli-init"}[r.Intn(10)]
			if sp != nil {
				path = []string{"iface-add", "iface-update", "http-add", "http-update-admin", "http-update-self", "http-update-oldpw"}[r.Intn(6)]
			}
			user := "alice"
			if strings.HasSuffix(path, "add") {
				user = fmt.Sprintf("n%d", k)
			}
			if strings.HasSuffix(path, "init") {
				user = "root"
			}
			// the SAME password for two different users one after the other, one of whose names it contains
			// in another letter case: the verdict is a function of (password, user), whoever asked before
			if len(forced) == 0 && r.Intn(6) == 0 {
				fpw := nameFam[r.Intn(len(nameFam))]
				if planned != "" && r.Intn(4) != 0 {
					fpw = planned
				}
				other := fmt.Sprintf("m%d", k)
				w1 := forcedWrite{[]string{"iface-add", "http-add"}[r.Intn(2)], other, fpw}
				w2 := forcedWrite{[]string{"iface-update", "http-update-admin", "http-update-self"}[r.Intn(3)], "alice", fpw}
				if r.Bool() {
					forced = []forcedWrite{w1, w2}
				} else {
					forced = []forcedWrite{w2, w1}
				}
			}
			if len(forced) > 0 {
				path, user, pw = forced[0].path, forced[0].user, forced[0].pw
				forced = forced[1:]
			}
			z := zxcvbn.PasswordStrength(pw, []string{user, "whawty"})
			before := dirDigest(a.dirPath)
			stored := false
			storeWould := true // would the store accept, policy aside
			switch path {
			case "iface-add":
				stored = a.iface.Add(user, pw, false) == nil
			case "iface-update":
				stored = a.iface.Update(user, pw) == nil
			case "http-add":
				stored = post("add", map[string]interface{}{"session": adminTok, "username": user, "password": pw, "admin": false}) == 200
			case "http-update-admin":
				stored = post("update", map[string]interface{}{"session": adminTok, "username": user, "newpassword": pw}) == 200
			case "http-update-self":
				stored = post("update", map[string]interface{}{"session": userTok, "username": user, "newpassword": pw}) == 200
			case "http-update-oldpw":
				stored = post("update", map[string]interface{}{"username": user, "oldpassword": alicePw, "newpassword": pw}) == 200
			case "iface-init":
				storeWould = false // the directory is not empty: init fails in the store whatever the policy says
				stored = a.iface.Init(user, pw) == nil
			case "cli-add", "cli-update", "cli-init":
				if bin == "" || cli >= 6 || strings.HasPrefix(pw, "-") || strings.ContainsRune(pw, 0) { // (argv cannot carry NUL)
					continue
				}
				cli++
				if path == "cli-init" {
					storeWould = false
				}
				// the three ways the command line takes the policy: global options, the environment, or both
				// (the man page: options on the command line override the environment) — with a LAX policy in
				// the place that must lose, or in no place at all
				var cmd *exec.Cmd
				lax := []string{"WHAWTY_AUTH_POLICY_TYPE=zxcvbn", "WHAWTY_AUTH_POLICY_CONDITION=score >= 0"}
				switch cli % 3 {
				case 0:
					cmd = exec.Command(bin, "--store", a.cfgPath, "--policy-type", "zxcvbn", "--policy-condition", cond, strings.TrimPrefix(path, "cli-"), user, pw)
				case 1:
					cmd = exec.Command(bin, "--store", a.cfgPath, "--policy-type", "zxcvbn", "--policy-condition", cond, strings.TrimPrefix(path, "cli-"), user, pw)
					cmd.Env = append(os.Environ(), lax...)
				default:
					cmd = exec.Command(bin, "--store", a.cfgPath, strings.TrimPrefix(path, "cli-"), user, pw)
					cmd.Env = append(os.Environ(), "WHAWTY_AUTH_POLICY_TYPE=zxcvbn", "WHAWTY_AUTH_POLICY_CONDITION="+cond)
				}
				stored = cmd.Run() == nil
			}
			changed := dirDigest(a.dirPath) != before
			if stored && user == "alice" {
				alicePw = pw
			}
			res := "refused"
			if stored {
				res = "stored"
			}
			c.emit(fmt.Sprintf("pol.write %s %s %d %s %s %s", vxs("zxcvbn"), vxs(cond), z.Score, floorTok(z.Entropy), floorTok(z.CrackTime), vtf(storeWould)), res)
			id := fmt.Sprintf("%s %s %s", path, vxs(cond), vxs(pw))
			ok := false
			switch kind {
			case "score":
				ok = z.Score >= int(thr)
			case "entropy":
				ok = z.Entropy >= float64(thr)
			default:
				ok = z.CrackTime >= float64(thr)
			}
			c.emit("law.C17.store_change_implies_policy_ok "+id, vtf(!changed || ok))
			c.emit("law.C17.refusal_changes_nothing "+id, vtf(stored || !changed))
			if storeWould {
				c.emit("law.C17.policy_ok_not_refused "+id, vtf(!ok || stored))
			}
		}
		os.RemoveAll(a.dirPath)
	}
}

func init() { vsuites["v17"] = suiteV17 }
