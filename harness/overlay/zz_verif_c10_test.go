package main

import (
	"fmt"
	"io"
	"net"
	"net/http"
	"net/http/httptest"
	"os"
	"path/filepath"
	"runtime"
	"strings"
	"sync/atomic"
	"syscall"
	"time"

	"github.com/whawty/auth/sasl"
)

type execd struct {
	q         *creq  // nil = internal upgrade request
	upg       bool   // login succeeded with an upgradeable hash (and upgrades are on)
	gen       bool   // a Generate call was seen (the hash was rewritten)
	pw        string // password of the hasher call that revealed this execution
	preDigest string
}

type schedResult struct {
	labels   []string
	executed []string // client ids in execution order ("-" = internal upgrade request)
	order    []*execd
	stuck    bool
	reqs     []*creq
}

func chanOf(q *creq) string {
	switch q.kind {
	case "auth":
		return "auth"
	case "update":
		return "update"
	}
	return "other"
}

func inOrder(order []*execd, q *creq) bool {
	for _, e := range order {
		if e.q == q {
			return true
		}
	}
	return false
}

// runSchedule: hold the dispatcher inside a first login, launch the batch, then single-step it
// from hasher call to hasher call. Every request of the batch calls a hasher exactly once when
// it is executed (logins: Check; successful updates/adds: Generate), which reveals the exact
// order in which the dispatcher executes them.
func runSchedule(c *vctx, a *vAgent, g *gate, mode string, dflt uint, batch []*creq, rootpw string, watchdog time.Duration) *schedResult {
	res := &schedResult{}
	hold := &creq{id: 0, kind: "auth", user: "root", pw: rootpw}
	a.launch(hold)
	select {
	case <-g.ev:
	case <-time.After(30 * time.Second):
		res.stuck = true
		return res
	}
	for _, q := range batch {
		a.launch(q)
		time.Sleep(time.Millisecond)
	}
	time.Sleep(30 * time.Millisecond)
	all := append([]*creq{hold}, batch...)
	res.reqs = all
	current := &execd{q: hold}
	order := []*execd{current}
	for {
		g.release <- true
		var next gateEv
		got := false
		// The next hasher call, or quiescence: every request answered and no further hasher call for
		// `watchdog` (an internal upgrade follows its login at once on the idle dispatcher). "Stuck"
		// is decided by what the dispatcher is DOING, not by a stop-watch: it is blocked in a channel
		// send of its own (outside the gate) with requests unanswered — or nothing moved for a minute.
		hard := time.Now().Add(60 * time.Second)
		var doneSince, wedgedSince time.Time
		for !got {
			select {
			case next = <-g.ev:
				got = true
				continue
			case <-time.After(5 * time.Millisecond):
			}
			collect(all)
			alldone := true
			for _, q := range all {
				alldone = alldone && q.fin
			}
			if alldone {
				if doneSince.IsZero() {
					doneSince = time.Now()
				}
				if time.Since(doneSince) >= watchdog {
					break
				}
				continue
			}
			if dispatcherWedged() {
				if wedgedSince.IsZero() {
					wedgedSince = time.Now()
				}
				if time.Since(wedgedSince) >= watchdog {
					break
				}
			} else {
				wedgedSince = time.Time{}
			}
			if time.Now().After(hard) {
				break
			}
		}
		collect(all)
		if !got {
			for _, q := range all {
				if !q.fin {
					res.stuck = true
				}
			}
			break
		}
		if next.kind == "gen" && current.q == nil && !current.gen && next.pw == current.pw {
			current.gen = true // the internal upgrade proceeds to rewrite the hash
			continue
		}
		e := &execd{pw: next.pw}
		if next.kind == "gen" {
			for _, q := range batch {
				if (q.kind == "update" || q.kind == "add") && q.pw == next.pw && !inOrder(order, q) {
					e.q = q
					break
				}
			}
			e.gen = true
		} else {
			// a Check: a client's login, or the re-authentication of a queued internal upgrade.
			// The batches contain at most one login per password, and an internal upgrade for a
			// password is queued only after that login was executed: an unserved client login with
			// this password is the one being executed, otherwise it is the internal request.
			for _, q := range batch {
				if q.kind == "auth" && q.pw == next.pw && !inOrder(order, q) {
					e.q = q
					break
				}
			}
		}
		if e.q != nil && e.q.kind == "auth" {
			pid, _, _ := readRec(a.dirPath, e.q.user)
			e.upg = a.pwOf[e.q.user] == e.q.pw && pid != 0 && pid != dflt && mode != ""
		}
		e.preDigest = dirDigest(a.dirPath)
		order = append(order, e)
		current = e
	}
	res.order = order
	return res
}

// buildLabels turns the observed execution order into a label sequence of the transition
// system of lean/Whawty/Model/Agent.lean: requests are enqueued as early as the channel
// capacities allow (FIFO per channel = execution order per channel), then selected in the
// observed order.
func buildLabels(res *schedResult, mode string, caps map[string]int) {
	qlen := map[string]int{}
	byChan := map[string][]*execd{}
	for _, e := range res.order {
		if e.q != nil {
			byChan[chanOf(e.q)] = append(byChan[chanOf(e.q)], e)
		}
	}
	notified := func(e *execd) bool {
		if e.q == nil {
			return true // the model's internal request always notifies (worst case for blocking)
		}
		switch e.q.kind {
		case "update", "add", "setadmin":
			return e.q.ok
		case "remove":
			return true
		}
		return false
	}
	nextIdx := map[string]int{}
	fill := func() {
		for _, ch := range []string{"auth", "update", "other"} {
			for qlen[ch] < caps[ch] && nextIdx[ch] < len(byChan[ch]) {
				e := byChan[ch][nextIdx[ch]]
				nextIdx[ch]++
				switch ch {
				case "auth":
					res.labels = append(res.labels, fmt.Sprintf("enqAuth:%d:%s", e.q.id, vtf(e.upg)))
				case "update":
					res.labels = append(res.labels, fmt.Sprintf("enqUpdate:%d:%s", e.q.id, vtf(notified(e))))
				default:
					res.labels = append(res.labels, fmt.Sprintf("enqOther:%d:%s", e.q.id, vtf(notified(e))))
				}
				qlen[ch]++
			}
		}
	}
	for i, e := range res.order {
		ch := "update"
		if e.q != nil {
			ch = chanOf(e.q)
		}
		if i == 0 {
			// only the held login is queued when the dispatcher selects it
			res.labels = append(res.labels, "enqAuth:0:f")
			nextIdx["auth"] = 1
			qlen["auth"] = 1
		} else {
			fill()
		}
		res.labels = append(res.labels, map[string]string{"auth": "selAuth", "update": "selUpdate", "other": "selOther"}[ch])
		qlen[ch]--
		fill()
		if e.q != nil && e.q.kind == "auth" && e.upg {
			res.labels = append(res.labels, "upgradeSend")
			if mode == "local" {
				if qlen["update"] < caps["update"] {
					qlen["update"]++
				}
			} else {
				res.labels = append(res.labels, "remoteDrain")
			}
		}
		if notified(e) && (e.q == nil || e.q.kind != "auth") {
			res.labels = append(res.labels, "notifySend", "hookConsume")
		}
		if e.q != nil {
			res.labels = append(res.labels, "respond")
			res.executed = append(res.executed, fmt.Sprint(e.q.id))
		} else {
			res.executed = append(res.executed, "-")
		}
	}
}

// dispatcherWedged: some agent's dispatcher goroutine is blocked sending on a channel of the
// agent's own (not parked in the harness gate, not hashing, not idle in its select).
func dispatcherWedged() bool {
	buf := make([]byte, 1<<18)
	n := runtime.Stack(buf, true)
	for _, blk := range strings.Split(string(buf[:n]), "\n\n") {
		if strings.Contains(blk, "dispatchRequests") && !strings.Contains(blk, "gate).pass") {
			head := strings.SplitN(blk, "\n", 2)[0]
			if strings.Contains(head, "[chan send") {
				return true
			}
		}
	}
	return false
}

func goroutineDump() string {
	buf := make([]byte, 1<<16)
	n := runtime.Stack(buf, true)
	s := string(buf[:n])
	var keep []string
	for _, blk := range strings.Split(s, "\n\n") {
		if strings.Contains(blk, "dispatchRequests") {
			keep = append(keep, strings.ReplaceAll(blk, "\n", " | "))
		}
	}
	return strings.Join(keep, " || ")
}

func suiteV10(c *vctx) {
	r := c.r
	n := 48
	if c.thorough() {
		n = 600
	}
	n = max(n/c.nshards, 2)
	// a master that accepts connections and never answers
	stalled, _ := net.Listen("tcp", "127.0.0.1:0")
	if stalled != nil {
		go func() {
			var held []net.Conn
			for {
				cn, err := stalled.Accept()
				if err != nil {
					return
				}
				held = append(held, cn)
			}
		}()
		defer stalled.Close()
	}
	for i := 0; i < n; i++ {
		mode := []string{"", "local", "local", "local", "http://127.0.0.1:1/api/update", "stalled"}[r.Intn(6)]
		modeArg, modeTok := mode, map[string]string{"": "off", "local": "local"}[mode]
		if mode == "stalled" && stalled != nil {
			modeArg = "http://" + stalled.Addr().String() + "/api/update"
		}
		if modeTok == "" {
			modeTok = "remote"
		}
		a, err := newVAgent(c, fmt.Sprintf("d%d", i), 1, modeArg, "", "", "")
		if err != nil {
			c.emit("law.C10.agent_starts "+vxs(err.Error()), "f")
			continue
		}
		rootpw := "Root-Passw0rd"
		a.pwOf = map[string]string{"root": rootpw}
		a.iface.Init("root", rootpw)
		users := []string{"u1", "u2", "u3", "u4"}
		for _, u := range users {
			p := "Init-" + u
			a.pwOf[u] = p
			a.iface.Add(u, p, false)
			if r.Intn(3) != 0 { // re-hash under the non-default set: the next login is upgradeable
				a.ref.Default = 2
				a.ref.UpdateUser(u, p)
				a.ref.Default = 1
			}
		}
		g := a.installGate()
		// the batch: the deadlock-witness family (9..14 pending updates x upgradeable logins) and random mixes
		var batch []*creq
		id := 1
		cu := cap(a.st.updateChan) // the witness family sits around the live capacity of the update queue
		nUpd := r.Pick(0, 3, cu-1, cu, cu+1, cu+4)
		nAuth := 1 + r.Intn(4)
		for k := 0; k < nUpd; k++ {
			u := users[r.Intn(len(users))]
			batch = append(batch, &creq{id: id, kind: "update", user: u, pw: fmt.Sprintf("Upd-%d-%d", i, id)})
			id++
		}
		perm := r.Intn(len(users))
		for k := 0; k < nAuth; k++ {
			u := users[(perm+k)%len(users)] // at most one login per user in a batch
			pw := a.pwOf[u]
			if r.Intn(5) == 0 {
				pw = "wrong-" + fmt.Sprint(id)
			}
			batch = append(batch, &creq{id: id, kind: "auth", user: u, pw: pw})
			id++
		}
		if r.Bool() {
			batch = append(batch, &creq{id: id, kind: "add", user: fmt.Sprintf("new%d", id), pw: fmt.Sprintf("Add-%d-%d", i, id)})
			id++
		}
		// shuffle
		for k := len(batch) - 1; k > 0; k-- {
			j := r.Intn(k + 1)
			batch[k], batch[j] = batch[j], batch[k]
		}
		// note: update requests change the password a later login needs; logins use the initial password
		wd := 1500 * time.Millisecond
		if c.thorough() {
			wd = 5 * time.Second
		}
		res := runSchedule(c, a, g, mode2(mode), 1, batch, rootpw, wd)
		desc := fmt.Sprintf("mode=%s updates=%d logins=%d", modeTok, nUpd, nAuth)
		if res.stuck {
			c.emit("law.C10.every_request_is_answered "+desc+" "+vxs(goroutineDump()[:min(len(goroutineDump()), 600)]), "f")
			continue
		}
		c.emit("law.C10.every_request_is_answered "+desc, "t")
		// the agent keeps accepting: a probe request is answered
		g.mu.Lock()
		g.free = true
		g.mu.Unlock()
		probe := &creq{id: 9999, kind: "check"}
		a.launch(probe)
		select {
		case <-probe.done:
			c.emit("law.C10.agent_keeps_accepting "+desc, "t")
		case <-time.After(wd):
			c.emit("law.C10.agent_keeps_accepting "+desc, "f")
		}
		// the live capacities of the agent's queues (the model is parametric in them)
		caps := map[string]int{"auth": cap(a.st.authenticateChan), "update": cap(a.st.updateChan), "other": cap(a.st.addChan)}
		remoteCap := 10
		if a.st.upgradeChan != nil {
			remoteCap = cap(a.st.upgradeChan)
		}
		buildLabels(res, mode2(mode), caps)
		answered := len(res.reqs)
		c.emit(fmt.Sprintf("agent.sched %s "+fmt.Sprintf("%d %d %d %d %d", caps["auth"], caps["update"], caps["other"], remoteCap, cap(a.st.hooks.Notify))+" %s", map[string]string{"off": "off", "local": "localNonBlocking", "remote": "remote"}[modeTok], strings.Join(res.labels, ",")),
			fmt.Sprintf("ok %d %s", answered, strings.Join(res.executed, ",")))
		os.RemoveAll(a.dirPath)
	}
}

// logPointAdversary: the agent's debug-log points are used as preemption points. Whenever any
// goroutine of the agent (the dispatcher included) reaches one, "concurrent clients" fill the
// update queue to its capacity — exactly what a burst of password updates arriving at that
// instant would do — before the logging goroutine continues.
type logPointAdversary struct {
	a      *vAgent
	budget int64
	fired  int64
	id     int64
}

func (l *logPointAdversary) Write(p []byte) (int, error) {
	if atomic.LoadInt64(&l.budget) <= 0 {
		return len(p), nil
	}
	free := cap(l.a.st.updateChan) - len(l.a.st.updateChan)
	if free <= 0 {
		return len(p), nil
	}
	atomic.AddInt64(&l.fired, 1)
	for k := 0; k < free+2; k++ {
		if atomic.AddInt64(&l.budget, -1) < 0 {
			break
		}
		n := atomic.AddInt64(&l.id, 1)
		go l.a.iface.Update("u1", fmt.Sprintf("Adv-%d", n)) //nolint:errcheck
	}
	time.Sleep(300 * time.Microsecond)
	return len(p), nil
}

// adversarial schedules: logins with upgradeable hashes while update bursts arrive at every
// preemption point; and free-running stress with the update queue hovering around its capacity.
func suiteV10adv(c *vctx) {
	r := c.r
	n := 16
	if c.thorough() {
		n = 160
	}
	n = max(n/c.nshards, 1)
	for i := 0; i < n; i++ {
		mode := []string{"local", "local", "http://127.0.0.1:1/api/update", ""}[r.Intn(4)]
		a, err := newVAgent(c, fmt.Sprintf("adv%d", i), 1, mode, "", "", "")
		if err != nil {
			continue
		}
		a.iface.Init("root", "Root-Passw0rd")
		users := []string{"u1", "u2", "u3"}
		rehash := func() {
			for _, u := range users[1:] {
				a.ref.Default = 2
				a.ref.UpdateUser(u, "Init-"+u)
				a.ref.Default = 1
			}
		}
		for _, u := range users {
			a.iface.Add(u, "Init-"+u, false)
		}
		rehash()
		stress := i%2 == 1
		adv := &logPointAdversary{a: a, budget: 60}
		stop := make(chan bool)
		if stress {
			// about as many updaters as the queue has slots, each in a tight loop
			for w := 0; w < 9+r.Intn(4); w++ {
				go func(w int) {
					for k := 0; ; k++ {
						select {
						case <-stop:
							return
						default:
						}
						a.iface.Update("u1", fmt.Sprintf("S-%d-%d", w, k))
					}
				}(w)
			}
		} else {
			wdl.SetOutput(adv)
		}
		wedged := false
		deadline := time.Now().Add(700 * time.Millisecond)
		rounds := 0
		for time.Now().Before(deadline) && !wedged {
			rounds++
			for _, u := range users[1:] {
				done := make(chan bool, 1)
				go func(u string) { a.iface.Authenticate(u, "Init-"+u); done <- true }(u)
				select {
				case <-done:
				case <-time.After(3 * time.Second):
					wedged = true
				}
				if wedged {
					break
				}
			}
			if !stress {
				time.Sleep(2 * time.Millisecond)
			}
			rehash() // the next logins are upgradeable again
		}
		close(stop)
		wdl.SetOutput(io.Discard)
		// every request (the injected ones included) is eventually answered: a probe after the burst
		probe := make(chan bool, 1)
		go func() { a.iface.Check(); probe <- true }()
		select {
		case <-probe:
		case <-time.After(3 * time.Second):
			wedged = true
		}
		kind := "log-point-adversary"
		if stress {
			kind = "stress"
		}
		desc := fmt.Sprintf("%s mode=%s rounds=%d injected=%d", kind, map[bool]string{true: "local", false: "other"}[mode == "local"], rounds, 60-atomic.LoadInt64(&adv.budget))
		dump := ""
		if wedged {
			dump = " " + vxs(goroutineDump()[:min(len(goroutineDump()), 500)])
		}
		c.emit("law.C10.every_request_is_answered "+desc+dump, vtf(!wedged))
	}
}

// abandoned clients: complete requests arrive on the HTTP frontends and the saslauthd socket while
// the dispatcher is busy (held inside a login), and the clients go away before they are served.
// Whatever the frontends do about a vanished client, the dispatcher must get rid of those
// requests and keep answering everybody else.
func suiteV10abandon(c *vctx) {
	r := c.r
	n := 16
	if c.thorough() {
		n = 160
	}
	n = max(n/c.nshards, 1)
	for i := 0; i < n; i++ {
		mode := []string{"", "local", "http://127.0.0.1:1/api/update"}[r.Intn(3)]
		a, err := newVAgent(c, fmt.Sprintf("ab%d", i), 1, mode, "", "", "")
		if err != nil {
			continue
		}
		rootpw := "Root-Passw0rd"
		a.iface.Init("root", rootpw)
		a.iface.Add("u1", "Init-u1", false)
		srv := httptest.NewServer(a.mux)
		sock := filepath.Join(c.work, fmt.Sprintf("ab%d.sock", i))
		go runSaslAuthSocket(sock, a.iface) //nolint:errcheck
		for k := 0; k < 100; k++ {
			if _, err := os.Stat(sock); err == nil {
				break
			}
			time.Sleep(5 * time.Millisecond)
		}
		g := a.installGate()
		hold := &creq{kind: "auth", user: "root", pw: rootpw}
		a.launch(hold)
		held := false
		select {
		case <-g.ev:
			held = true
		case <-time.After(3 * time.Second):
		}
		nab := 1 + r.Intn(6)
		kinds := ""
		for k := 0; k < nab; k++ {
			switch kind := r.Intn(3); kind {
			case 0, 1:
				cn, err := net.Dial("tcp", srv.Listener.Addr().String())
				if err != nil {
					continue
				}
				if kind == 0 {
					body := `{"username":"u1","password":"Init-u1"}`
					fmt.Fprintf(cn, "POST /api/authenticate HTTP/1.1\r\nHost: x\r\nContent-Type: application/json\r\nContent-Length: %d\r\n\r\n%s", len(body), body)
					kinds += "api,"
				} else {
					fmt.Fprintf(cn, "GET /basic-auth HTTP/1.1\r\nHost: x\r\nAuthorization: Basic %s\r\n\r\n", b64std([]byte("u1:Init-u1")))
					kinds += "basic,"
				}
				time.Sleep(time.Duration(5+r.Intn(40)) * time.Millisecond)
				cn.Close()
			default:
				cn, err := net.Dial("unix", sock)
				if err != nil {
					continue
				}
				q := &sasl.Request{Login: "u1", Password: "Init-u1", Service: "s", Realm: "r"}
				q.Encode(cn) //nolint:errcheck
				time.Sleep(time.Duration(5+r.Intn(40)) * time.Millisecond)
				cn.Close()
				kinds += "sasl,"
			}
		}
		time.Sleep(60 * time.Millisecond) // the servers notice that their clients are gone
		g.mu.Lock()
		g.free = true
		g.mu.Unlock()
		if held {
			g.release <- true
		}
		wd := 4 * time.Second
		answered := true
		select {
		case <-hold.done:
		case <-time.After(wd):
			answered = false
		}
		probe := &creq{kind: "check"}
		a.launch(probe)
		select {
		case <-probe.done:
		case <-time.After(wd):
			answered = false
		}
		// and a well-behaved client on each frontend
		okSasl := make(chan bool, 1)
		go func() { ok, _, err := sasl.NewClient(sock).Auth("u1", "Init-u1", "s", "r"); okSasl <- ok && err == nil }()
		select {
		case ok := <-okSasl:
			answered = answered && ok
		case <-time.After(wd):
			answered = false
		}
		dump := ""
		if !answered {
			dump = " " + vxs(goroutineDump()[:min(len(goroutineDump()), 500)])
		}
		c.emit(fmt.Sprintf("law.C10.every_request_is_answered abandoned-clients mode=%s n=%d kinds=%s held=%s%s", vxs(mode), nab, kinds, vtf(held), dump), vtf(answered))
		srv.CloseClientConnections()
		go srv.Close()
		os.Remove(sock)
		os.RemoveAll(a.dirPath)
	}
}

// descriptor exhaustion: the process runs out of file descriptors while a client connects (a burst
// of idle clients, a low `ulimit -n`): accept(2) fails with EMFILE. When descriptors are available
// again every frontend must still be there and answer.
func suiteV10fd(c *vctx) {
	if c.shard != 0 {
		return
	}
	rounds := 2
	if c.thorough() {
		rounds = 10
	}
	for i := 0; i < rounds; i++ {
		a, err := newVAgent(c, fmt.Sprintf("fd%d", i), 1, "", "", "", "")
		if err != nil {
			continue
		}
		a.iface.Init("root", "Root-Passw0rd")
		a.iface.Add("u1", "Init-u1", false)
		sock := filepath.Join(c.work, fmt.Sprintf("fd%d.sock", i))
		go runSaslAuthSocket(sock, a.iface) //nolint:errcheck
		srv := httptest.NewServer(a.mux)
		for k := 0; k < 100; k++ {
			if _, err := os.Stat(sock); err == nil {
				break
			}
			time.Sleep(5 * time.Millisecond)
		}
		// a first request on each frontend (everything is up)
		ok0, _, err0 := sasl.NewClient(sock).Auth("u1", "Init-u1", "s", "r")
		var old syscall.Rlimit
		syscall.Getrlimit(syscall.RLIMIT_NOFILE, &old)
		ents, _ := os.ReadDir("/proc/self/fd")
		low := old
		low.Cur = uint64(len(ents) + 48)
		if low.Cur > old.Max {
			low.Cur = old.Max
		}
		syscall.Setrlimit(syscall.RLIMIT_NOFILE, &low)
		var held []*os.File
		for len(held) < 4096 {
			f, err := os.Open("/dev/null")
			if err != nil {
				break
			}
			held = append(held, f)
		}
		exhausted := len(held) < 4096
		var conns []net.Conn
		for k := 0; k < 3 && len(held) > 0; k++ {
			// exactly one free descriptor: the client's socket takes it, the server's accept finds none
			held[len(held)-1].Close()
			held = held[:len(held)-1]
			if cn, err := net.Dial("unix", sock); err == nil {
				conns = append(conns, cn)
			}
			if cn, err := net.Dial("tcp", srv.Listener.Addr().String()); err == nil {
				conns = append(conns, cn)
			}
			time.Sleep(40 * time.Millisecond)
		}
		for _, f := range held {
			f.Close()
		}
		for _, cn := range conns {
			cn.Close()
		}
		syscall.Setrlimit(syscall.RLIMIT_NOFILE, &old)
		time.Sleep(50 * time.Millisecond)
		// every frontend still answers
		res := make(chan string, 2)
		go func() {
			ok, _, err := sasl.NewClient(sock).Auth("u1", "Init-u1", "s", "r")
			res <- fmt.Sprintf("sasl ok=%v err=%v", ok, err)
		}()
		go func() {
			req, _ := http.NewRequest("GET", srv.URL+"/basic-auth", nil)
			req.SetBasicAuth("u1", "Init-u1")
			resp, err := (&http.Client{Timeout: 4 * time.Second}).Do(req)
			st := -1
			if err == nil {
				st = resp.StatusCode
				resp.Body.Close()
			}
			res <- fmt.Sprintf("http status=%d", st)
		}()
		got := ""
		good := true
		for k := 0; k < 2; k++ {
			select {
			case r := <-res:
				got += r + "; "
				good = good && (r == "sasl ok=true err=<nil>" || r == "http status=200")
			case <-time.After(5 * time.Second):
				good = false
				got += "no answer; "
			}
		}
		c.emit(fmt.Sprintf("law.C10.agent_keeps_accepting after-descriptor-exhaustion before=%v/%v exhausted=%s %s", ok0, err0, vtf(exhausted), vxs(got)), vtf(good && ok0))
		go srv.Close()
		os.Remove(sock)
		os.RemoveAll(a.dirPath)
	}
}

func mode2(m string) string {
	if m == "" || m == "local" {
		return m
	}
	return "remote"
}

func init() {
	vsuites["v10"] = suiteV10
	vsuites["v10adv"] = suiteV10adv
	vsuites["v10ab"] = suiteV10abandon
	vsuites["v10fd"] = suiteV10fd
}

var _ = filepath.Join
