package main

import (
	"fmt"
	"os"
	"os/exec"
	"path/filepath"
	"sort"
	"strconv"
	"strings"
	"time"
)

const hookScript = `#!/bin/sh
echo "$(date +%%s%%N) $(basename "$0") $# $1 $WHAWTY_AUTH_STORE" >> "%s"
`

type hookRun struct {
	ns    int64
	name  string
	nargs string
	arg   string
	store string
}

func readHookLog(path string) []hookRun {
	b, _ := os.ReadFile(path)
	var out []hookRun
	for _, l := range strings.Split(string(b), "\n") {
		f := strings.Fields(l)
		if len(f) < 3 {
			continue
		}
		ns, _ := strconv.ParseInt(f[0], 10, 64)
		r := hookRun{ns: ns, name: f[1], nargs: f[2]}
		if len(f) > 3 {
			r.arg = f[3]
		}
		if len(f) > 4 {
			r.store = f[4]
		}
		out = append(out, r)
	}
	sort.Slice(out, func(i, j int) bool { return out[i].ns < out[j].ns })
	return out
}

func intsTok(xs []int64) string {
	if len(xs) == 0 {
		return "[]"
	}
	p := make([]string, len(xs))
	for i, x := range xs {
		p[i] = fmt.Sprint(x)
	}
	return "[" + strings.Join(p, ",") + "]"
}

// newHC: a hooks caller built by the real constructor (which also starts its loop), with a short
// rate-limit interval.
func newHC(dir, store string, R time.Duration) *HooksCaller {
	h, err := NewHooksCaller(dir, store)
	if err != nil {
		panic(err)
	}
	h.rateLimit = R
	return h
}

func suiteV19(c *vctx) {
	r := c.r
	// the agent's own environment already carries the variable the hooks are given (an exported shell
	// variable, an env file shared with the sync scripts): the hooks must see the store's directory
	os.Setenv("WHAWTY_AUTH_STORE", "/some/other/store-from-the-agents-environment")
	// (4) a hanging hook is killed after its time limit and never delays the agent: runs beside
	// the rest of the suite (it only sleeps), in one shard
	var hang chan bool
	if c.shard == 0 {
		hang = make(chan bool)
		go hangingHooks(c, hang)
	}
	R := 400 * time.Millisecond
	Rms := int64(R / time.Millisecond)
	// (1) timing patterns of notifications against the rate-limit timer
	npat := 10
	if c.thorough() {
		npat = 80
	}
	npat = max(npat/c.nshards, 2)
	for pi := 0; pi < npat; pi++ {
		dir := filepath.Join(c.work, fmt.Sprintf("hk%d", pi))
		os.RemoveAll(dir)
		os.MkdirAll(dir, 0755)
		log := filepath.Join(c.work, fmt.Sprintf("hk%d.log", pi))
		os.Remove(log)
		os.WriteFile(filepath.Join(dir, "hook.sh"), []byte(fmt.Sprintf(hookScript, log)), 0755)
		h := newHC(dir, "/store/"+fmt.Sprint(pi), R)
		// offsets (ms) of the notifications: 0, 1, 2, many per interval; bursts; spaced around the timer
		var offs []int64
		switch pi % 7 {
		case 0:
			offs = []int64{0}
		case 1:
			offs = []int64{0, 100}
		case 2:
			offs = []int64{0, 50, 100, 150, 200, 250}
		case 3:
			offs = []int64{0, 100, 700, 800}
		case 4:
			offs = []int64{0, 600, 1200}
		case 5: // just before / just after the timer fires (either outcome is acceptable)
			offs = []int64{0, 100, Rms - 20 + int64(r.Intn(40)), Rms + 150}
		default:
			t := int64(0)
			for k := 0; k < 3+r.Intn(8); k++ {
				offs = append(offs, t)
				t += int64(r.Pick(10, 60, 150, 450, 900))
			}
		}
		start := time.Now()
		var notifies []int64
		nearTimer := false
		for _, o := range offs {
			time.Sleep(time.Until(start.Add(time.Duration(o) * time.Millisecond)))
			notifies = append(notifies, time.Now().UnixNano()/1e6)
			h.Notify <- true
		}
		time.Sleep(2*R + 200*time.Millisecond)
		runs := readHookLog(log)
		var runMs []int64
		good := true
		for _, x := range runs {
			runMs = append(runMs, x.ns/1e6)
			if x.nargs != "1" || x.arg != "update" || x.store != h.store {
				good = false
			}
		}
		// a simulated deadline close to a notification makes the count ambiguous
		c.emit(fmt.Sprintf("hooks.log %d 150 %s %s", Rms, intsTok(notifies), intsTok(runMs)), "t")
		c.emit(fmt.Sprintf("law.C19.hook_started_with_update_and_store pattern=%d", pi%7), vtf(good && len(runs) > 0))
		// exact number of rounds predicted by the model when no notification is within 60 ms of a deadline
		dl := int64(-1 << 62)
		pending := 0
		for _, n := range notifies {
			if pending > 0 && n >= dl-60 && n <= dl+60 {
				nearTimer = true
			}
			if pending > 0 && n > dl {
				pending = 0
			}
			if pending == 0 {
				dl = n + Rms
			}
			pending++
		}
		if !nearTimer {
			c.emit(fmt.Sprintf("hooks.count %d %s", Rms, intsTok(notifies)), fmt.Sprint(len(runs)))
		}
		os.RemoveAll(dir)
	}
	// (2) eligibility: every file-type x permission class
	ents := []hookEnt{{"ok755", "reg", 0755}, {"ok700", "reg", 0700}, {"ok100", "reg", 0100}, {"ok010", "reg", 0010}, {"ok001", "reg", 0001},
		{"no644", "reg", 0644}, {"no600", "reg", 0600}, {"no000", "reg", 0000}, {".hidden755", "reg", 0755}, {"..dots", "reg", 0755},
		{"linkexec", "symexec", 0}, {"linknoexec", "symnoexec", 0}, {"linkdangling", "symdangling", 0}, {".hiddenlink", "symexec", 0},
		{"subdir", "dir", 0755}, {"ok4755", "reg", 0755 | os.ModeSetuid}}
	for _, dirMode := range []os.FileMode{0755, 0700, 0775, 0777, 0757, 0752} {
		if !c.mine(int(dirMode)) {
			continue
		}
		dir := filepath.Join(c.work, fmt.Sprintf("el%o", dirMode))
		os.RemoveAll(dir)
		os.MkdirAll(dir, 0755)
		log := filepath.Join(c.work, fmt.Sprintf("el%o.log", dirMode))
		os.Remove(log)
		tdir := filepath.Join(c.work, fmt.Sprintf("targets%o", dirMode))
		os.MkdirAll(tdir, 0755)
		os.WriteFile(filepath.Join(tdir, "texec"), []byte(fmt.Sprintf(hookScript, log)), 0755)
		os.WriteFile(filepath.Join(tdir, "tnoexec"), []byte(fmt.Sprintf(hookScript, log)), 0644)
		for _, e := range ents {
			p := filepath.Join(dir, e.name)
			switch e.kind {
			case "reg":
				os.WriteFile(p, []byte(fmt.Sprintf(hookScript, log)), 0755)
				os.Chmod(p, e.perm)
			case "symexec":
				os.Symlink(filepath.Join(tdir, "texec"), p)
			case "symnoexec":
				os.Symlink(filepath.Join(tdir, "tnoexec"), p)
			case "symdangling":
				os.Symlink(filepath.Join(tdir, "missing"), p)
			case "dir":
				os.Mkdir(p, 0755)
			}
		}
		os.Chmod(dir, dirMode)
		h := newHC(dir, "/s", R)
		h.Notify <- true
		time.Sleep(500 * time.Millisecond)
		ran := map[string]bool{}
		for _, x := range readHookLog(log) {
			ran[x.name] = true
		}
		for _, e := range ents {
			st, err := os.Lstat(filepath.Join(dir, e.name))
			if err != nil {
				continue
			}
			reg, sym := st.Mode().IsRegular(), st.Mode()&os.ModeSymlink != 0
			if e.kind != "symnoexec" && e.kind != "symdangling" {
				// (a symlink whose target cannot be executed is attempted by the code but never runs: the
				// attempt itself is not observable, so these two kinds are judged by the law below only)
				c.emit(fmt.Sprintf("hooks.eligible %s %s %s %s %d", vtf(dirMode&02 != 0), vxs(e.name), vtf(reg), vtf(sym), int(st.Mode().Perm())), vtf(ran[e.name]))
			}
			// the property, directly: ineligible files are never executed
			elig := dirMode&02 == 0 && !strings.HasPrefix(e.name, ".") && (e.kind == "reg" && e.perm&0111 != 0 || e.kind == "symexec")
			c.emit(fmt.Sprintf("law.C19.only_eligible_hooks_run dir=%o %s", dirMode, e.name), vtf(ran[e.name] == elig))
		}
		os.Chmod(dir, 0755)
		os.RemoveAll(dir)
	}
	// (5) a hook that is still running when the next round is due, and then ends badly (non-zero exit, killed
	// by a signal) or well: the change that arrived while it was alive is followed by a start of the hook
	if c.mine(5) {
		for ki, ending := range []string{"exit 1", "kill -9 $$", "exit 0", "exit 1"} {
			dir := filepath.Join(c.work, fmt.Sprintf("slow%d", ki))
			os.RemoveAll(dir)
			os.MkdirAll(dir, 0755)
			log := filepath.Join(c.work, fmt.Sprintf("slow%d.log", ki))
			os.Remove(log)
			// runs for 1.5 R, then ends; the LAST change arrives while it is alive (the last variant: alive
			// over two further rounds, 3.5 R)
			dur := 3 * Rms / 2
			offs := []int64{0, Rms + 100}
			if ki == 3 {
				dur = 7 * Rms / 2
				offs = []int64{0, Rms + 100, 2*Rms + 250}
			}
			os.WriteFile(filepath.Join(dir, "hook.sh"), []byte(fmt.Sprintf(hookScript, log)+fmt.Sprintf("sleep %d.%03d\n%s\n", dur/1000, dur%1000, ending)), 0755)
			h := newHC(dir, "/slow", R)
			start := time.Now()
			var last int64
			for _, o := range offs {
				time.Sleep(time.Until(start.Add(time.Duration(o) * time.Millisecond)))
				last = time.Now().UnixNano()
				h.Notify <- true
			}
			time.Sleep(time.Duration(dur)*time.Millisecond + 2*R)
			followed := false
			runs := readHookLog(log)
			for _, x := range runs {
				followed = followed || x.ns >= last
			}
			c.emit(fmt.Sprintf("law.C19.change_during_running_hook_is_followed_by_a_start ending=%s runs=%d", strings.ReplaceAll(ending, " ", "_"), len(runs)), vtf(followed))
			os.RemoveAll(dir)
		}
	}
	// (3) through the agent: successful changes notify, failed operations do not
	if c.mine(3) {
		dir := filepath.Join(c.work, "aghooks")
		os.RemoveAll(dir)
		os.MkdirAll(dir, 0755)
		log := filepath.Join(c.work, "aghooks.log")
		os.Remove(log)
		os.WriteFile(filepath.Join(dir, "hook.sh"), []byte(fmt.Sprintf(hookScript, log)), 0755)
		a, err := newVAgent(c, "hookagent", 1, "", "", "", dir)
		if err == nil {
			a.st.hooks.rateLimit = R
			count := func() int { return len(readHookLog(log)) }
			a.iface.Init("root", "Root-Passw0rd")
			time.Sleep(2*R + 200*time.Millisecond)
			_ = count() // init is not among the operations the property lists: nothing to judge
			type op struct {
				name string
				f    func() error
				ok   bool
			}
			ops := []op{
				{"add-ok", func() error { return a.iface.Add("alice", "Alice-Passw0rd", false) }, true},
				{"add-exists", func() error { return a.iface.Add("alice", "x", false) }, false},
				{"update-missing", func() error { return a.iface.Update("nobody", "x") }, false},
				{"update-ok", func() error { return a.iface.Update("alice", "Alice-2") }, true},
				{"setadmin-missing", func() error { return a.iface.SetAdmin("nobody", true) }, false},
				{"setadmin-ok", func() error { return a.iface.SetAdmin("alice", true) }, true},
				{"auth", func() error { _, _, _, e := a.iface.Authenticate("alice", "Alice-2"); return e }, false},
				{"list", func() error { _, e := a.iface.List(); return e }, false},
				{"add-invalid-name", func() error { return a.iface.Add("../x", "pw", false) }, false},
				{"remove-ok", func() error { return a.iface.Remove("alice") }, true},
			}
			for _, o := range ops {
				before := count()
				t0 := time.Now().UnixNano()
				o.f()
				time.Sleep(2*R + 200*time.Millisecond)
				after := readHookLog(log)
				notified := len(after) > before
				timely := true
				for _, x := range after[before:] {
					if x.ns < t0 || x.store != a.dirPath || x.arg != "update" {
						timely = false
					}
				}
				c.emit("law.C19.notify_exactly_on_success op="+o.name, vtf(notified == o.ok && timely))
			}
		}
	}
	if hang != nil {
		<-hang
	}
}

// hangingHooks: hooks that never return on their own — a plain sleeper, a shell that ignores
// SIGTERM / SIGHUP / SIGINT, and one that blocks these signals and waits for a child — are
// started through a real agent; the agent must answer at once, the hooks must be alive after
// 10 s (the hang is real) and gone after the one-minute limit (hard-coded in runHook).
func hangingHooks(c *vctx, done chan bool) {
	defer close(done)
	dir := filepath.Join(c.work, "hang")
	os.RemoveAll(dir)
	os.MkdirAll(dir, 0755)
	kinds := map[string]string{
		"sleeper":     "exec sleep 600\n",
		"ignore-term": "trap '' TERM HUP INT QUIT\nwhile :; do sleep 1; done\n",
		"wait-child":  "trap '' TERM HUP INT\nsleep 600 &\necho $! > " + filepath.Join(c.work, "hang-child.pid") + "\nwait\nwait\n",
	}
	for k, body := range kinds {
		os.WriteFile(filepath.Join(dir, k+".sh"), []byte("#!/bin/sh\necho $$ > "+filepath.Join(c.work, "hang-"+k+".pid")+"\n"+body), 0755)
	}
	a, err := newVAgent(c, "hangagent", 1, "", "", "", dir)
	if err != nil {
		c.emit("law.C19.agent_starts hang "+vxs(err.Error()), "f")
		return
	}
	a.iface.Init("root", "Root-Passw0rd")
	t0 := time.Now()
	aerr := a.iface.Add("u1", "Init-u1", false) // a successful change: the hooks are started
	resp := time.Since(t0)
	ok2 := a.iface.Check() == nil
	c.emit("law.C19.hanging_hook_never_delays_agent", vtf(aerr == nil && resp < 2*time.Second && ok2))
	alive := func(k string) (string, bool) {
		b, _ := os.ReadFile(filepath.Join(c.work, "hang-"+k+".pid"))
		pid := strings.TrimSpace(string(b))
		if pid == "" {
			return "", false
		}
		st, err := os.ReadFile("/proc/" + pid + "/stat")
		return pid, err == nil && !strings.Contains(string(st), ") Z ")
	}
	time.Sleep(10 * time.Second)
	for k := range kinds {
		pid, al := alive(k)
		c.emit("law.C19.hanging_hook_was_started_and_hangs kind="+k, vtf(pid != "" && al))
	}
	time.Sleep(time.Until(t0.Add(66 * time.Second)))
	for k := range kinds {
		pid, al := alive(k)
		c.emit("law.C19.hanging_hook_killed_after_limit kind="+k, vtf(pid != "" && !al))
		if al { // do not leave it behind
			exec.Command("kill", "-9", pid).Run()
		}
	}
	if b, err := os.ReadFile(filepath.Join(c.work, "hang-child.pid")); err == nil {
		exec.Command("kill", "-9", strings.TrimSpace(string(b))).Run() // the orphaned sleeper of wait-child
	}
}

type hookEnt struct {
	name string
	kind string // reg | symexec | symnoexec | symdangling | dir
	perm os.FileMode
}

func init() { vsuites["v19"] = suiteV19 }
