// Correspondence harness for package main of cmd/whawty-auth. These files are NOT part of
// /repo: they are injected with `go test -c -overlay` (see /verif/lib/suites.py), so that the
// unexported agent code (store dispatcher, hooks, web API, sessions, policy) can be driven
// in-process. One test function; the suite is selected by VERIF_SUITE.
package main

import (
	"bufio"
	"encoding/hex"
	"fmt"
	"os"
	"strconv"
	"strings"
	"sync"
	"testing"
	"time"
)

type vrng struct{ s uint64 }

func newVrng(seed uint64) *vrng { return &vrng{s: seed*0x9E3779B97F4A7C15 + 0x1234567} }
func (r *vrng) U64() uint64 {
	r.s += 0x9E3779B97F4A7C15
	z := r.s
	z = (z ^ (z >> 30)) * 0xBF58476D1CE4E5B9
	z = (z ^ (z >> 27)) * 0x94D049BB133111EB
	return z ^ (z >> 31)
}
func (r *vrng) Intn(n int) int {
	if n <= 0 {
		return 0
	}
	return int(r.U64() % uint64(n))
}
func (r *vrng) Bool() bool { return r.U64()&1 == 1 }
func (r *vrng) Bytes(n int) []byte {
	b := make([]byte, n)
	for i := range b {
		b[i] = byte(r.U64())
	}
	return b
}
func (r *vrng) Pick(xs ...int) int { return xs[r.Intn(len(xs))] }

type vctx struct {
	w       *bufio.Writer
	r       *vrng
	seed    uint64
	tier    string
	shard   int
	nshards int
	work    string
	t       *testing.T
	mu      sync.Mutex
}

func (c *vctx) thorough() bool  { return c.tier == "thorough" }
func (c *vctx) mine(i int) bool { return i%c.nshards == c.shard }
func (c *vctx) emit(cmd, real string) {
	c.mu.Lock()
	fmt.Fprintf(c.w, "%s => %s\n", cmd, real)
	c.mu.Unlock()
}

func vxb(b []byte) string { return "x" + hex.EncodeToString(b) }
func vxs(s string) string { return "x" + hex.EncodeToString([]byte(s)) }
func vtf(b bool) string {
	if b {
		return "t"
	}
	return "f"
}
func vxl(l [][]byte) string {
	if len(l) == 0 {
		return "[]"
	}
	p := make([]string, len(l))
	for i, b := range l {
		p[i] = vxb(b)
	}
	return "[" + strings.Join(p, ",") + "]"
}

var vsuites = map[string]func(*vctx){}

func TestVerif(t *testing.T) {
	name := os.Getenv("VERIF_SUITE")
	if name == "" {
		t.Skip("VERIF_SUITE not set")
	}
	f, ok := vsuites[name]
	if !ok {
		t.Fatalf("unknown suite %q", name)
	}
	seed, _ := strconv.ParseUint(os.Getenv("VERIF_SEED"), 10, 64)
	shard, _ := strconv.Atoi(os.Getenv("VERIF_SHARD"))
	nsh, _ := strconv.Atoi(os.Getenv("VERIF_NSHARDS"))
	if nsh < 1 {
		nsh = 1
	}
	out, err := os.Create(os.Getenv("VERIF_OUT"))
	if err != nil {
		t.Fatal(err)
	}
	defer out.Close()
	c := &vctx{seed: seed, tier: os.Getenv("VERIF_TIER"), shard: shard, nshards: nsh, work: os.Getenv("VERIF_WORK"), t: t}
	c.r = newVrng(seed*1000003 + uint64(shard))
	c.w = bufio.NewWriterSize(out, 1<<20)
	defer c.w.Flush()
	f(c)
}

// bounded runs f and reports whether it returned within d (a wedged agent must not wedge the harness).
func bounded(d time.Duration, f func()) bool {
	done := make(chan bool, 1)
	go func() { f(); done <- true }()
	select {
	case <-done:
		return true
	case <-time.After(d):
		return false
	}
}
