package main

import (
	"bytes"
	"encoding/json"
	"fmt"
	"io"
	"net"
	"net/http"
	"os"
	"os/exec"
	"path/filepath"
	"strings"
	"time"

	"github.com/glauth/ldap"
	"github.com/whawty/auth/sasl"
)

// ldapBindVerdict performs one simple bind over the wire. ok=false: the transport failed (dial
// error, network error code): no verdict was obtained, nothing is judged.
func ldapBindVerdict(addr, dn, pw string) (accepted, ok bool) {
	for try := 0; try < 3; try++ {
		cn, err := ldap.DialTimeout("tcp", addr, 5*time.Second)
		if err != nil {
			time.Sleep(50 * time.Millisecond)
			continue
		}
		berr := cn.Bind(dn, pw)
		cn.Close()
		if berr == nil {
			return true, true
		}
		if le, isLdap := berr.(*ldap.Error); isLdap && le.ResultCode != ldap.ErrorNetwork && le.ResultCode < 200 {
			return false, true // an LDAP result code from the server: a verdict
		}
		time.Sleep(50 * time.Millisecond)
	}
	return false, false
}

func freePort() string {
	ln, err := net.Listen("tcp", "127.0.0.1:0")
	if err != nil {
		return "127.0.0.1:0"
	}
	defer ln.Close()
	return ln.Addr().String()
}

// suiteVbin: the BUILT BINARY (`whawty-auth run`) with all plain-text listeners configured in a
// listener file: saslauthd socket, HTTP (basic-auth + API), LDAP. Credentials go over the real
// sockets; every verdict is compared with the store library on the same directory (C04), and a
// few management requests check the session gates end to end (C06).
func suiteVbin(c *vctx) {
	bin := os.Getenv("VERIF_BIN")
	if bin == "" || c.shard != 0 {
		return
	}
	r := c.r
	a, err := newVAgent(c, "binagent", 1, "", "", "", "")
	if err != nil {
		return
	}
	pws := map[string]string{"root": "Root-Passw0rd", "alice": "pa:ss word", "bob": "B0b-äöü", "a@b": "at-Passw0rd"}
	a.ref.Init("root", pws["root"])
	for _, u := range []string{"alice", "bob", "a@b"} {
		a.ref.AddUser(u, pws[u], false)
	}
	sock := filepath.Join(c.work, "bin.sock")
	httpAddr, ldapAddr := freePort(), freePort()
	lcfg := filepath.Join(c.work, "bin-listener.yaml")
	os.WriteFile(lcfg, []byte(fmt.Sprintf("saslauthd:\n  listen:\n    - %q\nhttp:\n  listen:\n    - %q\nldap:\n  listen:\n    - %q\n", sock, httpAddr, ldapAddr)), 0600)
	cmd := exec.Command(bin, "--store", a.cfgPath, "run", "--listener", lcfg)
	cmd.Env = append(os.Environ(), "WHAWTY_AUTH_DO_UPGRADES=", "WHAWTY_AUTH_POLICY_TYPE=", "WHAWTY_AUTH_HOOKS_DIR=")
	var logb bytes.Buffer
	cmd.Stdout, cmd.Stderr = &logb, &logb
	if err := cmd.Start(); err != nil {
		c.emit("law.C04.binary_starts "+vxs(err.Error()), "f")
		return
	}
	defer func() { cmd.Process.Kill(); cmd.Wait() }()
	up := false
	for k := 0; k < 100 && !up; k++ {
		time.Sleep(30 * time.Millisecond)
		if cn, err := net.Dial("tcp", httpAddr); err == nil {
			cn.Close()
			if _, err := os.Stat(sock); err == nil {
				if c2, err := net.Dial("tcp", ldapAddr); err == nil {
					c2.Close()
					up = true
				}
			}
		}
	}
	c.emit("law.C04.binary_serves_all_listeners "+vxs(logb.String()[:min(len(logb.String()), 300)]), vtf(up))
	if !up {
		return
	}
	hc := &http.Client{Timeout: 20 * time.Second}
	post := func(ep string, body interface{}) (int, map[string]interface{}) {
		b, _ := json.Marshal(body)
		resp, err := hc.Post("http://"+httpAddr+"/api/"+ep, "application/json", bytes.NewReader(b))
		if err != nil {
			return -1, nil
		}
		defer resp.Body.Close()
		rb, _ := io.ReadAll(resp.Body)
		var m map[string]interface{}
		json.Unmarshal(rb, &m)
		return resp.StatusCode, m
	}
	names := []string{"root", "alice", "bob", "a@b", "alice@example.org", "nobody", "Alice", "./alice", "a"}
	n := 40
	if c.thorough() {
		n = 400
	}
	sc := sasl.NewClient(sock)
	for i := 0; i < n; i++ {
		u := names[r.Intn(len(names))]
		p := pws[u]
		switch r.Intn(4) {
		case 0:
			p = "wrong-" + p
		case 1:
			p = pws[names[r.Intn(4)]]
		}
		if p == "" {
			p = "x"
		}
		ref, _, _, _, _ := a.ref.Authenticate(u, p)
		id := fmt.Sprintf("binary %s %s", vxs(u), vxs(p))
		if ok, _, err := sc.Auth(u, p, "svc", "realm"); err == nil {
			c.emit("law.C04.sasl_socket_equals_store "+id, vtf(ok == ref))
		} else if len(u) <= 256 && len(p) <= 256 && u != "" {
			c.emit("law.C04.sasl_socket_answers "+id+" "+vxs(err.Error()), "f")
		}
		req, _ := http.NewRequest("GET", "http://"+httpAddr+"/basic-auth", nil)
		req.SetBasicAuth(u, p)
		if resp, err := hc.Do(req); err == nil {
			resp.Body.Close()
			if !strings.Contains(u, ":") {
				c.emit("law.C04.basic_auth_equals_store "+id, vtf((resp.StatusCode == 200) == ref))
			}
		}
		if code, _ := post("authenticate", map[string]string{"username": u, "password": p}); code > 0 {
			c.emit("law.C04.api_authenticate_equals_store "+id, vtf((code == 200) == ref))
		}
		cutu := u
		if j := strings.IndexByte(u, '@'); j >= 0 {
			cutu = u[:j]
		}
		lref, _, _, _, _ := a.ref.Authenticate(cutu, p)
		if acc, got := ldapBindVerdict(ldapAddr, u, p); got {
			c.emit("law.C04.ldap_wire_bind_equals_store_for_name_up_to_at "+id, vtf(acc == lref))
		}
	}
	// C06 end to end: sessions and gates through the running binary
	_, m := post("authenticate", map[string]string{"username": "root", "password": pws["root"]})
	adminTok, _ := m["session"].(string)
	_, m = post("authenticate", map[string]string{"username": "alice", "password": pws["alice"]})
	userTok, _ := m["session"].(string)
	c.emit("law.C06.token_issued_after_successful_login binary", vtf(adminTok != "" && userTok != ""))
	type mreq struct {
		ep     string
		body   map[string]interface{}
		allow  bool
		change bool
	}
	for i, q := range []mreq{
		{"add", map[string]interface{}{"session": userTok, "username": "eve", "password": "Eve-Passw0rd", "admin": true}, false, false},
		{"add", map[string]interface{}{"username": "eve", "password": "Eve-Passw0rd", "admin": true}, false, false},
		{"list", map[string]interface{}{"session": userTok}, false, false},
		{"list-full", map[string]interface{}{"session": "Zm9v:YmFy"}, false, false},
		{"remove", map[string]interface{}{"session": userTok, "username": "bob"}, false, false},
		{"set-admin", map[string]interface{}{"session": userTok, "username": "alice", "admin": true}, false, false},
		{"update", map[string]interface{}{"session": userTok, "username": "bob", "newpassword": "Stolen-Passw0rd"}, false, false},
		{"update", map[string]interface{}{"username": "bob", "oldpassword": "wrong", "newpassword": "Stolen-Passw0rd"}, false, false},
		{"update", map[string]interface{}{"session": userTok, "username": "bob", "oldpassword": pws["bob"], "newpassword": "Both-Passw0rd"}, false, false},
		{"list", map[string]interface{}{"session": adminTok}, true, false},
		{"add", map[string]interface{}{"session": adminTok, "username": "carol", "password": "Carol-Passw0rd", "admin": false}, true, true},
		{"update", map[string]interface{}{"session": userTok, "username": "alice", "newpassword": "Alice-New-Passw0rd"}, true, true},
		{"update", map[string]interface{}{"username": "bob", "oldpassword": pws["bob"], "newpassword": "Bob-New-Passw0rd"}, true, true},
	} {
		pre := dirDigest(a.dirPath)
		code, resp := post(q.ep, q.body)
		changed := dirDigest(a.dirPath) != pre
		listed := false // a user list is disclosed: a non-empty "list" member
		switch l := resp["list"].(type) {
		case map[string]interface{}:
			listed = len(l) > 0
		case []interface{}:
			listed = len(l) > 0
		}
		desc := fmt.Sprintf("binary #%d ep=%s status=%d", i, q.ep, code)
		if q.allow {
			c.emit("law.C06.authorised_request_takes_effect "+desc, vtf(code == 200 && changed == q.change))
		} else {
			c.emit("law.C06.refused_request_changes_and_discloses_nothing "+desc, vtf(code != 200 && code > 0 && !changed && !listed))
		}
	}
	os.RemoveAll(a.dirPath)
}

func init() { vsuites["vbin"] = suiteVbin }
