package main

import (
	"bytes"
	"fmt"
	"os"
	"path/filepath"
	"sort"
	"strings"
	"sync"
	"sync/atomic"
	"time"
)

func opTok(q *creq, ret string, inv, res int64) string {
	switch q.kind {
	case "auth":
		return fmt.Sprintf("auth:%s:%s:%s:%d:%d", vxs(q.user), vxs(q.pw), ret, inv, res)
	case "update":
		return fmt.Sprintf("update:%s:%s:%s:%d:%d", vxs(q.user), vxs(q.pw), ret, inv, res)
	case "add":
		return fmt.Sprintf("add:%s:%s:%s:%s:%d:%d", vxs(q.user), vxs(q.pw), vtf(q.admin), ret, inv, res)
	case "remove":
		return fmt.Sprintf("remove:%s:%s:%d:%d", vxs(q.user), ret, inv, res)
	case "setadmin":
		return fmt.Sprintf("setadmin:%s:%s:%s:%d:%d", vxs(q.user), vtf(q.admin), ret, inv, res)
	}
	return fmt.Sprintf("list:%s:%d:%d", ret, inv, res)
}

func retOf(q *creq) string {
	switch q.kind {
	case "auth":
		if q.ok {
			return "A" + vtf(q.isAdmin)
		}
		return "F"
	case "list":
		if !q.ok {
			return "F"
		}
		return "U" + q.errs
	}
	if q.ok {
		return "K"
	}
	return "F"
}

// free-running concurrent history with logical time stamps around every call
func (a *vAgent) concurrentHistory(c *vctx, nclients, nops int, users []string, seq *int64) []string {
	var mu sync.Mutex
	var ops []string
	var wg sync.WaitGroup
	for cl := 0; cl < nclients; cl++ {
		wg.Add(1)
		r := newVrng(c.r.U64())
		go func(cl int) {
			defer wg.Done()
			for k := 0; k < nops; k++ {
				u := users[r.Intn(len(users))]
				q := &creq{user: u}
				switch x := r.Intn(12); {
				case x < 4:
					q.kind, q.pw = "auth", a.candidatePw(r, u)
				case x < 7:
					q.kind, q.pw = "update", fmt.Sprintf("P-%d-%d-%d", cl, k, r.Intn(1000))
					a.notePw(u, q.pw)
				case x < 8:
					q.kind, q.pw, q.admin = "add", fmt.Sprintf("A-%d-%d", cl, k), r.Intn(4) == 0
					a.notePw(u, q.pw)
				case x < 9 && u != "root":
					q.kind = "remove"
				case x < 10 && u != "root":
					q.kind, q.admin = "setadmin", r.Bool()
				default:
					q.kind = "list"
				}
				inv := atomic.AddInt64(seq, 1)
				switch q.kind {
				case "auth":
					ok, adm, _, err := a.iface.Authenticate(q.user, q.pw)
					q.ok, q.isAdmin = ok && err == nil, adm
				case "update":
					q.ok = a.iface.Update(q.user, q.pw) == nil
				case "add":
					q.ok = a.iface.Add(q.user, q.pw, q.admin) == nil
				case "remove":
					q.ok = a.iface.Remove(q.user) == nil
				case "setadmin":
					q.ok = a.iface.SetAdmin(q.user, q.admin) == nil
				case "list":
					l, err := a.iface.List()
					q.ok = err == nil
					var names []string
					for n := range l {
						names = append(names, n)
					}
					sort.Strings(names)
					var p []string
					for _, n := range names {
						p = append(p, vxs(n)+"="+vtf(l[n].IsAdmin))
					}
					q.errs = strings.Join(p, ";")
				}
				res := atomic.AddInt64(seq, 1)
				mu.Lock()
				ops = append(ops, opTok(q, retOf(q), inv, res))
				mu.Unlock()
			}
		}(cl)
	}
	wg.Wait()
	return ops
}

func (a *vAgent) notePw(u, p string) {
	a.pwMu.Lock()
	a.pwHist[u] = append(a.pwHist[u], p)
	a.pws[p] = true
	a.pwMu.Unlock()
}

func (a *vAgent) candidatePw(r *vrng, u string) string {
	a.pwMu.Lock()
	defer a.pwMu.Unlock()
	h := a.pwHist[u]
	if len(h) == 0 || r.Intn(5) == 0 {
		return "wrong"
	}
	if r.Intn(3) == 0 {
		return h[r.Intn(len(h))]
	}
	return h[len(h)-1]
}

func suiteV11(c *vctx) {
	r := c.r
	n := 80
	if c.thorough() {
		n = 2000
	}
	n = max(n/c.nshards, 2)
	var seq int64
	for i := 0; i < n; i++ {
		mode := []string{"", "local", "local"}[r.Intn(3)]
		a, err := newVAgent(c, fmt.Sprintf("l%d", i), 1, mode, "", "", "")
		if err != nil {
			c.emit("law.C11.agent_starts "+vxs(err.Error()), "f")
			continue
		}
		a.pwHist = map[string][]string{}
		users := []string{"root", "u1", "u2", "u3"}
		a.iface.Init("root", "Root-Passw0rd")
		a.notePw("root", "Root-Passw0rd")
		for _, u := range users[1:3] {
			a.iface.Add(u, "Init-"+u, false)
			a.notePw(u, "Init-"+u)
			if mode == "local" && r.Bool() {
				a.ref.Default = 2
				a.ref.UpdateUser(u, "Init-"+u)
				a.ref.Default = 1
			}
		}
		if mode == "local" && r.Bool() {
			a.ref.Default = 2
			a.ref.UpdateUser("root", "Root-Passw0rd")
			a.ref.Default = 1
		}
		pre := a.users()
		nclients := 2 + r.Intn(5)
		nops := 1 + r.Intn(3)
		ops := a.concurrentHistory(c, nclients, nops, users, &seq)
		// quiescence: the queued internal upgrades are served before a later request returns… not
		// necessarily (random select): wait until the directory is stable
		last := dirDigest(a.dirPath)
		for k := 0; k < 40; k++ {
			time.Sleep(5 * time.Millisecond)
			a.iface.Check()
			d := dirDigest(a.dirPath)
			if d == last && k > 4 {
				break
			}
			last = d
		}
		post := a.users()
		optok := "-"
		if len(ops) > 0 {
			optok = strings.Join(ops, ",")
		}
		c.emit(fmt.Sprintf("lin.checkf %s %s %s", vUsersTok(pre), optok, vUsersTok(post)), "ok "+vUsersTok(post))
		c.emit(fmt.Sprintf("law.C11.idle_store_passes_check mode=%s clients=%d", mode, nclients), vtf(a.ref.Check() == nil))
		os.RemoveAll(a.dirPath)
	}
}

// gated schedules: the exact execution order is observed (single-stepping through the hasher
// calls), so the history is replayed in that very order.
func suiteV11gated(c *vctx) {
	r := c.r
	n := 48
	if c.thorough() {
		n = 800
	}
	n = max(n/c.nshards, 2)
	for i := 0; i < n; i++ {
		mode := []string{"", "local", "local", "local"}[r.Intn(4)]
		a, err := newVAgent(c, fmt.Sprintf("g%d", i), 1, mode, "", "", "")
		if err != nil {
			c.emit("law.C11.agent_starts "+vxs(err.Error()), "f")
			continue
		}
		rootpw := "Root-Passw0rd"
		a.pwOf = map[string]string{"root": rootpw}
		a.pws[rootpw] = true
		a.iface.Init("root", rootpw)
		users := []string{"u1", "u2", "u3"}
		for _, u := range users {
			p := "Init-" + u
			a.pwOf[u] = p
			a.pws[p] = true
			a.iface.Add(u, p, false)
			if r.Intn(4) != 0 {
				a.ref.Default = 2
				a.ref.UpdateUser(u, p)
				a.ref.Default = 1
			}
		}
		pre := a.users()
		g := a.installGate()
		var batch []*creq
		id := 1
		// the family behind D6: an upgradeable login and an update of the same user in flight together
		perm := r.Intn(len(users))
		nl := 1 + r.Intn(3)
		for k := 0; k < nl; k++ {
			u := users[(perm+k)%len(users)]
			batch = append(batch, &creq{id: id, kind: "auth", user: u, pw: a.pwOf[u]})
			id++
		}
		for k := 0; k < 1+r.Intn(5); k++ {
			u := users[r.Intn(len(users))]
			p := fmt.Sprintf("New-%d-%d", i, id)
			a.pws[p] = true
			batch = append(batch, &creq{id: id, kind: "update", user: u, pw: p})
			id++
		}
		if r.Bool() {
			p := fmt.Sprintf("Add-%d-%d", i, id)
			a.pws[p] = true
			batch = append(batch, &creq{id: id, kind: "add", user: fmt.Sprintf("n%d", id), pw: p, admin: r.Bool()})
			id++
		}
		for k := len(batch) - 1; k > 0; k-- {
			j := r.Intn(k + 1)
			batch[k], batch[j] = batch[j], batch[k]
		}
		res := runSchedule(c, a, g, mode, 1, batch, rootpw, 1500*time.Millisecond)
		if res.stuck {
			c.emit("law.C10.every_request_is_answered gated-c11 mode="+mode, "f")
			continue
		}
		g.mu.Lock()
		g.free = true
		g.mu.Unlock()
		post := a.users()
		var ops []string
		t := int64(0)
		for _, e := range res.order {
			if e.q == nil {
				continue // internal upgrade: not a client call, and (repaired code) no effect on the abstract store
			}
			t += 2
			ops = append(ops, opTok(e.q, retOf(e.q), t, t+1))
		}
		c.emit(fmt.Sprintf("lin.replay %s %s", vUsersTok(pre), strings.Join(ops, ",")), "ok "+vUsersTok(post))
		// the property, directly: per user the password of the last acknowledged update (in
		// execution order) is the one that authenticates afterwards
		last := map[string]string{}
		for _, e := range res.order {
			if e.q != nil && (e.q.kind == "update" || e.q.kind == "add") && e.q.ok {
				last[e.q.user] = e.q.pw
			}
		}
		good := true
		for u, p := range last {
			if ok, _, _, _, _ := a.ref.Authenticate(u, p); !ok {
				good = false
			}
		}
		c.emit(fmt.Sprintf("law.C11.acknowledged_change_never_undone mode=%s batch=%d", mode, len(batch)), vtf(good))
		c.emit(fmt.Sprintf("law.C11.idle_store_passes_check mode=%s gated", mode), vtf(a.ref.Check() == nil))
		os.RemoveAll(a.dirPath)
	}
}

// staged schedules: a login with an upgradeable hash is executed while the dispatcher is held,
// so that its internal upgrade request is queued behind operations on the SAME user that are
// already waiting (remove + add again, update, set-admin + update, ...). Whether the dispatcher
// serves those before or after the upgrade is its random select: every trial is judged by the
// linearizability search including the observed final state, so no order needs to be known.
func suiteV11staged(c *vctx) {
	r := c.r
	n := 192
	if c.thorough() {
		n = 3200
	}
	n = max(n/c.nshards, 6)
	var seq int64
	for i := 0; i < n; i++ {
		a, err := newVAgent(c, fmt.Sprintf("s%d", i), 1, "local", "", "", "")
		if err != nil {
			c.emit("law.C11.agent_starts "+vxs(err.Error()), "f")
			continue
		}
		rootpw := "Root-Passw0rd"
		a.pws[rootpw] = true
		a.iface.Init("root", rootpw)
		users := []string{"u1", "u2"}
		for _, u := range users {
			p := "Init-" + u
			a.pws[p] = true
			a.iface.Add(u, p, u == "u2" && r.Bool())
			a.ref.Default = 2 // re-hash under the non-default set: the next login is upgradeable
			a.ref.UpdateUser(u, p)
			a.ref.Default = 1
		}
		if i%3 == 0 {
			// a large block of auxiliary lines behind the records: every rewrite takes long enough for
			// another request to fall inside it
			for _, u := range users {
				for _, ext := range []string{".user", ".admin"} {
					fn := filepath.Join(a.dirPath, u+ext)
					if b, err := os.ReadFile(fn); err == nil {
						os.WriteFile(fn, append(b, bytes.Repeat([]byte("aux: 0123456789abcdef0123456789abcdef\n"), 60000)...), 0600)
					}
				}
			}
		}
		pre := a.users()
		g := a.installGate()
		var mu sync.Mutex
		var ops []string
		var wg sync.WaitGroup
		run := func(q *creq) {
			wg.Add(1)
			inv := atomic.AddInt64(&seq, 1)
			go func() {
				defer wg.Done()
				switch q.kind {
				case "auth":
					ok, adm, _, err := a.iface.Authenticate(q.user, q.pw)
					q.ok, q.isAdmin = ok && err == nil, adm
				case "update":
					q.ok = a.iface.Update(q.user, q.pw) == nil
				case "add":
					q.ok = a.iface.Add(q.user, q.pw, q.admin) == nil
				case "remove":
					q.ok = a.iface.Remove(q.user) == nil
				case "setadmin":
					q.ok = a.iface.SetAdmin(q.user, q.admin) == nil
				}
				res := atomic.AddInt64(&seq, 1)
				mu.Lock()
				ops = append(ops, opTok(q, retOf(q), inv, res))
				mu.Unlock()
			}()
		}
		stuck := false
		wait := func() {
			select {
			case <-g.ev:
			case <-time.After(5 * time.Second):
				stuck = true
			}
		}
		v := users[r.Intn(2)]
		newpw := func(tag string) string {
			p := fmt.Sprintf("%s-%d-%s", tag, i, v)
			a.pws[p] = true
			return p
		}
		// 1. hold the dispatcher inside a login of root, queue the victim's login, step into it
		run(&creq{kind: "auth", user: "root", pw: rootpw})
		wait()
		run(&creq{kind: "auth", user: v, pw: "Init-" + v})
		time.Sleep(2 * time.Millisecond)
		if !stuck {
			g.release <- true
			wait() // the dispatcher is now inside the victim's login (its only queued request)
		}
		// 2. queue the family behind it
		fam := []string{"remove-add", "update", "remove", "setadmin-update", "remove-add-update", "remove-add-admin", "late-setadmin", "late-remove"}[(i+c.shard)%8]
		var batch []*creq
		switch fam {
		case "remove-add":
			batch = []*creq{{kind: "remove", user: v}, {kind: "add", user: v, pw: newpw("Re")}}
		case "update":
			batch = []*creq{{kind: "update", user: v, pw: newpw("Up")}}
		case "remove":
			batch = []*creq{{kind: "remove", user: v}}
		case "setadmin-update":
			batch = []*creq{{kind: "setadmin", user: v, admin: true}, {kind: "update", user: v, pw: newpw("Up")}}
		case "remove-add-update":
			batch = []*creq{{kind: "remove", user: v}, {kind: "add", user: v, pw: newpw("Re")}, {kind: "update", user: v, pw: newpw("Up")}}
		case "remove-add-admin":
			batch = []*creq{{kind: "remove", user: v}, {kind: "add", user: v, pw: newpw("Re"), admin: true}}
		}
		for _, q := range batch {
			run(q)
			time.Sleep(time.Millisecond)
		}
		time.Sleep(3 * time.Millisecond)
		// 3. let everything run freely
		g.mu.Lock()
		g.free = true
		g.mu.Unlock()
		if !stuck {
			g.release <- true
		}
		if strings.HasPrefix(fam, "late-") {
			// issued when the internal upgrade's rewrite is under way (its temporary file exists), or
			// after 60 ms if no rewrite is ever seen
			for w := 0; w < 120; w++ {
				if ents, _ := os.ReadDir(filepath.Join(a.dirPath, ".tmp")); len(ents) > 0 {
					break
				}
				time.Sleep(500 * time.Microsecond)
			}
			if fam == "late-setadmin" {
				run(&creq{kind: "setadmin", user: v, admin: true})
			} else {
				run(&creq{kind: "remove", user: v})
			}
		}
		done := make(chan bool)
		go func() { wg.Wait(); close(done) }()
		select {
		case <-done:
		case <-time.After(10 * time.Second):
			stuck = true
		}
		if stuck {
			c.emit("law.C10.every_request_is_answered staged-c11 family="+fam, "f")
			continue
		}
		last := dirDigest(a.dirPath)
		for k := 0; k < 40; k++ {
			time.Sleep(5 * time.Millisecond)
			a.iface.Check()
			d := dirDigest(a.dirPath)
			if d == last && k > 4 {
				break
			}
			last = d
		}
		post := a.users()
		mu.Lock()
		optok := strings.Join(ops, ",")
		mu.Unlock()
		c.emit(fmt.Sprintf("lin.checkf %s %s %s", vUsersTok(pre), optok, vUsersTok(post)), "ok "+vUsersTok(post))
		c.emit(fmt.Sprintf("law.C11.idle_store_passes_check mode=local staged family=%s", fam), vtf(a.ref.Check() == nil))
		os.RemoveAll(a.dirPath)
	}
}

// invariant stress: while one client keeps flipping the admin flag of a user (and another keeps
// adding / removing an unrelated user), readers log in as that user and list the store. In every
// sequential order the user exists with the same password throughout: every correct-password
// login succeeds and every listing shows the user as supported (with either flag). Histories
// of this length are beyond the linearizability search; these consequences are checked instead.
func suiteV11inv(c *vctx) {
	r := c.r
	n := 16
	dur := 150 * time.Millisecond
	if c.thorough() {
		n, dur = 96, 600*time.Millisecond
	}
	n = max(n/c.nshards, 1)
	for i := 0; i < n; i++ {
		mode := []string{"", "local"}[r.Intn(2)]
		a, err := newVAgent(c, fmt.Sprintf("iv%d", i), 1, mode, "", "", "")
		if err != nil {
			continue
		}
		a.iface.Init("root", "Root-Passw0rd")
		for k := 0; k < 20; k++ { // a directory with some entries: readdir and the per-file reads are apart
			a.iface.Add(fmt.Sprintf("fill%02d", k), "Fill-Passw0rd", false)
		}
		a.iface.Add("victim", "Victim-Passw0rd", false)
		stop := make(chan bool)
		var wg sync.WaitGroup
		var flips, logins, lists, badLogin, badList int64
		var firstBad atomic.Value
		bad := func(cnt *int64, what string) {
			if atomic.AddInt64(cnt, 1) == 1 {
				firstBad.CompareAndSwap(nil, what)
			}
		}
		spawn := func(f func(k int)) {
			wg.Add(1)
			go func() {
				defer wg.Done()
				for k := 0; ; k++ {
					select {
					case <-stop:
						return
					default:
					}
					f(k)
				}
			}()
		}
		spawn(func(k int) { a.iface.SetAdmin("victim", k%2 == 0); atomic.AddInt64(&flips, 1) })
		spawn(func(k int) {
			if k%2 == 0 {
				a.iface.Add("comeandgo", "Come-Passw0rd", false)
			} else {
				a.iface.Remove("comeandgo")
			}
		})
		for w := 0; w < 3; w++ {
			spawn(func(k int) {
				ok, _, _, err := a.iface.Authenticate("victim", "Victim-Passw0rd")
				atomic.AddInt64(&logins, 1)
				if !ok || err != nil {
					bad(&badLogin, fmt.Sprintf("login ok=%v err=%v", ok, err))
				}
			})
		}
		spawn(func(k int) {
			l, err := a.iface.List()
			atomic.AddInt64(&lists, 1)
			if _, has := l["victim"]; err != nil || !has {
				bad(&badList, fmt.Sprintf("list has=%v err=%v", has, err))
			}
		})
		spawn(func(k int) {
			l, err := a.iface.ListFull()
			atomic.AddInt64(&lists, 1)
			if e, has := l["victim"]; err != nil || !has || !e.IsValid || !e.IsSupported {
				bad(&badList, fmt.Sprintf("list-full has=%v err=%v entry=%+v", has, err, e))
			}
		})
		time.Sleep(dur)
		close(stop)
		done := make(chan bool)
		go func() { wg.Wait(); close(done) }()
		select {
		case <-done:
		case <-time.After(5 * time.Second):
			c.emit("law.C10.every_request_is_answered invariant-stress-c11", "f")
			continue
		}
		why, _ := firstBad.Load().(string)
		c.emit(fmt.Sprintf("law.C11.reads_see_a_sequential_state mode=%s flips=%d logins=%d lists=%d bad-logins=%d bad-lists=%d %s",
			vxs(mode), flips, logins, lists, badLogin, badList, vxs(why)), vtf(badLogin == 0 && badList == 0))
		c.emit(fmt.Sprintf("law.C11.idle_store_passes_check mode=%s invariant-stress", vxs(mode)), vtf(a.ref.Check() == nil))
		os.RemoveAll(a.dirPath)
	}
}

func init() {
	vsuites["v11i"] = suiteV11inv
	vsuites["v11"] = suiteV11
	vsuites["v11g"] = suiteV11gated
	vsuites["v11s"] = suiteV11staged
}
