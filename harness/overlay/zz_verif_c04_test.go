package main

import (
	"encoding/json"
	"fmt"
	"net"
	"net/http/httptest"
	"os"
	"os/exec"
	"path/filepath"
	"sort"
	"strings"
	"sync"
	"time"

	"github.com/glauth/ldap"
	"github.com/whawty/auth/sasl"
)

func suiteV04(c *vctx) {
	r := c.r
	nsc := 2
	if c.thorough() {
		nsc = 6
	}
	for sc := 0; sc < nsc; sc++ {
		// odd scenarios: local hash upgrades and a password policy are configured, the records are
		// under the non-default parameter set and several passwords fail the policy — logins then
		// trigger internal upgrades that succeed for some users and are refused for others; the
		// verdict of every frontend must still be the store's
		upg, polT, polC := "", "", ""
		dflt := 1 + r.Intn(2)
		if sc%2 == 1 {
			upg, polT, polC = "local", "zxcvbn", "score >= 3"
		}
		a, err := newVAgent(c, fmt.Sprintf("fr%d", sc), dflt, upg, polT, polC, "")
		if err != nil {
			c.emit("law.C04.agent_starts "+vxs(err.Error()), "f")
			continue
		}
		long255 := strings.Repeat("p", 255)
		long256 := strings.Repeat("q", 256)
		long257 := strings.Repeat("r", 257)
		pws := map[string]string{
			"root": "Root-Passw0rd", "alice": "pa:ss:word", "bob": "pässwörd-\U0001F511", "carol": "quote\"back\\slash\n\ttab",
			"a@b": "at-Passw0rd", "A.b-c_d@e": " lead and trail ", "alice@example.com": "mail-Passw0rd", "a@b@c": "two-ats", "u255": long255, "u256": long256, "u257": long257,
			"x": "x", "nul": "nul\x00byte", "bin": "\xff\xfe\x80bin",
		}
		if sc%2 == 1 {
			// through the library (no policy there), under the other parameter set
			a.ref.Default = uint(3 - dflt)
			a.ref.Init("root", pws["root"])
			for _, u := range sortedKeys(pws) {
				a.pws[pws[u]] = true
				if u != "root" {
					a.ref.AddUser(u, pws[u], u == "carol")
				}
			}
			a.ref.Default = uint(dflt)
		} else {
			a.iface.Init("root", pws["root"])
			for _, u := range sortedKeys(pws) {
				a.pws[pws[u]] = true
				if u != "root" {
					a.iface.Add(u, pws[u], u == "carol")
				}
			}
		}
		// a saslauthd socket served by the real agent code
		sock := filepath.Join(c.work, fmt.Sprintf("s%d.sock", sc))
		go runSaslAuthSocket(sock, a.iface) //nolint:errcheck
		for i := 0; i < 100; i++ {
			if _, err := os.Stat(sock); err == nil {
				break
			}
			time.Sleep(10 * time.Millisecond)
		}
		client := sasl.NewClient(sock)
		// a real LDAP listener served by the agent code (BER over TCP, simple bind)
		ldapAddr := ""
		if ln, err := net.Listen("tcp", "127.0.0.1:0"); err == nil {
			ldapAddr = ln.Addr().String()
			go runLDAPListener(ln.(*net.TCPListener), &ldapConfig{}, a.iface) //nolint:errcheck
			defer ln.Close()
		}
		ldapWire := 0
		users := a.users()
		utok := vUsersTok(users)
		names := []string{"root", "alice", "bob", "carol", "a@b", "A.b-c_d@e", "u255", "u256", "u257", "x", "nul", "bin",
			"alice@example.com", "a@b@c", "alice@example.com@corp", "alice@@", "a@b@c@d", "@@", "alice@", "bob@x@y",
			"nobody", "", "Alice", "ALICE", "alice ", " alice", "alice\n", "./alice", "../fr/alice", "alice@example.org", "a", "a@", "@b",
			"alice,dc=example", "cn=alice", "alice:extra", ":alice", strings.Repeat("n", 255), strings.Repeat("n", 256), strings.Repeat("n", 257)}
		bin := os.Getenv("VERIF_BIN")
		n := 700
		if c.thorough() {
			n = 6000
		}
		cli := 0
		for i := 0; i < n; i++ {
			if !c.mine(i) {
				continue
			}
			u := names[r.Intn(len(names))]
			var p string
			if r.Intn(8) == 0 {
				// a realm-suffixed form of an existing user's name (itself an existing user or not)
				// with the BASE user's password: only LDAP may cut the name
				base := []string{"alice", "a", "root", "bob", "x", "a@b"}[r.Intn(6)]
				u = base + "@" + []string{"example.com", "example.org", "b", "b@c", "", "nowhere"}[r.Intn(6)]
				names14 := pws[base]
				p = names14
			} else {
				switch r.Intn(6) {
				case 0, 1:
					p = pws[u] // the right password (if the user exists)
				case 2: // near misses of the right password
					q := pws[names[r.Intn(14)]]
					switch r.Intn(6) {
					case 0:
						p = strings.ToUpper(q)
					case 1:
						p = strings.TrimSpace(q)
					case 2:
						p = q + " "
					case 3:
						if len(q) > 1 {
							p = q[:len(q)-1]
						}
					case 4:
						p = q + "\x00"
					default:
						p = strings.Split(q, ":")[0]
					}
				case 3:
					p = pws[names[r.Intn(14)]] // another user's password
				case 4:
					p = ""
				default:
					p = string(r.Bytes(1 + r.Intn(12)))
				}
			}
			refOk, _, _, _, _ := a.ref.Authenticate(u, p)
			// the abstract store of the frontend model compares password BYTES; passwords the schema's own
			// algorithm does not tell apart (PBKDF2-HMAC: trailing NULs, C01) are accepted by the real
			// store under other bytes: such pairs are judged by the laws only, not sent to the model
			modelled := !(refOk && p != pws[u])
			id := fmt.Sprintf("%s %s", vxs(u[:min(len(u), 300)]), vxs(p[:min(len(p), 300)]))
			// store interface of the agent (what every frontend calls)
			ok, _, _, err := a.iface.Authenticate(u, p)
			if modelled {
				c.emit(fmt.Sprintf("front.store %s %s %s", utok, vxs(u), vxs(p)), vtf(ok && err == nil))
			}
			c.emit("law.C04.agent_interface_equals_store "+id, vtf((ok && err == nil) == refOk))
			// saslauthd callback in-process: any bytes
			sok, _, serr := callback(u, p, "svc", "realm", sock, a.iface)
			if modelled {
				c.emit(fmt.Sprintf("front.sasl %s %s %s", utok, vxs(u), vxs(p)), vtf(sok && serr == nil))
			}
			c.emit("law.C04.sasl_equals_store "+id, vtf((sok && serr == nil) == refOk))
			// saslauthd socket end to end, within the transport's limits
			if len(u) >= 1 && len(u) <= 256 && len(p) >= 1 && len(p) <= 256 {
				// (a transport hiccup of a busy machine — a full accept queue — is not a verdict: the
				// exchange is repeated; an error that persists is one)
				wok, _, werr := client.Auth(u, p, "svc", "realm")
				for try := 0; try < 3 && werr != nil; try++ {
					time.Sleep(time.Duration(20*(try+1)) * time.Millisecond)
					wok, _, werr = client.Auth(u, p, "svc", "realm")
				}
				c.emit("law.C04.sasl_socket_equals_store "+id, vtf(werr == nil && wok == refOk))
			} else if len(u) > 256 || len(p) > 256 {
				wok, _, _ := client.Auth(u, p, "svc", "realm")
				c.emit("law.C04.sasl_socket_overlimit_denied "+id, vtf(!wok))
			}
			// the same request through the socket in awkward pieces (a byte-wise or chunking client, a socket
			// proxy, a small send buffer): cut inside the length headers and inside the fields
			if len(u) >= 1 && len(u) <= 256 && len(p) >= 1 && len(p) <= 256 && r.Intn(4) == 0 {
				q := &sasl.Request{Login: u, Password: p, Service: "svc", Realm: "realm"}
				if enc, err := q.Marshal(); err == nil {
					cuts := []int{1, 2 + len(u)/2, 2 + len(u) + 1, 2 + len(u) + 2 + (len(p)+1)/2, len(enc) - 1}
					if r.Bool() {
						cuts = nil
						for k := 1; k < len(enc); k++ {
							cuts = append(cuts, k) // one byte per write
						}
					}
					good, done := false, false
					for try := 0; try < 3 && !good; try++ {
						cn, err := net.Dial("unix", sock)
						if err != nil {
							time.Sleep(20 * time.Millisecond)
							continue
						}
						done = true
						prev := 0
						for _, cut := range cuts {
							if cut > prev && cut < len(enc) {
								cn.Write(enc[prev:cut])
								prev = cut
								time.Sleep(300 * time.Microsecond)
							}
						}
						cn.Write(enc[prev:])
						var resp sasl.Response
						cn.SetReadDeadline(time.Now().Add(10 * time.Second))
						derr := resp.Decode(cn)
						cn.Close()
						good = derr == nil && resp.Result == refOk
						if derr == nil {
							break // an answer is a verdict; only transport errors are repeated
						}
					}
					if done {
						c.emit("law.C04.sasl_socket_equals_store fragmented "+id, vtf(good))
					}
				}
			}
			// HTTP basic-auth
			{
				req := httptest.NewRequest("GET", "/basic-auth", nil)
				req.SetBasicAuth(u, p)
				rec := httptest.NewRecorder()
				a.mux.ServeHTTP(rec, req)
				got := rec.Code == 200
				if modelled {
					c.emit(fmt.Sprintf("front.basic %s %s", utok, vxs(u+":"+p)), vtf(got))
				}
				if !strings.Contains(u, ":") {
					c.emit("law.C04.basic_auth_equals_store "+id, vtf(got == refOk))
				}
			}
			// … and with any request method and unrelated headers (a preflight, a proxy's additions, no or
			// another Authorization scheme): the status is the verdict, nothing but the credentials decides it
			if r.Intn(2) == 0 {
				method := []string{"GET", "HEAD", "POST", "PUT", "OPTIONS", "OPTIONS", "DELETE", "PATCH", "PROPFIND"}[r.Intn(9)]
				req := httptest.NewRequest(method, "/basic-auth", nil)
				hs := ""
				for _, h := range [][2]string{{"Origin", "https://admin.example.org"}, {"Access-Control-Request-Method", "GET"}, {"Access-Control-Request-Headers", "authorization"},
					{"X-Forwarded-For", "127.0.0.1"}, {"X-Forwarded-User", "root"}, {"Content-Type", "application/json"}, {"Cookie", "session=x"}, {"X-Requested-With", "XMLHttpRequest"}} {
					if r.Intn(3) == 0 {
						req.Header.Set(h[0], h[1])
						hs += h[0] + ","
					}
				}
				if method == "OPTIONS" && r.Bool() { // the complete shape of a CORS preflight
					req.Header.Set("Origin", "https://admin.example.org")
					req.Header.Set("Access-Control-Request-Method", []string{"GET", "POST"}[r.Intn(2)])
					hs += "preflight,"
				}
				creds := r.Intn(8)
				expect := false
				switch {
				case creds == 0: // no credentials at all
				case creds == 1:
					req.Header.Set("Authorization", "Bearer "+p)
				default:
					req.SetBasicAuth(u, p)
					expect = refOk
				}
				rec := httptest.NewRecorder()
				a.mux.ServeHTTP(rec, req)
				if !strings.Contains(u, ":") || creds < 2 {
					c.emit(fmt.Sprintf("law.C04.basic_auth_equals_store method=%s headers=%s creds=%d %s", method, hs, creds, id), vtf((rec.Code >= 200 && rec.Code < 300) == expect))
				}
			}
			// HTTP API authenticate (JSON transport: what the server decodes is what is judged)
			{
				body, _ := json.Marshal(map[string]string{"username": u, "password": p})
				_, d := decodeAs("authenticate", string(body))
				rec := httptest.NewRecorder()
				a.mux.ServeHTTP(rec, httptest.NewRequest("POST", "/api/authenticate", strings.NewReader(string(body))))
				got := rec.Code == 200
				dref, _, _, _, _ := a.ref.Authenticate(d.username, d.password)
				if d.username != "" && d.password != "" {
					c.emit("law.C04.api_authenticate_equals_store "+id, vtf(got == dref))
				} else {
					c.emit("law.C04.api_authenticate_empty_denied "+id, vtf(!got))
				}
				// directly after an accepted login: the same user with the password field absent / null /
				// empty, and a request without the user name — nothing of the earlier request may linger
				if got && r.Intn(3) == 0 {
					uq, _ := json.Marshal(u)
					for _, raw := range []string{`{"username":` + string(uq) + `}`, `{"username":` + string(uq) + `,"password":null}`,
						`{"username":` + string(uq) + `,"password":""}`, `{"password":"x"}`, `{}`, `{"username":null,"password":null}`} {
						rec2 := httptest.NewRecorder()
						a.mux.ServeHTTP(rec2, httptest.NewRequest("POST", "/api/authenticate", strings.NewReader(raw)))
						c.emit(fmt.Sprintf("law.C04.api_authenticate_empty_denied after-login %s %s", vxs(u), vxs(raw)), vtf(rec2.Code != 200))
					}
				}
			}
			// LDAP simple bind: the name up to the first '@'
			{
				code, lerr := ldapHandler{store: a.iface}.Bind(u, p, nil)
				got := code == ldap.LDAPResultSuccess && lerr == nil
				cutu := u
				if i := strings.IndexByte(u, '@'); i >= 0 {
					cutu = u[:i]
				}
				lref, _, _, _, _ := a.ref.Authenticate(cutu, p)
				if !(lref && p != pws[cutu]) {
					c.emit(fmt.Sprintf("front.ldap %s %s %s", utok, vxs(u), vxs(p)), vtf(got))
				}
				c.emit("law.C04.ldap_equals_store_for_name_up_to_at "+id, vtf(got == lref))
				// the same bind over the wire (the BER encoding carries any bytes; an empty password would be
				// an unauthenticated bind, which the client library refuses to send)
				if ldapAddr != "" && p != "" && u != "" && ldapWire < 120 && len(u) < 1000 {
					ldapWire++
					if acc, got := ldapBindVerdict(ldapAddr, u, p); got {
						c.emit("law.C04.ldap_wire_bind_equals_store_for_name_up_to_at "+id, vtf(acc == lref))
					}
				}
			}
			// LDAP bind names built from an existing user: <user>@<anything, further '@' included>
			if r.Intn(3) == 0 {
				base := []string{"root", "alice", "bob", "carol", "x"}[r.Intn(5)]
				dn := base + "@" + []string{"example.org", "a@b", "@", "x@y@z", "", "example.com@corp", "alice@example.com"}[r.Intn(7)]
				bp := pws[base]
				if r.Intn(4) == 0 {
					bp = "wrong-" + bp
				}
				code, lerr := ldapHandler{store: a.iface}.Bind(dn, bp, nil)
				got := code == ldap.LDAPResultSuccess && lerr == nil
				c.emit(fmt.Sprintf("front.ldap %s %s %s", utok, vxs(dn), vxs(bp)), vtf(got))
				lref, _, _, _, _ := a.ref.Authenticate(base, bp)
				c.emit(fmt.Sprintf("law.C04.ldap_equals_store_for_name_up_to_at %s %s", vxs(dn), vxs(bp)), vtf(got == lref))
			}
			// command line (the built binary), within argv's domain
			if bin != "" && cli < 40 && u != "" && p != "" && !strings.ContainsRune(u, 0) && !strings.ContainsRune(p, 0) &&
				!strings.HasPrefix(u, "-") && !strings.HasPrefix(p, "-") && len(u) < 1000 {
				cli++
				cmd := exec.Command(bin, "--store", a.cfgPath, "authenticate", u, p)
				cmd.Env = append(os.Environ(), "WHAWTY_AUTH_DO_UPGRADES=")
				err := cmd.Run()
				code := 0
				if ee, isExit := err.(*exec.ExitError); isExit {
					code = ee.ExitCode()
				} else if err != nil {
					code = -1
				}
				c.emit("law.C04.cli_equals_store "+id+fmt.Sprintf(" exit=%d", code), vtf((code == 0) == refOk && code >= 0))
			}
		}
		// management beside logins: while the administrator flag of a user is toggled (her record is
		// renamed back and forth), every frontend keeps returning the store's verdict for her — which
		// is constant: the flag does not change the password
		if sc%2 == c.shard%2 {
			dur := 1200 * time.Millisecond
			if c.thorough() {
				dur = 6 * time.Second
			}
			u, good, bad := "carol", pws["carol"], "Wrong-Passw0rd"
			stop := make(chan bool)
			var wg sync.WaitGroup
			var mu sync.Mutex
			wrong := map[string]int{}
			total := 0
			worker := func(name string, try func(pw string) (verdict, got bool)) {
				defer wg.Done()
				for k := 0; ; k++ {
					select {
					case <-stop:
						return
					default:
					}
					pw, want := good, true
					if k%4 == 3 {
						pw, want = bad, false
					}
					v, got := try(pw)
					mu.Lock()
					if got {
						total++
						if v != want {
							wrong[name]++
						}
					}
					mu.Unlock()
				}
			}
			wg.Add(4)
			go worker("sasl-socket", func(pw string) (bool, bool) {
				ok, _, err := client.Auth(u, pw, "svc", "realm")
				return ok, err == nil
			})
			go worker("basic-auth", func(pw string) (bool, bool) {
				req := httptest.NewRequest("GET", "/basic-auth", nil)
				req.SetBasicAuth(u, pw)
				rec := httptest.NewRecorder()
				a.mux.ServeHTTP(rec, req)
				return rec.Code == 200, true
			})
			go worker("api-authenticate", func(pw string) (bool, bool) {
				body, _ := json.Marshal(map[string]string{"username": u, "password": pw})
				rec := httptest.NewRecorder()
				a.mux.ServeHTTP(rec, httptest.NewRequest("POST", "/api/authenticate", strings.NewReader(string(body))))
				return rec.Code == 200, true
			})
			go worker("ldap", func(pw string) (bool, bool) {
				if ldapAddr == "" {
					time.Sleep(10 * time.Millisecond)
					return false, false
				}
				return ldapBindVerdict(ldapAddr, u, pw)
			})
			toggles := 0
			for end := time.Now().Add(dur); time.Now().Before(end); toggles++ {
				a.iface.SetAdmin(u, toggles%2 == 0)
			}
			close(stop)
			wg.Wait()
			var bad2 []string
			for k, v := range wrong {
				bad2 = append(bad2, fmt.Sprintf("%s:%d", k, v))
			}
			sort.Strings(bad2)
			c.emit(fmt.Sprintf("law.C04.frontends_equal_store_while_flag_toggles scenario=%d toggles>0=%s logins>0=%s wrong=%s", sc, vtf(toggles > 0), vtf(total > 0), strings.Join(bad2, ",")), vtf(len(wrong) == 0 && total > 0))
		}
		os.Remove(sock)
	}
}

func sortedKeys(m map[string]string) []string {
	var k []string
	for x := range m {
		k = append(k, x)
	}
	sort.Strings(k)
	return k
}

func init() { vsuites["v04"] = suiteV04 }
