package main

// v09u — durability of what the AGENT writes on its own: the rewrite of a record by a local hash
// upgrade after a login (no client asked for it, no error would be reported). The agent runs as a
// child under `strace -f -y`; between two markers users whose records are under a non-default
// parameter set log in and the upgrades are awaited. On the real system calls: every file renamed into
// the base directory was fsynced after its last write and before the rename, and the base directory
// is fsynced after the rename (C09: a new record never becomes visible under its final name before its
// content is durable; the directory-entry change is made durable by an fsync of the directory).

import (
	"bufio"
	"fmt"
	"os"
	"os/exec"
	"path/filepath"
	"regexp"
	"strings"
	"syscall"
	"time"
)

const v09MarkBegin = "/__verif_v09u_begin__"
const v09MarkEnd = "/__verif_v09u_end__"

// the traced child
func suiteV09uChild(c *vctx) {
	r := c.r
	dflt := 1 + r.Intn(2)
	a, err := newVAgent(c, "upd", dflt, "local", "", "", "")
	if err != nil {
		fmt.Println("harness-error", err)
		return
	}
	pw := map[string]string{"root": "Root-Passw0rd-9", "alice": "Alice-Passw0rd-9", "bob": "Bob-Passw0rd-9"}
	a.ref.Default = uint(3 - dflt)
	a.ref.Init("root", pw["root"])
	a.ref.AddUser("alice", pw["alice"], false)
	a.ref.AddUser("bob", pw["bob"], true)
	a.ref.Default = uint(dflt)
	for _, u := range []string{"alice", "root"} { // auxiliary data behind some records
		fn, content, _, _, _ := recFields(a.dirPath, u)
		os.WriteFile(filepath.Join(a.dirPath, fn), append(content, []byte("totp: QUJD\nu2f: AAEC\n")...), 0600)
	}
	syscall.Access(v09MarkBegin, 0)
	for _, u := range []string{"alice", "bob", "root"} {
		a.iface.Authenticate(u, pw[u])
		for w := 0; w < 400; w++ {
			a.iface.Check()
			if pid, _, _ := readRec(a.dirPath, u); pid == uint(dflt) {
				break
			}
			time.Sleep(5 * time.Millisecond)
		}
	}
	a.iface.Update("no-such-user-flush", "x")
	syscall.Access(v09MarkEnd, 0)
}

var v09fdRe = regexp.MustCompile(`(\d+)<([^>]*)>`)
var v09quotedRe = regexp.MustCompile(`"((?:[^"\\]|\\.)*)"`)
var v09callRe = regexp.MustCompile(`^([a-z0-9_]+)\((.*)\)\s+=\s+(-?\d+)`)

func suiteV09u(c *vctx) {
	if c.shard >= 4 && !c.thorough() {
		return
	}
	self, _ := os.Executable()
	work := filepath.Join(c.work, "v09u")
	os.RemoveAll(work)
	os.MkdirAll(work, 0700)
	trace := filepath.Join(work, "trace")
	cmd := exec.Command("strace", "-f", "-qq", "-y", "-s", "64", "-o", trace,
		"-e", "trace=write,pwrite64,fsync,fdatasync,rename,renameat,renameat2,access,faccessat,faccessat2,copy_file_range,sendfile",
		self, "-test.run", "^TestVerif$", "-test.count=1", "-test.timeout=5m")
	cmd.Env = append(os.Environ(), "VERIF_SUITE=v09uchild", "VERIF_WORK="+work, "VERIF_OUT="+filepath.Join(work, "child.lines"), "GOMAXPROCS=2")
	out, err := cmd.CombinedOutput()
	if err != nil {
		c.emit("law.harness.strace_runs v09u "+vxs(string(out[:min(len(out), 300)])), "f")
		return
	}
	base := filepath.Join(work, "upd")
	f, err := os.Open(trace)
	if err != nil {
		c.emit("law.harness.strace_runs v09u-trace", "f")
		return
	}
	defer f.Close()
	type ev struct {
		name string
		fds  [][2]string // (fd, path) annotations
		strs []string
		ok   bool
	}
	var evs []ev
	pending := map[string]string{}
	in := false
	sc := bufio.NewScanner(f)
	sc.Buffer(make([]byte, 1<<20), 1<<26)
	for sc.Scan() {
		line := sc.Text()
		sp := strings.IndexByte(line, ' ')
		if sp < 0 {
			continue
		}
		pid, rest := line[:sp], strings.TrimSpace(line[sp+1:])
		if strings.HasSuffix(rest, "<unfinished ...>") {
			pending[pid] = strings.TrimSuffix(rest, "<unfinished ...>")
			continue
		}
		if strings.HasPrefix(rest, "<... ") {
			i := strings.Index(rest, "resumed>")
			if i < 0 {
				continue
			}
			rest = pending[pid] + rest[i+len("resumed>"):]
			delete(pending, pid)
		}
		if strings.Contains(rest, v09MarkBegin) {
			in, evs = true, nil
			continue
		}
		if strings.Contains(rest, v09MarkEnd) {
			break
		}
		if !in {
			continue
		}
		m := v09callRe.FindStringSubmatch(rest)
		if m == nil {
			continue
		}
		e := ev{name: m[1], ok: !strings.HasPrefix(m[3], "-")}
		for _, x := range v09fdRe.FindAllStringSubmatch(m[2], -1) {
			e.fds = append(e.fds, [2]string{x[1], x[2]})
		}
		for _, x := range v09quotedRe.FindAllStringSubmatch(m[2], -1) {
			e.strs = append(e.strs, x[1])
		}
		evs = append(evs, e)
	}
	renames, bad := 0, ""
	for i, e := range evs {
		if !strings.HasPrefix(e.name, "rename") || !e.ok || len(e.strs) < 2 {
			continue
		}
		src, dst := e.strs[0], e.strs[1]
		if filepath.Dir(dst) != base {
			continue
		}
		renames++
		lastWrite, lastSync := -1, -1
		for j := 0; j < i; j++ {
			for _, fd := range evs[j].fds {
				if fd[1] != src {
					continue
				}
				switch evs[j].name {
				case "write", "pwrite64", "copy_file_range", "sendfile":
					lastWrite = j
				case "fsync", "fdatasync":
					if evs[j].ok {
						lastSync = j
					}
				}
			}
		}
		dirSynced := false
		for j := i + 1; j < len(evs); j++ {
			if (evs[j].name == "fsync" || evs[j].name == "fdatasync") && evs[j].ok && len(evs[j].fds) > 0 && filepath.Clean(evs[j].fds[0][1]) == base {
				dirSynced = true
			}
		}
		if !(lastSync > lastWrite) {
			bad += filepath.Base(dst) + ":content-not-fsynced-before-rename,"
		}
		if !dirSynced {
			bad += filepath.Base(dst) + ":directory-not-fsynced-after-rename,"
		}
	}
	c.emit(fmt.Sprintf("law.C09.agent_upgrade_rewrites_are_durable renames=%d %s", renames, vxs(bad)), vtf(bad == "" && renames >= 1))
	os.RemoveAll(work)
}

func init() { vsuites["v09u"] = suiteV09u; vsuites["v09uchild"] = suiteV09uChild }
