package main

import (
	"bytes"
	"crypto/hmac"
	"crypto/sha256"
	"encoding/base64"
	"fmt"
	"net/http"
	"net/http/httptest"
	"os"
	"path/filepath"
	"sort"
	"strings"
	"sync/atomic"
	"syscall"
	"time"

	"golang.org/x/crypto/argon2"
	"golang.org/x/crypto/scrypt"
)

// the two parameter sets of vCheapCfg, computed with x/crypto directly (independent oracle)
func vDigest(agentName string, set uint, salt, pw []byte) []byte {
	if set == 2 || set == 3 {
		return argon2.IDKey(pw, salt, 1, 8, 1, 16)
	}
	key := sha256.Sum256([]byte(agentName))
	k, _ := scrypt.Key(pw, salt, 2, 1, 1, 32)
	m := hmac.New(sha256.New, key[:])
	m.Write(k)
	return m.Sum(nil)
}

func vSnapTok(dir string, sorted bool) string {
	f, err := os.Open(dir)
	if err != nil {
		return "[]"
	}
	names, _ := f.Readdirnames(0)
	f.Close()
	if sorted {
		sort.Strings(names)
	}
	var p []string
	for _, n := range names {
		st, err := os.Lstat(filepath.Join(dir, n))
		if err != nil {
			continue
		}
		if st.IsDir() {
			sub, _ := os.ReadDir(filepath.Join(dir, n))
			if len(sub) > 0 {
				p = append(p, vxs(n)+":BAD-nonempty")
			} else {
				p = append(p, vxs(n)+":D")
			}
			continue
		}
		b, _ := os.ReadFile(filepath.Join(dir, n))
		p = append(p, vxs(n)+":"+vxb(b))
	}
	if len(p) == 0 {
		return "[]"
	}
	return "[" + strings.Join(p, ",") + "]"
}

func recFields(dir, user string) (file string, content []byte, pid uint, salt []byte, ts string) {
	for _, ext := range []string{".admin", ".user"} {
		b, err := os.ReadFile(filepath.Join(dir, user+ext))
		if err != nil {
			continue
		}
		line := string(b)
		if i := strings.IndexByte(line, '\n'); i >= 0 {
			line = line[:i]
		}
		f := strings.Split(line, ":")
		if len(f) == 5 {
			fmt.Sscan(f[2], &pid)
			salt, _ = base64.URLEncoding.DecodeString(f[3])
			ts = f[1]
		}
		return user + ext, b, pid, salt, ts
	}
	return "", nil, 0, nil, ""
}

// recFieldsOf: the same fields from record bytes already read
func recFieldsOf(b []byte) (file string, content []byte, pid uint, salt []byte, ts string) {
	line := string(b)
	if i := strings.IndexByte(line, '\n'); i >= 0 {
		line = line[:i]
	}
	f := strings.Split(line, ":")
	if len(f) == 5 {
		fmt.Sscan(f[2], &pid)
		salt, _ = base64.URLEncoding.DecodeString(f[3])
		ts = f[1]
	}
	return "", b, pid, salt, ts
}

func auxOfBytes(b []byte) []byte {
	if i := bytes.IndexByte(b, '\n'); i >= 0 {
		return b[i+1:]
	}
	return nil
}

func suiteV12(c *vctx) {
	r := c.r
	n := 24
	if c.thorough() {
		n = 300
	}
	n = max(n/c.nshards, 2)
	for i := 0; i < n; i++ {
		mode := []string{"", "local", "local", "remote"}[r.Intn(4)]
		dflt := 1 + r.Intn(3)
		others := map[int][]uint{1: {2, 3}, 2: {1, 3, 3}, 3: {1, 2, 2}}[dflt]
		other := others[r.Intn(len(others))]
		name := fmt.Sprintf("up%d", i)
		var master *vAgent
		var masterDown int32
		modeArg := mode
		var srv *httptest.Server
		if mode == "remote" {
			var err error
			master, err = newVAgent(c, name+"m", dflt, "local", "", "", "")
			if err != nil {
				continue
			}
			srv = httptest.NewServer(http.HandlerFunc(func(w http.ResponseWriter, rq *http.Request) {
				switch atomic.LoadInt32(&masterDown) { // the master is failing for a while
				case 1: // its front end answers with an error status
					http.Error(w, "upstream unavailable", http.StatusServiceUnavailable)
					return
				case 2: // the connection is dropped without an answer (master restarting, reset by a proxy)
					if hj, ok := w.(http.Hijacker); ok {
						if cn, _, err := hj.Hijack(); err == nil {
							cn.Close()
							return
						}
					}
					http.Error(w, "upstream unavailable", http.StatusServiceUnavailable)
					return
				}
				master.mux.ServeHTTP(w, rq)
			}))
			modeArg = srv.URL + "/api/update"
		}
		polType, polCond := "", ""
		weakPolicy := r.Intn(4) == 0
		if weakPolicy {
			polType, polCond = "zxcvbn", "score >= 3"
		}
		a, err := newVAgent(c, name, dflt, modeArg, polType, polCond, "")
		if err != nil {
			c.emit("law.C12.agent_starts "+vxs(err.Error()), "f")
			continue
		}
		agents := []*vAgent{a}
		if master != nil {
			agents = append(agents, master)
		}
		pw := map[string]string{"root": "Correct-Horse-Battery-9", "alice": "Tr0ub4dor&3-zebra-lamp", "bob": "password1", "carol": "Quiet-Anchor-Velvet-77"}
		for _, ag := range agents {
			// records are created through the library so that weak passwords exist in the store too
			ag.ref.Default = uint(dflt)
			ag.ref.Init("root", pw["root"])
			for _, u := range []string{"alice", "bob", "carol"} {
				ag.ref.AddUser(u, pw[u], u == "carol")
			}
			// some records under the non-default set, with auxiliary data behind them
			for _, u := range []string{"root", "alice", "bob", "carol"} {
				if r.Intn(4) != 0 {
					ag.ref.Default = other
					ag.ref.UpdateUser(u, pw[u])
					ag.ref.Default = uint(dflt)
				}
				if r.Bool() {
					fn, content, _, _, _ := recFields(ag.dirPath, u)
					aux := [][]byte{[]byte("totp: QUJD\n"), []byte("u2f: AAEC\r\nx: y"), r.Bytes(20)}[r.Intn(3)]
					os.WriteFile(filepath.Join(ag.dirPath, fn), append(content, aux...), 0600)
				}
			}
		}
		// a quarter of the local-mode agents have their work area on ANOTHER file system (a mount, a
		// volume): the rename of an upgrade cannot cross it — the record must then be left untouched
		// (or, if the code copes with it, rewritten exactly as the property says)
		saturated := mode == "local" && r.Bool()
		if saturated {
			a.ref.AddUser("filler", "Filler-Passw0rd-9x!", false)
		}
		xdev := ""
		if mode == "local" && r.Intn(4) == 0 {
			var sa, sb syscall.Stat_t
			if syscall.Stat("/dev/shm", &sa) == nil && syscall.Stat(a.dirPath, &sb) == nil && sa.Dev != sb.Dev {
				xdev = fmt.Sprintf("/dev/shm/whawty-verif-v12-%d-%d", os.Getpid(), i)
				os.MkdirAll(xdev, 0700)
				os.RemoveAll(filepath.Join(a.dirPath, ".tmp"))
				os.Symlink(xdev, filepath.Join(a.dirPath, ".tmp"))
			}
		}
		cfgTok := fmt.Sprintf("%d;1:%s,2:%s,3:%s", dflt, vxs("hmac_sha256_scrypt"), vxs("argon2id"), vxs("argon2id"))
		// saturation prelude (local mode): logins with upgradeable hashes are served while the update
		// queue is full, so that their upgrade requests are dropped. Nothing may remember that: on
		// the idle agent afterwards the next login must upgrade (checked by the loop below, which
		// then starts with one right-password login per user).
		if saturated {
			g := a.installGate()
			var reqs []*creq
			hold := &creq{kind: "auth", user: "filler", pw: "Filler-Passw0rd-9x!"}
			a.launch(hold)
			held := false
			select {
			case <-g.ev:
				held = true
			case <-time.After(3 * time.Second):
			}
			for k := 0; k < 24; k++ {
				q := &creq{kind: "update", user: "filler", pw: "Filler-Passw0rd-9x!"}
				reqs = append(reqs, q)
				a.launch(q)
			}
			time.Sleep(5 * time.Millisecond)
			for _, u := range []string{"alice", "carol", "root", "bob"} {
				q := &creq{kind: "auth", user: u, pw: pw[u]}
				reqs = append(reqs, q)
				a.launch(q)
			}
			time.Sleep(5 * time.Millisecond)
			g.mu.Lock()
			g.free = true
			g.mu.Unlock()
			if held {
				g.release <- true
			} else {
				// (the holder never reached a hasher: whoever did is let through)
				select {
				case <-g.ev:
					g.release <- true
				case <-time.After(100 * time.Millisecond):
				}
			}
			answered := true
			for _, q := range append(reqs, hold) {
				select {
				case <-q.done:
				case <-time.After(5 * time.Second):
					answered = false
				}
			}
			c.emit("law.C10.every_request_is_answered saturation-prelude-c12", vtf(answered))
			last := dirDigest(a.dirPath)
			for k := 0; k < 60; k++ {
				time.Sleep(5 * time.Millisecond)
				a.iface.Check()
				d := dirDigest(a.dirPath)
				if d == last && k > 6 {
					break
				}
				last = d
			}
		}
		// failing-master prelude (remote mode): a dozen upgrade requests are answered 503 (or the master is
		// gone); once it is healthy again, idle logins must get the master's records upgraded — failed
		// attempts may not use anything up
		outage := mode == "remote" && r.Bool()
		if outage {
			atomic.StoreInt32(&masterDown, int32(1+r.Intn(2)))
			for k := 0; k < 14; k++ {
				u := []string{"root", "alice", "carol"}[k%3]
				a.iface.Authenticate(u, pw[u])
				time.Sleep(3 * time.Millisecond)
			}
			time.Sleep(80 * time.Millisecond)
			atomic.StoreInt32(&masterDown, 0)
		}
		for k := 0; k < 8; k++ {
			u := []string{"root", "alice", "bob", "carol"}[r.Intn(4)]
			right := r.Intn(3) != 0
			if outage && k < 3 {
				u, right = []string{"alice", "carol", "root"}[k], true
			}
			if saturated && k < 4 {
				u, right = []string{"alice", "carol", "root", "bob"}[k], true
			}
			p := pw[u]
			if !right {
				p = "Wrong-Passw0rd-xyz"
			}
			fn, before, pid, salt, _ := recFields(a.dirPath, u)
			preSnap := vSnapTok(a.dirPath, false)
			preDigest := dirDigest(a.dirPath)
			var mBefore []byte
			if master != nil {
				_, mBefore, _, _, _ = recFields(master.dirPath, u)
			}
			// what the store reports about this login (library view of the same directory)
			okRef, admRef, upgRef, lcRef, _ := a.ref.Authenticate(u, p)
			orc := fmt.Sprintf("[%d:%s:%s:%s]", pid, vxb(salt), vxs(p), vxb(vDigest(name, pid, salt, []byte(p))))
			res := "fail"
			if okRef {
				res = fmt.Sprintf("ok %s %s %d", vtf(admRef), vtf(upgRef), lcRef.Unix())
			}
			c.emit(fmt.Sprintf("st.auth %s %s %s %s %s", cfgTok, preSnap, orc, vxs(u), vxs(p)), res)
			c.emit(fmt.Sprintf("law.C12.upgradeable_iff_set_differs_from_default user=%s pid=%d default=%d", u, pid, dflt), vtf(!okRef || upgRef == (pid != uint(dflt))))
			// the login through the agent
			ok, _, _, _ := a.iface.Authenticate(u, p)
			// give a queued upgrade the chance to run on the otherwise idle agent
			// (generous when the rewrite is due: the machine may be busy; the loop ends as soon as it is seen)
			wait := 400 * time.Millisecond
			if ok && upgRef && mode == "local" && xdev == "" && !(weakPolicy && u == "bob") {
				wait = 15 * time.Second
			}
			deadline := time.Now().Add(wait)
			for time.Now().Before(deadline) {
				a.iface.Check()
				if dirDigest(a.dirPath) != preDigest {
					break
				}
				if !(ok && upgRef && mode == "local") {
					time.Sleep(30 * time.Millisecond)
					break
				}
				time.Sleep(5 * time.Millisecond)
			}
			time.Sleep(5 * time.Millisecond)
			_, after, pid2, salt2, ts2 := recFields(a.dirPath, u)
			changed := dirDigest(a.dirPath) != preDigest
			desc := fmt.Sprintf("mode=%s user=%s right=%s pid=%d default=%d weakpolicy=%s after-saturation=%s", mode, u, vtf(right), pid, dflt, vtf(weakPolicy), vtf(saturated))
			switch {
			case !ok:
				c.emit("law.C12.failed_login_never_rewrites "+desc, vtf(!changed))
			case mode == "":
				c.emit("law.C12.upgrades_off_never_writes "+desc, vtf(!changed))
			case mode == "remote":
				c.emit("law.C12.remote_mode_writes_nothing_locally "+desc, vtf(!changed))
				// the master re-authenticates and upgrades its own record for the same password
				_, _, mpidBefore, _, _ := recFieldsOf(mBefore)
				time.Sleep(120 * time.Millisecond)
				_, mAfter, mpid, _, _ := recFields(master.dirPath, u)
				patience := 20
				if mpidBefore != 0 && !(weakPolicy && u == "bob") {
					patience = 600 // the rewrite is due: a busy machine gets 15 s, the loop ends as soon as it is seen
				}
				for w := 0; w < patience && upgRef && mpidBefore != uint(dflt) && mpid != uint(dflt); w++ { // idle: give it time
					time.Sleep(25 * time.Millisecond)
					_, mAfter, mpid, _, _ = recFields(master.dirPath, u)
				}
				mok, _, _, _, _ := master.ref.Authenticate(u, p)
				c.emit("law.C12.master_keeps_password "+desc, vtf(mok && bytes.Equal(auxOfBytes(mBefore), auxOfBytes(mAfter)) && (bytes.Equal(mBefore, mAfter) || mpid == uint(dflt))))
				// on the idle pair of agents the rewrite does happen at the master (its policy permitting)
				if upgRef && mpidBefore != uint(dflt) && mpidBefore != 0 && !(weakPolicy && u == "bob") {
					c.emit(fmt.Sprintf("law.C12.idle_agent_performs_upgrade remote %s after-outage=%s", desc, vtf(outage)), vtf(mpid == uint(dflt)))
				}
			default: // local
				if !changed {
					// untouched is allowed; on an idle agent the rewrite must happen if upgradeable and policy ok
					policyOk := !weakPolicy || u != "bob"
					if xdev == "" { // (with the work area on another file system the rewrite cannot be moved into place)
						c.emit("law.C12.idle_agent_performs_upgrade "+desc, vtf(!(upgRef && policyOk)))
					}
				} else {
					// rewritten under the default set for exactly the same password; admin flag and aux unchanged
					okAfter, admAfter, upgAfter, _, _ := a.ref.Authenticate(u, p)
					wrongAfter, _, _, _, _ := a.ref.Authenticate(u, "Wrong-Passw0rd-xyz")
					fn2, _, _, _, _ := recFields(a.dirPath, u)
					c.emit("law.C12.upgrade_same_password_admin_aux "+desc, vtf(okAfter && !wrongAfter && admAfter == admRef && !upgAfter && pid2 == uint(dflt) &&
						fn2 == fn && bytes.Equal(auxOfBytes(before), auxOfBytes(after)) && upgRef))
					// the rewrite is the store's update with the login password (model: Store.update)
					orc2 := fmt.Sprintf("[%d:%s:%s:%s]", pid2, vxb(salt2), vxs(p), vxb(vDigest(name, pid2, salt2, []byte(p))))
					c.emit(fmt.Sprintf("st.update %s %s %s %s %s %s %s", cfgTok, preSnap, orc2, vxs(u), vxs(p), ts2, vxb(salt2)), "ok "+vSnapTok(a.dirPath, true))
				}
			}
		}
		if srv != nil {
			srv.Close()
		}
		if xdev != "" {
			os.RemoveAll(xdev)
		}
		os.RemoveAll(a.dirPath)
		if master != nil {
			os.RemoveAll(master.dirPath)
		}
	}
}

func init() { vsuites["v12"] = suiteV12 }
