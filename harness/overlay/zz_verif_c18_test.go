package main

import (
	"fmt"
	"os"
	"os/signal"
	"path/filepath"
	"strings"
	"sync"
	"syscall"
	"time"

	lib "github.com/whawty/auth/store"
)

const vCfgTmpl = `basedir: %q
default: %d
params:
%s`

func setYaml(id int, key []byte) string {
	if id%2 == 0 {
		return fmt.Sprintf("  - id: %d\n    argon2id:\n      time: 1\n      memory: 8\n      threads: 1\n      length: 16\n", id)
	}
	return fmt.Sprintf("  - id: %d\n    scryptauth:\n      hmackey: %q\n      cost: 1\n      r: 1\n      p: 1\n", id, b64std(key))
}

type liveCfg struct {
	base string
	dflt int
	sets []int
}

func (l liveCfg) String() string {
	return fmt.Sprintf("%s|%d|%v", filepath.Base(l.base), l.dflt, l.sets)
}

// reload scenarios: the agent serves configuration `old`; the file is replaced by `new` and SIGHUP sent.
func suiteV18(c *vctx) {
	r := c.r
	n := 24
	if c.thorough() {
		n = 240
	}
	n = max(n/c.nshards, 2)
	key := make([]byte, 32)
	// the harness process must survive a SIGHUP that arrives before a dispatcher has registered for it
	signal.Notify(make(chan os.Signal, 8), syscall.SIGHUP)
	for i := 0; i < n; i++ {
		dirA := filepath.Join(c.work, fmt.Sprintf("rlA%d", i))
		dirB := filepath.Join(c.work, fmt.Sprintf("rlB%d", i))
		for _, d := range []string{dirA, dirB} {
			os.RemoveAll(d)
			os.MkdirAll(d, 0700)
		}
		cfgPath := filepath.Join(c.work, fmt.Sprintf("rl%d.yaml", i))
		write := func(l liveCfg, raw string) {
			if raw != "" {
				os.WriteFile(cfgPath, []byte(raw), 0600)
				return
			}
			sets := ""
			for _, id := range l.sets {
				sets += setYaml(id, key)
			}
			os.WriteFile(cfgPath, []byte(fmt.Sprintf(vCfgTmpl, l.base, l.dflt, sets)), 0600)
		}
		old := liveCfg{dirA, 1, []int{1, 2}}
		write(old, "")
		// both directories are valid stores with a user whose password identifies the directory
		for _, d := range []string{dirA, dirB} {
			ld, _ := lib.NewDirFromConfig(cfgPath)
			ld.BaseDir = d
			ld.Init("root", "Root-Passw0rd")
			ld.AddUser("probe", "Probe-in-"+filepath.Base(d), false)
			ld.AddUser("flight", "Flight-0", false)
		}
		// upgrade mode of the agent: the reload must be all-or-nothing and lose no request in any of them
		mode := []string{"", "local", "local", "http://127.0.0.1:1/api/update"}[r.Intn(4)]
		// update hooks are configured: after a reload they must be given the LIVE base directory
		hooksDir := filepath.Join(c.work, fmt.Sprintf("rlhooks%d", i))
		hookLog := filepath.Join(c.work, fmt.Sprintf("rlhooks%d.log", i))
		os.RemoveAll(hooksDir)
		os.MkdirAll(hooksDir, 0755)
		os.Remove(hookLog)
		os.WriteFile(filepath.Join(hooksDir, "log.sh"), []byte("#!/bin/sh\necho \"$WHAWTY_AUTH_STORE\" >> "+hookLog+"\n"), 0755)
		// … or not (the default): any number of reloads must work just the same
		withHooks := r.Intn(3) != 0
		if !withHooks {
			hooksDir = ""
		}
		st, err := NewStore(cfgPath, mode, "", "", hooksDir)
		if err != nil {
			c.emit("law.C18.agent_starts "+vxs(err.Error()), "f")
			continue
		}
		st.hooks.rateLimit = 150 * time.Millisecond // (5 s in the code: the harness does not wait that long per scenario)
		iface := st.GetInterface()
		flightBoot := map[string][]byte{}
		for _, d := range []string{dirA, dirB} {
			flightBoot[d], _ = os.ReadFile(filepath.Join(d, "flight.user"))
		}
		// the new configuration
		kind := []string{"valid-other-dir", "valid-other-default", "valid-other-sets", "unparsable", "unknown-key", "bad-default",
			"no-basedir", "dir-missing", "dir-invalid", "dir-empty", "same", "argon-time0"}[(i+c.shard)%12]
		nw := old
		raw := ""
		loadable, dirOk := true, true
		switch kind {
		case "valid-other-dir":
			nw = liveCfg{dirB, 2, []int{1, 2, 3}}
		case "valid-other-default":
			nw = liveCfg{dirA, 2, []int{1, 2}}
		case "valid-other-sets":
			nw = liveCfg{dirA, 3, []int{3, 4}}
			// records of sets 1/2 become unsupported: the directory then has no supported admin => check fails
			dirOk = false
		case "unparsable":
			raw, loadable = "basedir: [unterminated\n", false
		case "unknown-key":
			raw, loadable = fmt.Sprintf("basedir: %q\ndefault: 1\nparams:\n%sextra: 1\n", dirB, setYaml(1, key)), false
		case "bad-default":
			nw = liveCfg{dirB, 9, []int{1, 2}}
			loadable = false
		case "no-basedir":
			raw, loadable = "default: 1\nparams:\n"+setYaml(1, key), false
		case "dir-missing":
			nw = liveCfg{filepath.Join(c.work, "does-not-exist"), 1, []int{1, 2}}
			dirOk = false
		case "dir-invalid":
			bad := filepath.Join(c.work, fmt.Sprintf("rlBad%d", i))
			os.MkdirAll(bad, 0700)
			os.WriteFile(filepath.Join(bad, "stray.txt"), []byte("x"), 0600)
			nw = liveCfg{bad, 1, []int{1, 2}}
			dirOk = false
		case "dir-empty":
			em := filepath.Join(c.work, fmt.Sprintf("rlEmpty%d", i))
			os.MkdirAll(em, 0700)
			nw = liveCfg{em, 1, []int{1, 2}}
			dirOk = false
		case "argon-time0":
			raw, loadable = fmt.Sprintf("basedir: %q\ndefault: 2\nparams:\n  - id: 2\n    argon2id:\n      time: 0\n      memory: 8\n      threads: 1\n      length: 16\n", dirB), false
		}
		write(nw, raw)
		// staged: the dispatcher is held inside a login (gate hasher) while requests of every kind
		// are queued and the signal arrives; released, its select serves the reload and the queued
		// requests in a random order. Every one of them must be answered, and the queued password
		// change must have taken effect (in the directory that was live when it was served).
		{
			g := &gate{ev: make(chan gateEv), release: make(chan bool)}
			for id, h := range st.dir.Params {
				st.dir.Params[id] = &gateHasher{Hasher: h, set: id, g: g}
			}
			type fl struct {
				name string
				f    func() bool
				done chan bool
			}
			flights := []*fl{
				{name: "update", f: func() bool { return iface.Update("flight", "Flight-1") == nil }},
				{name: "auth", f: func() bool { ok, _, _, err := iface.Authenticate("root", "Root-Passw0rd"); return ok && err == nil }},
				{name: "list", f: func() bool { _, err := iface.List(); return err == nil }},
				{name: "update2", f: func() bool { return iface.Update("probe-nobody", "x") != nil }},
			}
			holdDone := make(chan bool, 1)
			go func() { iface.Authenticate("root", "Root-Passw0rd"); holdDone <- true }()
			held := false
			select {
			case <-g.ev:
				held = true
			case <-time.After(3 * time.Second):
			}
			for _, f := range flights {
				f.done = make(chan bool, 1)
				go func(f *fl) { f.done <- f.f() }(f)
			}
			time.Sleep(3 * time.Millisecond)
			syscall.Kill(os.Getpid(), syscall.SIGHUP)
			time.Sleep(3 * time.Millisecond)
			g.mu.Lock()
			g.free = true
			g.mu.Unlock()
			if held {
				g.release <- true
			}
			allOk, lost := true, ""
			for _, f := range append(flights, &fl{name: "hold", done: holdDone}) {
				select {
				case ok := <-f.done:
					allOk = allOk && ok
					if !ok {
						lost += f.name + ":wrong-answer,"
					}
				case <-time.After(4 * time.Second):
					allOk = false
					lost += f.name + ":unanswered,"
				}
			}
			took := false
			for _, d := range []string{dirA, dirB} {
				b, _ := os.ReadFile(filepath.Join(d, "flight.user"))
				// the record was rewritten (a fresh record differs from the bootstrap one) in this directory
				if ob, ok := flightBoot[d]; !ok || string(ob) != string(b) {
					took = true
				}
			}
			c.emit(fmt.Sprintf("law.C18.requests_in_flight_answered staged mode=%s kind=%s held=%s lost=%s", vxs(mode), kind, vtf(held), lost), vtf(allOk))
			c.emit(fmt.Sprintf("law.C18.acknowledged_inflight_update_took_effect staged mode=%s kind=%s", vxs(mode), kind), vtf(!allOk || took))
		}
		// clients keep authenticating and updating while the signals arrive
		stop := make(chan bool)
		var wg sync.WaitGroup
		var mu sync.Mutex
		answered, hung := 0, 0
		for cl := 0; cl < 3; cl++ {
			wg.Add(1)
			go func(cl int) {
				defer wg.Done()
				for k := 0; ; k++ {
					select {
					case <-stop:
						return
					default:
					}
					done := make(chan bool, 1)
					go func() {
						if k%2 == 0 {
							iface.Authenticate("root", "Root-Passw0rd")
						} else {
							iface.Update(fmt.Sprintf("nobody%d", cl), "x") // fails: no such user; must still be answered
						}
						done <- true
					}()
					select {
					case <-done:
						mu.Lock()
						answered++
						mu.Unlock()
					case <-time.After(3 * time.Second):
						mu.Lock()
						hung++
						mu.Unlock()
						return
					}
				}
			}(cl)
		}
		nsig := 1 + r.Intn(3)
		if !withHooks {
			nsig += r.Intn(4)
		}
		for k := 0; k < nsig; k++ {
			syscall.Kill(os.Getpid(), syscall.SIGHUP)
			time.Sleep(time.Duration(5+r.Intn(30)) * time.Millisecond)
		}
		time.Sleep(80 * time.Millisecond)
		close(stop)
		wg.Wait()
		if hung > 0 {
			// the agent no longer answers: nothing more can be asked of it
			c.emit(fmt.Sprintf("law.C18.requests_in_flight_answered kind=%s signals=%d hooks=%s agent-stopped-answering", kind, nsig, vtf(withHooks)), "f")
			continue
		}
		// which configuration is live? base directory: where does 'probe' authenticate; default and
		// sets: what a fresh record looks like and which sets verify
		live := liveCfg{}
		if !bounded(20*time.Second, func() {
			for _, d := range []string{dirA, dirB} {
				if ok, _, _, _ := iface.Authenticate("probe", "Probe-in-"+filepath.Base(d)); ok {
					live.base = d
				}
			}
			if live.base != "" {
				iface.Update("probe", "Probe-in-"+filepath.Base(live.base)) // same password, fresh record under the live default
				pid, _, _ := readRec(live.base, "probe")
				live.dflt = int(pid)
			}
		}) {
			c.emit(fmt.Sprintf("law.C18.requests_in_flight_answered kind=%s signals=%d hooks=%s agent-stopped-answering-after-the-signals", kind, nsig, vtf(withHooks)), "f")
			continue
		}
		want := old
		if loadable && dirOk {
			want = nw
		}
		desc := fmt.Sprintf("kind=%s signals=%d hooks=%s live=%s old=%s new=%s", kind, nsig, vtf(withHooks), live, old, nw)
		c.emit("law.C18.reload_all_or_nothing "+desc, vtf(live.base == want.base && live.dflt == want.dflt))
		// the same against the model of store.reload (Model/Reload.lean)
		c.emit(fmt.Sprintf("rl.step %s %d %s %d %s %s", vxs(filepath.Base(old.base)), old.dflt, vxs(filepath.Base(nw.base)), nw.dflt, vtf(loadable), vtf(dirOk)),
			fmt.Sprintf("%s %d", vxs(filepath.Base(live.base)), live.dflt))
		c.emit("law.C18.requests_in_flight_answered "+desc, vtf(hung == 0 && answered > 0))
		// never a mixture: the hooks started for a change made AFTER the reload carry the live directory
		if live.base != "" && withHooks {
			time.Sleep(250 * time.Millisecond) // let rounds that belong to earlier changes pass
			nBefore := 0
			if b, err := os.ReadFile(hookLog); err == nil {
				nBefore = strings.Count(string(b), "\n")
			}
			iface.Update("probe", "Probe-in-"+filepath.Base(live.base))
			last := ""
			for w := 0; w < 40; w++ {
				time.Sleep(25 * time.Millisecond)
				if b, err := os.ReadFile(hookLog); err == nil {
					ls := strings.Split(strings.TrimSpace(string(b)), "\n")
					if len(ls) > nBefore {
						last = ls[len(ls)-1]
						break
					}
				}
			}
			c.emit(fmt.Sprintf("law.C18.hooks_are_given_the_live_base_directory %s hook-saw=%s", desc, vxs(filepath.Base(last))), vtf(last == live.base))
		}
	}
}

func init() { vsuites["v18"] = suiteV18 }
