package main

import (
	"bytes"
	"crypto/hmac"
	"crypto/sha256"
	"encoding/base64"
	"fmt"
	"net/http"
	"os"
	"path/filepath"
	"sort"
	"strings"
	"sync"

	lib "github.com/whawty/auth/store"
)

// vAgent: a real agent (store dispatcher + hooks + web mux) on a scratch store directory.
type vAgent struct {
	dirPath  string
	cfgPath  string
	st       *store
	iface    *Store
	mux      *http.ServeMux
	sessions *webSessionFactory
	ref      *lib.Dir // the same directory through the library, as reference
	pws      map[string]bool
	pwOf     map[string]string // harness bookkeeping: current password per user
	pwHist   map[string][]string
	pwMu     sync.Mutex
	cand     map[string][]string // per user: passwords that were ever submitted for that user (latest last)
}

const vCheapCfg = `basedir: %q
default: %d
params:
  - id: 1
    scryptauth:
      hmackey: %q
      cost: 1
      r: 1
      p: 1
  - id: 2
    argon2id:
      time: 1
      memory: 8
      threads: 1
      length: 16
  - id: 3
    argon2id:
      time: 1
      memory: 8
      threads: 1
      length: 16
`

// (set 3 carries the same numbers as set 2 under another id: a record is upgradeable exactly when its
// parameter-set ID differs from the default, whatever the numbers are)

func newVAgent(c *vctx, name string, dflt int, upgrades, polType, polCond, hooksDir string) (*vAgent, error) {
	a := &vAgent{pws: map[string]bool{}}
	a.dirPath = filepath.Join(c.work, name)
	os.RemoveAll(a.dirPath)
	os.MkdirAll(a.dirPath, 0700)
	a.cfgPath = filepath.Join(c.work, name+".yaml")
	key := sha256.Sum256([]byte(name))
	os.WriteFile(a.cfgPath, []byte(fmt.Sprintf(vCheapCfg, a.dirPath, dflt, base64.StdEncoding.EncodeToString(key[:]))), 0600)
	var err error
	if a.st, err = NewStore(a.cfgPath, upgrades, polType, polCond, hooksDir); err != nil {
		return nil, err
	}
	a.iface = a.st.GetInterface()
	if a.mux, err = newWebHandler(a.iface); err != nil {
		return nil, err
	}
	req, _ := http.NewRequest("POST", "/api/list", nil)
	h, _ := a.mux.Handler(req)
	if wh, ok := h.(webHandler); ok {
		a.sessions = wh.sessions
	}
	if a.ref, err = lib.NewDirFromConfig(a.cfgPath); err != nil {
		return nil, err
	}
	return a, nil
}

type vUser struct {
	name  string
	admin bool
	pw    string // "?" = none of the known passwords authenticates
}

// observe the store through the library: every user, admin flag, and which known password works
func (a *vAgent) users() []vUser {
	lf, _ := a.ref.ListFull()
	var out []vUser
	for name, e := range lf {
		u := vUser{name: name, admin: e.IsAdmin, pw: "?"}
		// the passwords submitted for this very user first (latest first), then everything known
		cl := a.cand[name]
		for i := len(cl) - 1; i >= 0 && u.pw == "?"; i-- {
			if ok, _, _, _, _ := a.ref.Authenticate(name, cl[i]); ok {
				u.pw = cl[i]
			}
		}
		if u.pw == "?" {
			for p := range a.pws {
				if ok, _, _, _, _ := a.ref.Authenticate(name, p); ok {
					u.pw = p
					break
				}
			}
		}
		out = append(out, u)
	}
	sort.Slice(out, func(i, j int) bool { return out[i].name < out[j].name })
	return out
}

func vUsersTok(us []vUser) string {
	if len(us) == 0 {
		return "[]"
	}
	p := make([]string, len(us))
	for i, u := range us {
		p[i] = fmt.Sprintf("%s:%s:%s", vxs(u.name), vtf(u.admin), vxs(u.pw))
	}
	return "[" + strings.Join(p, ",") + "]"
}

func dirDigest(path string) string {
	h := hmac.New(sha256.New, []byte("k"))
	ents, _ := os.ReadDir(path)
	for _, e := range ents {
		h.Write([]byte(e.Name()))
		h.Write([]byte{0})
		if !e.IsDir() {
			b, _ := os.ReadFile(filepath.Join(path, e.Name()))
			h.Write(b)
		} else {
			sub, _ := os.ReadDir(filepath.Join(path, e.Name()))
			h.Write([]byte(fmt.Sprint(len(sub))))
		}
		h.Write([]byte{1})
	}
	return string(h.Sum(nil))
}

var _ = bytes.Equal

func b64u(b []byte) string { return base64.URLEncoding.EncodeToString(b) }

func b64std(b []byte) string { return base64.StdEncoding.EncodeToString(b) }
