module whawty-verif/harness

go 1.23.0

require (
	github.com/whawty/auth v0.0.0
	golang.org/x/crypto v0.37.0
	gopkg.in/yaml.v3 v3.0.1
)

require (
	golang.org/x/sys v0.32.0 // indirect
	gopkg.in/spreadspace/scryptauth.v2 v2.0.0-20160119001838-d2c0fcba7783 // indirect
)

replace github.com/whawty/auth => /repo
