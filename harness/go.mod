module whawty-verif/harness

go 1.23.0

require (
	github.com/whawty/auth v0.0.0
)

replace github.com/whawty/auth => /repo
